//! One program = one `loom` model: every execution builds a fresh shared buffer
//! (`Smart<Payload, hipstr::Arc>`), runs the program threads and records one outcome string.

use std::collections::BTreeMap;
use std::mem::ManuallyDrop;
use std::panic::{catch_unwind, AssertUnwindSafe};
use std::sync::atomic::{AtomicBool, AtomicU64, AtomicUsize, Ordering as StdOrd};
use std::sync::{Arc as StdArc, Mutex as StdMutex};
use std::time::{Duration, Instant};

use hipstr::verif::Smart;
use loom::cell::UnsafeCell;
use loom::sync::mpsc::{channel, Receiver, Sender};
use loom::thread::{JoinHandle, ThreadId};

use crate::prog::{Act, Prog, Start};

type Sm = Smart<Payload, hipstr::Arc>;

static VERBOSE: AtomicBool = AtomicBool::new(false);

/// `location: message` of the FIRST panic since the last `run_program` started (set by the
/// panic hook, which otherwise stays silent).
static FIRST_PANIC: StdMutex<Option<String>> = StdMutex::new(None);

/// Installs the panic hook: records where the first panic happened (the payload alone does not
/// say that `attempt to add with overflow` comes from `src/smart.rs`), prints only if `verbose`.
pub fn install_panic_hook(verbose: bool) {
    std::panic::set_hook(Box::new(move |info| {
        let loc = info
            .location()
            .map(|l| format!("{}:{}:{}", l.file(), l.line(), l.column()))
            .unwrap_or_else(|| "<unknown>".into());
        let msg = if let Some(s) = info.payload().downcast_ref::<&str>() {
            (*s).to_string()
        } else if let Some(s) = info.payload().downcast_ref::<String>() {
            s.clone()
        } else {
            "<non-string panic payload>".to_string()
        };
        let first = msg.trim().lines().next().unwrap_or("").to_string();
        if verbose {
            eprintln!("panicked at {loc}: {first}");
        }
        let mut slot = FIRST_PANIC.lock().unwrap_or_else(|e| e.into_inner());
        if slot.is_none() {
            *slot = Some(format!("panicked at {loc}: {first}"));
        }
    }));
}

pub fn set_verbose(v: bool) {
    VERBOSE.store(v, StdOrd::Relaxed);
}

// ---------------------------------------------------------------------------------------------
// Tracker and payload
// ---------------------------------------------------------------------------------------------

/// Bookkeeping outside loom's view: plain std atomics / std Mutex, hence no scheduling points.
/// One tracker per execution.
pub struct Tracker {
    /// how many times the ORIGINAL (non-copy) payload has been dropped
    freed: AtomicUsize,
    /// payload value at the time of the (first) free
    final_val: AtomicUsize,
    /// the loom thread that ran the (last) free
    freed_by: StdMutex<Option<ThreadId>>,
    /// number of live REAL handles to the shared buffer, maintained by the harness alone:
    /// +1 right after a sharing clone, -1 right BEFORE a drop / a `try_unwrap` (+1 back on
    /// `Err`); sends do not change it
    live: AtomicUsize,
    /// number of granted `mutate` actions so far
    granted: AtomicUsize,
    /// maximum over time of `live` (sampled right after each sharing clone).  Since `live` is
    /// incremented only AFTER the counter increment of a clone and decremented BEFORE the counter
    /// decrement of a drop, `live - initial` never over-estimates how far the stored count has
    /// moved up: `max_live - initial > slack` proves that the stored count passed the ceiling.
    max_live: AtomicUsize,
    /// number of clones that returned a SHARING handle
    shared_clones: AtomicUsize,
}

impl Tracker {
    fn new() -> Tracker {
        Tracker {
            freed: AtomicUsize::new(0),
            final_val: AtomicUsize::new(0),
            freed_by: StdMutex::new(None),
            live: AtomicUsize::new(0),
            granted: AtomicUsize::new(0),
            max_live: AtomicUsize::new(0),
            shared_clones: AtomicUsize::new(0),
        }
    }
    fn freed(&self) -> usize {
        self.freed.load(StdOrd::SeqCst)
    }
    fn freed_by(&self) -> Option<ThreadId> {
        *self.freed_by.lock().unwrap_or_else(|e| e.into_inner())
    }
    fn live(&self) -> usize {
        self.live.load(StdOrd::SeqCst)
    }
    /// `as_mut` returned `Some` / `try_unwrap` returned `Ok`: no OTHER real handle may be alive.
    fn check_unique(&self, others: usize, t: usize, what: &str) {
        if others != 0 {
            panic!(
                "monitor: unique access granted while {others} other handle(s) alive (thread {t}, `{what}`)"
            );
        }
    }
}

pub struct Payload {
    cell: UnsafeCell<usize>,
    is_copy: bool,
    tracker: StdArc<Tracker>,
}

// SAFETY (of the harness, not of hipstr): every access to `cell` goes through loom's tracked
// `with`/`with_mut`, which is exactly what lets loom report an unsynchronised access.
unsafe impl Send for Payload {}
unsafe impl Sync for Payload {}

impl Payload {
    fn new(tracker: StdArc<Tracker>) -> Payload {
        Payload { cell: UnsafeCell::new(0), is_copy: false, tracker }
    }
    /// tracked read
    fn get(&self) -> usize {
        self.cell.with(|p| unsafe { *p })
    }
    /// tracked write (needs the `&mut` that `Smart::as_mut` hands out)
    fn bump(&mut self) {
        self.cell.with_mut(|p| unsafe { *p += 1 });
    }
}

impl Clone for Payload {
    fn clone(&self) -> Payload {
        let v = self.get();
        Payload { cell: UnsafeCell::new(v), is_copy: true, tracker: self.tracker.clone() }
    }
}

impl Drop for Payload {
    fn drop(&mut self) {
        if std::thread::panicking() {
            // unwinding after a loom report: no further loom calls
            return;
        }
        // the free is a WRITE access: an unsynchronised free is a causality violation
        let v = self.cell.with_mut(|p| unsafe { *p });
        if !self.is_copy {
            let n = self.tracker.freed.fetch_add(1, StdOrd::SeqCst) + 1;
            if n == 1 {
                self.tracker.final_val.store(v, StdOrd::SeqCst);
            }
            *self.tracker.freed_by.lock().unwrap_or_else(|e| e.into_inner()) =
                Some(loom::thread::current().id());
            assert!(n <= 1, "monitor: double-free: original payload dropped {n} times");
            // `live` is decremented BEFORE a handle is dropped / consumed by `try_unwrap`, so a
            // legitimate free (last handle) always sees 0 here
            let alive = self.tracker.live();
            assert!(
                alive == 0,
                "monitor: buffer freed while {alive} handle(s) still alive (share count lost an increment)"
            );
        }
    }
}

/// A handle that is leaked instead of dropped while a panic unwinds (a loom report must not
/// trigger further loom operations from `Smart::drop`).
struct H(ManuallyDrop<Sm>);

impl H {
    fn new(s: Sm) -> H {
        H(ManuallyDrop::new(s))
    }
    fn into_inner(mut self) -> Sm {
        let s = unsafe { ManuallyDrop::take(&mut self.0) };
        std::mem::forget(self);
        s
    }
    fn leak(self) {
        std::mem::forget(self);
    }
    fn payload_ptr(&self) -> *const Payload {
        self.0.as_ref() as *const Payload
    }
}

impl Drop for H {
    fn drop(&mut self) {
        if !std::thread::panicking() {
            unsafe { ManuallyDrop::drop(&mut self.0) }
        }
    }
}

// ---------------------------------------------------------------------------------------------
// Program threads
// ---------------------------------------------------------------------------------------------

struct ThreadOut {
    results: Vec<usize>,
    handles: Vec<H>,
    copies: Vec<H>,
    rx: Option<Receiver<H>>,
    /// lender only: what its borrowers returned when it joined them
    joined: Vec<(usize, ThreadOut)>,
}

/// What a program thread starts with.
struct ThreadIn {
    t: usize,
    acts: Vec<Act>,
    handles: Vec<H>,
    txs: Vec<Sender<H>>,
    rx: Option<Receiver<H>>,
    tracker: StdArc<Tracker>,
    /// lender: its last handle, moved to a stable heap slot (`Box::into_raw`) so that the
    /// borrowers can hold `&handle` while the lender's own Vec grows; taken back at `join`
    lent: Option<*mut H>,
    /// borrower: the shared reference (a `&Smart` to the lender's slot; valid until the lender's
    /// `join`, which waits for the end of this thread exactly like `thread::scope`)
    borrowed: Option<*const H>,
    /// lender: the borrower threads to join
    to_join: Vec<(usize, JoinHandle<ThreadOut>)>,
}

fn uaf_check(tracker: &Tracker, t: usize, what: &str) {
    // The thread is about to use a handle to the shared buffer.  If the original payload has
    // already been dropped the handle dangles: report BEFORE touching the freed memory.
    if tracker.freed() > 0 {
        panic!("monitor: use-after-free: thread {t} starts `{what}` on a handle whose buffer has been freed");
    }
}

fn thread_body(input: ThreadIn) -> ThreadOut {
    let ThreadIn { t, acts, mut handles, txs, rx, tracker, mut lent, borrowed, mut to_join } = input;
    let me = loom::thread::current().id();
    let mut results = Vec::new();
    let mut copies = Vec::new();
    let mut joined = Vec::new();
    let mut i_freed = false;
    // result of a `drop`/`unwrap`: did the free of the original payload run in this thread
    // during the call just made?
    let mut freed_now = |tracker: &Tracker| {
        let mine = tracker.freed() > 0 && tracker.freed_by() == Some(me);
        let r = mine && !i_freed;
        i_freed = mine;
        r
    };
    // a clone made through `src` (own handle, lent slot or borrowed reference)
    let do_clone = |src: &Sm, handles: &mut Vec<H>, copies: &mut Vec<H>, tracker: &Tracker| -> usize {
        let c = H::new(Sm::clone(src));
        if c.payload_ptr() == src.as_ref() as *const Payload {
            let now = tracker.live.fetch_add(1, StdOrd::SeqCst) + 1;
            tracker.max_live.fetch_max(now, StdOrd::SeqCst);
            tracker.shared_clones.fetch_add(1, StdOrd::SeqCst);
            handles.push(c);
            0
        } else {
            copies.push(c);
            1
        }
    };
    for a in acts {
        match a {
            Act::Recv => {
                let h = rx
                    .as_ref()
                    .expect("recv without channel")
                    .recv()
                    .expect("HIPVERIF internal: channel closed");
                handles.push(h);
                continue;
            }
            Act::Join => {
                // a real join (thread::scope): synchronises borrower -> lender
                for (b, j) in to_join.drain(..) {
                    joined.push((b, j.join().expect("HIPVERIF internal: borrower thread panicked")));
                }
                if let Some(p) = lent.take() {
                    // SAFETY: the slot comes from `Box::into_raw` in `run_once`; every thread that
                    // held a reference to it has terminated
                    handles.push(*unsafe { Box::from_raw(p) });
                }
                continue;
            }
            Act::CloneRef | Act::ReadRef => {
                let Some(r) = borrowed else {
                    results.push(9);
                    continue;
                };
                // SAFETY: see `ThreadIn::borrowed`
                let src: &Sm = unsafe { &(*r).0 };
                if a == Act::ReadRef {
                    uaf_check(&tracker, t, "readref");
                    results.push(src.as_ref().get());
                } else {
                    uaf_check(&tracker, t, "cloneref");
                    results.push(do_clone(src, &mut handles, &mut copies, &tracker));
                }
                continue;
            }
            _ => {}
        }
        if handles.is_empty() && lent.is_none() {
            results.push(9);
            continue;
        }
        match a {
            Act::Read => {
                uaf_check(&tracker, t, "read");
                // SAFETY: the lent slot is only read through `&` while it is lent
                let src: &Sm = match lent {
                    Some(p) => unsafe { &(*p).0 },
                    None => &handles.last().unwrap().0,
                };
                results.push(src.as_ref().get());
            }
            Act::Clone => {
                uaf_check(&tracker, t, "clone");
                let r = match lent {
                    // SAFETY: as above
                    Some(p) => do_clone(unsafe { &(*p).0 }, &mut handles, &mut copies, &tracker),
                    None => {
                        let c = H::new(Sm::clone(&handles.last().unwrap().0));
                        if c.payload_ptr() == handles.last().unwrap().payload_ptr() {
                            let now = tracker.live.fetch_add(1, StdOrd::SeqCst) + 1;
                            tracker.max_live.fetch_max(now, StdOrd::SeqCst);
                            tracker.shared_clones.fetch_add(1, StdOrd::SeqCst);
                            handles.push(c);
                            0
                        } else {
                            copies.push(c);
                            1
                        }
                    }
                };
                results.push(r);
            }
            Act::Drop => {
                assert!(lent.is_none(), "HIPVERIF internal: drop while a handle is lent");
                uaf_check(&tracker, t, "drop");
                let h = handles.pop().unwrap();
                tracker.live.fetch_sub(1, StdOrd::SeqCst);
                drop(h);
                results.push(usize::from(freed_now(&tracker)));
            }
            Act::Mutate => {
                assert!(lent.is_none(), "HIPVERIF internal: mutate while a handle is lent");
                uaf_check(&tracker, t, "mutate");
                let h = handles.last_mut().unwrap();
                let r = if let Some(p) = h.0.as_mut() {
                    tracker.check_unique(tracker.live() - 1, t, "as_mut");
                    p.bump();
                    tracker.granted.fetch_add(1, StdOrd::SeqCst);
                    1
                } else {
                    0
                };
                results.push(r);
            }
            Act::Unwrap => {
                assert!(lent.is_none(), "HIPVERIF internal: unwrap while a handle is lent");
                uaf_check(&tracker, t, "unwrap");
                let h = handles.pop().unwrap();
                tracker.live.fetch_sub(1, StdOrd::SeqCst);
                match h.into_inner().try_unwrap() {
                    Ok(payload) => {
                        // (on a failure `payload` is dropped by the unwinding, where
                        // `Payload::drop` does nothing)
                        tracker.check_unique(tracker.live(), t, "try_unwrap");
                        drop(payload);
                        let _ = freed_now(&tracker);
                        results.push(1);
                    }
                    Err(h) => {
                        tracker.live.fetch_add(1, StdOrd::SeqCst);
                        handles.push(H::new(h));
                        results.push(0);
                    }
                }
            }
            Act::Send(u) => {
                assert!(lent.is_none(), "HIPVERIF internal: send while a handle is lent");
                let h = handles.pop().unwrap();
                if let Err(e) = txs[u].send(h) {
                    e.0.leak();
                    panic!("HIPVERIF internal: send on a closed channel");
                }
            }
            Act::Recv | Act::Join | Act::CloneRef | Act::ReadRef => unreachable!(),
        }
    }
    assert!(lent.is_none() && to_join.is_empty(), "HIPVERIF internal: lender finished without `join`");
    ThreadOut { results, handles, copies, rx, joined }
}

struct Sink {
    outcomes: StdMutex<BTreeMap<String, u64>>,
    iterations: AtomicU64,
}

/// One execution of the program (called by loom once per explored schedule).
fn run_once(prog: &Prog, sink: &Sink) {
    sink.iterations.fetch_add(1, StdOrd::SeqCst);
    let n = prog.threads.len();
    let tracker = StdArc::new(Tracker::new());
    let at_ceiling = prog.start != Start::Normal;

    // the shared buffer and the initial handles; for programs started at the ceiling main keeps
    // one spare handle of its own (so that the box can be released properly at the end)
    let root = H::new(Sm::new(Payload::new(tracker.clone())));
    let total: usize = prog.h.iter().sum::<usize>() + usize::from(at_ceiling);
    let mut pool = vec![root];
    while pool.len() < total {
        let c = H::new(Sm::clone(&pool[0].0));
        assert!(c.payload_ptr() == pool[0].payload_ptr(), "HIPVERIF internal: initial clone copied");
        pool.push(c);
    }
    tracker.live.store(total, StdOrd::SeqCst);
    tracker.max_live.store(total, StdOrd::SeqCst);
    match prog.start {
        Start::Normal => {}
        Start::Ceil => pool[0].0.verif_set_count(usize::MAX),
        Start::CeilMinus1 => pool[0].0.verif_set_count(usize::MAX - 1),
    }

    let mut txs: Vec<Sender<H>> = Vec::new();
    let mut rxs: Vec<Option<Receiver<H>>> = Vec::new();
    if prog.uses_channels() {
        for _ in 0..n {
            let (tx, rx) = channel::<H>();
            txs.push(tx);
            rxs.push(Some(rx));
        }
    } else {
        rxs.resize_with(n, || None);
    }

    // initial handles per thread; a lender's LAST handle moves to a stable heap slot
    let mut inputs: Vec<Option<ThreadIn>> = Vec::new();
    for t in 0..n {
        let mut handles: Vec<H> = pool.drain(..prog.h[t]).collect();
        let lent = if prog.borrowers_of(t).is_empty() {
            None
        } else {
            Some(Box::into_raw(Box::new(handles.pop().expect("lender without handle"))))
        };
        inputs.push(Some(ThreadIn {
            t,
            acts: prog.threads[t].clone(),
            handles,
            txs: txs.clone(),
            rx: rxs[t].take(),
            tracker: tracker.clone(),
            lent,
            borrowed: None,
            to_join: Vec::new(),
        }));
    }
    drop(txs);
    // borrowers first: their JoinHandles go to their lender, which joins them at its `join`
    // action (the hand-out of the reference is ordered by the spawn, like `thread::scope`)
    for &(b, l) in &prog.refs {
        let slot = inputs[l].as_ref().unwrap().lent.unwrap() as *const H;
        let mut input = inputs[b].take().unwrap();
        input.borrowed = Some(slot);
        let j = loom::thread::spawn(move || thread_body(input));
        inputs[l].as_mut().unwrap().to_join.push((b, j));
    }
    let mut joins = Vec::new();
    for t in 0..n {
        if let Some(input) = inputs[t].take() {
            joins.push((t, loom::thread::spawn(move || thread_body(input))));
        }
    }
    let mut by_thread: Vec<Option<ThreadOut>> = Vec::new();
    by_thread.resize_with(n, || None);
    for (t, j) in joins {
        let mut o = j.join().expect("HIPVERIF internal: program thread panicked");
        for (b, bo) in o.joined.drain(..) {
            by_thread[b] = Some(bo);
        }
        by_thread[t] = Some(o);
    }
    let outs: Vec<ThreadOut> =
        by_thread.into_iter().map(|o| o.expect("HIPVERIF internal: thread never joined")).collect();

    // ---- outcome: evaluated BEFORE the leftover handles are dropped ----
    let freed = tracker.freed();
    let mut leftovers: Vec<H> = pool; // main's spare handle, if any
    let mut copies: Vec<H> = Vec::new();
    let mut parts: Vec<String> = Vec::new();
    for (t, mut o) in outs.into_iter().enumerate() {
        parts.push(format!(
            "{t}:{}",
            o.results.iter().map(|r| r.to_string()).collect::<Vec<_>>().join(",")
        ));
        leftovers.append(&mut o.handles);
        copies.append(&mut o.copies);
        if let Some(rx) = o.rx {
            // handles sent but never received
            while let Ok(h) = rx.try_recv() {
                leftovers.push(h);
            }
        }
    }
    assert!(
        leftovers.len() == tracker.live(),
        "HIPVERIF internal: {} leftover handles but live = {}",
        leftovers.len(),
        tracker.live()
    );
    let pval: Option<usize> = if freed > 0 {
        Some(tracker.final_val.load(StdOrd::SeqCst))
    } else {
        leftovers.first().map(|h| h.0.as_ref().get())
    };
    parts.push(format!("freed={freed}"));
    parts.push(format!("pval={}", pval.map_or("leaked".to_string(), |v| v.to_string())));
    let outcome = parts.join("/");
    *sink
        .outcomes
        .lock()
        .unwrap_or_else(|e| e.into_inner())
        .entry(outcome)
        .or_insert(0) += 1;

    // ---- end-of-execution monitors and cleanup ----
    if at_ceiling {
        // quiescence check, BEFORE the count is restored: the stored count started at
        // ceiling - slack, so at most `slack` more shares may ever have existed at once
        let slack = usize::from(prog.start == Start::CeilMinus1);
        let max_excess = tracker.max_live.load(StdOrd::SeqCst) - total;
        // direct cross-check without bookkeeping: in a program made of `clone`s only, every
        // sharing clone (result 0) is one more share
        let clone_only = prog.threads.iter().flatten().all(|a| *a == Act::Clone);
        let shared = tracker.shared_clones.load(StdOrd::SeqCst);
        let beyond = if max_excess > slack {
            max_excess - slack
        } else if clone_only && shared > slack {
            shared - slack
        } else {
            0
        };
        if beyond > 0 {
            panic!(
                "monitor: {beyond} clone(s) shared the buffer beyond the share-count ceiling (stored count started at ceiling-{slack}, at most {slack} more share(s) allowed)"
            );
        }
    }
    let granted = tracker.granted.load(StdOrd::SeqCst);
    if freed == 0 && leftovers.is_empty() {
        panic!("monitor: leak: every handle has been dropped but the payload was never freed");
    }
    if freed > 0 && !leftovers.is_empty() {
        let k = leftovers.len();
        // dangling handles: do not touch them
        for h in leftovers {
            h.leak();
        }
        panic!("monitor: use-after-free: payload freed while {k} handle(s) are still alive at the end of the programs");
    }
    if let Some(v) = pval {
        if v != granted {
            for h in leftovers {
                h.leak();
            }
            panic!("monitor: content: final payload value {v} but {granted} mutation(s) were granted");
        }
    }
    drop(copies);
    if freed == 0 {
        if at_ceiling {
            // back from the ceiling to the true number of handles
            leftovers[0].0.verif_set_count(leftovers.len());
        }
        // drop the leftover handles one by one: the payload must be freed by the LAST one
        // (`Payload::drop` reports `freed-while-alive` if it runs while `live` > 0; the handles
        // still in the Vec are then leaked by the unwinding)
        while let Some(h) = leftovers.pop() {
            tracker.live.fetch_sub(1, StdOrd::SeqCst);
            drop(h);
        }
        let after = tracker.freed();
        assert!(
            after == 1,
            "monitor: leak: every handle has been dropped but the payload was freed {after} times"
        );
    }
}

// ---------------------------------------------------------------------------------------------
// Running one program under loom
// ---------------------------------------------------------------------------------------------

#[derive(Clone, Debug)]
pub struct LoomResult {
    /// ok | race | double-free | use-after-free | leak | content | unique-while-shared |
    /// count-mismatch | freed-while-alive | panic |
    /// deadlock | branch-limit | error
    pub verdict: String,
    /// outcome string -> number of executions that produced it
    pub outcomes: BTreeMap<String, u64>,
    pub iterations: u64,
    pub bound: Option<usize>,
    /// the time budget stopped the exploration before completion
    pub truncated: bool,
    pub message: Option<String>,
    pub note: Option<String>,
}

fn classify(msg: &str) -> &'static str {
    if msg.contains("monitor: double-free") {
        "double-free"
    } else if msg.contains("monitor: use-after-free") {
        "use-after-free"
    } else if msg.contains("monitor: leak") {
        "leak"
    } else if msg.contains("monitor: content") {
        "content"
    } else if msg.contains("monitor: buffer freed while") {
        "freed-while-alive"
    } else if msg.contains("monitor: unique access granted") {
        "unique-while-shared"
    } else if msg.contains("shared the buffer beyond the share-count ceiling") {
        "count-mismatch"
    } else if msg.contains("Causality violation")
        || msg.contains("currently writing to cell")
        || msg.contains("currently reading from cell")
    {
        "race"
    } else if msg.contains("deadlock") {
        "deadlock"
    } else if msg.contains("exceeded maximum number of branches") {
        "branch-limit"
    } else if msg.contains("HIPVERIF internal") || msg.contains("[loom internal bug]") {
        "error"
    } else {
        // a panic of the implementation itself (e.g. `attempt to add with overflow` in
        // `Arc::get` called from `decr` inside `Smart::drop`)
        "panic"
    }
}

/// The verdicts that are property monitors firing on the real code.
pub fn is_monitor(verdict: &str) -> bool {
    matches!(
        verdict,
        "race"
            | "double-free"
            | "use-after-free"
            | "leak"
            | "content"
            | "unique-while-shared"
            | "count-mismatch"
            | "freed-while-alive"
            | "panic"
    )
}

pub fn run_program(prog: &Prog, bound: Option<usize>, budget: Option<Duration>) -> LoomResult {
    let sink = StdArc::new(Sink {
        outcomes: StdMutex::new(BTreeMap::new()),
        iterations: AtomicU64::new(0),
    });
    let mut b = loom::model::Builder::new();
    b.preemption_bound = bound;
    b.max_branches = 20_000;
    b.checkpoint_file = None;
    b.max_permutations = None;
    b.location = false;
    b.log = false;
    b.max_duration = budget;
    if budget.is_some() {
        b.checkpoint_interval = 500;
    }

    let p = prog.clone();
    let s = sink.clone();
    // loom 0.7.2's mpsc `recv` contains a stray `dbg!`: silence stderr while the model runs
    let gag = if VERBOSE.load(StdOrd::Relaxed) { None } else { gag::Gag::new() };
    *FIRST_PANIC.lock().unwrap_or_else(|e| e.into_inner()) = None;
    let start = Instant::now();
    let res = catch_unwind(AssertUnwindSafe(move || {
        b.check(move || run_once(&p, &s));
    }));
    let elapsed = start.elapsed();
    drop(gag);

    let (verdict, message) = match res {
        Ok(()) => ("ok".to_string(), None),
        Err(e) => {
            let msg = if let Some(s) = e.downcast_ref::<&str>() {
                (*s).to_string()
            } else if let Some(s) = e.downcast_ref::<String>() {
                s.clone()
            } else {
                "<non-string panic payload>".to_string()
            };
            let first = msg.trim().lines().next().unwrap_or("").to_string();
            let kind = classify(&msg);
            let located = FIRST_PANIC.lock().unwrap_or_else(|e| e.into_inner()).take();
            // for a panic of the implementation the location is the interesting part
            let shown = if kind == "panic" || kind == "error" { located.unwrap_or(first) } else { first };
            (kind.to_string(), Some(shown))
        }
    };
    let truncated = verdict == "ok" && budget.map_or(false, |d| elapsed >= d);
    let outcomes = sink.outcomes.lock().unwrap_or_else(|e| e.into_inner()).clone();
    LoomResult {
        verdict,
        outcomes,
        iterations: sink.iterations.load(StdOrd::SeqCst),
        bound,
        truncated,
        message,
        note: None,
    }
}

/// Global allocator with a small QUARANTINE for blocks that have the layout of the counted
/// box (`Inner<Payload, Arc>`): their deallocation is delayed (ring of `SLOTS` blocks, content
/// left intact).  A buggy counter may touch the box shortly after it has been freed (e.g. a
/// debug-only counter re-read after the decrement); the loom atomic inside is only an index
/// into loom's object store, so with the memory still intact loom executes that access
/// deterministically (and e.g. returns the wrapped count) instead of reading whatever the
/// system allocator wrote into the freed chunk.
pub mod quarantine {
    use std::alloc::{GlobalAlloc, Layout, System};
    use std::sync::atomic::{AtomicBool, AtomicPtr, AtomicUsize, Ordering};

    const SLOTS: usize = 64;
    const INNER: Layout = Layout::new::<hipstr::verif::Inner<super::Payload, hipstr::Arc>>();

    pub struct Alloc;

    static LOCK: AtomicBool = AtomicBool::new(false);
    static POS: AtomicUsize = AtomicUsize::new(0);
    #[allow(clippy::declare_interior_mutable_const)]
    const NULL: AtomicPtr<u8> = AtomicPtr::new(std::ptr::null_mut());
    static RING: [AtomicPtr<u8>; SLOTS] = [NULL; SLOTS];

    unsafe impl GlobalAlloc for Alloc {
        unsafe fn alloc(&self, layout: Layout) -> *mut u8 {
            unsafe { System.alloc(layout) }
        }

        unsafe fn dealloc(&self, ptr: *mut u8, layout: Layout) {
            if layout != INNER {
                return unsafe { System.dealloc(ptr, layout) };
            }
            while LOCK.compare_exchange_weak(false, true, Ordering::Acquire, Ordering::Relaxed).is_err() {
                std::hint::spin_loop();
            }
            let pos = POS.load(Ordering::Relaxed);
            let old = RING[pos].swap(ptr, Ordering::Relaxed);
            POS.store((pos + 1) % SLOTS, Ordering::Relaxed);
            LOCK.store(false, Ordering::Release);
            if !old.is_null() {
                unsafe { System.dealloc(old, layout) };
            }
        }

        unsafe fn alloc_zeroed(&self, layout: Layout) -> *mut u8 {
            unsafe { System.alloc_zeroed(layout) }
        }

        unsafe fn realloc(&self, ptr: *mut u8, layout: Layout, new_size: usize) -> *mut u8 {
            if layout != INNER {
                return unsafe { System.realloc(ptr, layout, new_size) };
            }
            // (never happens for a Box) allocate-copy-quarantine
            let new_layout = unsafe { Layout::from_size_align_unchecked(new_size, layout.align()) };
            let new_ptr = unsafe { System.alloc(new_layout) };
            if !new_ptr.is_null() {
                unsafe {
                    std::ptr::copy_nonoverlapping(ptr, new_ptr, layout.size().min(new_size));
                    self.dealloc(ptr, layout);
                }
            }
            new_ptr
        }
    }
}

/// Temporarily redirects fd 2 to /dev/null.
mod gag {
    use std::ffi::c_char;

    extern "C" {
        fn open(path: *const c_char, flags: i32, ...) -> i32;
        fn dup(fd: i32) -> i32;
        fn dup2(a: i32, b: i32) -> i32;
        fn close(fd: i32) -> i32;
    }

    pub struct Gag {
        saved: i32,
    }

    impl Gag {
        pub fn new() -> Option<Gag> {
            unsafe {
                let null = open(b"/dev/null\0".as_ptr() as *const c_char, 1 /* O_WRONLY */);
                if null < 0 {
                    return None;
                }
                let saved = dup(2);
                if saved < 0 {
                    close(null);
                    return None;
                }
                dup2(null, 2);
                close(null);
                Some(Gag { saved })
            }
        }
    }

    impl Drop for Gag {
        fn drop(&mut self) {
            unsafe {
                dup2(self.saved, 2);
                close(self.saved);
            }
        }
    }
}
