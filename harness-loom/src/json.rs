//! Minimal hand-written JSON output and the tiny bit of parsing `--replay` needs.

use std::collections::BTreeMap;

pub fn escape(s: &str) -> String {
    let mut o = String::with_capacity(s.len() + 2);
    o.push('"');
    for c in s.chars() {
        match c {
            '"' => o.push_str("\\\""),
            '\\' => o.push_str("\\\\"),
            '\n' => o.push_str("\\n"),
            '\r' => o.push_str("\\r"),
            '\t' => o.push_str("\\t"),
            c if (c as u32) < 0x20 => o.push_str(&format!("\\u{:04x}", c as u32)),
            c => o.push(c),
        }
    }
    o.push('"');
    o
}

pub struct Obj(Vec<String>);

impl Obj {
    pub fn new() -> Obj {
        Obj(Vec::new())
    }
    pub fn raw(&mut self, k: &str, v: &str) {
        self.0.push(format!("{}:{}", escape(k), v));
    }
    pub fn num(&mut self, k: &str, v: u64) {
        self.raw(k, &v.to_string());
    }
    pub fn str(&mut self, k: &str, v: &str) {
        self.raw(k, &escape(v));
    }
    pub fn boolean(&mut self, k: &str, v: bool) {
        self.raw(k, if v { "true" } else { "false" });
    }
    pub fn finish(self) -> String {
        format!("{{{}}}", self.0.join(","))
    }
}

pub fn str_array<'a>(it: impl Iterator<Item = &'a str>) -> String {
    format!("[{}]", it.map(escape).collect::<Vec<_>>().join(","))
}

pub fn map_num(m: &BTreeMap<String, u64>) -> String {
    let mut o = Obj::new();
    for (k, v) in m {
        o.num(k, *v);
    }
    o.finish()
}

/// Extracts the string elements of the first `"input": [ ... ]` array of a JSON text.
pub fn extract_input_array(text: &str) -> Result<Vec<String>, String> {
    let key = text.find("\"input\"").ok_or("no \"input\" key")?;
    let rest = &text[key + 7..];
    let open = rest.find('[').ok_or("no array after \"input\"")?;
    let mut out = Vec::new();
    let mut chars = rest[open + 1..].chars();
    loop {
        let c = chars.next().ok_or("unterminated input array")?;
        match c {
            ']' => break,
            '"' => {
                let mut s = String::new();
                loop {
                    let c = chars.next().ok_or("unterminated string")?;
                    match c {
                        '"' => break,
                        '\\' => {
                            let e = chars.next().ok_or("bad escape")?;
                            match e {
                                'n' => s.push('\n'),
                                't' => s.push('\t'),
                                'r' => s.push('\r'),
                                'u' => {
                                    let hex: String = chars.by_ref().take(4).collect();
                                    let v = u32::from_str_radix(&hex, 16).map_err(|_| "bad \\u escape")?;
                                    s.push(char::from_u32(v).unwrap_or('?'));
                                }
                                other => s.push(other),
                            }
                        }
                        c => s.push(c),
                    }
                }
                out.push(s);
            }
            c if c.is_whitespace() || c == ',' => {}
            other => return Err(format!("unexpected `{other}` in input array")),
        }
    }
    if out.is_empty() {
        return Err("empty input array".into());
    }
    Ok(out)
}
