//! Program text: `[at=ceil|ceil-1] [h=a,b,c] [refs=b>l,…] : prog0 | prog1 | prog2`, same syntax as
//! the Lean driver (except `at=`, which is mapped, see `lean_line`).

#[derive(Clone, Copy, Debug, PartialEq, Eq)]
pub enum Act {
    Read,
    Clone,
    Drop,
    Mutate,
    Unwrap,
    Send(usize),
    Recv,
    /// `clone` through a borrowed `&handle`
    CloneRef,
    /// `read` through a borrowed `&handle`
    ReadRef,
    /// lender: wait for the end of every borrower's program and take the references back
    Join,
}

impl Act {
    pub fn kind(&self) -> &'static str {
        match self {
            Act::Read => "read",
            Act::Clone => "clone",
            Act::Drop => "drop",
            Act::Mutate => "mutate",
            Act::Unwrap => "unwrap",
            Act::Send(_) => "send",
            Act::Recv => "recv",
            Act::CloneRef => "cloneref",
            Act::ReadRef => "readref",
            Act::Join => "join",
        }
    }

    fn text(&self) -> String {
        match self {
            Act::Send(u) => format!("send:{u}"),
            a => a.kind().to_string(),
        }
    }
}

/// Where the share counter starts (`at=` prefix key).
#[derive(Clone, Copy, Debug, PartialEq, Eq)]
pub enum Start {
    /// the counter counts the real handles
    Normal,
    /// `at=ceil`: forced to the share-count ceiling (stored value `usize::MAX - 1`)
    Ceil,
    /// `at=ceil-1`: one below the ceiling
    CeilMinus1,
}

#[derive(Clone, Debug)]
pub struct Prog {
    /// initial number of handles per thread
    pub h: Vec<usize>,
    pub threads: Vec<Vec<Act>>,
    pub start: Start,
    /// `refs=b>l,…`: thread `b` starts with a shared reference (`&handle`) to the LAST handle of
    /// thread `l` (sorted by borrower)
    pub refs: Vec<(usize, usize)>,
}

impl Prog {
    pub fn parse(line: &str) -> Result<Prog, String> {
        let line = line.trim();
        let (opts, body) = match line.split_once(':') {
            Some((o, rest)) if o.contains('=') || o.trim().is_empty() => (o, rest),
            _ => ("", line),
        };
        let mut h: Option<Vec<usize>> = None;
        let mut start = Start::Normal;
        let mut refs: Vec<(usize, usize)> = Vec::new();
        for w in opts.split_whitespace() {
            match w.split_once('=') {
                Some(("at", "ceil")) => start = Start::Ceil,
                Some(("at", "ceil-1")) => start = Start::CeilMinus1,
                Some(("at", v)) => return Err(format!("bad at= value `{v}` (ceil or ceil-1)")),
                Some(("h", v)) => {
                    h = Some(
                        v.split(',')
                            .map(|x| x.parse::<usize>().map_err(|_| format!("bad h value `{x}`")))
                            .collect::<Result<_, _>>()?,
                    )
                }
                Some(("refs", v)) => {
                    for pair in v.split(',') {
                        let (b, l) = pair.split_once('>').ok_or_else(|| format!("bad refs entry `{pair}`"))?;
                        refs.push((
                            b.parse().map_err(|_| format!("bad refs entry `{pair}`"))?,
                            l.parse().map_err(|_| format!("bad refs entry `{pair}`"))?,
                        ));
                    }
                }
                Some(("ceil", _)) | Some(("budget", _)) => {
                    return Err(format!("option `{w}` is not supported by loomdrive"))
                }
                _ => return Err(format!("bad option `{w}`")),
            }
        }
        let mut threads = Vec::new();
        for p in body.split('|') {
            let mut acts = Vec::new();
            for w in p.split_whitespace() {
                acts.push(match w {
                    "read" => Act::Read,
                    "clone" => Act::Clone,
                    "drop" => Act::Drop,
                    "mutate" => Act::Mutate,
                    "unwrap" => Act::Unwrap,
                    "recv" => Act::Recv,
                    "cloneref" => Act::CloneRef,
                    "readref" => Act::ReadRef,
                    "join" => Act::Join,
                    "countref" => return Err("`countref` is not runnable under loom (ref_count is pub(crate))".into()),
                    "count" => return Err("`count` is not runnable under loom (ref_count is pub(crate))".into()),
                    _ => match w.strip_prefix("send:") {
                        Some(u) => Act::Send(u.parse().map_err(|_| format!("bad send target `{u}`"))?),
                        None => return Err(format!("unknown action `{w}`")),
                    },
                });
            }
            threads.push(acts);
        }
        let n = threads.len();
        if n == 0 || n > 4 {
            return Err("1 to 4 threads supported (loom MAX_THREADS = 5 including main)".into());
        }
        let h = h.unwrap_or_else(|| vec![1; n]);
        if h.len() != n {
            return Err("h= must give one count per thread".into());
        }
        if h.iter().sum::<usize>() == 0 {
            return Err("at least one initial handle is needed".into());
        }
        for th in &threads {
            for a in th {
                if let Act::Send(u) = a {
                    if *u >= n {
                        return Err(format!("send target {u} out of range"));
                    }
                }
            }
        }
        refs.sort();
        let p = Prog { h, threads, start, refs };
        p.validate()?;
        Ok(p)
    }

    pub fn lender_of(&self, b: usize) -> Option<usize> {
        self.refs.iter().find(|(x, _)| *x == b).map(|(_, l)| *l)
    }

    pub fn borrowers_of(&self, l: usize) -> Vec<usize> {
        self.refs.iter().filter(|(_, x)| *x == l).map(|(b, _)| *b).collect()
    }

    /// Shape rules of the by-reference programs (also used by the shrinker).
    pub fn validate(&self) -> Result<(), String> {
        let n = self.threads.len();
        for (i, (b, l)) in self.refs.iter().enumerate() {
            if *b >= n || *l >= n || b == l {
                return Err(format!("refs entry {b}>{l} out of range"));
            }
            if self.refs[..i].iter().any(|(x, _)| x == b) {
                return Err(format!("thread {b} borrows twice"));
            }
            if self.lender_of(*l).is_some() {
                return Err(format!("thread {l} both lends and borrows"));
            }
            if self.h[*l] == 0 {
                return Err(format!("lender {l} has no handle to lend"));
            }
        }
        for (t, th) in self.threads.iter().enumerate() {
            let joins = th.iter().filter(|a| **a == Act::Join).count();
            if self.borrowers_of(t).is_empty() {
                if joins > 0 {
                    return Err(format!("thread {t} joins but lends nothing"));
                }
                continue;
            }
            if joins != 1 {
                return Err(format!("lender {t} needs exactly one `join`"));
            }
            // while its handle is lent the lender may only use `&self` methods
            for a in th.iter().take_while(|a| **a != Act::Join) {
                if !matches!(a, Act::Read | Act::Clone) {
                    return Err(format!("lender {t}: only read/clone allowed before `join`"));
                }
            }
        }
        Ok(())
    }

    fn body(&self) -> String {
        self.threads
            .iter()
            .map(|t| t.iter().map(Act::text).collect::<Vec<_>>().join(" "))
            .collect::<Vec<_>>()
            .join(" | ")
    }

    fn refs_text(&self) -> String {
        if self.refs.is_empty() {
            String::new()
        } else {
            format!(
                " refs={}",
                self.refs.iter().map(|(b, l)| format!("{b}>{l}")).collect::<Vec<_>>().join(",")
            )
        }
    }

    fn h_text(h: &[usize]) -> String {
        h.iter().map(|x| x.to_string()).collect::<Vec<_>>().join(",")
    }

    /// Canonical loomdrive text.
    pub fn line(&self) -> String {
        let body = self.body();
        let at = match self.start {
            Start::Normal => "",
            Start::Ceil => "at=ceil ",
            Start::CeilMinus1 => "at=ceil-1 ",
        };
        if self.start == Start::Normal && self.refs.is_empty() && self.h.iter().all(|&x| x == 1) {
            body
        } else {
            format!("{at}h={}{} : {}", Self::h_text(&self.h), self.refs_text(), body)
        }
    }

    /// The line sent to the Lean driver.  Programs started at the ceiling are mapped to a small
    /// model ceiling `C = k + 4` (`k` = number of program handles) and a PHANTOM extra thread
    /// with an empty program that holds all the remaining shares (including main's own spare
    /// handle): `ceil=C h=h0,…,P : prog0 | … | ` with `P = C + 1 - k` (`at=ceil`) or `C - k`
    /// (`at=ceil-1`).
    ///
    /// `debug`: the implementation runs with debug assertions; the model is told (`debug=1`) to
    /// execute the debug-only counter accesses too.
    pub fn lean_line(&self, debug: bool) -> String {
        let dbg = if debug { "debug=1 " } else { "" };
        if self.start == Start::Normal {
            let l = self.line();
            return if !debug {
                l
            } else if self.refs.is_empty() && self.h.iter().all(|&x| x == 1) {
                format!("debug=1 : {l}")
            } else {
                format!("{dbg}{l}")
            };
        }
        let k: usize = self.h.iter().sum();
        let c = k + 4;
        let p = if self.start == Start::Ceil { c + 1 - k } else { c - k };
        let mut h = self.h.clone();
        h.push(p);
        format!("{dbg}ceil={c} h={}{} : {} | ", Self::h_text(&h), self.refs_text(), self.body())
    }

    /// Removes the phantom thread's (empty) component from a Lean outcome.
    pub fn strip_phantom(&self, outcome: &str) -> String {
        if self.start == Start::Normal {
            return outcome.to_string();
        }
        outcome.replacen(&format!("/{}:/", self.threads.len()), "/", 1)
    }

    pub fn uses_channels(&self) -> bool {
        self.threads.iter().flatten().any(|a| matches!(a, Act::Send(_) | Act::Recv))
    }

    /// Static sanity check used by the shrinker: every thread has at most as many `recv`s as
    /// there are `send`s addressed to it, and every `send` is the first action of a thread that
    /// starts with a handle (so it can never be skipped).
    pub fn recv_satisfiable(&self) -> bool {
        for (t, th) in self.threads.iter().enumerate() {
            let recvs = th.iter().filter(|a| **a == Act::Recv).count();
            if recvs == 0 {
                continue;
            }
            let mut sends = 0;
            for (u, other) in self.threads.iter().enumerate() {
                if u != t && other.first() == Some(&Act::Send(t)) && self.h[u] > 0 {
                    sends += 1;
                }
            }
            if recvs > sends {
                return false;
            }
        }
        true
    }
}

// ---------------------------------------------------------------------------------------------
// Seeded generation (thorough tier)
// ---------------------------------------------------------------------------------------------

struct Rng(u64);

impl Rng {
    fn next(&mut self) -> u64 {
        // splitmix64
        self.0 = self.0.wrapping_add(0x9E37_79B9_7F4A_7C15);
        let mut z = self.0;
        z = (z ^ (z >> 30)).wrapping_mul(0xBF58_476D_1CE4_E5B9);
        z = (z ^ (z >> 27)).wrapping_mul(0x94D0_49BB_1331_11EB);
        z ^ (z >> 31)
    }
    fn below(&mut self, n: u64) -> u64 {
        self.next() % n
    }
}

/// Weighted menu: `drop` and `mutate` are over-represented because the interesting behaviours
/// (who frees, who sees the count at one) need the counter to come down.
const MENU: [Act; 8] = [
    Act::Read,
    Act::Clone,
    Act::Drop,
    Act::Drop,
    Act::Drop,
    Act::Mutate,
    Act::Mutate,
    Act::Unwrap,
];

/// `count` distinct program lines over the menu: 2-3 threads, 1-3 actions each; about one in
/// five uses a `send`/`recv` pair (the `send` is the first action of its thread so that the
/// `recv` is always satisfiable).
pub fn generate(seed: u64, count: usize) -> Vec<String> {
    let mut rng = Rng(seed ^ 0x6869_7073_7472_2121);
    let mut out: Vec<String> = Vec::new();
    let mut guard = 0;
    while out.len() < count && guard < 10_000 {
        guard += 1;
        let n = 2 + rng.below(2) as usize;
        let mut threads: Vec<Vec<Act>> = Vec::new();
        for _ in 0..n {
            let len = 1 + rng.below(3) as usize;
            threads.push((0..len).map(|_| MENU[rng.below(MENU.len() as u64) as usize]).collect());
        }
        let mut h = vec![1usize; n];
        match rng.below(5) {
            0 => {
                // channel program
                let a = rng.below(n as u64) as usize;
                let mut b = rng.below(n as u64 - 1) as usize;
                if b >= a {
                    b += 1;
                }
                threads[a].insert(0, Act::Send(b));
                let pos = rng.below(threads[b].len() as u64 + 1) as usize;
                threads[b].insert(pos, Act::Recv);
                h[a] = 1 + rng.below(2) as usize;
                h[b] = rng.below(2) as usize;
            }
            1 => {
                // uneven initial handles
                let a = rng.below(n as u64) as usize;
                h[a] = 2;
            }
            _ => {}
        }
        let p = Prog { h, threads, start: Start::Normal, refs: Vec::new() };
        let line = p.line();
        if !out.contains(&line) {
            out.push(line);
        }
    }
    out
}

const CEIL_MENU: [Act; 6] = [Act::Clone, Act::Clone, Act::Mutate, Act::Drop, Act::Drop, Act::Read];

/// `count` distinct programs started at (or one below) the share-count ceiling, over
/// {clone, mutate, drop, read}: 2-3 threads, 1-2 actions each.
pub fn generate_ceiling(seed: u64, count: usize) -> Vec<String> {
    let mut rng = Rng(seed ^ 0x6365_696c_696e_6721);
    let mut out: Vec<String> = Vec::new();
    let mut guard = 0;
    while out.len() < count && guard < 10_000 {
        guard += 1;
        let n = 2 + rng.below(2) as usize;
        let mut threads: Vec<Vec<Act>> = Vec::new();
        for _ in 0..n {
            let len = 1 + rng.below(2) as usize;
            threads.push((0..len).map(|_| CEIL_MENU[rng.below(CEIL_MENU.len() as u64) as usize]).collect());
        }
        if !threads.iter().flatten().any(|a| *a == Act::Clone) {
            continue;
        }
        let start = if rng.below(2) == 0 { Start::Ceil } else { Start::CeilMinus1 };
        let p = Prog { h: vec![1; n], threads, start, refs: Vec::new() };
        let line = p.line();
        if !out.contains(&line) {
            out.push(line);
        }
    }
    out
}

/// `count` distinct by-reference programs: one lender (thread 0, one handle) and 2-3 borrowers
/// over {cloneref, readref, drop, read}; lender = optional read/clone prologue, `join`, then one
/// of the epilogues {drop, mutate drop, unwrap}.
pub fn generate_byref(seed: u64, count: usize) -> Vec<String> {
    const BMENU: [Act; 6] = [Act::CloneRef, Act::CloneRef, Act::ReadRef, Act::Drop, Act::Drop, Act::Read];
    let mut rng = Rng(seed ^ 0x6279_7265_6621_2121);
    let mut out: Vec<String> = Vec::new();
    let mut guard = 0;
    while out.len() < count && guard < 10_000 {
        guard += 1;
        let nb = if rng.below(4) == 0 { 3 } else { 2 };
        let mut lender: Vec<Act> = Vec::new();
        match rng.below(4) {
            0 => lender.push(Act::Read),
            1 => lender.push(Act::Clone),
            _ => {}
        }
        lender.push(Act::Join);
        match rng.below(3) {
            0 => lender.push(Act::Drop),
            1 => lender.extend([Act::Mutate, Act::Drop]),
            _ => lender.push(Act::Unwrap),
        }
        let mut threads = vec![lender];
        let maxlen = if nb == 3 { 1 } else { 3 };
        for _ in 0..nb {
            let len = 1 + rng.below(maxlen) as usize;
            let mut b: Vec<Act> = (0..len).map(|_| BMENU[rng.below(6) as usize]).collect();
            if !b.contains(&Act::CloneRef) && rng.below(2) == 0 {
                b[0] = Act::CloneRef;
            }
            threads.push(b);
        }
        if threads.iter().flatten().filter(|a| **a == Act::CloneRef).count() < 2 {
            continue;
        }
        // every clone is a load + CAS retry loop on the one counter: keep the state space small
        let cloners = threads.iter().flatten().filter(|a| matches!(a, Act::CloneRef | Act::Clone)).count();
        if cloners > if nb == 3 { 3 } else { 4 } {
            continue;
        }
        let mut h = vec![0; nb + 1];
        h[0] = 1;
        let p = Prog { h, threads, start: Start::Normal, refs: (1..=nb).map(|b| (b, 0)).collect() };
        if p.validate().is_err() {
            continue;
        }
        let line = p.line();
        if !out.contains(&line) {
            out.push(line);
        }
    }
    out
}
