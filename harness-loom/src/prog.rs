//! Program text: `[h=a,b,c :] prog0 | prog1 | prog2`, same syntax as the Lean driver.

#[derive(Clone, Copy, Debug, PartialEq, Eq)]
pub enum Act {
    Read,
    Clone,
    Drop,
    Mutate,
    Unwrap,
    Send(usize),
    Recv,
}

impl Act {
    pub fn kind(&self) -> &'static str {
        match self {
            Act::Read => "read",
            Act::Clone => "clone",
            Act::Drop => "drop",
            Act::Mutate => "mutate",
            Act::Unwrap => "unwrap",
            Act::Send(_) => "send",
            Act::Recv => "recv",
        }
    }

    fn text(&self) -> String {
        match self {
            Act::Send(u) => format!("send:{u}"),
            a => a.kind().to_string(),
        }
    }
}

/// Where the share counter starts (`at=` prefix key).
#[derive(Clone, Copy, Debug, PartialEq, Eq)]
pub enum Start {
    /// the counter counts the real handles
    Normal,
    /// `at=ceil`: forced to the share-count ceiling (stored value `usize::MAX - 1`)
    Ceil,
    /// `at=ceil-1`: one below the ceiling
    CeilMinus1,
}

#[derive(Clone, Debug)]
pub struct Prog {
    /// initial number of handles per thread
    pub h: Vec<usize>,
    pub threads: Vec<Vec<Act>>,
    pub start: Start,
}

impl Prog {
    pub fn parse(line: &str) -> Result<Prog, String> {
        let line = line.trim();
        let (opts, body) = match line.split_once(':') {
            Some((o, rest)) if o.contains('=') || o.trim().is_empty() => (o, rest),
            _ => ("", line),
        };
        let mut h: Option<Vec<usize>> = None;
        let mut start = Start::Normal;
        for w in opts.split_whitespace() {
            match w.split_once('=') {
                Some(("at", "ceil")) => start = Start::Ceil,
                Some(("at", "ceil-1")) => start = Start::CeilMinus1,
                Some(("at", v)) => return Err(format!("bad at= value `{v}` (ceil or ceil-1)")),
                Some(("h", v)) => {
                    h = Some(
                        v.split(',')
                            .map(|x| x.parse::<usize>().map_err(|_| format!("bad h value `{x}`")))
                            .collect::<Result<_, _>>()?,
                    )
                }
                Some(("ceil", _)) | Some(("budget", _)) => {
                    return Err(format!("option `{w}` is not supported by loomdrive"))
                }
                _ => return Err(format!("bad option `{w}`")),
            }
        }
        let mut threads = Vec::new();
        for p in body.split('|') {
            let mut acts = Vec::new();
            for w in p.split_whitespace() {
                acts.push(match w {
                    "read" => Act::Read,
                    "clone" => Act::Clone,
                    "drop" => Act::Drop,
                    "mutate" => Act::Mutate,
                    "unwrap" => Act::Unwrap,
                    "recv" => Act::Recv,
                    "count" => return Err("`count` is not runnable under loom (ref_count is pub(crate))".into()),
                    _ => match w.strip_prefix("send:") {
                        Some(u) => Act::Send(u.parse().map_err(|_| format!("bad send target `{u}`"))?),
                        None => return Err(format!("unknown action `{w}`")),
                    },
                });
            }
            threads.push(acts);
        }
        let n = threads.len();
        if n == 0 || n > 3 {
            return Err("1 to 3 threads supported (loom MAX_THREADS = 5 including main)".into());
        }
        let h = h.unwrap_or_else(|| vec![1; n]);
        if h.len() != n {
            return Err("h= must give one count per thread".into());
        }
        if h.iter().sum::<usize>() == 0 {
            return Err("at least one initial handle is needed".into());
        }
        for th in &threads {
            for a in th {
                if let Act::Send(u) = a {
                    if *u >= n {
                        return Err(format!("send target {u} out of range"));
                    }
                }
            }
        }
        Ok(Prog { h, threads, start })
    }

    fn body(&self) -> String {
        self.threads
            .iter()
            .map(|t| t.iter().map(Act::text).collect::<Vec<_>>().join(" "))
            .collect::<Vec<_>>()
            .join(" | ")
    }

    fn h_text(h: &[usize]) -> String {
        h.iter().map(|x| x.to_string()).collect::<Vec<_>>().join(",")
    }

    /// Canonical loomdrive text.
    pub fn line(&self) -> String {
        let body = self.body();
        let at = match self.start {
            Start::Normal => "",
            Start::Ceil => "at=ceil ",
            Start::CeilMinus1 => "at=ceil-1 ",
        };
        if self.start == Start::Normal && self.h.iter().all(|&x| x == 1) {
            body
        } else {
            format!("{at}h={} : {}", Self::h_text(&self.h), body)
        }
    }

    /// The line sent to the Lean driver.  Programs started at the ceiling are mapped to a small
    /// model ceiling `C = k + 4` (`k` = number of program handles) and a PHANTOM extra thread
    /// with an empty program that holds all the remaining shares (including main's own spare
    /// handle): `ceil=C h=h0,…,P : prog0 | … | ` with `P = C + 1 - k` (`at=ceil`) or `C - k`
    /// (`at=ceil-1`).
    pub fn lean_line(&self) -> String {
        if self.start == Start::Normal {
            return self.line();
        }
        let k: usize = self.h.iter().sum();
        let c = k + 4;
        let p = if self.start == Start::Ceil { c + 1 - k } else { c - k };
        let mut h = self.h.clone();
        h.push(p);
        format!("ceil={c} h={} : {} | ", Self::h_text(&h), self.body())
    }

    /// Removes the phantom thread's (empty) component from a Lean outcome.
    pub fn strip_phantom(&self, outcome: &str) -> String {
        if self.start == Start::Normal {
            return outcome.to_string();
        }
        outcome.replacen(&format!("/{}:/", self.threads.len()), "/", 1)
    }

    pub fn uses_channels(&self) -> bool {
        self.threads.iter().flatten().any(|a| matches!(a, Act::Send(_) | Act::Recv))
    }

    /// Static sanity check used by the shrinker: every thread has at most as many `recv`s as
    /// there are `send`s addressed to it, and every `send` is the first action of a thread that
    /// starts with a handle (so it can never be skipped).
    pub fn recv_satisfiable(&self) -> bool {
        for (t, th) in self.threads.iter().enumerate() {
            let recvs = th.iter().filter(|a| **a == Act::Recv).count();
            if recvs == 0 {
                continue;
            }
            let mut sends = 0;
            for (u, other) in self.threads.iter().enumerate() {
                if u != t && other.first() == Some(&Act::Send(t)) && self.h[u] > 0 {
                    sends += 1;
                }
            }
            if recvs > sends {
                return false;
            }
        }
        true
    }
}

// ---------------------------------------------------------------------------------------------
// Seeded generation (thorough tier)
// ---------------------------------------------------------------------------------------------

struct Rng(u64);

impl Rng {
    fn next(&mut self) -> u64 {
        // splitmix64
        self.0 = self.0.wrapping_add(0x9E37_79B9_7F4A_7C15);
        let mut z = self.0;
        z = (z ^ (z >> 30)).wrapping_mul(0xBF58_476D_1CE4_E5B9);
        z = (z ^ (z >> 27)).wrapping_mul(0x94D0_49BB_1331_11EB);
        z ^ (z >> 31)
    }
    fn below(&mut self, n: u64) -> u64 {
        self.next() % n
    }
}

/// Weighted menu: `drop` and `mutate` are over-represented because the interesting behaviours
/// (who frees, who sees the count at one) need the counter to come down.
const MENU: [Act; 8] = [
    Act::Read,
    Act::Clone,
    Act::Drop,
    Act::Drop,
    Act::Drop,
    Act::Mutate,
    Act::Mutate,
    Act::Unwrap,
];

/// `count` distinct program lines over the menu: 2-3 threads, 1-3 actions each; about one in
/// five uses a `send`/`recv` pair (the `send` is the first action of its thread so that the
/// `recv` is always satisfiable).
pub fn generate(seed: u64, count: usize) -> Vec<String> {
    let mut rng = Rng(seed ^ 0x6869_7073_7472_2121);
    let mut out: Vec<String> = Vec::new();
    let mut guard = 0;
    while out.len() < count && guard < 10_000 {
        guard += 1;
        let n = 2 + rng.below(2) as usize;
        let mut threads: Vec<Vec<Act>> = Vec::new();
        for _ in 0..n {
            let len = 1 + rng.below(3) as usize;
            threads.push((0..len).map(|_| MENU[rng.below(MENU.len() as u64) as usize]).collect());
        }
        let mut h = vec![1usize; n];
        match rng.below(5) {
            0 => {
                // channel program
                let a = rng.below(n as u64) as usize;
                let mut b = rng.below(n as u64 - 1) as usize;
                if b >= a {
                    b += 1;
                }
                threads[a].insert(0, Act::Send(b));
                let pos = rng.below(threads[b].len() as u64 + 1) as usize;
                threads[b].insert(pos, Act::Recv);
                h[a] = 1 + rng.below(2) as usize;
                h[b] = rng.below(2) as usize;
            }
            1 => {
                // uneven initial handles
                let a = rng.below(n as u64) as usize;
                h[a] = 2;
            }
            _ => {}
        }
        let p = Prog { h, threads, start: Start::Normal };
        let line = p.line();
        if !out.contains(&line) {
            out.push(line);
        }
    }
    out
}

const CEIL_MENU: [Act; 6] = [Act::Clone, Act::Clone, Act::Mutate, Act::Drop, Act::Drop, Act::Read];

/// `count` distinct programs started at (or one below) the share-count ceiling, over
/// {clone, mutate, drop, read}: 2-3 threads, 1-2 actions each.
pub fn generate_ceiling(seed: u64, count: usize) -> Vec<String> {
    let mut rng = Rng(seed ^ 0x6365_696c_696e_6721);
    let mut out: Vec<String> = Vec::new();
    let mut guard = 0;
    while out.len() < count && guard < 10_000 {
        guard += 1;
        let n = 2 + rng.below(2) as usize;
        let mut threads: Vec<Vec<Act>> = Vec::new();
        for _ in 0..n {
            let len = 1 + rng.below(2) as usize;
            threads.push((0..len).map(|_| CEIL_MENU[rng.below(CEIL_MENU.len() as u64) as usize]).collect());
        }
        if !threads.iter().flatten().any(|a| *a == Act::Clone) {
            continue;
        }
        let start = if rng.below(2) == 0 { Start::Ceil } else { Start::CeilMinus1 };
        let p = Prog { h: vec![1; n], threads, start };
        let line = p.line();
        if !out.contains(&line) {
            out.push(line);
        }
    }
    out
}
