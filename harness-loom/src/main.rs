//! `loomdrive`: runs small concurrent programs under the `loom` model checker on the REAL
//! counted pointer of hipstr (`hipstr::verif::Smart<Payload, hipstr::Arc>`, whose counter is a
//! `loom::sync::atomic::AtomicUsize` under `--cfg loom`) and compares verdict and outcome set
//! with the compiled Lean model driver (`conc_driver`).
//!
//! CLI (see /verif/CONVENTIONS.md):
//!   loomdrive --tier quick|thorough --seed <u64> [--lean <exe>] --out <stats.json>
//!             [--replay <file.json>] [--program '<line>'] [--bound <n>|none] [--verbose]
//! exit 0 = no disagreement, 1 = disagreement(s), 2 = internal error.

mod json;
mod model;
mod prog;

#[global_allocator]
static ALLOC: model::quarantine::Alloc = model::quarantine::Alloc;

use std::collections::{BTreeMap, BTreeSet};
use std::io::{BufRead, BufReader, Write};
use std::process::{Child, ChildStdin, ChildStdout, Command, Stdio};
use std::time::{Duration, Instant};

use model::{is_monitor, run_program, LoomResult};
use prog::Prog;

const RULE: &str = "loom outcomes ⊆ model outcomes (= when unbounded); verdicts equal";

/// Per-program time budget of an unbounded loom run before falling back to a bounded one.
const UNBOUNDED_BUDGET: Duration = Duration::from_secs(40);
const FALLBACK_BOUND: usize = 3;

const QUICK_PROGRAMS: &[&str] = &[
    "read drop | mutate drop",
    "clone read drop | drop mutate",
    "read drop | read drop | unwrap",
    "clone drop drop | mutate drop | read drop",
    "h=2,0 : send:1 read drop | recv mutate drop",
    "drop | drop | drop",
    "mutate drop | mutate drop",
    "unwrap | read drop",
    "clone drop mutate drop | read drop",
    "unwrap | unwrap",
    "clone unwrap | drop",
    "h=1,1,0 : send:2 | mutate drop | recv read unwrap",
    "read | mutate | drop",
    "h=2,1 : drop mutate read | drop",
    "read drop | drop",
    "read drop | unwrap",
    // started at (or one below) the share-count ceiling
    "at=ceil h=1,1,1 : clone | clone | mutate drop",
    "at=ceil h=1,1,1 : clone drop | clone drop | mutate",
    "at=ceil-1 h=1,1 : clone drop | clone drop",
    "at=ceil-1 h=1,1,1 : clone | clone | unwrap",
    "at=ceil h=1,1 : clone read drop | mutate drop",
    "at=ceil-1 h=1,1 : clone mutate | clone drop",
    "at=ceil-1 h=1,1 : clone | clone",
    // by-reference programs: threads 1.. clone/read through a shared `&handle` of thread 0
    "h=1,0,0 refs=1>0,2>0 : join drop | cloneref drop | cloneref drop",
    "h=1,0,0 refs=1>0,2>0 : join mutate drop | cloneref readref drop | cloneref drop",
    "h=1,0,0 refs=1>0,2>0 : join unwrap | cloneref | cloneref drop",
    "h=1,0 refs=1>0 : clone join drop drop | cloneref drop",
    "h=1,0,0 refs=1>0,2>0 : read join drop | readref cloneref drop | cloneref readref drop",
];

/// Fixed programs of the thorough tier only.
const THOROUGH_PROGRAMS: &[&str] = &["at=ceil-1 h=1,1,1 : clone | clone | clone"];

struct Args {
    tier: String,
    seed: u64,
    lean: Option<String>,
    out: Option<String>,
    replay: Option<String>,
    program: Option<String>,
    bound: Option<Option<usize>>,
    verbose: bool,
}

fn internal(msg: &str) -> ! {
    eprintln!("loomdrive: internal error: {msg}");
    std::process::exit(2);
}

fn parse_args() -> Args {
    let mut a = Args {
        tier: "quick".into(),
        seed: 0,
        lean: None,
        out: None,
        replay: None,
        program: None,
        bound: None,
        verbose: false,
    };
    let mut it = std::env::args().skip(1);
    while let Some(k) = it.next() {
        let mut val = |name: &str| it.next().unwrap_or_else(|| internal(&format!("{name} needs a value")));
        match k.as_str() {
            "--tier" => a.tier = val("--tier"),
            "--seed" => a.seed = val("--seed").parse().unwrap_or_else(|_| internal("bad --seed")),
            "--lean" => a.lean = Some(val("--lean")),
            "--out" => a.out = Some(val("--out")),
            "--replay" => a.replay = Some(val("--replay")),
            "--program" => a.program = Some(val("--program")),
            "--bound" => {
                let v = val("--bound");
                a.bound = Some(if v == "none" {
                    None
                } else {
                    Some(v.parse().unwrap_or_else(|_| internal("bad --bound")))
                })
            }
            "--verbose" => a.verbose = true,
            other => internal(&format!("unknown argument {other}")),
        }
    }
    if a.tier != "quick" && a.tier != "thorough" {
        internal("--tier must be quick or thorough");
    }
    a
}

// ---------------------------------------------------------------------------------------------
// Lean driver
// ---------------------------------------------------------------------------------------------

struct Lean {
    child: Child,
    stdin: ChildStdin,
    stdout: BufReader<ChildStdout>,
}

#[derive(Clone, Debug, Default)]
struct LeanResult {
    states: u64,
    transitions: u64,
    complete: bool,
    verdict: String,
    outcomes: BTreeSet<String>,
    trace: Option<String>,
}

impl Lean {
    fn spawn(path: &str) -> Result<Lean, String> {
        let mut child = Command::new(path)
            .stdin(Stdio::piped())
            .stdout(Stdio::piped())
            .stderr(Stdio::inherit())
            .spawn()
            .map_err(|e| format!("cannot spawn lean driver {path}: {e}"))?;
        let stdin = child.stdin.take().unwrap();
        let stdout = BufReader::new(child.stdout.take().unwrap());
        Ok(Lean { child, stdin, stdout })
    }

    fn query(&mut self, line: &str) -> Result<LeanResult, String> {
        writeln!(self.stdin, "{line}").map_err(|e| format!("write to lean driver: {e}"))?;
        self.stdin.flush().map_err(|e| format!("flush lean driver: {e}"))?;
        let mut out = String::new();
        let n = self.stdout.read_line(&mut out).map_err(|e| format!("read lean driver: {e}"))?;
        if n == 0 {
            return Err("lean driver closed its stdout".into());
        }
        parse_lean_line(out.trim_end())
    }

    fn finish(mut self) {
        drop(self.stdin);
        let _ = self.child.wait();
    }

    fn abandon(mut self) {
        let _ = self.child.kill();
        let _ = self.child.wait();
    }
}

/// The Lean side of the run: a broken driver (cannot be spawned, garbage answers) does not stop
/// the loom runs and their monitors; it is remembered and reported.
struct LeanCtx {
    lean: Option<Lean>,
    error: Option<String>,
    /// the implementation runs with debug assertions: send `debug=1` with every program
    debug: bool,
}

impl LeanCtx {
    fn new(path: Option<&str>, debug: bool) -> LeanCtx {
        match path.map(Lean::spawn) {
            None => LeanCtx { lean: None, error: None, debug },
            Some(Ok(l)) => LeanCtx { lean: Some(l), error: None, debug },
            Some(Err(e)) => LeanCtx { lean: None, error: Some(e), debug },
        }
    }

    fn query(&mut self, p: &Prog) -> Option<LeanResult> {
        let l = self.lean.as_mut()?;
        match l.query(&p.lean_line(self.debug)) {
            Ok(mut r) => {
                r.outcomes = r.outcomes.iter().map(|o| p.strip_phantom(o)).collect();
                Some(r)
            }
            Err(e) => {
                self.error = Some(format!("on `{}`: {e}", p.lean_line(self.debug)));
                if let Some(l) = self.lean.take() {
                    l.abandon();
                }
                None
            }
        }
    }
}

fn parse_lean_line(l: &str) -> Result<LeanResult, String> {
    if !l.starts_with("states=") {
        return Err(format!("unexpected lean driver output: {l}"));
    }
    let mut r = LeanResult::default();
    let (head, rest) = l
        .split_once(" outcomes=")
        .ok_or_else(|| format!("no outcomes= in lean output: {l}"))?;
    for w in head.split(' ') {
        let (k, v) = w.split_once('=').ok_or_else(|| format!("bad field {w}"))?;
        match k {
            "states" => r.states = v.parse().map_err(|_| format!("bad states {v}"))?,
            "transitions" => r.transitions = v.parse().map_err(|_| format!("bad transitions {v}"))?,
            "complete" => r.complete = v == "true",
            // the model's `count-overflow` (stored count above the ceiling while handles exist)
            // is the same finding as loom's `count-mismatch` quiescence monitor
            "verdict" => r.verdict = if v == "count-overflow" { "count-mismatch".to_string() } else { v.to_string() },
            _ => return Err(format!("unknown field {k}")),
        }
    }
    let (outs, trace) = match rest.split_once(" trace=") {
        Some((o, t)) => (o, Some(t.to_string())),
        None => match rest.strip_prefix("trace=") {
            Some(t) => ("", Some(t.to_string())),
            None => (rest, None),
        },
    };
    r.trace = trace;
    r.outcomes = outs.split(' ').filter(|s| !s.is_empty()).map(str::to_string).collect();
    Ok(r)
}

// ---------------------------------------------------------------------------------------------
// Comparison
// ---------------------------------------------------------------------------------------------

struct Eval {
    prog: Prog,
    loom: LoomResult,
    lean: Option<LeanResult>,
    /// `None` = agreement, otherwise a description of the violated rule.
    problem: Option<String>,
    sets_equal: Option<bool>,
    validated: u64,
    /// the program of the fixed/generated list this (shrunk) failing program comes from
    shrunk_from: Option<String>,
}

fn set_str(s: &BTreeSet<String>) -> String {
    if s.is_empty() {
        "-".to_string()
    } else {
        s.iter().cloned().collect::<Vec<_>>().join(" ")
    }
}

fn compare(loom: &LoomResult, lean: &LeanResult) -> (Option<String>, bool, u64) {
    let loom_set: BTreeSet<String> = loom.outcomes.keys().cloned().collect();
    let equal = loom_set == lean.outcomes;
    let validated: u64 = loom
        .outcomes
        .iter()
        .filter(|(o, _)| lean.outcomes.contains(*o))
        .map(|(_, n)| *n)
        .sum();
    // A `recv` that can never be satisfied: loom reports a deadlock, the model a `/stuck` outcome.
    if loom.verdict == "deadlock" {
        let stuck = lean.outcomes.iter().any(|o| o.ends_with("/stuck"));
        return (
            if stuck { None } else { Some("loom deadlock but no stuck outcome in the model".into()) },
            false,
            validated,
        );
    }
    if loom.verdict != lean.verdict {
        return (
            Some(format!("verdicts differ: loom={} model={}", loom.verdict, lean.verdict)),
            equal,
            validated,
        );
    }
    if loom.verdict != "ok" {
        // both sides stopped at the first violation: outcome sets are partial on both sides
        return (None, equal, validated);
    }
    if !lean.complete {
        return (Some("model search incomplete (budget)".into()), equal, validated);
    }
    let extra: Vec<&String> = loom_set.difference(&lean.outcomes).collect();
    if !extra.is_empty() {
        return (
            Some(format!(
                "loom outcome(s) not in the model: {}",
                extra.iter().map(|s| s.as_str()).collect::<Vec<_>>().join(" ")
            )),
            equal,
            validated,
        );
    }
    if loom.bound.is_none() && !loom.truncated && !equal {
        let missing: Vec<&String> = lean.outcomes.difference(&loom_set).collect();
        return (
            Some(format!(
                "unbounded loom run misses model outcome(s): {}",
                missing.iter().map(|s| s.as_str()).collect::<Vec<_>>().join(" ")
            )),
            equal,
            validated,
        );
    }
    (None, equal, validated)
}

/// Preemption bound of the second, complementary pass of the thorough tier (see `evaluate`).
const COMPLEMENT_BOUND: usize = 3;

/// Runs loom (and the model) on one program.
///
/// `complement`: loom 0.7's unbounded mode is plain DPOR that only remembers the LAST access
/// to each object, so it can miss interleavings (e.g. `mutate | mutate drop`: the second
/// thread's own `load` shadows the first thread's `load` when its `fetch_sub` looks for a racing
/// access; 3 executions, one outcome missing).  Its preemption-bounded mode adds conservative
/// backtrack points and finds them.  The thorough tier therefore runs BOTH (unbounded, then
/// bound 3) and uses the union of the outcome sets.
fn evaluate(
    p: &Prog,
    bound: Option<usize>,
    allow_fallback: bool,
    complement: bool,
    lean: &mut LeanCtx,
) -> Eval {
    let budget = if bound.is_none() { Some(UNBOUNDED_BUDGET) } else { None };
    let mut loom = run_program(p, bound, budget);
    if allow_fallback && bound.is_none() && (loom.truncated || loom.verdict == "branch-limit") {
        let why = if loom.truncated { "time budget" } else { "branch limit" };
        let first_iters = loom.iterations;
        loom = run_program(p, Some(FALLBACK_BOUND), None);
        loom.note = Some(format!(
            "unbounded run hit the {why} after {first_iters} iterations; fell back to preemption_bound={FALLBACK_BOUND}"
        ));
    } else if complement && bound.is_none() && loom.verdict == "ok" {
        let second = run_program(p, Some(COMPLEMENT_BOUND), None);
        let missed: Vec<String> =
            second.outcomes.keys().filter(|o| !loom.outcomes.contains_key(*o)).cloned().collect();
        if !missed.is_empty() {
            loom.note = Some(format!(
                "loom's unbounded DPOR ({} executions) missed outcome(s) found with preemption_bound={COMPLEMENT_BOUND}: {}",
                loom.iterations,
                missed.join(" ")
            ));
        }
        loom.iterations += second.iterations;
        for (o, n) in second.outcomes {
            *loom.outcomes.entry(o).or_insert(0) += n;
        }
        if second.verdict != "ok" {
            loom.verdict = second.verdict;
            loom.message = second.message;
        }
    }
    let lean_res = lean.query(p);
    let (problem, sets_equal, validated) = match &lean_res {
        Some(lr) => {
            let (p, e, v) = compare(&loom, lr);
            (p, Some(e), v)
        }
        None => (None, None, 0),
    };
    Eval { prog: p.clone(), loom, lean: lean_res, problem, sets_equal, validated, shrunk_from: None }
}

/// Greedy shrinking of a failing program: delete one action at a time while `still_fails`
/// holds (the same monitor still fires / the two sides still disagree) and loom does not merely
/// deadlock on a now unsatisfiable `recv`.
fn shrink(
    ev: Eval,
    bound: Option<usize>,
    complement: bool,
    lean: &mut LeanCtx,
    still_fails: &dyn Fn(&Eval) -> bool,
) -> Eval {
    let mut best = ev;
    let mut progress = true;
    let mut tries = 0;
    while progress && tries < 40 {
        progress = false;
        'outer: for t in 0..best.prog.threads.len() {
            for i in 0..best.prog.threads[t].len() {
                tries += 1;
                let mut cand = best.prog.clone();
                cand.threads[t].remove(i);
                if cand.threads.iter().all(|th| th.is_empty())
                    || !cand.recv_satisfiable()
                    || cand.validate().is_err()
                {
                    continue;
                }
                let e = evaluate(&cand, bound, false, complement, lean);
                if still_fails(&e) && e.loom.verdict != "deadlock" && !e.loom.truncated {
                    best = e;
                    progress = true;
                    break 'outer;
                }
            }
        }
    }
    best
}

/// What C04 demands, per monitor.
fn monitor_expected(kind: &str) -> &'static str {
    match kind {
        "race" => "no data race on the payload: every access through a (former) co-owner happens-before the mutation/free",
        "double-free" => "the buffer is released exactly once",
        "use-after-free" => "the buffer is released only after the last access by any thread (no handle outlives the free)",
        "leak" => "the buffer is released exactly once, when the last handle is dropped",
        "content" => "each value still reads its expected content: final payload == number of granted mutations",
        "panic" => "no panic in clone/drop/is_unique/as_mut/try_unwrap of a correct program",
        "unique-while-shared" => "in-place mutable access or ownership is granted only if no other handle still refers to the buffer",
        "freed-while-alive" => "the buffer is released exactly once and only after the last handle is gone",
        "count-mismatch" => "the share count never exceeds its ceiling: a clone at the ceiling must take a private copy",
        _ => "-",
    }
}

// ---------------------------------------------------------------------------------------------
// main
// ---------------------------------------------------------------------------------------------

fn main() {
    let args = parse_args();
    let start = Instant::now();
    model::install_panic_hook(args.verbose);
    // the profile of the code under test: VERIF_PROFILE (set by ./check) or how we were built
    let profile: String = match std::env::var("VERIF_PROFILE") {
        Ok(v) if v == "debug" || v == "release" => v,
        _ => if cfg!(debug_assertions) { "debug" } else { "release" }.to_string(),
    };
    if (profile == "debug") != cfg!(debug_assertions) {
        eprintln!(
            "loomdrive: warning: VERIF_PROFILE={profile} but this binary was built {} debug assertions",
            if cfg!(debug_assertions) { "with" } else { "without" }
        );
    }
    model::set_verbose(args.verbose);

    // program list
    let mut lines: Vec<String> = Vec::new();
    if let Some(p) = &args.program {
        lines.push(p.clone());
    } else if let Some(f) = &args.replay {
        let text = std::fs::read_to_string(f).unwrap_or_else(|e| internal(&format!("cannot read {f}: {e}")));
        lines = json::extract_input_array(&text).unwrap_or_else(|e| internal(&format!("{f}: {e}")));
    } else {
        lines.extend(QUICK_PROGRAMS.iter().map(|s| s.to_string()));
        if args.tier == "thorough" {
            lines.extend(THOROUGH_PROGRAMS.iter().map(|s| s.to_string()));
            lines.extend(prog::generate(args.seed, 30));
            lines.extend(prog::generate_ceiling(args.seed, 8));
            lines.extend(prog::generate_byref(args.seed, 10));
        }
    }
    let progs: Vec<Prog> = lines
        .iter()
        .map(|l| Prog::parse(l).unwrap_or_else(|e| internal(&format!("program `{l}`: {e}"))))
        .collect();

    let bound: Option<usize> = match args.bound {
        Some(b) => b,
        None => {
            if args.tier == "quick" {
                Some(2)
            } else {
                None
            }
        }
    };

    // thorough tier without an explicit --bound: unbounded pass + bounded complement pass
    let complement = args.tier == "thorough" && args.bound.is_none();

    let mut lean = LeanCtx::new(args.lean.as_deref(), profile == "debug");

    let mut evals: Vec<Eval> = Vec::new();
    for p in &progs {
        let t0 = Instant::now();
        let mut ev = evaluate(p, bound, true, complement, &mut lean);
        if is_monitor(&ev.loom.verdict) {
            // a property monitor fired on the real code: shrink while the SAME monitor fires
            let b = ev.loom.bound;
            let kind = ev.loom.verdict.clone();
            ev = shrink(ev, b, complement, &mut lean, &|e: &Eval| e.loom.verdict == kind);
        } else if ev.problem.is_some() && ev.loom.verdict != "deadlock" {
            let b = ev.loom.bound;
            ev = shrink(ev, b, complement, &mut lean, &|e: &Eval| e.problem.is_some());
        }
        if ev.prog.line() != p.line() {
            ev.shrunk_from = Some(p.line());
        }
        if args.verbose {
            eprintln!(
                "[{:>6} ms] {} => loom {} ({} iters, bound {:?}) {}",
                t0.elapsed().as_millis(),
                p.line(),
                ev.loom.verdict,
                ev.loom.iterations,
                ev.loom.bound,
                ev.problem.as_deref().unwrap_or("agree")
            );
        }
        evals.push(ev);
    }
    if let Some(l) = lean.lean.take() {
        l.finish();
    }
    let lean_error = lean.error.take();

    // ---- report -------------------------------------------------------------------------
    let mut dist_actions: BTreeMap<String, u64> = BTreeMap::new();
    let mut dist_threads: BTreeMap<String, u64> = BTreeMap::new();
    let mut dist_verdicts: BTreeMap<String, u64> = BTreeMap::new();
    let mut dist_outcomes: BTreeMap<String, u64> = BTreeMap::new();
    for ev in &evals {
        for th in &ev.prog.threads {
            for a in th {
                *dist_actions.entry(a.kind().to_string()).or_default() += 1;
            }
        }
        *dist_threads.entry(ev.prog.threads.len().to_string()).or_default() += 1;
        *dist_verdicts.entry(ev.loom.verdict.clone()).or_default() += 1;
        let k = match ev.loom.outcomes.len() {
            0 => "0",
            1 => "1",
            2..=3 => "2-3",
            4..=7 => "4-7",
            _ => "8+",
        };
        *dist_outcomes.entry(k.to_string()).or_default() += 1;
    }
    // several programs of the list may shrink to the same failing program: report it once
    let mut seen: BTreeSet<(String, String)> = BTreeSet::new();
    let disagreements: Vec<&Eval> = evals
        .iter()
        .filter(|e| e.problem.is_some())
        .filter(|e| seen.insert(("impl-vs-model".into(), e.prog.line())))
        .collect();
    // (a listed program that fails as is wins over one that merely shrinks to it)
    let mut monitors: Vec<(usize, &Eval)> = Vec::new();
    for pass in 0..2 {
        for (i, e) in evals.iter().enumerate() {
            if is_monitor(&e.loom.verdict)
                && (e.shrunk_from.is_none()) == (pass == 0)
                && seen.insert((e.loom.verdict.clone(), e.prog.line()))
            {
                monitors.push((i, e));
            }
        }
    }
    monitors.sort_by_key(|(i, _)| *i);
    let monitors: Vec<&Eval> = monitors.into_iter().map(|(_, e)| e).collect();
    let loom_errors: Vec<&Eval> = evals
        .iter()
        .filter(|e| e.loom.verdict == "error" || e.loom.verdict == "branch-limit")
        .collect();
    let exhaustive = evals.iter().all(|e| e.loom.bound.is_none() && !e.loom.truncated);
    let notes: Vec<String> = evals
        .iter()
        .filter_map(|e| e.loom.note.as_ref().map(|n| format!("{}: {}", e.prog.line(), n)))
        .collect();
    let quick_equal = evals.iter().filter(|e| e.sets_equal == Some(true)).count();

    let mut j = json::Obj::new();
    j.num("evaluations", evals.len() as u64);
    j.num(
        "distinct_nontrivial",
        evals.iter().filter(|e| e.loom.outcomes.len() > 1).count() as u64,
    );
    j.str("rule", RULE);
    j.boolean("exhaustive", exhaustive);
    {
        let mut d = json::Obj::new();
        d.raw("actions", &json::map_num(&dist_actions));
        d.raw("threads", &json::map_num(&dist_threads));
        d.raw("loom_verdicts", &json::map_num(&dist_verdicts));
        d.raw("loom_outcome_set_sizes", &json::map_num(&dist_outcomes));
        j.raw("distribution", &d.finish());
    }
    {
        let mut samples = Vec::new();
        for ev in evals.iter().take(6) {
            let mut s = json::Obj::new();
            s.str("program", &ev.prog.line());
            s.raw(
                "loom_outcomes",
                &json::str_array(ev.loom.outcomes.keys().map(|s| s.as_str())),
            );
            match &ev.lean {
                Some(l) => {
                    s.raw("lean_outcomes", &json::str_array(l.outcomes.iter().map(|s| s.as_str())));
                    s.str("verdicts", &format!("loom={} lean={}", ev.loom.verdict, l.verdict));
                }
                None => {
                    s.raw("lean_outcomes", "null");
                    s.str("verdicts", &format!("loom={}", ev.loom.verdict));
                }
            }
            s.num("iterations", ev.loom.iterations);
            samples.push(s.finish());
        }
        j.raw("samples", &format!("[{}]", samples.join(",")));
    }
    {
        let mut ds = Vec::new();
        for ev in &monitors {
            let kind = ev.loom.verdict.as_str();
            let mut d = json::Obj::new();
            d.str("kind", "monitor");
            d.str("monitor", kind);
            d.raw("input", &json::str_array(std::iter::once(ev.prog.line().as_str())));
            d.str("expected", monitor_expected(kind));
            d.str("observed", ev.loom.message.as_deref().unwrap_or(kind));
            d.str("profile", &profile);
            d.num("failing_execution", ev.loom.iterations);
            if let Some(o) = &ev.shrunk_from {
                d.str("shrunk_from", o);
            }
            d.raw(
                "preemption_bound",
                &ev.loom.bound.map(|b| b.to_string()).unwrap_or_else(|| "null".into()),
            );
            ds.push(d.finish());
        }
        for ev in &disagreements {
            let mut d = json::Obj::new();
            d.str("kind", "impl-vs-model");
            d.raw("input", &json::str_array(std::iter::once(ev.prog.line().as_str())));
            let lean = ev.lean.as_ref();
            d.str(
                "expected",
                &match lean {
                    Some(l) => format!(
                        "verdict={} outcomes={}{}",
                        l.verdict,
                        set_str(&l.outcomes),
                        l.trace.as_ref().map(|t| format!(" trace={t}")).unwrap_or_default()
                    ),
                    None => "-".into(),
                },
            );
            d.str(
                "observed",
                &format!(
                    "verdict={} outcomes={}{}",
                    ev.loom.verdict,
                    set_str(&ev.loom.outcomes.keys().cloned().collect()),
                    ev.loom.message.as_ref().map(|m| format!(" message={m}")).unwrap_or_default()
                ),
            );
            d.str("profile", &profile);
            d.str("why", ev.problem.as_deref().unwrap_or(""));
            if let Some(o) = &ev.shrunk_from {
                d.str("shrunk_from", o);
            }
            d.raw(
                "preemption_bound",
                &ev.loom.bound.map(|b| b.to_string()).unwrap_or_else(|| "null".into()),
            );
            ds.push(d.finish());
        }
        j.raw("disagreements", &format!("[{}]", ds.join(",")));
    }
    j.num("states", evals.iter().filter_map(|e| e.lean.as_ref()).map(|l| l.states).sum());
    j.num(
        "transitions",
        evals.iter().filter_map(|e| e.lean.as_ref()).map(|l| l.transitions).sum(),
    );
    j.num("traces_validated_against_impl", evals.iter().map(|e| e.validated).sum());
    j.num("loom_iterations", evals.iter().map(|e| e.loom.iterations).sum());
    j.raw("preemption_bound", &bound.map(|b| b.to_string()).unwrap_or_else(|| "null".into()));
    j.raw(
        "complement_preemption_bound",
        &if complement { COMPLEMENT_BOUND.to_string() } else { "null".into() },
    );
    j.num(
        "unbounded_dpor_missed",
        evals
            .iter()
            .filter(|e| e.loom.note.as_deref().map_or(false, |n| n.contains("DPOR")))
            .count() as u64,
    );
    j.num("outcome_sets_equal", quick_equal as u64);
    j.num("programs_bounded", evals.iter().filter(|e| e.loom.bound.is_some()).count() as u64);
    j.raw("notes", &json::str_array(notes.iter().map(|s| s.as_str())));
    j.str("profile", &profile);
    j.str("tier", &args.tier);
    j.num("seed", args.seed);
    j.boolean("lean_compared", args.lean.is_some() && lean_error.is_none());
    j.num("monitors_fired", monitors.len() as u64);
    match &lean_error {
        Some(e) => j.str("lean_error", e),
        None => j.raw("lean_error", "null"),
    }
    j.raw(
        "loom_internal_errors",
        &json::str_array(
            loom_errors
                .iter()
                .map(|e| format!("{}: {}", e.prog.line(), e.loom.message.as_deref().unwrap_or("?")))
                .collect::<Vec<_>>()
                .iter()
                .map(|s| s.as_str()),
        ),
    );
    j.num("runtime_ms", start.elapsed().as_millis() as u64);
    let text = j.finish();

    match &args.out {
        Some(path) => {
            if let Some(dir) = std::path::Path::new(path).parent() {
                if !dir.as_os_str().is_empty() {
                    let _ = std::fs::create_dir_all(dir);
                }
            }
            std::fs::write(path, format!("{text}\n"))
                .unwrap_or_else(|e| internal(&format!("cannot write {path}: {e}")));
        }
        None => println!("{text}"),
    }

    eprintln!(
        "loomdrive: {} programs, {} loom iterations, {} monitor failure(s), {} impl-vs-model disagreement(s), outcome sets equal on {}/{}, {} ms",
        evals.len(),
        evals.iter().map(|e| e.loom.iterations).sum::<u64>(),
        monitors.len(),
        disagreements.len(),
        quick_equal,
        evals.len(),
        start.elapsed().as_millis()
    );
    for n in &notes {
        eprintln!("loomdrive: note: {n}");
    }
    for ev in &monitors {
        eprintln!(
            "loomdrive: MONITOR {} fired on `{}`{}: {}",
            ev.loom.verdict,
            ev.prog.line(),
            ev.shrunk_from.as_ref().map(|o| format!(" (shrunk from `{o}`)")).unwrap_or_default(),
            ev.loom.message.as_deref().unwrap_or("")
        );
    }
    if let Some(e) = &lean_error {
        eprintln!("loomdrive: lean driver unusable ({e}); loom runs and monitors only");
    }
    for ev in &loom_errors {
        eprintln!(
            "loomdrive: loom internal error on `{}`: {}",
            ev.prog.line(),
            ev.loom.message.as_deref().unwrap_or("?")
        );
    }
    for ev in &disagreements {
        eprintln!("loomdrive: DISAGREEMENT on `{}`: {}", ev.prog.line(), ev.problem.as_deref().unwrap_or(""));
        eprintln!(
            "  loom : verdict={} outcomes={}",
            ev.loom.verdict,
            set_str(&ev.loom.outcomes.keys().cloned().collect())
        );
        if let Some(m) = &ev.loom.message {
            eprintln!("  loom message: {m}");
        }
        if let Some(l) = &ev.lean {
            eprintln!("  model: verdict={} outcomes={}", l.verdict, set_str(&l.outcomes));
        }
    }
    if args.program.is_some() || args.verbose {
        for ev in &evals {
            println!(
                "{} => loom verdict={} iterations={} bound={} outcomes={}",
                ev.prog.line(),
                ev.loom.verdict,
                ev.loom.iterations,
                ev.loom.bound.map(|b| b.to_string()).unwrap_or_else(|| "none".into()),
                set_str(&ev.loom.outcomes.keys().cloned().collect())
            );
            if let Some(m) = &ev.loom.message {
                println!("  loom message: {m}");
            }
            if let Some(l) = &ev.lean {
                println!("  model verdict={} outcomes={}", l.verdict, set_str(&l.outcomes));
            }
        }
    }
    let code = if !monitors.is_empty() || !disagreements.is_empty() {
        1
    } else if lean_error.is_some() || !loom_errors.is_empty() {
        2
    } else {
        0
    };
    std::process::exit(code);
}
