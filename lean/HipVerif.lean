-- Root of the HipVerif library: every property module (and, through them, every model, spec,
-- generated file and lemma library).  `lake build` checks all proofs.
import HipVerif.Props.C01
import HipVerif.Props.C01Delegates
import HipVerif.Props.C02
import HipVerif.Props.C03
import HipVerif.Props.C04
import HipVerif.Props.C04Protocol
import HipVerif.Props.C05
import HipVerif.Props.C05Atomics
import HipVerif.Props.C06
import HipVerif.Props.C06Doors
import HipVerif.Props.C06Conv
import HipVerif.Props.C07
import HipVerif.Props.C08
import HipVerif.Props.C09
import HipVerif.Props.C10
import HipVerif.Props.C11
import HipVerif.Props.C11Core
import HipVerif.Props.C12
import HipVerif.Props.C13
import HipVerif.Props.C13Slots
import HipVerif.Props.C13Api
import HipVerif.Props.C14
import HipVerif.Props.C15
import HipVerif.Props.C16
import HipVerif.Props.C17
import HipVerif.Audit.Audit
