/-
Line-protocol driver for the string/bytes state machine (Model/Core.lean) and its std-side
specification (Spec/Std.lean).  First lines configure, then one operation per line:

  cfg <arc|rc|unique> <debug|release> <ceil> <icap> <slots>
  src <hex>                       (adds caller-owned memory; any time)
  reset                           (empties the pools and the heap, keeps cfg and the src list)
  <op …>                          (see `parseOp`)
  s_push_str h <hex> | s_push_char h <scalar> | s_pop h | s_truncate h n |
  s_try_slice h d SB EB | s_slice h d SB EB | s_from_utf8 d <hex>
                                  (the `HipStr` API proper: `HipVerif.Str.strStep`; `M ret=` is
                                  `char:<hex>`/`nochar`, `err:a:b:<kind>`, `utf8err:<valid_up_to>`,
                                  `panic` or the byte-level result; the spec pool follows the
                                  model's outcome: accepted = the byte-level op, rejected = unchanged
                                  and `S ret=rejected`)

For every line one output line:
  M ret=<ret> ev=<ai>,<fi>,<ab>,<fb>,<gb> | h<i>=<I|B|H>,<len>,<cap>,<uniq>,<cnt>,<vlen>,<blk>,<off>,<hex>,<taint> … || S ret=<ret> | p<i>=<hex> …
`M` is the representation model, `S` the specification run on the same operation (told the
model's representation-dependent answer).  Buffer ids are raw model ids (the harness
renumbers both sides by first appearance).
-/
import HipVerif.Model.Core
import HipVerif.Spec.Std
import HipVerif.Model.CoreStr

open HipVerif.Core HipVerif.RangeTy

def hexDigit (n : Nat) : Char := if n < 10 then Char.ofNat (48 + n) else Char.ofNat (87 + n)

def hexOf (bs : List UInt8) : String :=
  if bs.isEmpty then "-" else String.ofList (bs.flatMap fun b => [hexDigit (b.toNat / 16), hexDigit (b.toNat % 16)])

def hexVal (c : Char) : Option Nat :=
  if '0' ≤ c ∧ c ≤ '9' then some (c.toNat - 48)
  else if 'a' ≤ c ∧ c ≤ 'f' then some (c.toNat - 87)
  else none

def parseHexChars : List Char → Option (List UInt8)
  | [] => some []
  | a :: b :: rest => do
    let x ← hexVal a
    let y ← hexVal b
    let r ← parseHexChars rest
    pure (UInt8.ofNat (x * 16 + y) :: r)
  | _ => none

def parseHex (s : String) : Option (List UInt8) :=
  if s == "-" then some [] else parseHexChars s.toList

def parseBound (s : String) : Option Bound :=
  if s == "u" then some .unbounded
  else if s.startsWith "i" then (s.drop 1).toNat?.map .included
  else if s.startsWith "x" then (s.drop 1).toNat?.map .excluded
  else none

def parseVecOp (s : String) : Option VecOp :=
  if s == "c" then some .clear
  else if s.startsWith "t" then (s.drop 1).toNat?.map .truncate
  else if s.startsWith "e" then (parseHex (s.drop 1).toString).map .extend
  else if s.startsWith "p" then
    match parseHex (s.drop 1).toString with
    | some [b] => some (.push b)
    | _ => none
  else none

def parseScript (s : String) : Option (List VecOp) :=
  if s == "-" then some [] else (s.splitOn ",").mapM parseVecOp

def parseOp (toks : List String) : Option Op :=
  match toks with
  | ["new", d] => do pure (.new (← d.toNat?))
  | ["from_slice", d, x] => do pure (.fromSlice (← d.toNat?) (← parseHex x))
  | ["from_vec", d, x, c] => do pure (.fromVec (← d.toNat?) (← parseHex x) (← c.toNat?))
  | ["borrowed", d, s, o, l] => do pure (.borrowed (← d.toNat?) (← s.toNat?) (← o.toNat?) (← l.toNat?))
  | ["with_cap", d, n] => do pure (.withCapacity (← d.toNat?) (← n.toNat?))
  | ["inline", d, x] => do pure (.inline (← d.toNat?) (← parseHex x))
  | ["try_inline", d, x] => do pure (.tryInline (← d.toNat?) (← parseHex x))
  | ["clone", h, d] => do pure (.clone (← h.toNat?) (← d.toNat?))
  | ["slice", h, d, a, b] => do pure (.slice (← h.toNat?) (← d.toNat?) (← parseBound a) (← parseBound b))
  | ["try_slice", h, d, a, b] => do pure (.trySlice (← h.toNat?) (← d.toNat?) (← parseBound a) (← parseBound b))
  | ["try_slice_ref", h, d, sg, r, l] => do
    pure (.trySliceRef (← h.toNat?) (← d.toNat?) (sg == "n") (← r.toNat?) (← l.toNat?))
  | ["slice_ref", h, d, sg, r, l] => do
    pure (.sliceRef (← h.toNat?) (← d.toNat?) (sg == "n") (← r.toNat?) (← l.toNat?))
  | ["adopt", h, d, o, l] => do pure (.adopt (← h.toNat?) (← d.toNat?) (← o.toNat?) (← l.toNat?))
  | ["push", h, x] => do pure (.pushSlice (← h.toNat?) (← parseHex x))
  | ["pop", h] => do pure (.pop (← h.toNat?))
  | ["truncate", h, n] => do pure (.truncate (← h.toNat?) (← n.toNat?))
  | ["clear", h] => do pure (.clear (← h.toNat?))
  | ["shrink_to", h, n] => do pure (.shrinkTo (← h.toNat?) (← n.toNat?))
  | ["shrink_fit", h] => do pure (.shrinkToFit (← h.toNat?))
  | ["as_mut", h, i, x] => do
    match ← parseHex x with
    | [b] => pure (.asMutWrite (← h.toNat?) (← i.toNat?) b)
    | _ => none
  | ["to_mut", h, i, x] => do
    match ← parseHex x with
    | [b] => pure (.toMutWrite (← h.toNat?) (← i.toNat?) b)
    | _ => none
  | ["lower", h] => do pure (.makeAsciiLower (← h.toNat?))
  | ["upper", h] => do pure (.makeAsciiUpper (← h.toNat?))
  | ["to_lower", h, d] => do pure (.toAsciiLower (← h.toNat?) (← d.toNat?))
  | ["to_upper", h, d] => do pure (.toAsciiUpper (← h.toNat?) (← d.toNat?))
  | ["mutate", h, sc] => do pure (.mutate (← h.toNat?) (← parseScript sc))
  | ["mutate_leak", h, sc] => do pure (.mutateLeak (← h.toNat?) (← parseScript sc))
  | ["into_owned", h, d] => do pure (.intoOwned (← h.toNat?) (← d.toNat?))
  | ["into_vec", h] => do pure (.intoVec (← h.toNat?))
  | ["to_vec", h] => do pure (.toVec (← h.toNat?))
  | ["into_borrowed", h] => do pure (.intoBorrowed (← h.toNat?))
  | ["repeat", h, d, n] => do pure (.repeat (← h.toNat?) (← d.toNat?) (← n.toNat?))
  | ["spare", h] => do pure (.spareCapacity (← h.toNat?))
  | ["drop", h] => do pure (.drop (← h.toNat?))
  | _ => none

def showKind : SliceErrorKind → String
  | .startGreaterThanEnd => "StartGreaterThanEnd"
  | .startOutOfBounds => "StartOutOfBounds"
  | .endOutOfBounds => "EndOutOfBounds"

def showRet : Ret → String
  | .unit => "unit"
  | .optByte none => "nobyte"
  | .optByte (some b) => s!"byte:{hexOf [b]}"
  | .bool b => if b then "true" else "false"
  | .bytes bs => s!"bytes:{hexOf bs}"
  | .nat n => s!"nat:{n}"
  | .sliceErr a b k => s!"err:{a}:{b}:{showKind k}"
  | .none => "none"
  | .panic => "panic"
  | .badOp => "bad-op"

def countEv (evs : List Event) (p : Event → Bool) : Nat := (evs.filter p).length

def showEvents (evs : List Event) : String :=
  let ai := countEv evs fun e => match e with | .allocInner _ => true | _ => false
  let fi := countEv evs fun e => match e with | .freeInner _ => true | _ => false
  let ab := countEv evs fun e => match e with | .allocBuf .. => true | _ => false
  let fb := countEv evs fun e => match e with | .freeBuf _ => true | _ => false
  let gb := countEv evs fun e => match e with | .growBuf .. => true | _ => false
  s!"{ai},{fi},{ab},{fb},{gb}"

def showHandle (cfg : Cfg) (s : State) (i : Nat) (h : Handle) : String :=
  let v := view s h
  let t := if h.tainted then "1" else "0"
  match h.repr with
  | .inline _ => s!"h{i}=I,{v.length},{capacity cfg s h},1,-,-,-,-,{hexOf v},{t}"
  | .borrowed src off _ => s!"h{i}=B,{v.length},{capacity cfg s h},0,-,-,s{src},{off},{hexOf v},{t}"
  | .heap owner ptrBuf off _ =>
    let x := getI s owner
    let cnt := (x.map (·.count + 1)).getD 0
    let vlen := (x.map (·.data.length)).getD 0
    let u := if ownerUnique cfg s owner then "1" else "0"
    s!"h{i}=H,{v.length},{capacity cfg s h},{u},{cnt},{vlen},b{ptrBuf},{off},{hexOf v},{t}"

def showPool (cfg : Cfg) (s : State) : String :=
  let rec go (i : Nat) : List (Option Handle) → List String
    | [] => []
    | none :: rest => go (i + 1) rest
    | some h :: rest => showHandle cfg s i h :: go (i + 1) rest
  " ".intercalate (go 0 s.pool)

def showSpecPool (p : HipVerif.Spec.Std.SPool) : String :=
  let rec go (i : Nat) : List (Option (List UInt8)) → List String
    | [] => []
    | none :: rest => go (i + 1) rest
    | some v :: rest => s!"p{i}={hexOf v}" :: go (i + 1) rest
  " ".intercalate (go 0 p)

/-! ## the `HipStr`-level operations (`Model/CoreStr.lean`) -/

open HipVerif.Str in
def parseStrOp (toks : List String) : Option StrOp :=
  match toks with
  | ["s_push_str", h, x] => do pure (.pushStr (← h.toNat?) (← parseHex x))
  | ["s_push_char", h, c] => do pure (.pushChar (← h.toNat?) (← c.toNat?))
  | ["s_pop", h] => do pure (.popChar (← h.toNat?))
  | ["s_truncate", h, n] => do pure (.truncate (← h.toNat?) (← n.toNat?))
  | ["s_try_slice", h, d, a, b] => do pure (.trySlice (← h.toNat?) (← d.toNat?) (← parseBound a) (← parseBound b))
  | ["s_slice", h, d, a, b] => do pure (.slice (← h.toNat?) (← d.toNat?) (← parseBound a) (← parseBound b))
  | ["s_from_utf8", d, x] => do pure (.fromUtf8 (← d.toNat?) (← parseHex x))
  | _ => none

open HipVerif.Str in
def showStrRet : StrRet → String
  | .byte r => showRet r
  | .char none => "nochar"
  | .char (some bs) => s!"char:{hexOf bs}"
  | .sliceErr (.range a b k) => s!"err:{a}:{b}:{showKind k}"
  | .sliceErr (.startNotBoundary a b) => s!"err:{a}:{b}:StartNotACharBoundary"
  | .sliceErr (.endNotBoundary a b) => s!"err:{a}:{b}:EndNotACharBoundary"
  | .utf8Err n => s!"utf8err:{n}"
  | .panic => "panic"

open HipVerif.Str in
/-- the byte-level operation an ACCEPTED `HipStr` call performs -/
def strByteOp (s : State) : StrOp → Option Op
  | .byte op => some op
  | .pushStr h bs => some (.pushSlice h bs)
  | .pushChar h c => some (.pushSlice h (HipVerif.Utf8.encode c))
  | .popChar h => (getH s h).map fun hd => .truncate h (HipVerif.Utf8.lastCharStart (view s hd))
  | .truncate h n => some (.truncate h n)
  | .trySlice h d sb eb => some (.trySlice h d sb eb)
  | .slice h d sb eb => some (.slice h d sb eb)
  | .fromUtf8 d bs => some (.fromSlice d bs)

structure DState where
  cfg : Cfg
  s : State
  sp : HipVerif.Spec.Std.SPool

def parseCfg (toks : List String) : Option DState :=
  match toks with
  | ["cfg", b, d, ceil, icap, slots] => do
    let backend ← (match b with | "arc" => some Backend.arc | "rc" => some .rc | "unique" => some .unique | _ => none)
    let n ← slots.toNat?
    pure {
      cfg := { backend := backend, ceil := ← ceil.toNat?, debug := d == "debug", icap := ← icap.toNat? },
      s := init [] n,
      sp := List.replicate n none }
  | _ => none

def stepLine (ds : DState) (line : String) : DState × String :=
  let toks := (line.trimAscii.toString.splitOn " ").filter (· ≠ "")
  match toks with
  | "cfg" :: _ =>
    match parseCfg toks with
    | some ds' => (ds', "ok")
    | none => (ds, "bad-op")
  | ["reset"] =>
    -- same configuration and caller memory, empty pools, fresh heap (one line per sequence)
    let n := ds.s.pool.length
    ({ ds with s := init ds.s.srcs n, sp := List.replicate n none }, "ok")
  | ["src", x] =>
    match parseHex x with
    | some bs => ({ ds with s := { ds.s with srcs := ds.s.srcs ++ [bs] } }, "ok")
    | none => (ds, "bad-op")
  | _ =>
    match parseOp toks with
    | some op =>
      let (s', o) := step ds.cfg ds.s op
      let (sp', r) := HipVerif.Spec.Std.step ds.cfg.icap ds.s.srcs ds.sp op (HipVerif.Spec.Std.retFlag o.ret)
      ({ ds with s := s', sp := sp' },
        s!"M ret={showRet o.ret} ev={showEvents o.events} | {showPool ds.cfg s'} || S ret={showRet r} | {showSpecPool sp'}")
    | none =>
      match parseStrOp toks with
      | some sop =>
        let (s', r) := HipVerif.Str.strStep ds.cfg ds.s sop
        let bop := strByteOp ds.s sop
        let accepted : Bool :=
          match r with
          | .byte .badOp => false
          | .byte _ => true
          | .char (some _) => true
          | _ => false
        -- `strStep` keeps the result only: the events are those of the byte-level op it ran
        let evs : List Event :=
          match accepted, bop with
          | true, some op => (step ds.cfg ds.s op).2.events
          | _, _ => []
        let (sp', sret) : HipVerif.Spec.Std.SPool × String :=
          match r, bop with
          | .byte .badOp, _ => (ds.sp, "bad-op")
          | .byte br, some op =>
            let (sp1, sr) := HipVerif.Spec.Std.step ds.cfg.icap ds.s.srcs ds.sp op (HipVerif.Spec.Std.retFlag br)
            (sp1, showRet sr)
          | .char (some _), some (.truncate h _) =>
            -- spec side of `pop`: cut the last scalar of the SPEC's value
            match HipVerif.Spec.Std.sget ds.sp h with
            | some v =>
              let i := HipVerif.Utf8.lastCharStart v
              let (sp1, _) := HipVerif.Spec.Std.step ds.cfg.icap ds.s.srcs ds.sp (.truncate h i) true
              (sp1, s!"char:{hexOf (v.drop i)}")
            | none => (ds.sp, "bad-op")
          | .char none, _ => (ds.sp, "nochar")
          | _, _ => (ds.sp, "rejected")
        ({ ds with s := s', sp := sp' },
          s!"M ret={showStrRet r} ev={showEvents evs} | {showPool ds.cfg s'} || S ret={sret} | {showSpecPool sp'}")
      | none => (ds, "bad-op")

partial def loop (h out : IO.FS.Stream) (ds : DState) : IO Unit := do
  let line ← h.getLine
  if line.isEmpty then return ()
  let (ds', o) := stepLine ds line
  out.putStrLn o
  out.flush
  loop h out ds'

def main : IO Unit := do
  let cfg : Cfg := { backend := .arc, ceil := 2 ^ 64 - 2, debug := false, icap := 23 }
  loop (← IO.getStdin) (← IO.getStdout) { cfg := cfg, s := init [] 8, sp := List.replicate 8 none }
