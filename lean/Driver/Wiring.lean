/-
Search-on-breakage driver for the C11 wiring table (`Gen/Wiring.lean`).

  wiring_driver rows    prints one line per falsifying row of `wiring_ok` / `iter_forwarding_ok` /
                        `coverage` (`<file:line> <what>`), or `none`
  wiring_driver count   prints the number of rows of each kind
  wiring_driver forwards  the iterator methods `IterWrapper` defines (patdrive compares `size_hint`
                        with std's only when it is among them)

Without an argument the commands are read from stdin, one per line (line protocol).
-/
import HipVerif.Gen.Wiring

open HipVerif.Wiring
open HipVerif.Gen.Wiring (tables table)

def badRows : List String :=
  let t := tables
  (table.filter (fun r => !rowOk t r)).map (fun r => s!"{r.loc} {r.describe}")
  ++ (t.forwards.filter (fun f => !fwdOk f)).map (fun f => s!"{f.loc} {f.describe}")
  ++ (t.iterTypes.filter (fun it => !knownIterTypes.contains it.1)).map
      (fun it => s!"{it.2} coverage: unclassified iterator type `{it.1}`")
  ++ (["next", "next_back"].filter (fun m => (t.forwards.filter (·.method == m)).length != 1)).map
      (fun m => s!"{t.iterNew.loc} IterWrapper has {(t.forwards.filter (·.method == m)).length} `{m}` methods (expected 1)")
  ++ (if newOk t.iterNew then [] else [s!"{t.iterNew.loc} IterWrapper::new does not store (source, inner) as given"])
  ++ (requiredWrappers.filter (fun m => (t.wrappers.filter (·.name == m)).length != 1)).map
      (fun m => s!"src/string.rs:0 coverage: {(t.wrappers.filter (·.name == m)).length} wrapper rows for `{m}` (expected 1)")
  ++ (requiredPatternTypes.filter (fun (ty, lvl) =>
        !t.invocations.any (fun i => i.ty == ty && armLevel lvl ≤ armLevel i.arm
          && (ty != "F" || i.whereCl == "F:(FnMut(char)->bool)+Sized")))).map
      (fun (ty, lvl) => s!"src/string/pattern.rs:0 coverage: no impl_pat!({lvl}) invocation for `{ty}`")

def step (cmd : String) : List String :=
  match cmd with
  | "rows" => if badRows.isEmpty then ["none"] else badRows
  | "forwards" => [" ".intercalate (tables.forwards.map (·.method))]
  | "count" =>
    let t := tables
    [s!"rows={table.length} wrappers={t.wrappers.length} arms={t.arms.length} chain={t.chain.length} " ++
     s!"invocations={t.invocations.length} traits={t.traits.length} adopts={t.adopts.length} " ++
     s!"forwards={t.forwards.length} bad={badRows.length}"]
  | _ => ["bad-op"]

partial def loop (h out : IO.FS.Stream) : IO Unit := do
  let line ← h.getLine
  if line.isEmpty then return ()
  -- one output line per input line: several falsifying rows are joined with " | "
  out.putStrLn (" | ".intercalate (step line.trimAscii.toString))
  out.flush
  loop h out

def main (args : List String) : IO UInt32 := do
  match args with
  | [] => loop (← IO.getStdin) (← IO.getStdout); return 0
  | cmd :: _ =>
    let out := step cmd
    for l in out do IO.println l
    return (if out == ["bad-op"] then 2 else 0)
