/-
Line-protocol driver for the L0 slot model (C14/C15).
  config : `ivec <cap>` | `tvec <elem-size> <reserved|tracked>`
  fault  : `panic_at <k>`   (applies to the next operation only)
  ops    : push try_push pop insert i try_insert i remove i swap_remove i truncate n clear resize n
           resize_with n ext_slice n ext_within a b ext_iter hint n clone append n split_off i
           drain a b <script> into_iter <script> reserve n shrink_fit roundtrip drop
           pop_if t|f from_iter hint n
           `ext_iter` / `from_iter` take an optional 4th token (`-`, `=`, `+k`: the upper bound
           of the scripted size hint); the code under test never reads the upper bound, the model
           ignores it
           script = pulls n (next) b (next_back) N<k> (nth k) M<k> (nth_back k) s<k> (skip(k).next()
           = nth k) t<k> (two pulls of step_by(k) = next, nth (k-1)) r (rev().next() = next_back),
           then one terminal: d (drop) l (mem::forget) L (last) C (count) F (fold with a user
           closure) R (rfold), e.g. `nN1bC`
  output : `<ret> | len=<n> | cap=<n> | ids=<…> | calls=<n> | trace: <events of this step>`
           ids canonicalised in order of first appearance over the whole run.
-/
import HipVerif.Model.Slots
open HipVerif.Slots

structure Canon where
  ids : List (Nat × Nat) := []
  bufs : List (Nat × Nat) := []

def Canon.id (c : Canon) (a : Nat) : Nat × Canon :=
  match c.ids.lookup a with
  | some k => (k, c)
  | none => (c.ids.length, { c with ids := c.ids ++ [(a, c.ids.length)] })

def Canon.buf (c : Canon) (a : Nat) : Nat × Canon :=
  match c.bufs.lookup a with
  | some k => (k, c)
  | none => (c.bufs.length, { c with bufs := c.bufs ++ [(a, c.bufs.length)] })

def showEv (c : Canon) : Ev → String × Canon
  | .mk a => let (k, c) := c.id a; (s!"mk {k}", c)
  | .clone a b => let (k, c) := c.id a; let (l, c) := c.id b; (s!"cl {k}>{l}", c)
  | .drop a => let (k, c) := c.id a; (s!"dr {k}", c)
  | .ret a => let (k, c) := c.id a; (s!"rt {k}", c)
  | .allocBuf b => let (k, c) := c.buf b; (s!"alloc {k}", c)
  | .freeBuf b => let (k, c) := c.buf b; (s!"free {k}", c)
  | .oob => ("oob", c)
  | .doubleDrop a => let (k, c) := c.id a; (s!"BAD-double-drop {k}", c)
  | .dropUninit => ("BAD-drop-uninit", c)
  | .readUninit => ("BAD-read-uninit", c)
  | .doubleFree b => let (k, c) := c.buf b; (s!"BAD-double-free {k}", c)

def showEvs (c : Canon) : List Ev → List String × Canon
  | [] => ([], c)
  | e :: es => let (x, c) := showEv c e; let (xs, c) := showEvs c es; (x :: xs, c)

def showIds (c : Canon) : List Slot → List String × Canon
  | [] => ([], c)
  | .uninit :: xs => let (r, c) := showIds c xs; ("U" :: r, c)
  | .init a :: xs => let (k, c) := c.id a; let (r, c) := showIds c xs; (toString k :: r, c)

def showRet (c : Canon) : Ret → String × Canon
  | .unit => ("ok", c)
  | .none => ("none", c)
  | .some a => let (k, c) := c.id a; (s!"some:{k}", c)
  | .errFull a => let (k, c) := c.id a; (s!"err:full:{k}", c)
  | .errOob a => let (k, c) := c.id a; (s!"err:oob:{k}", c)
  | .panic => ("panic", c)
  | .na => ("na", c)

/-- script letters: `n` next, `b` next_back, `N<k>` nth(k), `M<k>` nth_back(k), `s<k>`
skip(k).next() (= nth k), `t<k>` two pulls of step_by(k) (= next, nth (k-1)), `r` rev().next()
(= next_back); last letter: `d` drop, `l` leak (mem::forget), `L` last(), `C` count(), `F`
fold/for_each, `R` rfold -/
def parseSteps : Nat → List Char → Option (List IStep)
  | _, [] => some []
  | 0, _ => none
  | fuel + 1, c :: rest =>
    let digits := rest.takeWhile Char.isDigit
    let rest' := rest.dropWhile Char.isDigit
    let k := (String.ofList digits).toNat?.getD 0
    match parseSteps fuel rest' with
    | none => none
    | some r =>
      match c with
      | 'n' => if digits.isEmpty then some (.front :: r) else none
      | 'b' => if digits.isEmpty then some (.back :: r) else none
      | 'r' => if digits.isEmpty then some (.back :: r) else none
      | 'N' => some (.nth k :: r)
      | 'M' => some (.nthBack k :: r)
      | 's' => some (.nth k :: r)
      | 't' => if k = 0 then none else some (.front :: .nth (k - 1) :: r)
      | _ => none

def parseScript (w : String) : Option (List IStep × IFin) :=
  let cs := w.toList
  let fin : Option IFin :=
    match cs.getLast? with
    | some 'd' => some .drop
    | some 'l' => some .leak
    | some 'L' => some .last
    | some 'C' => some .count
    | some 'F' => some .fold
    | some 'R' => some .rfold
    | _ => none
  match fin, parseSteps cs.length cs.dropLast with
  | some f, some st => some (st, f)
  | _, _ => none

def parseOp (ws : List String) : Option Op :=
  match ws with
  | ["push"] => some .push
  | ["try_push"] => some .tryPush
  | ["pop"] => some .pop
  | ["pop_if", "t"] => some (.popIf true)
  | ["pop_if", "f"] => some (.popIf false)
  | ["from_iter", h, n] => do some (.fromIter (← h.toNat?) (← n.toNat?))
  | ["from_iter", h, n, _hi] => do some (.fromIter (← h.toNat?) (← n.toNat?))
  | ["insert", i] => i.toNat?.map .insert
  | ["try_insert", i] => i.toNat?.map .tryInsert
  | ["remove", i] => i.toNat?.map .remove
  | ["swap_remove", i] => i.toNat?.map .swapRemove
  | ["truncate", n] => n.toNat?.map .truncate
  | ["clear"] => some .clear
  | ["resize", n] => n.toNat?.map .resize
  | ["resize_with", n] => n.toNat?.map .resizeWith
  | ["ext_slice", n] => n.toNat?.map .extSlice
  | ["ext_within", a, b] => do some (.extWithin (← a.toNat?) (← b.toNat?))
  | ["ext_iter", h, n] => do some (.extIter (← h.toNat?) (← n.toNat?))
  | ["ext_iter", h, n, _hi] => do some (.extIter (← h.toNat?) (← n.toNat?))
  | ["clone"] => some .clone
  | ["append", n] => n.toNat?.map .append
  | ["split_off", i] => i.toNat?.map .splitOff
  | ["drain", a, b, sc] => do
      let (st, f) ← parseScript sc
      some (.drain (← a.toNat?) (← b.toNat?) st f)
  | ["into_iter", sc] => do
      let (st, f) ← parseScript sc
      some (.intoIter st f)
  | ["reserve", n] => n.toNat?.map .reserve
  | ["shrink_fit"] => some .shrinkFit
  | ["roundtrip"] => some .roundtrip
  | ["drop"] => some .dropVec
  | _ => none

structure DState where
  st : Option St := none
  canon : Canon := {}
  fault : Option Nat := none
  seen : Nat := 0      -- number of trace events already printed

def observe (d : DState) (r : Ret) (s : St) : String × DState :=
  let evs := (s.mem.trace.take (s.mem.trace.length - d.seen)).reverse
  let (rs, c) := showRet d.canon r
  let (es, c) := showEvs c evs
  let (is, c) := showIds c (s.v.range 0 s.v.len)
  let line := s!"{rs} | len={s.v.len} | cap={s.v.cap} | ids={if is.isEmpty then "-" else ",".intercalate is} | calls={s.mem.calls} | trace: {if es.isEmpty then "-" else " ; ".intercalate es}"
  (line, { d with st := some s, canon := c, seen := s.mem.trace.length, fault := none })

def handle (d : DState) (line : String) : String × DState :=
  let ws := (line.trimAscii.toString.splitOn " ").filter (· ≠ "")
  match ws with
  | ["ivec", c] =>
    match c.toNat? with
    | some c => observe { d with seen := 0, canon := {} } .unit (initInline c)
    | none => ("error: bad config", d)
  | ["tvec", e, p] =>
    match e.toNat?, p with
    | some e, "reserved" => observe { d with seen := 0, canon := {} } .unit (initThin e false)
    | some e, "tracked" => observe { d with seen := 0, canon := {} } .unit (initThin e true)
    | _, _ => ("error: bad config", d)
  | ["panic_at", k] =>
    match k.toNat? with
    | some k => ("ok", { d with fault := some k })
    | none => ("error: bad panic_at", d)
  | _ =>
    match d.st, parseOp ws with
    | some s, some op =>
      let s := { s with mem := { s.mem with calls := 0 } }
      let (r, s) := step d.fault op s
      observe d r s
    | none, _ => ("error: no config", d)
    | _, none => ("error: bad op", d)

partial def loop (h : IO.FS.Stream) (out : IO.FS.Stream) (d : DState) : IO Unit := do
  let line ← h.getLine
  if line.isEmpty then return
  let (o, d) := handle d line
  out.putStrLn o
  out.flush
  loop h out d

def main : IO Unit := do
  let i ← IO.getStdin
  let o ← IO.getStdout
  loop i o {}
