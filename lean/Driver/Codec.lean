/-
  Line-protocol driver for the serialisation model (property C16).  One line in, one line out.

    borsh_ser <hex>                              -> <hex>
    borsh_de <byt|str> <hex>                     -> ok <hex> rest=<hex> maxreq=<n>
                                                  | err <eof|invalid> maxreq=<n>
    visit <entry> <token-kind> <hex> [hint]      -> ok <hex> borrowed=<0|1> [reserve=<n>]
                                                  | err <invalid_value|invalid_type|element|custom|no_impl> [reserve=<n>]
        (`reserve=` = capacity reserved up front on the sequence path, printed for seq tokens
         whenever the visitor has a `visit_seq`)
        entry      = byt_owned | byt_borrowed | str_owned | str_borrowed | path_owned | path_borrowed
        token-kind = str | borrowed_str | string | bytes | borrowed_bytes | byte_buf | char
                   | seq | seq_bad (the bytes, then one element that is not a u8) | other
    ser <byt|str|os|path> <hex>                  -> bytes <hex> | str <hex> | os_unix <hex> | err
    bstr <bstr_ref|bstring|cow_borrowed|cow_owned> <byt|str> <hex>
                                                 -> ok <hex> borrowed=<0|1> | err invalid_value | err no_impl
    hint <entry>                                 -> deserialize_bytes | deserialize_byte_buf | deserialize_str
                                                  | deserialize_string | deserialize_seq | deserialize_any | none
        (the `Deserializer` method the entry point calls according to the generated table;
         entry also accepts os_owned: `none` = left to std's `OsString`)
    rows                                         -> rows <n-bad> <file:line>=ok|BAD ...

  Hex is lower-case, `-` for the empty string.  Unknown input -> `?`.
-/
import HipVerif.Model.Codec
import HipVerif.Model.Utf8

namespace HipVerif.Driver.Codec
open HipVerif.Codec HipVerif.Spec.Codec

/-- UTF-8 well-formedness: the model of `core::str::from_utf8` of property C06. -/
def valid : List UInt8 → Bool := HipVerif.Utf8.valid

/-! Hex -/

def hexDigit (n : Nat) : Char :=
  if n < 10 then Char.ofNat (48 + n) else Char.ofNat (87 + n)

def toHex (bs : List UInt8) : String :=
  if bs.isEmpty then "-"
  else String.ofList (bs.flatMap fun b => [hexDigit (b.toNat / 16), hexDigit (b.toNat % 16)])

def hexVal (c : Char) : Option Nat :=
  if '0' ≤ c && c ≤ '9' then some (c.toNat - 48)
  else if 'a' ≤ c && c ≤ 'f' then some (c.toNat - 87)
  else none

def fromHexChars : List Char → Option (List UInt8)
  | [] => some []
  | [_] => none
  | a :: b :: rest => do
    let x ← hexVal a
    let y ← hexVal b
    let tl ← fromHexChars rest
    pure (UInt8.ofNat (16 * x + y) :: tl)

def fromHex (s : String) : Option (List UInt8) :=
  if s == "-" then some [] else fromHexChars s.toList

/-! Commands -/

def errName : Err → String
  | .eof => "eof"
  | .invalidData => "invalid"
  | .invalidValue => "invalid_value"
  | .invalidType => "invalid_type"
  | .element => "element"
  | .custom => "custom"
  | .noImpl => "no_impl"

def kindOf : String → Option HipKind
  | "byt" => some .byt | "str" => some .str | "os" => some .os | "path" => some .path
  | _ => none

def entryOf : String → Option (HipKind × Entry)
  | "byt_owned" => some (.byt, .owned) | "byt_borrowed" => some (.byt, .borrowing)
  | "str_owned" => some (.str, .owned) | "str_borrowed" => some (.str, .borrowing)
  | "path_owned" => some (.path, .owned) | "path_borrowed" => some (.path, .borrowing)
  | _ => none

def tokenOf (kind : String) (p : List UInt8) (hint : Option Nat) : Option Token :=
  match kind with
  | "str" => some (.str p) | "borrowed_str" => some (.borrowedStr p) | "string" => some (.string p)
  | "bytes" => some (.bytes p) | "borrowed_bytes" => some (.borrowedBytes p)
  | "byte_buf" => some (.byteBuf p) | "char" => some (.char p)
  | "seq" => some (.seq hint (p.map some))
  | "seq_bad" => some (.seq hint (p.map some ++ [none]))
  | "other" => some .other
  | _ => none

/-- The visitor behind an entry point (for `reserve=`). -/
def visitorOf (k : HipKind) (e : Entry) : Option VisitorRow :=
  let k' := if k == .path then HipKind.str else k
  match findDe Gen.Visitors.deRows k' e with
  | some r =>
    match r.target with
    | .visitor _ id => findVisitor Gen.Visitors.visitors id
    | _ => none
  | none => none

def showVisit (r : Except Err (List UInt8 × Bool)) (reserve : Option Nat) : String :=
  match r with
  | .ok (c, br) =>
    s!"ok {toHex c} borrowed={if br then 1 else 0}" ++
      (match reserve with | some n => s!" reserve={n}" | none => "")
  | .error e =>
    s!"err {errName e}" ++ (match reserve with | some n => s!" reserve={n}" | none => "")

def bstrSrcOf : String → Option BstrSrc
  | "bstr_ref" => some .bstrRef | "bstring" => some .bstring
  | "cow_borrowed" => some .cowBorrowed | "cow_owned" => some .cowOwned
  | _ => none

def rowsLine : String :=
  let rep := rowReport
  let bad := (rep.filter (!·.2)).length
  let items := rep.map fun (l, ok) => (l.replace " " "_") ++ (if ok then "=ok" else "=BAD")
  s!"rows {bad} " ++ " ".intercalate items

def handle (line : String) : String :=
  match line.trimAscii.toString.splitOn " " with
  | ["borsh_ser", h] =>
    match fromHex h with
    | some b => toHex (ser b)
    | none => "?"
  | ["borsh_de", k, h] =>
    match kindOf k, fromHex h with
    | some kind, some input =>
      let o := borshDe valid Gen.Visitors.borshDeRows kind input
      match o.result with
      | .ok (c, rest) => s!"ok {toHex c} rest={toHex rest} maxreq={o.maxRequest}"
      | .error e => s!"err {errName e} maxreq={o.maxRequest}"
    | _, _ => "?"
  | "visit" :: en :: tk :: h :: rest =>
    let hint : Option Nat := match rest with | [n] => n.toNat? | _ => none
    match entryOf en, fromHex h with
    | some (k, e), some p =>
      match tokenOf tk p hint with
      | some t =>
        let r := deserialize valid (fun _ => .error .custom) k e t
        let reserve := (visitorOf k e).bind (visitReserve · t)
        showVisit r reserve
      | none => "?"
    | _, _ => "?"
  | ["ser", k, h] =>
    match kindOf k, fromHex h with
    | some kind, some c =>
      match serialize valid kind c with
      | some (.bytes b) => s!"bytes {toHex b}"
      | some (.str s) => s!"str {toHex s}"
      | some (.osUnix b) => s!"os_unix {toHex b}"
      | some .error => "err"
      | none => "err no_impl"
    | _, _ => "?"
  | ["bstr", src, k, h] =>
    match bstrSrcOf src, kindOf k, fromHex h with
    | some s, some kind, some p =>
      match Gen.Visitors.bstrRows.find? (fun r => r.src == s && r.kind == kind) with
      | some r => showVisit (bstrConv valid r p) none
      | none => "err no_impl"
    | _, _, _ => "?"
  | ["hint", en] =>
    let ke : Option (HipKind × Entry) := if en == "os_owned" then some (.os, .owned) else entryOf en
    match ke with
    | some (k, e) =>
      match entryHint Gen.Visitors.deRows k e with
      | some .bytes => "deserialize_bytes"
      | some .byteBuf => "deserialize_byte_buf"
      | some .str => "deserialize_str"
      | some .string => "deserialize_string"
      | some .seq => "deserialize_seq"
      | some .any => "deserialize_any"
      | none => "none"
    | none => "?"
  | ["rows"] => rowsLine
  | _ => "?"

partial def loop (stdin stdout : IO.FS.Stream) : IO Unit := do
  let line ← stdin.getLine
  if line.isEmpty then return
  stdout.putStrLn (handle line)
  stdout.flush
  loop stdin stdout

end HipVerif.Driver.Codec

def main : IO Unit := do
  let stdin ← IO.getStdin
  let stdout ← IO.getStdout
  HipVerif.Driver.Codec.loop stdin stdout
