/-
  Line-protocol driver for the UTF-8 model (suite `utf8`, property C06).

  One answer line per input line.  Operations (bytes as lower-case hex, `-` = empty):
    valid <hex>         → 1 | 0          (`core::str::from_utf8(..).is_ok()`)
    boundary <hex> <i>  → 1 | 0          (`str::is_char_boundary`, model does not need validity)
    upto <hex>          → n              (`Utf8Error::valid_up_to`, = len when valid)
    errlen <hex>        → none | n       (`Utf8Error::error_len`, meaningful when invalid)
    last <hex>          → n              (`char_indices().next_back()` start index)
    first <hex>         → n              (length of the first scalar, 0 if none)
    encode <scalar>     → hex            (`char::encode_utf8`, decimal scalar)
    decode <hex>        → n              (scalar value of the first sequence)
    scalar <n>          → 1 | 0          (`char::from_u32(n).is_some()`)
    lower <hex> / upper <hex> → hex      (`make_ascii_lowercase/uppercase`)
    lossy <hex>         → hex            (`String::from_utf8_lossy`)
  anything else → `bad-op`.
  Batching: several operations may be put on one line separated by `;`; the answers come
  back on one line joined by `;`.
-/
import HipVerif.Model.Utf8

open HipVerif.Utf8

namespace Driver.Utf8

def hexDigit (c : Char) : Option Nat :=
  if '0' ≤ c ∧ c ≤ '9' then some (c.toNat - '0'.toNat)
  else if 'a' ≤ c ∧ c ≤ 'f' then some (c.toNat - 'a'.toNat + 10)
  else if 'A' ≤ c ∧ c ≤ 'F' then some (c.toNat - 'A'.toNat + 10)
  else none

def unhexAux : List Char → List UInt8 → Option (List UInt8)
  | [], acc => some acc.reverse
  | [_], _ => none
  | a :: b :: rest, acc =>
    match hexDigit a, hexDigit b with
    | some x, some y => unhexAux rest (UInt8.ofNat (x * 16 + y) :: acc)
    | _, _ => none

def unhex (s : String) : Option (List UInt8) :=
  if s == "-" then some [] else unhexAux s.toList []

def hexChar (n : Nat) : Char :=
  if n < 10 then Char.ofNat ('0'.toNat + n) else Char.ofNat ('a'.toNat + n - 10)

def hex (bs : List UInt8) : String :=
  if bs.isEmpty then "-"
  else String.ofList (bs.flatMap fun b => [hexChar (b.toNat / 16), hexChar (b.toNat % 16)])

def bit (b : Bool) : String := if b then "1" else "0"

def runOp (op : String) : String :=
  match (op.trimAscii.toString.splitOn " ").filter (· ≠ "") with
  | ["valid", h] => match unhex h with | some s => bit (valid s) | none => "bad-op"
  | ["boundary", h, i] =>
    match unhex h, i.toNat? with
    | some s, some i => bit (isBoundary s i)
    | _, _ => "bad-op"
  | ["upto", h] => match unhex h with | some s => toString (validUpTo s) | none => "bad-op"
  | ["errlen", h] =>
    match unhex h with
    | some s => (match errorLen s with | some k => toString k | none => "none")
    | none => "bad-op"
  | ["last", h] => match unhex h with | some s => toString (lastCharStart s) | none => "bad-op"
  | ["first", h] => match unhex h with | some s => toString (firstCharLen s) | none => "bad-op"
  | ["encode", c] => match c.toNat? with | some c => hex (encode c) | none => "bad-op"
  | ["decode", h] => match unhex h with | some s => toString (decode s) | none => "bad-op"
  | ["scalar", c] => match c.toNat? with | some c => bit (isScalar c) | none => "bad-op"
  | ["lower", h] => match unhex h with | some s => hex (s.map asciiLower) | none => "bad-op"
  | ["upper", h] => match unhex h with | some s => hex (s.map asciiUpper) | none => "bad-op"
  | ["lossy", h] => match unhex h with | some s => hex (decodeLossy s) | none => "bad-op"
  | _ => "bad-op"

def runLine (line : String) : String :=
  ";".intercalate ((line.splitOn ";").map runOp)

partial def loop (hin hout : IO.FS.Stream) : IO Unit := do
  let line ← hin.getLine
  if line.isEmpty then return ()
  hout.putStrLn (runLine line)
  hout.flush
  loop hin hout

end Driver.Utf8

def main : IO Unit := do
  let hin ← IO.getStdin
  let hout ← IO.getStdout
  Driver.Utf8.loop hin hout
