/-
  Line-protocol driver for the UTF-8 model (suite `utf8`, property C06).

  One answer line per input line.  Operations (bytes as lower-case hex, `-` = empty):
    valid <hex>         → 1 | 0          (`core::str::from_utf8(..).is_ok()`)
    boundary <hex> <i>  → 1 | 0          (`str::is_char_boundary`, model does not need validity)
    upto <hex>          → n              (`Utf8Error::valid_up_to`, = len when valid)
    errlen <hex>        → none | n       (`Utf8Error::error_len`, meaningful when invalid)
    last <hex>          → n              (`char_indices().next_back()` start index)
    first <hex>         → n              (length of the first scalar, 0 if none)
    encode <scalar>     → hex            (`char::encode_utf8`, decimal scalar)
    decode <hex>        → n              (scalar value of the first sequence)
    scalar <n>          → 1 | 0          (`char::from_u32(n).is_some()`)
    lower <hex> / upper <hex> → hex      (`make_ascii_lowercase/uppercase`)
    lossy <hex>         → hex            (`String::from_utf8_lossy`)
  Conversion doors (C06, `Model/Utf8Conv.lean`; UTF-16 as hex of big-endian 16-bit units):
    tostr <hex>         → some:<hex> | none         (`OsStr::to_str`, `HipOsStr::to_str`)
    intostr <hex>       → ok:<hex> | err:<hex>      (`into_str`: Err hands the value back)
    fromutf8 <hex>      → ok:<hex> | err:<upto>:<hex> (`from_utf8`, `TryFrom<bytes>`)
    utf16 <hex16>       → ok:<hex> | err            (`String::from_utf16`)
    utf16lossy <hex16>  → hex                       (`String::from_utf16_lossy`)
    unpaired <hex16>    → 1 | 0                     (`hasUnpairedSurrogate false`)
  Door table (`Model/DoorCalls.lean`, names separated by `|`, `-` = none):
    doors               → every row of Gen/Doors that needs a differential, `<name>\t<must|may>`
    doorcalls / doorskips → the reviewed copy of doordrive's call table / skip list
    dooruncovered       → rows with neither call nor skip, and "must" rows that are not called
  anything else → `bad-op`.
  Batching: several operations may be put on one line separated by `;`; the answers come
  back on one line joined by `;`.
-/
import HipVerif.Model.Utf8
import HipVerif.Model.Utf8Conv
import HipVerif.Model.DoorCalls

open HipVerif.Utf8

namespace Driver.Utf8

def hexDigit (c : Char) : Option Nat :=
  if '0' ≤ c ∧ c ≤ '9' then some (c.toNat - '0'.toNat)
  else if 'a' ≤ c ∧ c ≤ 'f' then some (c.toNat - 'a'.toNat + 10)
  else if 'A' ≤ c ∧ c ≤ 'F' then some (c.toNat - 'A'.toNat + 10)
  else none

def unhexAux : List Char → List UInt8 → Option (List UInt8)
  | [], acc => some acc.reverse
  | [_], _ => none
  | a :: b :: rest, acc =>
    match hexDigit a, hexDigit b with
    | some x, some y => unhexAux rest (UInt8.ofNat (x * 16 + y) :: acc)
    | _, _ => none

def unhex (s : String) : Option (List UInt8) :=
  if s == "-" then some [] else unhexAux s.toList []

def hexChar (n : Nat) : Char :=
  if n < 10 then Char.ofNat ('0'.toNat + n) else Char.ofNat ('a'.toNat + n - 10)

def hex (bs : List UInt8) : String :=
  if bs.isEmpty then "-"
  else String.ofList (bs.flatMap fun b => [hexChar (b.toNat / 16), hexChar (b.toNat % 16)])

def bit (b : Bool) : String := if b then "1" else "0"

def unhex16 (s : String) : Option (List UInt16) :=
  match unhex s with
  | none => none
  | some bs =>
    let rec go : List UInt8 → List UInt16 → Option (List UInt16)
      | [], acc => some acc.reverse
      | [_], _ => none
      | a :: b :: rest, acc => go rest (UInt16.ofNat (a.toNat * 256 + b.toNat) :: acc)
    go bs []

def joinBar (xs : List String) : String := if xs.isEmpty then "-" else "|".intercalate xs

open HipVerif.Model.Doors in
def doorsNeeded : String :=
  joinBar ((HipVerif.Gen.Doors.doors.filter needsDifferential).map fun d =>
    d.name ++ "\t" ++ (if mustBeCalled d then "must" else "may"))

open HipVerif.Model.Doors in
def keyNames (ks : List Nat) : String := joinBar (ks.map HipVerif.Model.PubFns.decKey)

open HipVerif.Model.Doors in
def doorUncovered : String :=
  joinBar ((uncoveredDoors.map fun d => "uncovered " ++ d.name ++ " @ " ++ d.loc) ++
    (uncalledMustDoors.map fun d => "must-call " ++ d.name ++ " @ " ++ d.loc) ++
    (staleDoorCalls.map fun k => "stale " ++ HipVerif.Model.PubFns.decKey k))

def runOp (op : String) : String :=
  match (op.trimAscii.toString.splitOn " ").filter (· ≠ "") with
  | ["valid", h] => match unhex h with | some s => bit (valid s) | none => "bad-op"
  | ["boundary", h, i] =>
    match unhex h, i.toNat? with
    | some s, some i => bit (isBoundary s i)
    | _, _ => "bad-op"
  | ["upto", h] => match unhex h with | some s => toString (validUpTo s) | none => "bad-op"
  | ["errlen", h] =>
    match unhex h with
    | some s => (match errorLen s with | some k => toString k | none => "none")
    | none => "bad-op"
  | ["last", h] => match unhex h with | some s => toString (lastCharStart s) | none => "bad-op"
  | ["first", h] => match unhex h with | some s => toString (firstCharLen s) | none => "bad-op"
  | ["encode", c] => match c.toNat? with | some c => hex (encode c) | none => "bad-op"
  | ["decode", h] => match unhex h with | some s => toString (decode s) | none => "bad-op"
  | ["scalar", c] => match c.toNat? with | some c => bit (isScalar c) | none => "bad-op"
  | ["lower", h] => match unhex h with | some s => hex (s.map asciiLower) | none => "bad-op"
  | ["upper", h] => match unhex h with | some s => hex (s.map asciiUpper) | none => "bad-op"
  | ["lossy", h] => match unhex h with | some s => hex (decodeLossy s) | none => "bad-op"
  | ["tostr", h] =>
    match unhex h with
    | some s => (match toStr s with | some r => "some:" ++ hex r | none => "none")
    | none => "bad-op"
  | ["intostr", h] =>
    match unhex h with
    | some s => (match intoStr s with | .ok r => "ok:" ++ hex r | .error e => "err:" ++ hex e)
    | none => "bad-op"
  | ["fromutf8", h] =>
    match unhex h with
    | some s =>
      (match fromUtf8 s with
       | .ok r => "ok:" ++ hex r
       | .error (k, e) => "err:" ++ toString k ++ ":" ++ hex e)
    | none => "bad-op"
  | ["utf16", h] =>
    match unhex16 h with
    | some v => (match decodeUtf16 v with | some r => "ok:" ++ hex r | none => "err")
    | none => "bad-op"
  | ["utf16lossy", h] => match unhex16 h with | some v => hex (decodeUtf16Lossy v) | none => "bad-op"
  | ["unpaired", h] =>
    match unhex16 h with | some v => bit (hasUnpairedSurrogate false v) | none => "bad-op"
  | ["doors"] => doorsNeeded
  | ["doorcalls"] => keyNames HipVerif.Model.Doors.doorCalls
  | ["doorskips"] => keyNames HipVerif.Model.Doors.doorSkips
  | ["dooruncovered"] => doorUncovered
  | _ => "bad-op"

def runLine (line : String) : String :=
  ";".intercalate ((line.splitOn ";").map runOp)

partial def loop (hin hout : IO.FS.Stream) : IO Unit := do
  let line ← hin.getLine
  if line.isEmpty then return ()
  hout.putStrLn (runLine line)
  hout.flush
  loop hin hout

end Driver.Utf8

def main : IO Unit := do
  let hin ← IO.getStdin
  let hout ← IO.getStdout
  Driver.Utf8.loop hin hout
