/-
Line-protocol driver for the table properties C05 and C17 (`lake build tables_driver`).
One output line per input line.

  autotrait <send|sync> <TypeName> <arc|rc|unique>  → 1 | 0 | err     (Model.AutoTrait.holds)
  pubtypes                → `;`-separated names of the backend-parameterised public types
  extratypes              → `;`-separated names of the backend-independent probe types
  rows_c05                → falsifying rows of the C05 theorems with file:line, or `none`
  rows_c17                → falsifying rows/sites of the C17 theorems with file:line, or `none`
  sites                   → every lifetime-manufacturing site: kind fn unsafe? file:line
  unsafe_rows             → `name @ file:line` of every row with nameUnchecked ∨ hasSafetyDoc ∨
                            forwardsToUnsafe (the rows that MUST be unsafe fns)
  copy_rows               → `name @ file:line` of every row that must require `T: Copy`
  escape_exempt <row>     → 1 iff the row is a reviewed borrowed-view / never-borrowed function
                            (its result may legitimately outlive a `&self` receiver) | 0 | err
  tied <row name>         → 1 (safe, every output region tied to an input: a borrow cannot
                            escape through it) | 0 (output region free / unsafe fn) | err
  rows_c06                → falsifying rows of the C06 "doors" theorems with file:line, or `none`
                            (each entry starts with `<theorem>: <row name> :: `)
  rows_c01d               → falsifying rows of the wrapper-delegation theorems
                            (`<theorem>: <row> … @ file:line`), or `none`
  rows_c13api             → culprits of `vec_api_covered`: uncovered fns / bad entries / stale entries, or `none`
  rows_c17s               → falsifying rows of the C17 surface theorems (`<theorem>: … @ file:line`)
  phantom_params          → reviewed phantom type parameters `defpath index` (or `none`)
  unsafe_impls            → every `unsafe impl` row: `Trait type @ file:line`
  expr_macros             → `;`-separated names of the exported macros that take an expression
  rows_c01api             → uncovered fns / bad / stale entries of the byte-string coverage map
                            (`byt_api_covered: … @ file:line`), or `none`
  selfcheck               → 1 iff every generated key is the key of its string
-/
import HipVerif.Model.AutoTraitRows
import HipVerif.Model.PubFns
import HipVerif.Model.Doors
import HipVerif.Model.Delegates
import HipVerif.Model.Surface
import HipVerif.Model.BytApi
import HipVerif.Model.VecApi

open HipVerif.Model.AutoTrait
open HipVerif.Model.PubFns

namespace HipVerif.Driver.Tables

def join (xs : List String) : String :=
  if xs.isEmpty then "none" else String.intercalate " ; " xs

/-- Single-line rendering of a type term (the line protocol forbids newlines). -/
def showTy : Nat → Ty → String
  | 0, _ => "…"
  | fuel + 1, t =>
    let list := fun (ts : List Ty) => String.intercalate ", " (ts.map (showTy fuel))
    match t with
    | .named n [] | .std n [] => n
    | .named n as | .std n as => s!"{n}<{list as}>"
    | .ref t => s!"&{showTy fuel t}"
    | .refMut t => s!"&mut {showTy fuel t}"
    | .rawPtrConst t => s!"*const {showTy fuel t}"
    | .rawPtrMut t => s!"*mut {showTy fuel t}"
    | .phantom t => s!"PhantomData<{showTy fuel t}>"
    | .cell t => s!"Cell<{showTy fuel t}>"
    | .atomicUsize => "AtomicUsize"
    | .nonNull t => s!"NonNull<{showTy fuel t}>"
    | .prim n => n
    | .param i => s!"#{i}"
    | .maybeUninit t => s!"MaybeUninit<{showTy fuel t}>"
    | .manuallyDrop t => s!"ManuallyDrop<{showTy fuel t}>"
    | .tuple ts => s!"({list ts})"
    | .slice t => s!"[{showTy fuel t}]"
    | .array t => s!"[{showTy fuel t}; _]"
    | .unit => "()"
    | .nonZeroU8 => "NonZeroU8"

def showRegion : Region → String
  | .static => "'static"
  | .named k => decKey k
  | .elided n => s!"'elided{n}"
  | .anon n => s!"'impl_anon{n}"

def showOut (o : OutRegion) : String :=
  (match o.pos with | .ref => "&" | .hip => "Hip<" | .other => "<") ++ showRegion o.region ++
  (match o.pos with | .ref => "" | _ => ">")

def showKind : SiteKind → String
  | .transmute => "transmute"
  | .fromRawParts => "from_raw_parts"
  | .refDeref => "&*ptr"
  | .ptrAsRef => "ptr.as_ref/as_mut"
  | .extendedCall => "*_extended call"

def oneLine (s : String) : String :=
  String.ofList (s.toList.map fun c => if c == '\n' || c == '\r' then ' ' else c)

def parseTrait : String → Option Trait
  | "send" => some .send
  | "sync" => some .sync
  | _ => none

def parseBackend : String → Option BackendK
  | "arc" => some .arc
  | "rc" => some .rc
  | "unique" => some .unique
  | _ => none

def defLoc (n : String) : String :=
  match HipVerif.Gen.AutoTraits.table.defs.find? (fun d => d.name == n) with
  | some d => d.loc
  | none => "?"

def tyLoc : Ty → String
  | .named n _ => defLoc n
  | _ => "?"

def rowsC05 : List String :=
  let tbl := HipVerif.Gen.AutoTraits.table
  let main := pubTypes.flatMap fun T => backends.filterMap fun b =>
    if rowOk T b then none else
      some s!"send_sync_table: {T.1}<{b.name}> send={holds fuel tbl .send (T.2 b.ty)} sync={holds fuel tbl .sync (T.2 b.ty)} expected={b != .rc} @ {tyLoc (T.2 b.ty)} (impls: {String.intercalate "," (tbl.impls.map (·.loc))})"
  let lt := tbl.impls.filterMap fun i =>
    if implLifetimeFree i then none else
      some s!"lifetime_free: impl for {i.target} is lifetime-specific @ {i.loc}"
  let ben := tbl.impls.filterMap fun i =>
    if implBoundsBenign i then none else
      some s!"impl_bounds_benign: impl for {i.target} negative={i.negative} bounds={i.otherBounds} @ {i.loc}"
  let cell := rcReachable.filterMap fun u =>
    if cellRowOk u then none else
      some s!"rc_count_single_thread: {showTy 12 u} send={holds fuel tbl .send u} sync={holds fuel tbl .sync u} @ {tyLoc u}"
  main ++ lt ++ ben ++ cell.eraseDups

def showSite (s : Site) : String :=
  s!"{showKind s.kind} in {s.fn} unsafe_fn={s.fnUnsafe} in_macro={s.inMacro} @ {s.loc}"

def rowsC17 : List String :=
  let fns := HipVerif.Gen.PubFns.pubFns
  let a := fns.filterMap fun f =>
    if uncheckedOk f then none else
      some s!"unchecked_is_unsafe: {f.name} unsafe={f.isUnsafe} name_unchecked={f.nameUnchecked} safety_doc={f.hasSafetyDoc} @ {f.loc}"
  let fw := fns.filterMap fun f =>
    if forwarderOk f then none else
      some s!"forwarders_are_unsafe: {f.name} is a safe fn that only forwards its parameters to `{f.forwardsToUnsafe.getD "?"}` in unsafe context @ {f.loc}"
  let bc := fns.filterMap fun f =>
    if bitwiseCopyOk f then none else
      some s!"bitwise_copy_requires_copy: {f.name} duplicates element bits ({if nameSaysCopy f then "by name" else ""}{if bodyDuplicates f then s!" body: {f.dupBits.getD "?"}" else ""}) but `{decKey f.elemParam}: Copy` is not in force (bounds: {f.boundsShown}) @ {f.loc}"
  let b := fns.filterMap fun f =>
    if nameFlagOk f then none else
      some s!"name_unchecked_consistent: {f.name} @ {f.loc}"
  let c := fns.filterMap fun f =>
    if flowOk f then none else
      let bad := f.outs.filter fun o => !tied f o
      some s!"region_flow: {f.name} output regions not tied to an input: {String.intercalate ", " (bad.map showOut)} @ {f.loc}"
  let d := fns.filterMap fun f =>
    if counterpartOk fns f then none else
      some s!"safe_counterpart: {f.name} has no safe sibling @ {f.loc}"
  let e := unreviewedSites.map fun s => s!"unsafe_lifetime_sites: unreviewed {showSite s}"
  let g := staleSites.map fun k =>
    s!"unsafe_lifetime_sites: reviewed entry no longer present: {showKind k.1} in {decKey k.2.1} unsafe_fn={k.2.2}"
  let h := if HipVerif.Gen.PubFns.sites.length == reviewedSites.length || !(e.isEmpty && g.isEmpty) then []
    else [s!"unsafe_lifetime_sites: {HipVerif.Gen.PubFns.sites.length} sites generated, {reviewedSites.length} reviewed (a reviewed fn gained or lost a site)"]
  a ++ fw ++ bc ++ b ++ c ++ d ++ e ++ g ++ h

def rowsC06 : List String :=
  let ds := HipVerif.Gen.Doors.doors
  let a := ds.filterMap fun d =>
    if HipVerif.Model.Doors.strDoorOk d then none else
      some s!"str_doors_checked: {d.name} :: safe infallible fn makes a HipStr from non-UTF-8-typed input {d.sig} @ {d.loc}"
  let b := ds.filterMap fun d =>
    if HipVerif.Model.Doors.osDoorOk d then none else
      some s!"os_doors_typed: {d.name} :: safe fn makes a HipOsStr/HipPath from raw bytes or unrecognised input {d.sig} @ {d.loc}"
  let c := HipVerif.Model.Doors.unreviewedDoors.map fun d =>
    s!"unchecked_doors_listed: {d.name} :: unreviewed unsafe door {d.sig} @ {d.loc}"
  let e := HipVerif.Model.Doors.staleDoors.map fun k =>
    s!"unchecked_doors_listed: {decKey k} :: reviewed unsafe door no longer present"
  a ++ b ++ c ++ e

def showNamed (xs : List (Nat × String)) : String := String.intercalate "," (xs.map (·.2))

def rowsC01d : List String :=
  let rs := HipVerif.Gen.Delegates.rows
  let describe := fun (r : HipVerif.Model.Delegates.Row) =>
    s!"targets=[{showNamed r.targets}] callees=[{showNamed r.callees}] ext=[{showNamed r.ext}] guards={r.guards.length} argsUnchanged={r.argsUnchanged} wraps={r.wraps} retyped=[{showNamed r.retyped}] mutSelf={r.mutSelf}"
  let a := rs.filterMap fun r =>
    if HipVerif.Model.Delegates.delegateOk r then none else
      some s!"delegates_named_ok: {r.name} expected target `{decKey (HipVerif.Model.Delegates.expectedTarget r)}` with arguments unchanged; {describe r} @ {r.loc}"
  let b := rs.filterMap fun r =>
    if HipVerif.Model.Delegates.retypeOk r then none else
      some s!"retyping_only_after_delegate_or_guard: {r.name} claims/mutates bytes without a guard, a validity-preserving typed delegate or a review; {describe r} @ {r.loc}"
  let c := rs.filterMap fun r =>
    if HipVerif.Model.Delegates.shapeReviewed r then none else
      some s!"no_unreviewed_shapes: {r.name} is a composed/other fn that is not reviewed; {describe r} @ {r.loc}"
  let d := HipVerif.Model.Delegates.staleReviewed.map fun k =>
    s!"no_unreviewed_shapes: reviewed entry {decKey k} is no longer a composed/other row"
  let e := HipVerif.Model.Delegates.uncoveredDriven.map fun x =>
    s!"wrappers_covered: coredrive calls {x.2.2} on a wrapper that has no such row"
  a ++ b ++ c ++ d ++ e

def rowsC17s : List String :=
  let S := HipVerif.Gen.Surface.impls
  let ov := S.flatMap fun r =>
    if HipVerif.Model.Surface.overridesOk r then [] else
      match HipVerif.Model.Surface.required r.traitKey with
      | none => [s!"no_unreviewed_overrides: impl {r.traitShown} for {r.ty}: trait `{decKey r.traitKey}` has no required-method entry @ {r.loc}"]
      | some req => (r.methods.filter fun m => !(req.contains m.1 ||
            HipVerif.Model.Surface.reviewedOverrides.any fun e => e.1 == r.tyKey && e.2.1 == r.traitKey && e.2.2.1 == m.1)).map
          fun m => s!"no_unreviewed_overrides: impl {r.traitShown} for {r.ty} defines `{m.2}`, which is neither required nor a reviewed override @ {r.loc}"
  let st := HipVerif.Model.Surface.staleOverrides.map fun e =>
    s!"no_unreviewed_overrides: reviewed override {decKey e.2.2.1} of {decKey e.2.1} for {decKey e.1} no longer exists"
  let pr := S.filterMap fun r =>
    if HipVerif.Model.Surface.pairReviewed r then none else
      some s!"impl_pairs_reviewed: impl {r.traitShown} for {r.ty} ({repr r.kind}) is not a reviewed (type, trait) pair @ {r.loc}"
  let mc := HipVerif.Model.Surface.miscountedPairs.map fun e =>
    let locs := (S.filter fun r => r.tyKey == e.1 && r.traitKey == e.2.1).map (·.loc)
    s!"impl_pairs_reviewed: {decKey e.2.1} for {decKey e.1}: {HipVerif.Model.Surface.countOf e.1 e.2.1} impl(s) in the source, {e.2.2} reviewed @ {String.intercalate "," locs}"
  let ui := HipVerif.Gen.Surface.unsafeImpls.filterMap fun u =>
    if HipVerif.Model.Surface.unsafeImplOk u then none else
      some s!"unsafe_auto_impls_bound_all_params: unsafe impl {decKey u.traitKey} for {u.ty} {u.shown}: parameters in fields {repr u.fieldParams}, bounds {u.bounds.map fun b => (b.1, decKey b.2)} @ {u.loc}"
  let uu := HipVerif.Model.Surface.unreviewedUnsafeImpls.map fun u =>
    s!"unsafe_auto_impls_bound_all_params: unreviewed unsafe impl {decKey u.traitKey} for {u.ty} {u.shown} @ {u.loc}"
  let us := HipVerif.Model.Surface.staleUnsafeImpls.map fun e =>
    s!"unsafe_auto_impls_bound_all_params: reviewed unsafe impl {decKey e.2} for {decKey e.1} no longer exists"
  let mh := HipVerif.Gen.Surface.exportedMacros.filterMap fun m =>
    if HipVerif.Model.Surface.macroArmOk m then none else
      some s!"macro_unsafe_hygiene: {m.name}! arm {m.arm} expands {m.inUnsafe} inside an unsafe block @ {m.loc}"
  let gu := HipVerif.Model.Surface.unexpectedGuards.map fun g =>
    s!"const_param_guards_exact: unexpected guard `{g.cond}` in {g.owner} @ {g.loc}"
  let gm := HipVerif.Model.Surface.missingGuards.map fun e =>
    s!"const_param_guards_exact: expected guard `{decKey e.2.2}` of {decKey e.2.1} is missing"
  ov ++ st ++ pr ++ mc ++ ui ++ uu ++ us ++ mh ++ gu ++ gm

def rowsC01api : List String :=
  let B := HipVerif.Gen.BytApi.bytFns
  let locOf := fun (k : Nat) => ((B.find? (·.key == k)).map (·.loc)).getD "?"
  let a := HipVerif.Model.BytApi.uncoveredFns.map fun f =>
    s!"byt_api_covered: {f.name} ({match f.vis with | .pub => "pub" | .crate => "pub(crate)" | .priv => "private" | .traitImpl => "trait impl"}{if f.isUnsafe then ", unsafe" else ""}) has no entry in bytApiCoverage — not an operation of the Core model, not reached through one, not monitored, not reviewed @ {f.loc}"
  let b := HipVerif.Model.BytApi.badEntries.map fun k =>
    s!"byt_api_covered: the entry of {decKey k} is not backed by the generated facts (operation not in the model / not dispatched by coredrive, method not called by `impl Subject for HipByt`, or entry point that does not reach the helper) @ {locOf k}"
  let c := HipVerif.Model.BytApi.staleEntries.map fun k =>
    s!"byt_api_covered: stale or duplicated entry {decKey k}"
  let d := if HipVerif.Model.BytApi.opsDispatched then [] else
    ["byt_api_covered: an operation of the Core model is not dispatched by coredrive"]
  let e := if HipVerif.Model.BytApi.opsImplemented then [] else
    ["core_ops_complete: an operation of the Core model is the image of no entry"]
  a ++ b ++ c ++ d ++ e

def tiedAnswer (name : String) : String :=
  match HipVerif.Gen.PubFns.pubFns.find? (fun f => f.name == name) with
  | none => "err"
  | some f =>
    if !f.isUnsafe && !f.outs.isEmpty && f.outs.all (tied f) then "1" else "0"

def answer (line : String) : String :=
  let ws := (line.trimAscii.toString.splitOn " ").filter (· != "")
  match ws with
  | ["autotrait", tr, ty, b] =>
    match parseTrait tr, parseBackend b with
    | some tr, some b =>
      match rowType ty b with
      | some t => if holds fuel HipVerif.Gen.AutoTraits.table tr t then "1" else "0"
      | none => "err"
    | _, _ => "err"
  | ["pubtypes"] => String.intercalate ";" (pubTypes.map (·.1))
  | ["extratypes"] => String.intercalate ";" (extraTypes.map (·.1))
  | ["rows_c05"] => join rowsC05
  | ["rows_c17"] => join rowsC17
  | ["rows_c06"] => join rowsC06
  | ["rows_c17s"] => join rowsC17s
  | ["rows_c01api"] => join rowsC01api
  | ["phantom_params"] =>
    join (HipVerif.Model.Surface.phantomParams.map fun e => s!"{e.1} {e.2}")
  | ["unsafe_impls"] =>
    join (HipVerif.Gen.Surface.unsafeImpls.map fun u => s!"{decKey u.traitKey} {u.ty} @ {u.loc}")
  | ["expr_macros"] => String.intercalate ";" HipVerif.Model.Surface.exprMacros
  | ["rows_c01d"] => join rowsC01d
  | ["rows_c13api"] =>
    join ((HipVerif.Model.VecApi.uncoveredFns.map fun n => s!"vec_api_covered: uncovered fn {n}") ++
      (HipVerif.Model.VecApi.badEntries.map fun k => s!"vec_api_covered: bad entry key {k}") ++
      (HipVerif.Model.VecApi.staleEntries.map fun k => s!"vec_api_covered: stale entry key {k}") ++
      (if HipVerif.Model.VecApi.opsAgree then [] else ["vec_api_covered: model op vocabulary ≠ vecdrive op vocabulary"]))
  | ["sites"] => join (HipVerif.Gen.PubFns.sites.map showSite)
  | ["unsafe_rows"] =>
    join ((HipVerif.Gen.PubFns.pubFns.filter mustBeUnsafe).map
      fun f => s!"{f.name} @ {f.loc}")
  | ["copy_rows"] =>
    join ((HipVerif.Gen.PubFns.pubFns.filter needsCopy).map fun f => s!"{f.name} @ {f.loc}")
  | "tied" :: rest => tiedAnswer (String.intercalate " " rest)
  | "escape_exempt" :: rest =>
    match HipVerif.Gen.PubFns.pubFns.find? (fun f => f.name == String.intercalate " " rest) with
    | none => "err"
    | some f => if borrowViewFns.contains f.simpleKey || neverBorrowed.contains f.key then "1" else "0"
  | ["selfcheck"] =>
    if keysOk HipVerif.Gen.PubFns.pubFns HipVerif.Gen.PubFns.sites && HipVerif.Model.Doors.doorKeysOk &&
        HipVerif.Model.Delegates.delegateKeysOk && HipVerif.Model.Surface.surfaceKeysOk &&
        HipVerif.Model.BytApi.bytApiKeysOk
    then "1" else "0"
  | _ => "err"

end HipVerif.Driver.Tables

partial def loop (stdin : IO.FS.Stream) (stdout : IO.FS.Stream) : IO Unit := do
  let line ← stdin.getLine
  if line.isEmpty then return ()
  stdout.putStrLn (HipVerif.Driver.Tables.oneLine (HipVerif.Driver.Tables.answer line))
  stdout.flush
  loop stdin stdout

def main : IO Unit := do
  loop (← IO.getStdin) (← IO.getStdout)
