/-
Line-protocol driver for the two-pass constructors (Model/Concat.lean), instantiated with the
GENERATED checks (Gen/Concat.lean).

  concat <icap> <pieces₁> / <pieces₂>          pieces: `;`-separated hex, `-` = empty piece, `.` = no piece
  join   <icap> <sep> <pieces₁> / <pieces₂>
  ->  value <hex, `??` for an uninitialised byte> <heap 0|1>  |  panic  |  oob
  checks -> the generated flags
-/
import HipVerif.Gen.Concat
import HipVerif.Model.Concat

open HipVerif.Concat

def hexDigit (n : Nat) : Char := if n < 10 then Char.ofNat (48 + n) else Char.ofNat (87 + n)

def hexVal (c : Char) : Option Nat :=
  if '0' ≤ c ∧ c ≤ '9' then some (c.toNat - 48)
  else if 'a' ≤ c ∧ c ≤ 'f' then some (c.toNat - 87)
  else none

def parseHexChars : List Char → Option (List UInt8)
  | [] => some []
  | a :: b :: rest => do
    let x ← hexVal a
    let y ← hexVal b
    let r ← parseHexChars rest
    pure (UInt8.ofNat (x * 16 + y) :: r)
  | _ => none

def parseHex (s : String) : Option (List UInt8) :=
  if s == "-" then some [] else parseHexChars s.toList

def parsePieces (s : String) : Option (List (List UInt8)) :=
  if s == "." then some [] else (s.splitOn ";").mapM parseHex

def showOpt : List (Option UInt8) → String
  | [] => "-"
  | bs => String.ofList (bs.flatMap fun b =>
      match b with
      | some b => [hexDigit (b.toNat / 16), hexDigit (b.toNat % 16)]
      | none => ['?', '?'])

def showOut : Out → String
  | .value bs h => s!"value {showOpt bs} {if h then 1 else 0}"
  | .panic => "panic"
  | .oob => "oob"

def step (line : String) : String :=
  match (line.trimAscii.toString.splitOn " ").filter (· ≠ "") with
  | ["concat", icap, p1, "/", p2] =>
    match icap.toNat?, parsePieces p1, parsePieces p2 with
    | some i, some a, some b => showOut (concat HipVerif.Gen.Concat.concat i a b)
    | _, _, _ => "bad-op"
  | ["join", icap, sep, p1, "/", p2] =>
    match icap.toNat?, parseHex sep, parsePieces p1, parsePieces p2 with
    | some i, some s, some a, some b => showOut (join HipVerif.Gen.Concat.join i a b s)
    | _, _, _, _ => "bad-op"
  | ["checks"] =>
    let c := HipVerif.Gen.Concat.concat
    let j := HipVerif.Gen.Concat.join
    s!"concat perPiece={c.perPiece} finalEq={c.finalEq} join perPiece={j.perPiece} finalEq={j.finalEq}"
  | _ => "bad-op"

partial def loop (h out : IO.FS.Stream) : IO Unit := do
  let line ← h.getLine
  if line.isEmpty then return ()
  out.putStrLn (step line)
  out.flush
  loop h out

def main : IO Unit := do loop (← IO.getStdin) (← IO.getStdout)
