/-
  Driver/Vec.lean — line-protocol driver for the L1 vector model (`HipVerif.Model.Vecs`).

  First line (and any later line of the same shape, which resets the state):
      ivec <cap>                      InlineVec<_, cap>::new()
      tvec <szT> <alT> <szP> <alP>    ThinVec<T, P>::new()
  then one operation per line, element values as decimal naturals:
      push v | try_push v | pop | pop_if 0|1 | insert i v | try_insert i v | remove i
      swap_remove i | truncate n | clear | resize n v | resize_with n v…
      ext_slice v… | ext_copy v… | ext_array v… | ext_within sb eb | ext_within_copy sb eb
      try_ext_within sb eb | ext_iter hint v… | append <kind> v… | const_append <cap2> v…
      spare_write v… | split_off i
      drain sb eb <script> drop|leak | try_drain sb eb <script> drop|leak | into_iter <script>
      clone | reserve n | reserve_exact n | shrink_to n | shrink_fit | with_cap n
      from <array|box|vec|other|slice|slice_copy|cow_b|cow_o|iter> hint v…
  bounds: i<n> (included) | x<n> (excluded) | u;  script: letters n (next) / b (next_back), - if empty.
  One output line per input line:   <ret> | len=<n> cap=<n> [v1 v2 …]
  A payload may be given as a count, `*n` = n copies of 0: `append <kind> *n`, `ext_slice *n`,
  `ext_copy *n`, `ext_iter <hint> *n`, `from iter <hint> *n` (sources longer than any list).
  (`const_append` prints `<ret> other=<v,…|-> | …`: the source vector afterwards.)
  A line `@<k> <op…>` runs the operation on the state saved in slot `k` and saves the result in
  slot `k+1` (the configuration line fills slot 0): this lets a depth-first enumeration of
  operation sequences cost one line per tree node.
-/
import HipVerif.Model.Vecs

open HipVerif.Vecs
open HipVerif.Spec.Vec (Bnd Side)

namespace VecDriver

def nat? (s : String) : Option Nat := s.toNat?

def nats? (l : List String) : Option (List Nat) := l.mapM nat?

def bnd? (s : String) : Option Bnd :=
  if s == "u" then some .unb
  else
    match s.toList with
    | 'i' :: r => (String.ofList r).toNat?.map .incl
    | 'x' :: r => (String.ofList r).toNat?.map .excl
    | _ => none

def script? (s : String) : Option (List Side) :=
  if s == "-" then some []
  else s.toList.mapM fun c => if c == 'n' then some Side.front else if c == 'b' then some Side.back else none

def fin? (s : String) : Option DrainEnd :=
  if s == "drop" then some .drop else if s == "leak" then some .leak else none

def src? (s : String) : Option Src :=
  match s with
  | "array" => some .array
  | "box" => some .box
  | "vec" => some .vec
  | "other" => some .other
  | "slice" => some .slice
  | "slice_copy" => some .sliceCopy
  | "cow_b" => some .cowBorrowed
  | "cow_o" => some .cowOwned
  | "iter" => some .iter
  | _ => none

def parseOp (ws : List String) : Option (Op Nat) :=
  match ws with
  | ["push", v] => do some (.push (← nat? v))
  | ["try_push", v] => do some (.tryPush (← nat? v))
  | ["pop"] => some .pop
  | ["pop_if", b] => do some (.popIf ((← nat? b) != 0))
  | ["insert", i, v] => do some (.insert (← nat? i) (← nat? v))
  | ["try_insert", i, v] => do some (.tryInsert (← nat? i) (← nat? v))
  | ["remove", i] => do some (.remove (← nat? i))
  | ["swap_remove", i] => do some (.swapRemove (← nat? i))
  | ["truncate", n] => do some (.truncate (← nat? n))
  | ["clear"] => some .clear
  | ["resize", n, v] => do some (.resize (← nat? n) (← nat? v))
  | "resize_with" :: n :: vs => do
    let vals ← nats? vs
    some (.resizeWith (← nat? n) (fun k => vals[k]?.getD 0))
  | "ext_slice" :: vs => do some (.extendFromSlice (← nats? vs))
  | "ext_copy" :: vs => do some (.extendFromSliceCopy (← nats? vs))
  | "ext_array" :: vs => do some (.extendFromArray (← nats? vs))
  | ["ext_within", a, b] => do some (.extendFromWithin (← bnd? a) (← bnd? b))
  | ["ext_within_copy", a, b] => do some (.extendFromWithinCopy (← bnd? a) (← bnd? b))
  | ["try_ext_within", a, b] => do some (.tryExtendFromWithin (← bnd? a) (← bnd? b))
  | "ext_iter" :: h :: vs => do some (.extend (← nat? h) (← nats? vs))
  | "append" :: _kind :: vs => do some (.append (← nats? vs))
  | "const_append" :: c2 :: vs => do some (.constAppend (← nat? c2) (← nats? vs))
  | "spare_write" :: vs => do some (.spareWrite (← nats? vs))
  | ["split_off", i] => do some (.splitOff (← nat? i))
  | ["drain", a, b, sc, f] => do some (.drain (← bnd? a) (← bnd? b) (← script? sc) (← fin? f))
  | ["try_drain", a, b, sc, f] => do some (.tryDrain (← bnd? a) (← bnd? b) (← script? sc) (← fin? f))
  | ["into_iter", sc] => do some (.intoIter (← script? sc))
  | ["clone"] => some .clone
  | ["reserve", n] => do some (.reserve (← nat? n))
  | ["reserve_exact", n] => do some (.reserveExact (← nat? n))
  | ["shrink_to", n] => do some (.shrinkTo (← nat? n))
  | ["shrink_fit"] => some .shrinkToFit
  | ["with_cap", n] => do some (.withCapacity (← nat? n))
  | "from" :: s :: h :: vs => do some (.from (← src? s) (← nat? h) (← nats? vs))
  | _ => none

/-- A counted payload: `append <kind> *n`, `ext_slice *n`, `ext_copy *n`, `ext_iter <hint> *n`,
    `from iter <hint> *n` — `n` copies of the value 0 (the only value of a zero-sized type),
    answered by `stepRep` without materialising the list. -/
def parseRep (ws : List String) : Option (RepShape × Nat) :=
  let count? (w : String) : Option Nat :=
    match w.toList with
    | '*' :: ds => (String.ofList ds).toNat?
    | _ => none
  match ws with
  | ["append", _kind, c] => do some (.append, ← count? c)
  | ["ext_slice", c] => do some (.extendFromSlice, ← count? c)
  | ["ext_copy", c] => do some (.extendFromSliceCopy, ← count? c)
  | ["ext_iter", h, c] => do some (.extend (← nat? h), ← count? c)
  | ["from", "iter", h, c] => do some (.fromIter (← nat? h), ← count? c)
  | _ => none

def showList (l : List Nat) (sep : String) : String :=
  sep.intercalate (l.map toString)

def showRangeError : RangeError → String
  | .startOverflows => "so"
  | .endOverflows => "eo"
  | .startGreaterThanEnd s e => s!"sgte:{s}:{e}"
  | .endOutOfBounds e len => s!"eoob:{e}:{len}"

def showVal : Val Nat → String
  | .unit => ""
  | .opt none => "none"
  | .opt (some v) => s!"some:{v}"
  | .elem v => s!"val:{v}"
  | .items [] => "items:-"
  | .items l => "items:" ++ showList l ","

def showPanic : PanicClass → String
  | .index => "index"
  | .capacity => "capacity"
  | .range => "range"
  | .overflow => "overflow"
  | .unreachable => "unreachable"

def showOutcome : Outcome Nat → String
  | .ok .unit => "ok"
  | .ok v => showVal v
  | .err .full v => "err:full:" ++ showVal v
  | .err .outOfBounds v => "err:oob:" ++ showVal v
  | .err (.range e) _ => "err:range:" ++ showRangeError e
  | .panic c => "panic:" ++ showPanic c

def showState (len cap : Nat) (xs : List Nat) : String :=
  s!"len={len} cap={cap} [{showList xs " "}]"

inductive St where
  | none
  | iv (s : IV Nat)
  | tv (s : TV Nat)

def St.show : St → String
  | .none => "len=0 cap=0 []"
  | .iv s => showState s.xs.length s.cap s.xs
  | .tv s => showState s.xs.length s.cap s.xs

/-- Processes one line: new state and the output line. -/
def handle (st : St) (line : String) : St × String :=
  let ws := (line.trimAscii.toString.splitOn " ").filter (· ≠ "")
  match ws with
  | ["ivec", c] =>
    match nat? c with
    | some cap => let st' := St.iv (IV.new cap); (st', "ok | " ++ st'.show)
    | none => (st, "error:config")
  | ["tvec", a, b, c, d] =>
    match nat? a, nat? b, nat? c, nat? d with
    | some szT, some alT, some szP, some alP =>
      match (TV.new ⟨szT, alT, szP, alP⟩ : Option (TV Nat)) with
      | some s => let st' := St.tv s; (st', "ok | " ++ st'.show)
      | none => (st, "panic:overflow | " ++ st.show)
    | _, _, _, _ => (st, "error:config")
  | _ =>
    match parseRep ws with
    | some (sh, n) =>
      match st with
      | .none => (st, "error:unconfigured")
      | .iv s =>
        let (o, s') := s.stepRep sh n 0
        let st' := St.iv s'
        (st', showOutcome o ++ " | " ++ st'.show)
      | .tv s =>
        match sh with
        | .fromIter _ => (st, "unsupported | " ++ st.show)
        | _ =>
          let (o, s') := s.stepRep sh n 0
          let st' := St.tv s'
          (st', showOutcome o ++ " | " ++ st'.show)
    | none =>
    match parseOp ws with
    | none => (st, "error:parse")
    | some op =>
      match st with
      | .none => (st, "error:unconfigured")
      | .iv s =>
        if op.forIV then
          let (o, s') := s.step op
          let st' := St.iv s'
          -- `const_append`: what the source vector holds afterwards is part of the observation
          let extra :=
            match op with
            | .constAppend c2 other =>
              " other=" ++ (match (s.constAppend c2 other).2.2 with | [] => "-" | l => showList l ",")
            | _ => ""
          (st', showOutcome o ++ extra ++ " | " ++ st'.show)
        else (st, "unsupported | " ++ st.show)
      | .tv s =>
        if op.forTV then
          let (o, s') := s.step op
          let st' := St.tv s'
          (st', showOutcome o ++ " | " ++ st'.show)
        else (st, "unsupported | " ++ st.show)

end VecDriver

def main : IO Unit := do
  let stdin ← IO.getStdin
  let stdout ← IO.getStdout
  let mut st : VecDriver.St := .none
  let mut slots : Array VecDriver.St := #[]
  repeat
    let line ← stdin.getLine
    if line.isEmpty then break
    let ws := (line.trimAscii.toString.splitOn " ").filter (· ≠ "")
    match ws with
    | w :: rest =>
      match w.toList with
      | '@' :: ds =>
        match (String.ofList ds).toNat? with
        | some k =>
          let pre := slots[k]?.getD .none
          let (st', out) := VecDriver.handle pre (" ".intercalate rest)
          st := st'
          slots := if k + 1 < slots.size then slots.set! (k + 1) st' else (slots.extract 0 (k + 1)).push st'
          stdout.putStrLn out
        | none => stdout.putStrLn "error:slot"
      | _ =>
        let (st', out) := VecDriver.handle st line
        st := st'
        if w == "ivec" || w == "tvec" then slots := #[st']
        stdout.putStrLn out
    | [] => stdout.putStrLn "error:empty"
    stdout.flush
