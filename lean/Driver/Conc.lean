import HipVerif.Model.Conc
import HipVerif.Gen.Atomics
import HipVerif.Gen.Protocol
import Std.Data.HashSet

/-!
# `conc_driver`: exhaustive search over the interleavings of small programs (C04)

Reads one program per line on stdin and prints one line per input line.

Input line: `[ceil=N] [budget=N] [h=a,b,…] [refs=b>l,…] : prog₀ | prog₁ | …` (the part before
`:` is optional).  `refs=1>0,2>0`: threads 1 and 2 start with a shared reference (`&handle`) to a
handle of thread 0; they use it with `cloneref readref countref`; thread 0 takes the references
back with `join`, which waits for the borrowers' programs to finish (`thread::scope`), and
until then can itself only use `read clone count`.  Thread `i` starts with `h[i]` handles (default 1) to one shared buffer and runs
`progᵢ`, a space separated list of `read clone drop mutate unwrap count send:<u> recv`.
An action of a thread that holds no handle is skipped (result `9`).  `send:<u>` is an
asynchronous channel send (never blocks): the handle travels through a hidden relay thread
(one per `send` in the program text, appended after the program threads), i.e. two
rendezvous `Label.send` steps of the model; `recv` blocks until a handle sent to this thread
is available and takes the oldest one.  The counter methods are interpreted from the CURRENT `HipVerif.Gen.Atomics.proto`.

The search is a DFS over every scheduler choice, every stale-read choice of every `load`
and every (spurious) CAS failure, with a visited set, bounded by `budget` states
(default 1000000).  Exploration does not continue below a state with `race`, a double free,
a use after free or a stored count above the ceiling while handles exist.

Output line: `states=… transitions=… complete=true|false verdict=ok|race|double-free|use-after-free|count-overflow|count-mismatch
outcomes=<o> <o> …[ trace=<labels>]` where an outcome is
`0:<results of thread 0>/1:<…>/freed=<n>/pval=<n>` (sorted, results as in `Model.Conc.finish`)
and the trace is the first offending schedule found (`s<t>.<action>` start, `m<t>.<choice>`
micro step, `x<t>><u>` send).

Option `debug=1`: debug assertions compiled in (`Simple.debugLoad` steps are executed).
Other commands: `protocol` (the functions of `Gen/Protocol` for miridrive's coverage check), `proto` (prints the protocol description), `obligations` (prints the Bool
side conditions of the C04 theorems on the current description).
-/

open HipVerif.Model HipVerif.Model.Conc

namespace HipVerif.Driver.Conc

/-- Driver-level program actions. -/
inductive Act where
  | act (a : Action)
  /-- a `&self` action through a borrowed reference (skipped when no reference is held) -/
  | ref (a : Action)
  | send (u : Nat)
  | recv
  /-- wait until every thread holding a reference to this thread has finished its program,
  then take the references back (`thread::scope` end / join) -/
  | join
  deriving DecidableEq, Hashable, Repr

structure Node where
  s : State
  progs : List (List Act)
  /-- handles in transit, oldest first: (destination thread, relay thread holding it) -/
  mail : List (Nat × Nat) := []
  /-- next unused relay thread -/
  relay : Nat
  deriving DecidableEq, Hashable

instance : BEq Node := ⟨fun a b => decide (a = b)⟩

def parseAct (w : String) : Option Act :=
  match w with
  | "read" => some (.act .read)
  | "clone" => some (.act .clone)
  | "drop" => some (.act .drop)
  | "mutate" => some (.act .mutate)
  | "unwrap" => some (.act .unwrap)
  | "count" => some (.act .count)
  | "recv" => some .recv
  | "join" => some .join
  | "cloneref" => some (.ref .clone)
  | "readref" => some (.ref .read)
  | "countref" => some (.ref .count)
  | _ =>
    match w.splitOn ":" with
    | ["send", u] => u.toNat?.map .send
    | _ => none

def actName : Action → String
  | .read => "read" | .clone => "clone" | .drop => "drop"
  | .mutate => "mutate" | .unwrap => "unwrap" | .count => "count"

def words (s : String) : List String :=
  (s.splitOn " ").filter (· ≠ "")

def parseProgs (s : String) : Option (List (List Act)) :=
  (s.splitOn "|").mapM fun p => (words p).mapM parseAct

structure Opts where
  ceil : Nat := 1000000
  /-- debug assertions compiled in (`debug=1`) -/
  debug : Bool := false
  budget : Nat := 1000000
  hs : Option (List Nat) := none
  /-- initial references: (borrower, lender) -/
  refs : List (Nat × Nat) := []

def parseOpts (s : String) : Option Opts :=
  (words s).foldlM (init := ({} : Opts)) fun o w =>
    match w.splitOn "=" with
    | ["ceil", v] => v.toNat?.map fun n => { o with ceil := n }
    | ["budget", v] => v.toNat?.map fun n => { o with budget := n }
    | ["debug", v] => v.toNat?.map fun n => { o with debug := n != 0 }
    | ["h", v] => ((v.splitOn ",").mapM String.toNat?).map fun l => { o with hs := some l }
    | ["refs", v] =>
      ((v.splitOn ",").mapM fun (e : String) => match e.splitOn ">" with
        | [a, b] => match a.toNat?, b.toNat? with
          | some a, some b => some (a, b)
          | _, _ => none
        | _ => none).map fun l => { o with refs := l }
    | _ => none

def popProg (progs : List (List Act)) (t : Nat) : List (List Act) :=
  progs.set t ((progs[t]?.getD []).drop 1)

/-- Log the "skipped, no handle" result `9`. -/
def skipAct (s : State) (t : Nat) : State :=
  match s.thr[t]? with
  | some th => { s with thr := s.thr.set t { th with res := th.res ++ [9] } }
  | none => s

/-- All enabled transitions of a node, with their labels. -/
def successors (c : Cfg) (n : Node) : List (String × Node) := Id.run do
  let mut out : List (String × Node) := []
  let nthr := n.s.thr.length
  for t in [0:nthr] do
    match n.s.thr[t]? with
    | none => pure ()
    | some th =>
      if th.pc.isSome then
        for ch in [0:n.s.hist.length + 3] do
          match step c n.s (.micro t ch) with
          | some s' => out := (s!"m{t}.{ch}", { n with s := s' }) :: out
          | none => pure ()
      else
        match (n.progs[t]?.getD []).head? with
        | none => pure ()
        | some (.act a) =>
          if th.handles == 0 then
            out := (s!"s{t}.skip", { n with s := skipAct n.s t, progs := popProg n.progs t }) :: out
          else
            match step c n.s (.start t a) with
            | some s' => out := (s!"s{t}.{actName a}", { n with s := s', progs := popProg n.progs t }) :: out
            | none => pure ()
        | some (.ref a) =>
          if th.refs.isEmpty then
            out := (s!"s{t}.skip", { n with s := skipAct n.s t, progs := popProg n.progs t }) :: out
          else
            match step c n.s (.start t a) with
            | some s' => out := (s!"s{t}.{actName a}ref", { n with s := s', progs := popProg n.progs t }) :: out
            | none => pure ()
        | some .join =>
          let borrowers := (List.range nthr).filter fun w =>
            w != t && ((n.s.thr[w]?.map (·.refs.contains t)).getD false)
          let done := borrowers.all fun w =>
            (n.progs[w]?.getD []).isEmpty && ((n.s.thr[w]?.map (·.pc.isNone)).getD true)
          if done && th.pc.isNone then
            let s' := borrowers.foldl (fun acc w => (step c acc (.unborrow w t)).getD acc) n.s
            out := (s!"j{t}", { n with s := s', progs := popProg n.progs t }) :: out
        | some (.send u) =>
          if th.handles == 0 then
            out := (s!"s{t}.skip", { n with s := skipAct n.s t, progs := popProg n.progs t }) :: out
          else
            match step c n.s (.send t n.relay) with
            | some s' =>
              let n' : Node := { s := s', progs := popProg n.progs t,
                                 mail := n.mail ++ [(u, n.relay)], relay := n.relay + 1 }
              out := (s!"x{t}>{n.relay}", n') :: out
            | none => pure ()
        | some .recv =>
          match n.mail.find? (·.1 == t) with
          | none => pure ()
          | some (_, r) =>
            match step c n.s (.send r t) with
            | some s' =>
              let n' : Node := { n with s := s', progs := popProg n.progs t, mail := n.mail.erase (t, r) }
              out := (s!"x{r}>{t}", n') :: out
            | none => pure ()
  return out.reverse

def fmtOutcome (nprog : Nat) (s : State) : String :=
  let per := (List.range nprog).map fun t =>
    s!"{t}:" ++ ",".intercalate (((s.thr[t]?.map (·.res)).getD []).map toString)
  "/".intercalate (per ++ [s!"freed={s.freed}", s!"pval={s.pval}"])

/-- Live handles: those held by the threads plus those in flight (a `clone` whose increment
has happened, a `drop` whose decrement has not: its remaining code still writes the counter);
agrees with `total` of the proofs on every protocol of the verified shape. -/
def liveHandles (s : State) : Nat :=
  (s.thr.map fun th => th.handles + match th.pc with
    | some ⟨.clone, code, _⟩ => if localRet code == some .done then 1 else 0
    | some ⟨.drop, code, _⟩ => if code.any AStep.writes then 1 else 0
    | _ => 0).sum

/-- `none` = fine, otherwise the kind of violation.  `count-overflow` is the executable face of
`count_tracks`: the stored count exceeds the ceiling while some thread still holds a handle
(on a correct protocol the count only passes the ceiling by wrapping at the very last drop);
`count-mismatch`: the stored count is not `live handles - 1` (a lost or duplicated update). -/
def violation (ceil : Nat) (s : State) : Option String :=
  if s.freed ≥ 2 then some "double-free"
  else if s.uaf then some "use-after-free"
  else if s.race then some "race"
  else if s.last.val > ceil && s.thr.any (fun th => th.handles > 0) then some "count-overflow"
  else if liveHandles s ≥ 1 && s.last.val + 1 != liveHandles s then some "count-mismatch"
  else none

structure Result where
  states : Nat := 0
  transitions : Nat := 0
  complete : Bool := true
  outcomes : List String := []
  bad : Option (String × List String) := none

partial def search (c : Cfg) (budget : Nat) (root : Node) : Result := Id.run do
  let mut seen : Std.HashSet Node := {}
  let mut stack : List (Node × List String) := [(root, [])]
  let mut res : Result := {}
  seen := seen.insert root
  res := { res with states := 1 }
  while !stack.isEmpty do
    match stack with
    | [] => pure ()
    | (n, path) :: rest =>
      stack := rest
      match violation c.ceil n.s with
      | some kind =>
        if res.bad.isNone then res := { res with bad := some (kind, path.reverse) }
      | none =>
        let succ := successors c n
        if succ.isEmpty then
          let o := fmtOutcome n.progs.length n.s ++
            (if n.progs.all List.isEmpty && n.s.thr.all (·.pc.isNone) then "" else "/stuck")
          if !res.outcomes.contains o then res := { res with outcomes := o :: res.outcomes }
        for (lbl, n') in succ do
          res := { res with transitions := res.transitions + 1 }
          if !seen.contains n' then
            if res.states ≥ budget then
              res := { res with complete := false }
            else
              seen := seen.insert n'
              res := { res with states := res.states + 1 }
              stack := (n', lbl :: path) :: stack
  return res

def insertSorted (x : String) : List String → List String
  | [] => [x]
  | y :: ys => if x < y then x :: y :: ys else y :: insertSorted x ys

def sortStrings (l : List String) : List String := l.foldr insertSorted []

def runLine (line : String) : String :=
  let line := line.trimAscii.toString
  if line == "" || line.startsWith "#" then "-" else
  if line == "proto" then toString (repr HipVerif.Gen.Atomics.proto).pretty.length ++ " " ++
      ((toString (repr HipVerif.Gen.Atomics.proto)).replace "\n" " ") else
  if line == "protocol" then
    -- the descriptor-juggling functions of Gen/Protocol (for the coverage cross-check of miridrive):
    -- `name|tests_unique|assumes_unique|reads_or_writes|loc`, entries separated by ` ;; `
    " ;; ".intercalate (HipVerif.Gen.Protocol.fns.map fun f =>
      let evs := f.paths.flatten
      let has := fun (e : HipVerif.ProtocolTy.Ev) => evs.any (· == e)
      s!"{f.fn_}|{has .testUnique || has .take}|{f.assumesUnique}|{has .read || has .write}|{f.loc}") else
  if line == "obligations" then
    let sites := (HipVerif.Gen.Atomics.rowSites.map fun (m, locs) =>
      let code := match m with
        | "decr" => HipVerif.Gen.Atomics.decr | "incr" => HipVerif.Gen.Atomics.incr
        | "isUnique" => HipVerif.Gen.Atomics.isUnique | _ => HipVerif.Gen.Atomics.get
      (storeSites code locs).map fun l => s!"{m}@{l}").flatten
    " ".intercalate (((obligations HipVerif.Gen.Atomics.proto HipVerif.Gen.Atomics.one).map
      fun (n, b) => s!"{n}={b}") ++
      [s!"plain_store_sites={if sites.isEmpty then "-" else ",".intercalate sites}"]) else
  let (optS, progS) := match line.splitOn ":" with
    | [p] => ("", p)
    | o :: rest => if o.contains '=' || o.trimAscii.toString == "" then (o, ":".intercalate rest) else ("", line)
    | [] => ("", "")
  match parseOpts optS, parseProgs progS with
  | some o, some progs =>
    let hs := o.hs.getD (progs.map fun _ => 1)
    if hs.length ≠ progs.length then "error bad-h" else
    if hs.sum = 0 || hs.sum > o.ceil + 1 then "error bad-shares" else
    let c : Cfg := { ceil := o.ceil, proto := HipVerif.Gen.Atomics.proto, debug := o.debug }
    let nsend := (progs.map fun p => p.countP fun a => match a with | .send _ => true | _ => false).sum
    let s0 := o.refs.foldl (fun acc (p : Nat × Nat) => (step c acc (.borrow p.1 p.2)).getD acc)
      (init (hs ++ List.replicate nsend 0))
    let r := search c o.budget { s := s0, progs := progs, relay := progs.length }
    let verdict := match r.bad with | some (k, _) => k | none => "ok"
    let base := s!"states={r.states} transitions={r.transitions} complete={r.complete} verdict={verdict} outcomes=" ++
      " ".intercalate (sortStrings r.outcomes)
    match r.bad with
    | some (_, tr) => base ++ " trace=" ++ ",".intercalate tr
    | none => base
  | _, _ => "error parse"

partial def loop (h : IO.FS.Stream) (out : IO.FS.Stream) : IO Unit := do
  let line ← h.getLine
  if line.isEmpty then return
  out.putStrLn (runLine line)
  out.flush
  loop h out

end HipVerif.Driver.Conc

def main : IO Unit := do
  let stdin ← IO.getStdin
  let stdout ← IO.getStdout
  HipVerif.Driver.Conc.loop stdin stdout
