/-
Line-protocol driver for the GENERATED range functions (C08).

  simplify <sb> <eb> <len>     -> ok a b | err a b <kind> | overflow | ub
  vecrange <sb> <eb> <len>     -> ok a b | err <kind> | overflow | ub
  rangeof <p> <len> <q> <m>    -> some o e | none | overflow | ub
  stdget <sb> <eb> <len>       -> some a b | none          (the std-side SPEC)
  grid                         -> every (sb, eb, len) of the boundary grid on which the generated
                                  functions disagree with the spec (search on breakage); `none` if all agree
bounds: i<n> (Included) | x<n> (Excluded) | u (Unbounded)
-/
import HipVerif.Gen.Ranges
import HipVerif.Spec.Range

open HipVerif.RangeTy HipVerif.Gen.Ranges HipVerif.Spec.Range

def parseBound (s : String) : Option Bound :=
  if s == "u" then some .unbounded
  else if s.startsWith "i" then (s.drop 1).toNat?.map .included
  else if s.startsWith "x" then (s.drop 1).toNat?.map .excluded
  else none

def showBound : Bound → String
  | .included n => s!"i{n}"
  | .excluded n => s!"x{n}"
  | .unbounded => "u"

def showKind : SliceErrorKind → String
  | .startGreaterThanEnd => "StartGreaterThanEnd"
  | .startOutOfBounds => "StartOutOfBounds"
  | .endOutOfBounds => "EndOutOfBounds"

def showSimplify (r : R (Nat × Nat × SliceErrorKind) (Nat × Nat)) : String :=
  match r with
  | .ok (a, b) => s!"ok {a} {b}"
  | .err (a, b, k) => s!"err {a} {b} {showKind k}"
  | .overflow => "overflow"
  | .ub => "ub"

def showVec (r : R RangeError (Nat × Nat)) : String :=
  match r with
  | .ok (a, b) => s!"ok {a} {b}"
  | .err .startOverflows => "err StartOverflows"
  | .err .endOverflows => "err EndOverflows"
  | .err (.startGreaterThanEnd a b) => s!"err StartGreaterThanEnd {a} {b}"
  | .err (.endOutOfBounds a b) => s!"err EndOutOfBounds {a} {b}"
  | .overflow => "overflow"
  | .ub => "ub"

def showOpt : Option (Nat × Nat) → String
  | some (a, b) => s!"some {a} {b}"
  | none => "none"

def showRangeOf (r : R Unit (Option (Nat × Nat))) : String :=
  match r with
  | .ok o => showOpt o
  | .err _ => "err"
  | .overflow => "overflow"
  | .ub => "ub"

/-- does the generated `simplifyRangeMono` agree with the spec on this input? -/
def simplifyAgrees (s e : Bound) (len : Nat) : Bool :=
  match simplifyRangeMono s e len, stdGet s e len with
  | .ok r, some r' => r == r'
  | .err _, none => true
  | _, _ => false

def vecAgrees (s e : Bound) (len : Nat) : Bool :=
  match rangeMono s e len, vecRange s e len with
  | .ok r, some r' => r == r'
  | .err _, none => true
  | _, _ => false

def gridVals (len : Nat) : List Nat :=
  ([0, 1, len - 1, len, len + 1, U - 2, U - 1] : List Nat).eraseDups

def gridBounds (len : Nat) : List Bound :=
  .unbounded :: ((gridVals len).map .included ++ (gridVals len).map .excluded)

def grid : List String := Id.run do
  let mut out : List String := []
  for len in [0, 1, 5, 23, 24, 40] do
    for s in gridBounds len do
      for e in gridBounds len do
        if !simplifyAgrees s e len then
          out := s!"simplify {showBound s} {showBound e} {len} model={showSimplify (simplifyRangeMono s e len)} spec={showOpt (stdGet s e len)}" :: out
        if !vecAgrees s e len then
          out := s!"vecrange {showBound s} {showBound e} {len} model={showVec (rangeMono s e len)} spec={showOpt (vecRange s e len)}" :: out
  return out.reverse

def step (line : String) : String :=
  match line.trimAscii.toString.splitOn " " with
  | ["simplify", s, e, l] =>
    match parseBound s, parseBound e, l.toNat? with
    | some s, some e, some l => showSimplify (simplifyRangeMono s e l)
    | _, _, _ => "bad-op"
  | ["vecrange", s, e, l] =>
    match parseBound s, parseBound e, l.toNat? with
    | some s, some e, some l => showVec (rangeMono s e l)
    | _, _, _ => "bad-op"
  | ["stdget", s, e, l] =>
    match parseBound s, parseBound e, l.toNat? with
    | some s, some e, some l => showOpt (stdGet s e l)
    | _, _, _ => "bad-op"
  | ["rangeof", p, l, q, m] =>
    match p.toNat?, l.toNat?, q.toNat?, m.toNat? with
    | some p, some l, some q, some m => showRangeOf (tryRangeOf ⟨p, l⟩ ⟨q, m⟩)
    | _, _, _, _ => "bad-op"
  | ["grid"] =>
    match grid with
    | [] => "none"
    | xs => " ; ".intercalate xs
  | _ => "bad-op"

partial def loop (h : IO.FS.Stream) (out : IO.FS.Stream) : IO Unit := do
  let line ← h.getLine
  if line.isEmpty then return ()
  out.putStrLn (step line)
  out.flush
  loop h out

def main : IO Unit := do
  loop (← IO.getStdin) (← IO.getStdout)
