import HipVerif.Model.Views

/-!
# Line-protocol driver for the views model (C12)

One line in, one line out (except `rows` / `borrows`, which print one line per generated row and a
final `end …` line):

* `eq <view> <hexA> <hexB>`      → `true` | `false`
* `cmp <view> <hexA> <hexB>`     → `lt` | `eq` | `gt`
* `rel <view> <hexA> <hexB>`     → `<eq answer> <cmp answer>` (both, one round trip)
* `hash <view> <hex>`            → hex of the stream fed to the hasher
* `hashloop <hex>`               → the same for `Path`, through the byte loop `pathHashLoop`
* `components <hex>`             → `root`, `cur`, `parent`, `n:<hex>` separated by spaces (`-` if none)
* `view <operand> <operand>`     → view std uses for the pair (`stdView` of the two view types) | `none`
* `hashview <operand>`           → view through which the operand's view type hashes
* `witnesses`                    → `D7 eq <hexA> <hexB> ; D7 hash <hex> ; D8 hash <hex>`
* `rows`                         → per row of `Gen.CmpImpls.table`: `<file:line> <Trait<rhs> for lhs> ok|BAD expected=<view> got=<view> [why=<failed checks>]`
* `rows_c12`                     → falsifying rows of the C12 table theorems (`impl_view_ok`,
                                   `borrow_coherent_partial`) with file:line, ` ; `-separated, or `none`
* `probe_rows`                   → machine-readable listing of every row (see `probeRowLines`), then `end rows=<n>`
* `borrows`                      → per row of `Gen.CmpImpls.borrows`: `<file:line> Borrow<target> for <owner> ok|BAD|KNOWN …`

`<view>` = `bytes|str|osstr|path`; hex is lower-case, `-` for empty;
`<operand>` = `hip:byt|str|os|path` or `std:<StdTy>[:ref]`.
-/

open HipVerif.Views

def hexDigit (c : Char) : Option Nat :=
  if '0' ≤ c ∧ c ≤ '9' then some (c.toNat - '0'.toNat)
  else if 'a' ≤ c ∧ c ≤ 'f' then some (c.toNat - 'a'.toNat + 10)
  else none

def unhexAux : List Char → Option (List UInt8)
  | [] => some []
  | a :: b :: rest => do
    let x ← hexDigit a
    let y ← hexDigit b
    let r ← unhexAux rest
    pure (UInt8.ofNat (x * 16 + y) :: r)
  | _ => none

def unhex (s : String) : Option (List UInt8) :=
  if s = "-" then some [] else unhexAux s.toList

def hexNibble (n : Nat) : Char :=
  if n < 10 then Char.ofNat ('0'.toNat + n) else Char.ofNat ('a'.toNat + n - 10)

def hex (bs : List UInt8) : String :=
  if bs.isEmpty then "-"
  else String.ofList (bs.flatMap fun b => [hexNibble (b.toNat / 16), hexNibble (b.toNat % 16)])

def parseView : String → Option View
  | "bytes" => some .bytes | "str" => some .str | "osstr" => some .osstr | "path" => some .path
  | _ => none

def parseStdTy : String → Option StdTy
  | "slice" => some .slice | "array" => some .array | "vec" => some .vec
  | "boxSlice" => some .boxSlice | "cowSlice" => some .cowSlice
  | "str" => some .str | "string" => some .string | "boxStr" => some .boxStr | "cowStr" => some .cowStr
  | "osStr" => some .osStr | "osString" => some .osString | "boxOsStr" => some .boxOsStr
  | "cowOsStr" => some .cowOsStr
  | "path" => some .path | "pathBuf" => some .pathBuf | "boxPath" => some .boxPath | "cowPath" => some .cowPath
  | "bstr" => some .bstr | "bstring" => some .bstring
  | _ => none

def parseOperand (s : String) : Option Operand :=
  match s.splitOn ":" with
  | ["hip", "byt"] => some (.hip .byt)
  | ["hip", "str"] => some (.hip .str)
  | ["hip", "os"] => some (.hip .os)
  | ["hip", "path"] => some (.hip .path)
  | ["std", t] => (parseStdTy t).map (.std · false)
  | ["std", t, "ref"] => (parseStdTy t).map (.std · true)
  | _ => none

def ordName : Ordering → String
  | .lt => "lt" | .eq => "eq" | .gt => "gt"

def compName : Comp → String
  | .root => "root" | .cur => "cur" | .parent => "parent" | .normal b => "n:" ++ hex b

def viewOptName : Option View → String
  | some v => v.name
  | none => "none"

def traitName : TraitKind → String
  | .partialEq => "PartialEq" | .partialOrd => "PartialOrd" | .ord => "Ord" | .eq => "Eq"
  | .hash => "Hash" | .borrow => "Borrow"

def hipName : HipTy → String
  | .byt => "HipByt" | .str => "HipStr" | .os => "HipOsStr" | .path => "HipPath"

def targetName : Target → String
  | .slice => "[u8]" | .str => "str" | .osStr => "OsStr" | .path => "Path" | .bstr => "BStr"

def operandName : Operand → String
  | .hip h => hipName h
  | .std t r => (if r then "&" else "") ++ (reprStr t).replace "HipVerif.Views.StdTy." ""

/-- Operand in the syntax `parseOperand` reads (`hip:str`, `std:vec:ref`). -/
def operandKey : Operand → String
  | .hip .byt => "hip:byt" | .hip .str => "hip:str" | .hip .os => "hip:os" | .hip .path => "hip:path"
  | .std t r => "std:" ++ (reprStr t).replace "HipVerif.Views.StdTy." "" ++ (if r then ":ref" else "")

def targetKey : Target → String
  | .slice => "slice" | .str => "str" | .osStr => "osStr" | .path => "path" | .bstr => "bstr"

def featKey (f : String) : String := if f.isEmpty then "-" else f

/-- `probe_rows`: one machine-readable line per generated impl, for the generic runtime probes of
    `cmpdrive --mode probe`:
    `cmp <loc> <Trait> <lhs operand> <rhs operand> <expected view|none> <ok|BAD> <feature|->` and
    `borrow <loc> <owner operand> <target> <ok|KNOWN|BAD> <owner eq view> <owner hash view> <feature|->`. -/
def probeRowLines : List String :=
  (genEnv.table.map fun r =>
    s!"cmp {r.loc} {traitName r.trait} {operandKey r.lhs} {operandKey r.rhs} " ++
    s!"{viewOptName (expectedView r)} {if rowOk genEnv r then "ok" else "BAD"} {featKey r.feature}") ++
  (HipVerif.Gen.CmpImpls.borrows.map fun b =>
    let status := if borrowOk genEnv b then "ok" else if b.isKnownFinding then "KNOWN" else "BAD"
    s!"borrow {b.loc} {operandKey (.hip b.owner)} {targetKey b.target} {status} " ++
    s!"{viewOptName (genEnv.ownerView .partialEq b.owner)} {viewOptName (genEnv.ownerView .hash b.owner)} " ++
    s!"{featKey b.feature}")

/-- `rows_c12`: the generated rows that falsify a C12 table theorem, named by theorem, with
    `file:line` (one line, ` ; `-separated, `none` when every row passes). Known findings are not
    listed (they are excluded from `borrow_coherent_partial`). -/
def rowsC12 : String :=
  let bad :=
    (genEnv.table.filterMap fun r =>
      if rowOk genEnv r then none else
        some (s!"impl_view_ok: {traitName r.trait}<{operandName r.rhs}> for {operandName r.lhs} " ++
          s!"expected={viewOptName (expectedView r)} got={viewOptName (viewOf genEnv FUEL r)} " ++
          s!"why={",".intercalate (rowDiag genEnv r)} @ {r.loc}")) ++
    (HipVerif.Gen.CmpImpls.borrows.filterMap fun b =>
      if borrowOk genEnv b || b.isKnownFinding then none else
        some (s!"borrow_coherent_partial: Borrow<{targetName b.target}> for {hipName b.owner} " ++
          s!"owner_eq={viewOptName (genEnv.ownerView .partialEq b.owner)} " ++
          s!"owner_ord={viewOptName (genEnv.ownerView .ord b.owner)} " ++
          s!"owner_hash={viewOptName (genEnv.ownerView .hash b.owner)} " ++
          s!"target_cmp={viewOptName (stdView b.target b.target)} target_hash={(hashViewOf b.target).name} @ {b.loc}")) ++
    (if (HipVerif.Gen.CmpImpls.borrows.filter (·.isKnownFinding)).length = 2 then [] else
      [s!"borrow_known_findings_exact: {(HipVerif.Gen.CmpImpls.borrows.filter (·.isKnownFinding)).length} known-finding rows (expected 2)"])
  if bad.isEmpty then "none" else " ; ".intercalate bad

def rowLine (r : CmpRow) : String :=
  let ok := rowOk genEnv r
  s!"{r.loc} {traitName r.trait}<{operandName r.rhs}> for {operandName r.lhs} " ++
    (if ok then "ok" else "BAD") ++
    s!" expected={viewOptName (expectedView r)} got={viewOptName (viewOf genEnv FUEL r)}" ++
    (if ok then "" else s!" why={",".intercalate (rowDiag genEnv r)}")

def borrowLine (b : BorrowRow) : String :=
  let ok := borrowOk genEnv b
  let status := if ok then "ok" else if b.isKnownFinding then "KNOWN" else "BAD"
  s!"{b.loc} Borrow<{targetName b.target}> for {hipName b.owner} {status}" ++
    s!" owner_eq={viewOptName (genEnv.ownerView .partialEq b.owner)}" ++
    s!" owner_ord={viewOptName (genEnv.ownerView .ord b.owner)}" ++
    s!" owner_hash={viewOptName (genEnv.ownerView .hash b.owner)}" ++
    s!" target_cmp={viewOptName (stdView b.target b.target)} target_hash={(hashViewOf b.target).name}"

def answer (ws : List String) : List String :=
  match ws with
  | ["eq", v, a, b] =>
    match parseView v, unhex a, unhex b with
    | some v, some a, some b => [toString (eqV v a b)]
    | _, _, _ => ["error parse"]
  | ["cmp", v, a, b] =>
    match parseView v, unhex a, unhex b with
    | some v, some a, some b => [ordName (cmpV v a b)]
    | _, _, _ => ["error parse"]
  | ["rel", v, a, b] =>
    match parseView v, unhex a, unhex b with
    | some v, some a, some b => [s!"{eqV v a b} {ordName (cmpV v a b)}"]
    | _, _, _ => ["error parse"]
  | ["hash", v, a] =>
    match parseView v, unhex a with
    | some v, some a => [hex (hashStreamV v a)]
    | _, _ => ["error parse"]
  | ["hashloop", a] =>
    match unhex a with
    | some a => [hex (pathHashLoop a)]
    | _ => ["error parse"]
  | ["components", a] =>
    match unhex a with
    | some a =>
      let cs := components a
      [if cs.isEmpty then "-" else " ".intercalate (cs.map compName)]
    | _ => ["error parse"]
  | ["view", l, r] =>
    match parseOperand l, parseOperand r with
    | some l, some r => [viewOptName (stdView l.target r.target)]
    | _, _ => ["error parse"]
  | ["hashview", l] =>
    match parseOperand l with
    | some l => [(hashViewOf l.target).name]
    | _ => ["error parse"]
  | ["witnesses"] =>
    [s!"D7 eq {hex d7EqWitness.1} {hex d7EqWitness.2} ; D7 hash {hex d7HashWitness} ; D8 hash {hex d8HashWitness}"]
  | ["rows_c12"] => [rowsC12]
  | ["probe_rows"] => probeRowLines ++ [s!"end rows={probeRowLines.length}"]
  | ["rows"] =>
    let t := genEnv.table
    t.map rowLine ++ [s!"end rows={t.length} bad={(t.filter (!rowOk genEnv ·)).length}"]
  | ["borrows"] =>
    let t := HipVerif.Gen.CmpImpls.borrows
    t.map borrowLine ++
      [s!"end rows={t.length} bad={(t.filter fun b => !borrowOk genEnv b && !b.isKnownFinding).length}" ++
       s!" known={(t.filter fun b => !borrowOk genEnv b && b.isKnownFinding).length}"]
  | _ => ["error unknown-command"]

partial def loop (stdin stdout : IO.FS.Stream) : IO Unit := do
  let line ← stdin.getLine
  if line.isEmpty then return
  let ws := (line.trimAscii.toString.splitOn " ").filter (· ≠ "")
  for l in answer ws do
    stdout.putStrLn l
  stdout.flush
  loop stdin stdout

def main : IO Unit := do
  loop (← IO.getStdin) (← IO.getStdout)
