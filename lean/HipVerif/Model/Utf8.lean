/-
  Byte-level model of UTF-8 (property C06).

  * `valid`       — Unicode Table 3-7 well-formedness = what `core::str::from_utf8` accepts.
  * `isBoundary`  — rustc's `str::is_char_boundary` (same branch order).
  * `firstCharLen`/`lastCharStart` — first / last scalar of a string (`chars().next()`,
    `char_indices().next_back()` as used by `HipStr::pop`).
  * `encode`/`decode` — `char::encode_utf8` and its inverse on one scalar.
  * `asciiLower`/`asciiUpper` — `u8::to_ascii_lowercase/uppercase` (per-byte action of
    `make_ascii_lowercase/uppercase`).
  * `validUpTo`/`errorLen` — `Utf8Error::valid_up_to` / `Utf8Error::error_len`.
  * `decodeLossy` — `String::from_utf8_lossy` (maximal-subpart replacement by U+FFFD).

  Everything is a total computable function over `List UInt8`/`Nat`; recursion is by an
  explicit fuel argument initialised with the length of the input (each step consumes at least
  one byte), so all functions reduce in the kernel on small inputs.  Core-only imports.

  The lemmas are in `HipVerif/Lemmas/Byte.lean` (byte classes) and `HipVerif/Lemmas/Utf8.lean`.
-/

namespace HipVerif.Utf8

/-! ## Byte classes (Unicode Table 3-7) -/

/-- Continuation byte `80..BF` (rustc: `(b as i8) < -0x40`, i.e. `b & 0xC0 == 0x80`). -/
def isCont (b : UInt8) : Bool := b &&& 0xC0 == 0x80

/-- Table 3-7, first column: total length of the sequence introduced by the lead byte `b`;
`0` when `b` can never start a sequence (`80..C1`, `F5..FF`). -/
def leadLen (b : UInt8) : Nat :=
  if b ≤ 0x7F then 1
  else if b < 0xC2 then 0
  else if b ≤ 0xDF then 2
  else if b ≤ 0xEF then 3
  else if b ≤ 0xF4 then 4
  else 0

/-- Table 3-7, second column: smallest admissible second byte after lead `b0`. -/
def secondLo (b0 : UInt8) : UInt8 :=
  if b0 = 0xE0 then 0xA0 else if b0 = 0xF0 then 0x90 else 0x80

/-- Table 3-7, second column: largest admissible second byte after lead `b0`. -/
def secondHi (b0 : UInt8) : UInt8 :=
  if b0 = 0xED then 0x9F else if b0 = 0xF4 then 0x8F else 0xBF

/-- The second byte `b1` is admissible after the lead byte `b0`
(`E0 A0..BF`, `ED 80..9F`, `F0 90..BF`, `F4 80..8F`, otherwise `80..BF`). -/
def secondOk (b0 b1 : UInt8) : Bool := secondLo b0 ≤ b1 && b1 ≤ secondHi b0

/-! ## One scalar -/

/-- Length (1..4) of the well-formed scalar encoding at the head of `s`; `0` when `s` is empty
or does not start with a well-formed sequence. -/
def firstCharLen : List UInt8 → Nat
  | [] => 0
  | b0 :: t =>
    match leadLen b0, t with
    | 1, _ => 1
    | 2, b1 :: _ => if secondOk b0 b1 then 2 else 0
    | 3, b1 :: b2 :: _ => if secondOk b0 b1 && isCont b2 then 3 else 0
    | 4, b1 :: b2 :: b3 :: _ => if secondOk b0 b1 && isCont b2 && isCont b3 then 4 else 0
    | _, _ => 0

/-- `c` is exactly one well-formed scalar encoding. -/
def isScalarEnc (c : List UInt8) : Bool := c != [] && firstCharLen c == c.length

/-! ## Validity -/

/-- `valid` with fuel: peel one scalar per unit of fuel. -/
def validFuel : Nat → List UInt8 → Bool
  | _, [] => true
  | 0, _ :: _ => false
  | fuel + 1, s@(_ :: _) =>
    match firstCharLen s with
    | 0 => false
    | n => validFuel fuel (s.drop n)

/-- Well-formed UTF-8 (Unicode Table 3-7): exactly what `core::str::from_utf8` accepts. -/
def valid (s : List UInt8) : Bool := validFuel s.length s

/-- `validUpTo` with fuel. -/
def validUpToFuel : Nat → List UInt8 → Nat
  | 0, _ => 0
  | fuel + 1, s =>
    match firstCharLen s with
    | 0 => 0
    | n => n + validUpToFuel fuel (s.drop n)

/-- Length of the longest well-formed prefix made of whole scalars (`Utf8Error::valid_up_to`;
equals the length for a valid string). -/
def validUpTo (s : List UInt8) : Nat := validUpToFuel s.length s

/-- For a non-empty `s` that does not start with a well-formed scalar: the length of the
ill-formed sequence at its head (`Utf8Error::error_len`): `none` = unexpected end of input,
`some k` = `k` bytes (1..3) form a maximal ill-formed subpart. -/
def badSeqLen : List UInt8 → Option Nat
  | [] => none
  | b0 :: t =>
    match leadLen b0, t with
    | 2, [] => none
    | 3, [] => none
    | 3, [b1] => if secondOk b0 b1 then none else some 1
    | 3, b1 :: _ :: _ => if secondOk b0 b1 then some 2 else some 1
    | 4, [] => none
    | 4, [b1] => if secondOk b0 b1 then none else some 1
    | 4, [b1, b2] => if secondOk b0 b1 then (if isCont b2 then none else some 2) else some 1
    | 4, b1 :: b2 :: _ :: _ =>
      if secondOk b0 b1 then (if isCont b2 then some 3 else some 2) else some 1
    | _, _ => some 1

/-- `Utf8Error::error_len` of `core::str::from_utf8 s` (meaningful when `valid s = false`). -/
def errorLen (s : List UInt8) : Option Nat := badSeqLen (s.drop (validUpTo s))

/-! ## Char boundaries -/

/-- rustc's `str::is_char_boundary` (same branch order):
`i = 0 ∨ i = len ∨ (i < len ∧ ¬ isCont s[i])`, `false` for `i > len`. -/
def isBoundary (s : List UInt8) (i : Nat) : Bool :=
  if i = 0 then true
  else if i ≥ s.length then i == s.length
  else !isCont (s[i]?.getD 0)

/-- Number of continuation bytes at the front of a list. -/
def contRun : List UInt8 → Nat
  | [] => 0
  | b :: t => if isCont b then contRun t + 1 else 0

/-- Start index of the last scalar of a non-empty valid string: skip the trailing continuation
bytes backwards, then one lead byte (`char_indices().next_back()`, used by `pop`).
`0` on the empty string. -/
def lastCharStart (s : List UInt8) : Nat := s.length - contRun s.reverse - 1

/-! ## Scalar values -/

/-- `c` is a Unicode scalar value (a Rust `char`): `c < 0x110000` and not a surrogate. -/
def isScalar (c : Nat) : Bool := c < 0xD800 || (0xDFFF < c && c < 0x110000)

/-- `char::encode_utf8` (meaningful for `isScalar c`). -/
def encode (c : Nat) : List UInt8 :=
  if c < 0x80 then [UInt8.ofNat c]
  else if c < 0x800 then [UInt8.ofNat (0xC0 + c / 64), UInt8.ofNat (0x80 + c % 64)]
  else if c < 0x10000 then
    [UInt8.ofNat (0xE0 + c / 4096), UInt8.ofNat (0x80 + c / 64 % 64), UInt8.ofNat (0x80 + c % 64)]
  else
    [UInt8.ofNat (0xF0 + c / 262144), UInt8.ofNat (0x80 + c / 4096 % 64),
     UInt8.ofNat (0x80 + c / 64 % 64), UInt8.ofNat (0x80 + c % 64)]

/-- Scalar value of the well-formed sequence at the head of `s` (`chars().next()`);
the value of the first byte (`0` on `[]`) when `s` does not start with a well-formed sequence. -/
def decode (s : List UInt8) : Nat :=
  let b := fun (i : Nat) => (s[i]?.getD 0).toNat
  if firstCharLen s = 2 then (b 0 - 0xC0) * 64 + (b 1 - 0x80)
  else if firstCharLen s = 3 then (b 0 - 0xE0) * 4096 + (b 1 - 0x80) * 64 + (b 2 - 0x80)
  else if firstCharLen s = 4 then
    (b 0 - 0xF0) * 262144 + (b 1 - 0x80) * 4096 + (b 2 - 0x80) * 64 + (b 3 - 0x80)
  else b 0

/-! ## ASCII case mapping -/

/-- `u8::to_ascii_lowercase`: `A..Z` ↦ `a..z` (set bit 5), every other byte unchanged. -/
def asciiLower (b : UInt8) : UInt8 := if 0x41 ≤ b ∧ b ≤ 0x5A then b ||| 0x20 else b

/-- `u8::to_ascii_uppercase`: `a..z` ↦ `A..Z` (clear bit 5), every other byte unchanged. -/
def asciiUpper (b : UInt8) : UInt8 := if 0x61 ≤ b ∧ b ≤ 0x7A then b ^^^ 0x20 else b

/-! ## Lossy decoding -/

/-- UTF-8 encoding of U+FFFD REPLACEMENT CHARACTER. -/
def replacement : List UInt8 := [0xEF, 0xBF, 0xBD]

/-- `decodeLossy` with fuel. -/
def decodeLossyFuel : Nat → List UInt8 → List UInt8
  | _, [] => []
  | 0, _ :: _ => []
  | fuel + 1, s@(_ :: _) =>
    match firstCharLen s with
    | 0 =>
      match badSeqLen s with
      | none => replacement
      | some k => replacement ++ decodeLossyFuel fuel (s.drop k)
    | n => s.take n ++ decodeLossyFuel fuel (s.drop n)

/-- `String::from_utf8_lossy`: well-formed scalars are copied, every maximal ill-formed subpart
is replaced by U+FFFD. -/
def decodeLossy (s : List UInt8) : List UInt8 := decodeLossyFuel s.length s

end HipVerif.Utf8
