/-
C13 — Bool row predicate and listing over `Gen/CapAsserts.lean`.
(In Model/, not Props/, so that a listing command still builds when a regenerated table breaks
the theorems of `Props/C13Asserts.lean`.)
-/
import HipVerif.Model.CapAssertsTy
import HipVerif.Gen.CapAsserts
import HipVerif.Model.Vecs

namespace HipVerif.Model.CapAsserts
open HipVerif.Gen.CapAsserts (capAsserts)
open HipVerif.Vecs (capOk_wrapping capOk_checked U)

/-- Can the operand be any `usize` the caller likes? -/
def OperandSrc.callerControlled : OperandSrc → Bool
  | .foreignUnbounded | .scalar => true
  | _ => false

/-- Row predicate: a check whose operand is caller-controlled does not add before comparing. -/
def assertOk (a : CapAssert) : Bool := !(a.src.callerControlled && a.shape == .wrappingSum)

/-- The falsifying rows, as `function @ file:line: condition` (empty on a sound tree). -/
def wrappingSites : List String :=
  (capAsserts.filter (!assertOk ·)).map fun a => s!"{a.func} @ {a.loc}: assert!({a.cond}) adds `{a.operand}` before comparing"

/-- What a shape computes on `usize`. -/
def AssertShape.holds : AssertShape → Nat → Nat → Nat → Prop
  | .wrappingSum, len, n, cap => capOk_wrapping len n cap
  | .checkedSub, len, n, cap => capOk_checked len n cap
  | .direct, _, n, cap => n ≤ cap

/-- What is known about an operand from where it comes. -/
def OperandSrc.bound : OperandSrc → Nat → Nat → Nat → Prop
  | .foreignUnbounded, _, n, _ => n < U
  | .scalar, _, n, _ => n < U
  | .foreignInline, _, n, _ => n ≤ 255
  | .constArray, _, n, cap => n ≤ cap
  | .selfRange, len, n, _ => n ≤ len

end HipVerif.Model.CapAsserts
