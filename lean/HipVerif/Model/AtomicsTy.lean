/-!
# Data types for the generated description of the atomic counter protocol (C04)

`HipVerif/Gen/Atomics.lean` (regenerated from `/repo/src/smart.rs` by
`harness/src/extract/atomics.rs`) describes the bodies of `impl Kind for Arc`
(`decr`, `incr`, `is_unique`, `get`) as lists of `AStep`.  `Model/Conc.lean` interprets these
lists; `Props/C04.lean` proves the safety theorems for every description that satisfies a few
named side conditions and checks those conditions on the generated one.

The vocabulary is deliberately larger than what the current source needs: a non-atomic
update (`load` followed by a `store`), a missing fence or a weaker ordering are all
*representable*, so that a weakened source yields a description on which the model exhibits
the race instead of a translator that guesses.
-/

namespace HipVerif.Model

/-- `core::sync::atomic::Ordering`. -/
inductive Ord where
  | relaxed | release | acquire | acqRel | seqCst
  deriving DecidableEq, Repr, Inhabited, Hashable

/-- The ordering has release semantics when used on a write / RMW / fence. -/
def Ord.isRelease : Ord → Bool
  | .release | .acqRel | .seqCst => true
  | _ => false

/-- The ordering has acquire semantics when used on a read / RMW / fence. -/
def Ord.isAcquire : Ord → Bool
  | .acquire | .acqRel | .seqCst => true
  | _ => false

/-- A constant of type `usize` appearing in the source: a literal or `usize::MAX - k`.
The model is parametric in the largest count `ceil` that may be stored, and identifies
`usize::MAX` with `ceil + 1` (the real crate has `ceil = usize::MAX - 1`). -/
inductive Bound where
  | lit (n : Nat)
  | usizeMaxMinus (k : Nat)
  deriving DecidableEq, Repr, Inhabited, Hashable

/-- Value of a source constant when `usize::MAX = ceil + 1`. -/
def Bound.eval (ceil : Nat) : Bound → Nat
  | .lit n => n
  | .usizeMaxMinus k => ceil + 1 - k

/-- Comparison of the last value read (`old`) against a constant. -/
inductive Cmp where
  | eq | ne | lt | le
  deriving DecidableEq, Repr, Inhabited, Hashable

def Cmp.eval : Cmp → Nat → Nat → Bool
  | .eq, a, b => a == b
  | .ne, a, b => a != b
  | .lt, a, b => decide (a < b)
  | .le, a, b => decide (a ≤ b)

/-- What a counter method returns. -/
inductive Ret where
  /-- `UpdateResult::Done` -/
  | done
  /-- `UpdateResult::Overflow` -/
  | overflow
  /-- a `bool` (`is_unique`) -/
  | bool (b : Bool)
  /-- `old + k` (`get`) -/
  | oldPlus (k : Nat)
  deriving DecidableEq, Repr, Inhabited, Hashable

/-- A straight-line statement inside a branch arm (or at top level). -/
inductive Simple where
  /-- `fence(ord)` -/
  | fence (o : Ord)
  /-- `self.0.store(old + k, ord)`: a NON-atomic update of the counter. -/
  | storeOldPlus (k : Nat) (o : Ord)
  /-- `self.0.store(old - k, ord)` (wrapping): a NON-atomic update of the counter. -/
  | storeOldMinus (k : Nat) (o : Ord)
  /-- `self.0.store(v, ord)` of a literal: a NON-atomic update of the counter. -/
  | storeLit (v : Nat) (o : Ord)
  /-- a load of the counter inside a `debug_assert!(…)`: executed only when debug assertions are
  compiled in; the value is only compared (the register `old` is not changed) -/
  | debugLoad (o : Ord)
  /-- `self.0.fetch_sub(n, ord);` with the result discarded (e.g. a compensating decrement). -/
  | rmwSub (n : Nat) (o : Ord)
  /-- `self.0.fetch_add(n, ord);` with the result discarded. -/
  | rmwAdd (n : Nat) (o : Ord)
  deriving DecidableEq, Repr, Inhabited, Hashable

/-- One step of a counter method.  Every method has one local register `old` holding the
value most recently read from the counter. -/
inductive AStep where
  /-- `old = self.0.load(ord)`; may read any message not older than the thread's coherence
  index. -/
  | load (o : Ord)
  /-- `old = self.0.fetch_sub(n, ord)` (wrapping), an atomic read-modify-write. -/
  | rmwSub (n : Nat) (o : Ord)
  /-- `old = self.0.fetch_add(n, ord)` (wrapping), an atomic read-modify-write. -/
  | rmwAdd (n : Nat) (o : Ord)
  /-- `while old < bound { match self.0.compare_exchange[_weak](old, old + 1, succ, fail)
  { Ok(_) => return Done, Err(x) => old = x } }`; `weak` allows spurious failure. -/
  | casLoop (weak : Bool) (bound : Bound) (succ fail : Ord)
  /-- a straight-line statement -/
  | simple (s : Simple)
  /-- `if old <cmp> n { thn; return rthn } else { els; return rels }` -/
  | branch (c : Cmp) (n : Bound) (thn : List Simple) (rthn : Ret) (els : List Simple) (rels : Ret)
  /-- `if old <cmp> n { thn; return r }` (early return; falls through otherwise) -/
  | guard (c : Cmp) (n : Bound) (thn : List Simple) (r : Ret)
  /-- `return r` -/
  | ret (r : Ret)
  deriving DecidableEq, Repr, Inhabited, Hashable

/-- The four counter methods of `impl Kind for Arc`. -/
structure Proto where
  decr : List AStep
  incr : List AStep
  isUnique : List AStep
  get : List AStep
  deriving DecidableEq, Repr, Inhabited, Hashable

/-- A straight-line statement that writes the counter without reading it atomically. -/
def Simple.isStore : Simple → Bool
  | .storeOldPlus .. | .storeOldMinus .. | .storeLit .. => true
  | _ => false

/-- A fence (the only straight-line statement that does not touch the counter). -/
def Simple.isFence : Simple → Bool
  | .fence _ => true
  | _ => false

/-- A step that contains a plain `store` (top level or inside a branch arm). -/
def AStep.hasStore : AStep → Bool
  | .simple s => s.isStore
  | .branch _ _ thn _ els _ => thn.any Simple.isStore || els.any Simple.isStore
  | .guard _ _ thn _ => thn.any Simple.isStore
  | _ => false

/-- "Every modification of the counter is an atomic read-modify-write": no plain `store`. -/
def noPlainStore (code : List AStep) : Bool := !code.any AStep.hasStore

/-- A straight-line statement that writes the counter (plain store or RMW). -/
def Simple.writes : Simple → Bool
  | .fence _ | .debugLoad _ => false
  | _ => true

/-- A step that writes the counter (RMW, CAS loop or plain store). -/
def AStep.writes : AStep → Bool
  | .rmwSub .. | .rmwAdd .. | .casLoop .. => true
  | .simple s => s.writes
  | .branch _ _ thn _ els _ => thn.any Simple.writes || els.any Simple.writes
  | .guard _ _ thn _ => thn.any Simple.writes
  | _ => false

/-- The method never writes the counter. -/
def readOnly (code : List AStep) : Bool := !code.any AStep.writes

end HipVerif.Model
