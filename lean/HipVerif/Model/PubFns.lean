/-
C17 — the hand-written, REVIEWED inputs (`borrowViewFns`, `mayAliasBorrow`, `neverBorrowed`,
`reviewedSites`) and the Bool row predicates of the C17 theorems over `Gen/PubFns.lean`.
They live here (not in `Props/C17.lean`) so that `tables_driver` still builds, and can list the
falsifying rows, when a theorem of `Props/C17.lean` is broken by a regenerated table.
-/
import HipVerif.Model.PubFnsTy
import HipVerif.Gen.PubFns

namespace HipVerif.Model.PubFns
open HipVerif.Gen.PubFns (pubFns chunks sites)

/-! ### Reviewed lists -/

/-- Functions (by simple name) that return a REFERENCE with the Hip value's own `'borrow`
    region: sound only because they answer `Some/Ok` exactly when the representation is the
    borrowed one (the data then really lives for `'borrow`). Everything else that returns a
    reference must tie it to the `&self` borrow (inline/heap bytes die with the handle). -/
def borrowViewFns : List Nat := [key% "as_borrowed", key% "into_borrowed"]

/-- Functions (by simple name) whose result MAY ALIAS borrowed input data (read off the model
    of §6.0: slicing, cloning, splitting, trimming, stripping, views, guards, conversions that
    keep the representation). For these the signature itself must tie every output region to an
    input region; the reviewed list `neverBorrowed` is not accepted as an excuse. -/
def mayAliasBorrow : List Nat := [
  key% "slice", key% "try_slice", key% "slice_ref", key% "try_slice_ref", key% "clone",
  key% "as_borrowed", key% "into_borrowed", key% "borrowed", key% "from_static",
  key% "as_slice", key% "as_str", key% "as_bytes", key% "as_os_str", key% "as_path", key% "as_ref", key% "borrow", key% "deref",
  key% "as_mut_slice", key% "as_mut_str", key% "to_mut_slice", key% "to_mut_str", key% "deref_mut", key% "mutate",
  key% "source", key% "into_bytes", key% "into_str", key% "to_str", key% "to_str_lossy", key% "into_os_str",
  key% "from_utf8", key% "from_utf8_lossy",
  key% "split", key% "split_inclusive", key% "rsplit", key% "split_terminator", key% "rsplit_terminator", key% "splitn",
  key% "rsplitn", key% "split_once", key% "rsplit_once", key% "matches", key% "rmatches", key% "match_indices",
  key% "rmatch_indices", key% "split_whitespace", key% "split_ascii_whitespace", key% "lines",
  key% "trim", key% "trim_start", key% "trim_end", key% "trim_matches", key% "trim_start_matches", key% "trim_end_matches",
  key% "strip_prefix", key% "strip_suffix",
  key% "borrow_deserialize", key% "drain", key% "spare_capacity_mut"
]

/-- Safe functions (by full row name) that take region-carrying inputs but return a value whose
    region is NOT tied to any of them (the caller picks it, or it is `'static`). Each was
    reviewed: the result never holds borrowed input data. -/
def neverBorrowed : List Nat := [
  -- copy the bytes into the inline / a fresh heap representation
  key% "bytes::raw::HipByt::inline", key% "bytes::raw::HipByt::try_inline",
  key% "<bytes::raw::HipByt<'_, B> as From<&[u8]>>::from",
  key% "<bytes::raw::HipByt<'_, B> as From<&[u8 ; N]>>::from",
  key% "<string::HipStr<'_, B> as From<&str>>::from",
  key% "<string::HipStr<'_, B> as TryFrom<&[u8]>>::try_from",
  key% "<os_string::HipOsStr<'_, B> as From<&str>>::from",
  key% "<os_string::HipOsStr<'_, B> as From<&OsStr>>::from",
  key% "<path::HipPath<'_, B> as From<&Path>>::from",
  key% "<path::HipPath<'_, B> as From<&str>>::from",
  key% "<path::HipPath<'_, B> as From<&OsStr>>::from",
  -- build a new buffer from the pieces (C10)
  key% "bytes::raw::HipByt::concat_slices", key% "bytes::raw::HipByt::join_slices",
  key% "string::HipStr::concat_slices", key% "string::HipStr::join_slices",
  -- decode into a new `String`
  key% "string::HipStr::from_utf16", key% "string::HipStr::from_utf16_lossy",
  -- `into_owned`: a borrowed representation is copied, the others are kept (they own their
  -- bytes), so `'static` is honest (§6.0 `into_owned_not_borrowed`)
  key% "bytes::raw::HipByt::into_owned", key% "string::HipStr::into_owned",
  key% "os_string::HipOsStr::into_owned", key% "path::HipPath::into_owned",
  -- owned deserialisation: every visitor method copies or takes ownership (C16 `visit_sound`)
  key% "<bytes::raw::HipByt<'_, B> as BorshDeserialize>::deserialize_reader",
  key% "<string::HipStr<'_, B> as BorshDeserialize>::deserialize_reader",
  key% "<bytes::raw::HipByt<'_, B> as Deserialize<'de>>::deserialize",
  key% "<string::HipStr<'_, B> as Deserialize<'de>>::deserialize",
  key% "<os_string::HipOsStr<'_, B> as Deserialize<'de>>::deserialize",
  key% "<path::HipPath<'_, B> as Deserialize<'de>>::deserialize",
  -- returns a string literal
  key% "common::RangeError::const_message"
]

/-- The reviewed lifetime-manufacturing sites: (kind, enclosing fn, enclosing fn is `unsafe`).
    Line numbers are deliberately not part of the key (they are in the generated rows and are
    printed by the driver). Review notes:
    * `slice_ref_unchecked` transmutes `&[u8]` to `&'borrow [u8]` — inside an `unsafe fn` whose
      contract is "slice is part of self" (the safe `slice_ref`/`try_slice_ref` check it, C08);
    * `manually_drop_as_*`, `concat_slices`/`join_slices` (`&[&str]`→`&[&[u8]]`),
      `from_boxed_slice` (`Box<[T]>`→`Box<[ManuallyDrop<T>]>`), `as_borrowed`
      (`&'borrow [u8]`→`&'borrow OsStr`/`Path`) transmute between layout-identical types and
      KEEP the lifetime (both sides are spelled in the turbofish or the signature);
    * `union`/`union_mut` reinterpret `&self.pivot` with the lifetime of `&self`;
    * `from_raw_parts*` / `as_ref`/`as_mut` sites rebuild a slice/reference from the vector's or
      the counted pointer's own pointer and are returned with the lifetime of `&self`/`&mut self`
      by the signature (elided), except the two `*_extended` fns and `*_unchecked` which are
      `unsafe fn`;
    * the three `*_extended` calls pass the result straight back under the `&self` lifetime. -/
def reviewedSites : List (SiteKind × Nat × Bool) := [
  (.refDeref, key% "bytes::raw::HipByt::union", false),
  (.refDeref, key% "bytes::raw::HipByt::union_mut", false),
  (.transmute, key% "bytes::raw::HipByt::slice_ref_unchecked", true),
  (.fromRawParts, key% "bytes::raw::allocated::Allocated::as_slice", false),
  (.fromRawParts, key% "bytes::raw::allocated::Allocated::as_mut_slice_unchecked", true),
  (.extendedCall, key% "bytes::raw::allocated::Allocated::spare_capacity_mut", false),
  (.transmute, key% "common::manually_drop_as_ref", false),
  (.transmute, key% "common::manually_drop_as_mut", false),
  (.fromRawParts, key% "common::drain::Drain::as_slice", false),
  (.fromRawParts, key% "<common::drain::Drain as Drop>::drop", false),
  (.ptrAsRef, key% "smart::Smart::inner", false),
  (.ptrAsRef, key% "smart::Smart::as_mut", false),
  (.ptrAsRef, key% "smart::Smart::as_mut_unchecked", true),
  (.ptrAsRef, key% "smart::Smart::as_mut_unchecked_extended", true),
  (.ptrAsRef, key% "smart::Smart::ref_count", false),
  (.refDeref, key% "<smart::Smart as Clone>::clone", false),
  (.transmute, key% "string::HipStr::concat_slices", false),
  (.transmute, key% "string::HipStr::join_slices", false),
  (.transmute, key% "vecs::inline::InlineVec::from_boxed_slice", false),
  (.fromRawParts, key% "vecs::inline::InlineVec::as_slice", false),
  (.fromRawParts, key% "vecs::inline::InlineVec::as_mut_slice", false),
  (.fromRawParts, key% "vecs::inline::InlineVec::spare_capacity_mut", false),
  (.ptrAsRef, key% "vecs::thin::ThinVec::from_array", false),
  (.transmute, key% "vecs::thin::ThinVec::from_boxed_slice", false),
  (.ptrAsRef, key% "vecs::thin::ThinVec::with_capacity", false),
  (.ptrAsRef, key% "vecs::thin::ThinVec::header", false),
  (.ptrAsRef, key% "vecs::thin::ThinVec::header_mut", true),
  (.extendedCall, key% "vecs::thin::ThinVec::as_slice", false),
  (.fromRawParts, key% "vecs::thin::ThinVec::as_slice_extended", true),
  (.extendedCall, key% "vecs::thin::ThinVec::as_mut_slice", false),
  (.fromRawParts, key% "vecs::thin::ThinVec::as_mut_slice_extended", true),
  (.ptrAsRef, key% "vecs::thin::ThinVec::set_capacity", true),
  (.fromRawParts, key% "vecs::thin::ThinVec::spare_capacity_mut", false),
  (.ptrAsRef, key% "vecs::thin::ThinVec::try_extend_from_within", false),
  (.transmute, key% "os_string::HipOsStr::as_borrowed", false),
  (.transmute, key% "path::HipPath::as_borrowed", false)
]

/-! ### Row predicates (Bool, so that the driver can list the falsifying rows) -/

/-- Row predicate of `unchecked_is_unsafe`. -/
def uncheckedOk (f : FnSig) : Bool := !(f.nameUnchecked || f.hasSafetyDoc) || f.isUnsafe

/-- Row predicate of `forwarders_are_unsafe`: a pure forwarder to a callee reached in unsafe
    context, handing its own non-`self` parameters through unvalidated, trusts its caller as
    much as the callee does. No exception list: on the unchanged tree every such row is an
    `unsafe fn` (`MutVector::set_len` for `Vec`, and the `trait_impls!` arm for the vectors). -/
def forwarderOk (f : FnSig) : Bool := f.forwardsToUnsafe.isNone || f.isUnsafe

/-- Rows for which the probe "call without `unsafe` must be rejected (E0133)" is mandatory. -/
def mustBeUnsafe (f : FnSig) : Bool :=
  f.nameUnchecked || f.hasSafetyDoc || f.forwardsToUnsafe.isSome

/-! ### Bitwise copies need `T: Copy` -/

/-- NAME rule: a fn of a type of `vecs::` called `copy` or `…_copy…` announces a bitwise copy. -/
def nameSaysCopy (f : FnSig) : Bool :=
  keyStartsWith f.ownerKey (key% "vecs::") &&
    (f.simpleKey == key% "copy" || keyContains f.simpleKey (key% "_copy"))

/-- BODY rule: the fn (or a same-type / free crate fn it calls) uses a raw-copy primitive, reads
    from a source that stays alive (`&self`, `&[T]`, `&Self`) and produces owned elements
    (returns `Self`/`T`, or writes into `&mut self`): the source and the product both own the
    same bits afterwards. (Fns that MOVE elements — `pop`, `remove`, `insert`, `swap_remove`,
    `split_off`, `append`, `from_array`, iterators — read from `&mut self` / owned values only and
    are not matched; a duplication WITHIN `&mut self`, as `extend_from_within_copy`, is matched by
    the name rule only.) -/
def bodyDuplicates (f : FnSig) : Bool :=
  f.dupBits.isSome && f.sharedSrc && f.producesOwned && f.elemParam != 0

/-- The fn must require `T: Copy` of its element type. -/
def needsCopy (f : FnSig) : Bool := nameSaysCopy f || bodyDuplicates f

/-- Reviewed exemptions (full row names): fns matched by `needsCopy` that are sound without
    `T: Copy`. EMPTY on the current source: every matched fn carries the bound. -/
def copyExempt : List Nat := []

/-- Row predicate of `bitwise_copy_requires_copy` (safe AND unsafe fns: `T: Copy` is a
    requirement on the type argument, which no `# Safety` contract of the crate mentions). -/
def bitwiseCopyOk (f : FnSig) : Bool :=
  !needsCopy f || (f.elemParam != 0 && f.bounds.contains (f.elemParam, key% "Copy")) ||
    copyExempt.contains f.key

/-- Row predicate of `name_unchecked_consistent` (translator cross-check, on keys). -/
def nameFlagOk (f : FnSig) : Bool :=
  f.nameUnchecked == keyEndsWith f.simpleKey (key% "_unchecked") &&
  f.key == (if f.ownerKey == 0 then f.simpleKey
            else keyAppend (keyAppend f.ownerKey (key% "::")) f.simpleKey)

/-- `i ⊒ o`: data valid for region `i` may be handed out under region `o`
    (same region, `'static`, or a declared bound `i: o`). -/
def outlivedBy (f : FnSig) (i o : Region) : Bool :=
  i == o || i == .static || f.outlives.contains (i, o)

/-- The fn borrows its receiver (`&self` / `&mut self`). -/
def hasSelfRef (f : FnSig) : Bool := f.ins.any fun i => i.role == .selfRef

/-- May the output position `pos` be justified by an input of role `r`?
    * `selfMut` (the region of a `&'p mut` field of `Self`): never when the receiver is borrowed —
      what sits behind a `&'p mut` can only be reborrowed for the self-borrow; only a by-value
      `self` may give it away;
    * a REFERENCE output: not by the `'borrow` of a Hip value, and — when the receiver is
      borrowed — not by any other lifetime parameter of `Self` either (a `&'a [T]` handed out by
      `Drain<'a, V>::as_slice(&self)` would survive `next()`/drop of the drain); the reviewed
      borrowed-view functions are the only exception;
    * other positions (the `'borrow` of a returned Hip value, lifetime parameters of returned
      guards/errors/iterators): any remaining role — those values are shared views that the
      receiver itself could clone. -/
def roleOk (f : FnSig) (r : InRole) (pos : OutPos) : Bool :=
  if r == .selfMut then !hasSelfRef f
  else if pos == .ref then
    (r != .selfHip && r != .argHip && !(r == .selfOther && hasSelfRef f)) ||
      borrowViewFns.contains f.simpleKey
  else true

/-- The output region is (outlived by) the region of some input that may legitimately be its
    source. -/
def tied (f : FnSig) (o : OutRegion) : Bool :=
  f.ins.any fun i => outlivedBy f i.region o.region && roleOk f i.role o.pos

/-- Row predicate of `region_flow`. -/
def flowOk (f : FnSig) : Bool :=
  f.isUnsafe || f.ins.isEmpty || f.outs.all (tied f) ||
    (neverBorrowed.contains f.key && !mayAliasBorrow.contains f.simpleKey)

/-- Key of `X` for a row named `X_unchecked`. -/
def baseKey (f : FnSig) : Nat := keyDropEnd f.simpleKey 10

/-- Row predicate of `safe_counterpart`: an `X_unchecked` row has a safe row `X` or `try_X`
    with the same owner (type / impl). -/
def counterpartOk (all : List FnSig) (f : FnSig) : Bool :=
  !f.nameUnchecked ||
    all.any fun g => !g.isUnsafe && g.ownerKey == f.ownerKey &&
      (g.simpleKey == baseKey f || g.simpleKey == keyAppend (key% "try_") (baseKey f))

def siteKey (s : Site) : SiteKind × Nat × Bool := (s.kind, s.fnKey, s.fnUnsafe)

/-- Sites of the generated list that are not in the reviewed list. -/
def unreviewedSites : List Site := sites.filter fun s => !reviewedSites.contains (siteKey s)

/-- Reviewed entries that no longer exist. -/
def staleSites : List (SiteKind × Nat × Bool) :=
  reviewedSites.filter fun k => !(sites.map siteKey).contains k

/-- The generated keys are the keys of the strings printed next to them (evaluated, not
    kernel-checked: string operations are infeasible in the kernel; the driver's `selfcheck`
    repeats this at run time). -/
def generatedKeysOk : Bool := keysOk pubFns sites

end HipVerif.Model.PubFns
