/-
  Conversion doors into `HipStr` that have no model in `Model/Utf8.lean` (property C06):

  * UTF-16 decoding, strict and lossy — `String::from_utf16`, `String::from_utf16_lossy`
    (what `HipStr::from_utf16(_lossy)` delegate to): `char::decode_utf16` unit by unit.
  * The strict byte doors — `from_utf8`, `TryFrom<…bytes…>`, `HipOsStr::to_str`/`into_str`,
    `HipPath::into_str`: accept exactly the valid byte strings, hand the input back otherwise.
  * The lossy byte doors — `from_utf8_lossy`, `HipOsStr::to_str_lossy`: `decodeLossy`.

  On Unix an `OsStr`/`Path` is an arbitrary byte string, so the OS doors are modelled on
  `List UInt8` like the byte doors.  Core-only imports; everything is executable.
-/
import HipVerif.Model.Utf8

namespace HipVerif.Utf8

/-! ## UTF-16 -/

/-- High (leading) surrogate `D800..DBFF`. -/
def isHighSurrogate (u : UInt16) : Bool := 0xD800 ≤ u.toNat && u.toNat ≤ 0xDBFF

/-- Low (trailing) surrogate `DC00..DFFF`. -/
def isLowSurrogate (u : UInt16) : Bool := 0xDC00 ≤ u.toNat && u.toNat ≤ 0xDFFF

/-- `char::decode_utf16`: one item per decoded scalar, `none` for an unpaired surrogate
(a low surrogate met first, or a high surrogate not followed by a low one — in which case the
following unit is examined again). -/
def utf16Scalars : List UInt16 → List (Option Nat)
  | [] => []
  | u :: t =>
    if !isHighSurrogate u && !isLowSurrogate u then some u.toNat :: utf16Scalars t
    else if isLowSurrogate u then none :: utf16Scalars t
    else
      match t with
      | [] => [none]
      | u2 :: t2 =>
        if isLowSurrogate u2 then
          some (0x10000 + (u.toNat - 0xD800) * 1024 + (u2.toNat - 0xDC00)) :: utf16Scalars t2
        else none :: utf16Scalars (u2 :: t2)

/-- `String::from_utf16`: the UTF-8 encoding of the decoded scalars, `none` (= `Err`) when some
surrogate is unpaired. -/
def decodeUtf16 (v : List UInt16) : Option (List UInt8) :=
  let items := utf16Scalars v
  if items.all Option.isSome then some (items.flatMap fun o => encode (o.getD 0)) else none

/-- `String::from_utf16_lossy`: every unpaired surrogate becomes U+FFFD. -/
def decodeUtf16Lossy (v : List UInt16) : List UInt8 :=
  (utf16Scalars v).flatMap fun o => encode (o.getD 0xFFFD)

/-- Local description of "some surrogate is unpaired": a low surrogate not preceded by a high
one, or a high surrogate not followed by a low one (`prevHigh` = the previous unit was a high
surrogate). -/
def hasUnpairedSurrogate (prevHigh : Bool) : List UInt16 → Bool
  | [] => false
  | u :: t =>
    (isLowSurrogate u && !prevHigh) ||
    (isHighSurrogate u && !((t.head?.map isLowSurrogate).getD false)) ||
    hasUnpairedSurrogate (isHighSurrogate u) t

/-! ## Strict and lossy byte doors -/

/-- `HipOsStr::to_str`, `OsStr::to_str`: `Some` of the same bytes iff they are valid UTF-8. -/
def toStr (bs : List UInt8) : Option (List UInt8) := if valid bs then some bs else none

/-- `HipOsStr::into_str`, `HipPath::into_str`, `OsString::into_string`: `Ok` of the same bytes
iff valid, otherwise `Err` handing the ORIGINAL value back. -/
def intoStr (bs : List UInt8) : Except (List UInt8) (List UInt8) :=
  if valid bs then .ok bs else .error bs

/-- `HipStr::from_utf8`, `TryFrom<HipByt>`…, `String::from_utf8`: `Ok` of the same bytes iff
valid, otherwise `Err` with `valid_up_to` and the original bytes. -/
def fromUtf8 (bs : List UInt8) : Except (Nat × List UInt8) (List UInt8) :=
  if valid bs then .ok bs else .error (validUpTo bs, bs)

/-- `HipStr::from_utf8_lossy`, `HipOsStr::to_str_lossy`, `String::from_utf8_lossy`,
`OsStr::to_string_lossy`. -/
def toStrLossy (bs : List UInt8) : List UInt8 := decodeLossy bs

end HipVerif.Utf8
