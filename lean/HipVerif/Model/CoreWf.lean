/-
Well-formedness of the string/bytes state machine, the abstraction function to the std-side
specification, and side conditions on operations.  Definitions only (proofs in `Lemmas/`).
-/
import HipVerif.Model.Core
import HipVerif.Spec.Std

namespace HipVerif.Core
open HipVerif.RangeTy HipVerif.Spec.Range

/-- does this pool entry hold a heap handle owned by inner `i`? -/
def pointsTo (i : Nat) : Option Handle → Bool
  | some h => (match h.repr with | .heap o _ _ _ => o == i | _ => false)
  | none => false

/-- number of live handles sharing inner `i` -/
def refsTo (s : State) (i : Nat) : Nat := s.pool.countP (pointsTo i)

/-- `Allocated::is_valid` + representation invariants of one handle -/
def HandleOk (cfg : Cfg) (s : State) (h : Handle) : Prop :=
  match h.repr with
  | .inline bs => bs.length ≤ cfg.icap
  | .borrowed src off len => off + len ≤ (s.srcs[src]?.getD []).length
  | .heap owner ptrBuf off len =>
    ∃ x, getI s owner = some x ∧ x.live = true ∧ ptrBuf = x.buf ∧ off + len ≤ x.data.length

/-- The invariant of every reachable state (DESIGN.md §6.0, spelled `Inv` there). -/
structure Wf (cfg : Cfg) (s : State) : Prop where
  /-- every live handle is valid: inline fits, borrowed lies in its source, a heap view lies in
  the LIVE owner's buffer and its data pointer is in that buffer -/
  handles : ∀ h hd, getH s h = some hd → HandleOk cfg s hd
  /-- the stored count of a live inner is the number of handles sharing it, minus one -/
  counts : ∀ i x, getI s i = some x → x.live = true → refsTo s i = x.count + 1
  /-- the `Unique` backend never shares -/
  uniq : cfg.backend = .unique → ∀ i x, getI s i = some x → x.live = true → x.count = 0
  /-- the count never exceeds the ceiling (never wraps) -/
  ceil : ∀ i x, getI s i = some x → x.live = true → x.count ≤ cfg.ceil
  /-- a freed inner has no handle -/
  dead : ∀ i x, getI s i = some x → x.live = false → refsTo s i = 0
  /-- the owner Vec's length never exceeds its capacity -/
  datacap : ∀ i x, getI s i = some x → x.live = true → x.data.length ≤ x.cap
  /-- buffer identities are fresh … -/
  bufFresh : ∀ i x, getI s i = some x → x.buf < s.nextBuf
  /-- … and pairwise distinct among live inners: no two owners share a buffer -/
  bufDistinct : ∀ i j x y, getI s i = some x → getI s j = some y → i ≠ j →
    x.live = true → y.live = true → x.buf ≠ y.buf

/-- `Wf` generalised to the middle of an operation: `ex` lists the owners of heap descriptors
currently held in LOCAL variables (taken out of the pool, freshly cloned, freshly boxed …) —
the code's `Allocated` copies that are `forget`-ten, `explicit_drop`-ped or re-installed later.
`Wf cfg s ↔ WfX cfg s []`. -/
structure WfX (cfg : Cfg) (s : State) (ex : List Nat) : Prop where
  handles : ∀ h hd, getH s h = some hd → HandleOk cfg s hd
  held : ∀ i, i ∈ ex → ∃ x, getI s i = some x ∧ x.live = true
  counts : ∀ i x, getI s i = some x → x.live = true → refsTo s i + ex.count i = x.count + 1
  uniq : cfg.backend = .unique → ∀ i x, getI s i = some x → x.live = true → x.count = 0
  ceil : ∀ i x, getI s i = some x → x.live = true → x.count ≤ cfg.ceil
  dead : ∀ i x, getI s i = some x → x.live = false → refsTo s i = 0
  datacap : ∀ i x, getI s i = some x → x.live = true → x.data.length ≤ x.cap
  bufFresh : ∀ i x, getI s i = some x → x.buf < s.nextBuf
  bufDistinct : ∀ i j x y, getI s i = some x → getI s j = some y → i ≠ j →
    x.live = true → y.live = true → x.buf ≠ y.buf

/-- abstraction: what every handle reads back -/
def abs (s : State) : Spec.Std.SPool := s.pool.map (Option.map (view s))

/-- lineage invariant behind the representation contract (C07): a value that does not descend
from `with_capacity` is normalised -/
def NormOk (cfg : Cfg) (s : State) : Prop :=
  ∀ h hd, getH s h = some hd → hd.tainted = false → isNormalized cfg hd = true

/-- Side conditions under which an operation is a call a Rust program can make: bound values
are `usize`s, the lengths involved are what a Rust allocation can have (`≤ isize::MAX`),
probe addresses do not wrap. -/
def OpOk (s : State) : Op → Prop
  | .slice h _ sb eb | .trySlice h _ sb eb =>
    Bound.fits sb ∧ Bound.fits eb ∧ ∀ hd, getH s h = some hd → hlen hd ≤ isizeMax
  | .trySliceRef h _ _ rel plen | .sliceRef h _ _ rel plen =>
    plen ≤ isizeMax ∧ 2 * rel + 1 + plen < U ∧ ∀ hd, getH s h = some hd → hlen hd ≤ isizeMax ∧ rel + 1 + hlen hd < U
  | _ => True

end HipVerif.Core
