/-
Types for the GENERATED `Gen/Concat.lean`: which bounds checks the two-pass constructors
(`HipByt::concat`, `HipByt::join`) perform, as read from the source.
-/
namespace HipVerif.ConcatTy

structure Checks where
  /-- number of `assert!(end_ptr <= final_ptr, …)` guarding a copy inside the copy pass -/
  perPiece : Nat
  /-- an `assert!(end_ptr == final_ptr, …)` after the copy pass, before `set_len` -/
  finalEq : Bool
  /-- number of times the body evaluates `sep.as_ref()` (0 for functions without a separator) -/
  sepEvals : Nat := 0
  /-- `file:line` of the function -/
  loc : String
  deriving Repr, DecidableEq

end HipVerif.ConcatTy
