/-
L0 model of `InlineVec` (/repo/src/vecs/inline.rs). Every definition follows the statement order
of the Rust function named in its docstring.
-/
import HipVerif.Model.SlotsCore
namespace HipVerif.Slots

def boolRet (p : Bool) : Ret := if p then .panic else .unit

/-- `try_push` (inline.rs:312) -/
def iTryPush (s : St) : Ret × St :=
  let (x, s) := s.onMem Mem.mkVal
  if s.v.len < s.v.cap then (.unit, s.store x)
  else (.errFull x, s.withMem (Mem.retId x))

/-- `push` (inline.rs:347): on `Err(value)` the temporary is dropped, then `panic!` -/
def iPush (s : St) : Ret × St :=
  let (x, s) := s.onMem Mem.mkVal
  if s.v.len < s.v.cap then (.unit, s.store x)
  else
    let (_, s) := s.onMem (Mem.dropId x)
    (.panic, s)

/-- `pop` (inline.rs:422) -/
def iPop (s : St) : Ret × St :=
  if s.v.len = 0 then (.none, s)
  else
    let (a, s) := s.onMem (Mem.readMove (s.v.get (s.v.len - 1)))
    let s := s.setLen (s.v.len - 1)
    (.some a, s.withMem (Mem.retId a))

/-- `swap_remove` (inline.rs:599) -/
def iSwapRemove (i : Nat) (s : St) : Ret × St :=
  if i < s.v.len then
    let len := s.v.len
    let s := { s with v := s.v.swap i (len - 1) }
    let s := s.setLen (len - 1)
    let (a, s) := s.onMem (Mem.readMove (s.v.get (len - 1)))
    (.some a, s.withMem (Mem.retId a))
  else (.panic, s)

/-- `remove` / `remove_unchecked` (inline.rs:703,719) -/
def iRemove (i : Nat) (s : St) : Ret × St :=
  if i < s.v.len then
    let len := s.v.len
    let (a, s) := s.onMem (Mem.readMove (s.v.get i))
    let s := s.copyWithin (i + 1) i (len - i - 1)
    let s := s.setLen (len - 1)
    (.some a, s.withMem (Mem.retId a))
  else (.panic, s)

/-- the successful path of `try_insert` (inline.rs:672-681) -/
def iInsertCore (i x : Nat) (s : St) : St :=
  let len := s.v.len
  let s := s.copyWithin i (i + 1) (len - i)
  let s := s.wr i (.init x)
  s.setLen (len + 1)

/-- `try_insert` (inline.rs:663) -/
def iTryInsert (i : Nat) (s : St) : Ret × St :=
  let (x, s) := s.onMem Mem.mkVal
  if i > s.v.len then (.errOob x, s.withMem (Mem.retId x))
  else if s.v.len = s.v.cap then (.errFull x, s.withMem (Mem.retId x))
  else (.unit, iInsertCore i x s)

/-- `insert` (inline.rs:635): on error `panic!`, the error (holding the value) is dropped by the
unwinding -/
def iInsert (i : Nat) (s : St) : Ret × St :=
  let (x, s) := s.onMem Mem.mkVal
  if i > s.v.len ∨ s.v.len = s.v.cap then
    let (_, s) := s.onMem (Mem.dropId x)
    (.panic, s)
  else (.unit, iInsertCore i x s)

/-- `truncate` (inline.rs:568): length first, then a `for` loop of drops -/
def iTruncate (n : Nat) (s : St) : Bool × St :=
  if n < s.v.len then
    let old := s.v.len
    let s := s.setLen n
    s.onMem (Mem.dropLoop (s.v.range n old))
  else (false, s)

/-- the loop of `resize_with` (inline.rs:803-808): `k` more elements from the generator -/
def iFillGen : Nat → St → Bool × St
  | 0, s => (false, s)
  | k + 1, s =>
    match s.onMem Mem.genVal with
    | (none, s) => (true, s)
    | (some a, s) => iFillGen k (s.store a)

/-- `resize_with` (inline.rs:796) -/
def iResizeWith (n : Nat) (s : St) : Bool × St :=
  if n > s.v.len then
    if n ≤ s.v.cap then iFillGen (n - s.v.len) s else (true, s)
  else iTruncate n s

/-- the loop of `resize_with` with the closure of `resize`: `value.clone()` -/
def iFillClone (x : Nat) : Nat → St → Bool × St
  | 0, s => (false, s)
  | k + 1, s =>
    match s.onMem (Mem.cloneId x) with
    | (none, s) => (true, s)
    | (some a, s) => iFillClone x k (s.store a)

/-- `resize` (inline.rs:1018): `value` is a local, dropped on return and on unwind -/
def iResize (n : Nat) (s : St) : Bool × St :=
  let (x, s) := s.onMem Mem.mkVal
  let (p, s) :=
    if n > s.v.len then
      if n ≤ s.v.cap then iFillClone x (n - s.v.len) s else (true, s)
    else iTruncate n s
  let (q, s) := s.onMem (Mem.dropId x)
  (p || q, s)

/-- loop of `extend_from_slice` (inline.rs:944-947) over a caller slice -/
def iCloneIds : List Nat → St → Bool × St
  | [], s => (false, s)
  | a :: as, s =>
    match s.onMem (Mem.cloneId a) with
    | (none, s) => (true, s)
    | (some b, s) => iCloneIds as (s.store b)

/-- `extend_from_slice` (inline.rs:937); the `n` source values stay with the caller -/
def iExtSlice (n : Nat) (s : St) : Bool × St :=
  let (srcs, s) := mkVals n s
  let (p, s) := if s.v.len + n ≤ s.v.cap then iCloneIds srcs s else (true, s)
  (p, s.withMem (Mem.markDrops srcs))

/-- loop of `extend_from_within_range` (inline.rs:991-995): sources are slots of the vector -/
def iCloneSlots : List Slot → St → Bool × St
  | [], s => (false, s)
  | x :: xs, s =>
    match s.onMem (Mem.cloneSlot x) with
    | (none, s) => (true, s)
    | (some b, s) => iCloneSlots xs (s.store b)

/-- `extend_from_within` (inline.rs:975) with the range `a..b` -/
def iExtWithin (a b : Nat) (s : St) : Bool × St :=
  if a ≤ b ∧ b ≤ s.v.len then
    if s.v.len + (b - a) ≤ s.v.cap then iCloneSlots (s.v.range a b) s else (true, s)
  else (true, s)

/-- `Extend::extend` (inline.rs:1272): `for item in iter { self.push(item) }`; the iterator
yields `k` values, every `next` is a user callback -/
def iExtIter : Nat → St → Bool × St
  | 0, s => s.onMem Mem.tick
  | k + 1, s =>
    match s.onMem Mem.genVal with
    | (none, s) => (true, s)
    | (some a, s) =>
      if s.v.len < s.v.cap then iExtIter k (s.store a)
      else
        let (_, s) := s.onMem (Mem.dropId a)
        (true, s)

def iNew (cap : Nat) : Vec := { slots := uninits cap, len := 0 }

/-- `pop_if` (inline.rs:448): `last_mut()?` (no user call on an empty vector), then the user
predicate — a user call that may panic and otherwise answers `ans` — and only then `pop` -/
def iPopIf (ans : Bool) (s : St) : Ret × St :=
  if s.v.len = 0 then (.none, s)
  else
    let (p, s) := s.onMem Mem.tick
    if p then (.panic, s) else if ans then iPop s else (.none, s)

/-- `Extend::extend` (inline.rs:1272) with every user call: `IntoIterator::into_iter`, the loop
(`Iterator::next`, `push`), and the drop of the iterator (at the end of the loop or by unwinding) -/
def iExtend (k : Nat) (s : St) : Bool × St :=
  let (p0, s) := s.onMem Mem.tick
  if p0 then (true, s)
  else
    let (p, s) := iExtIter k s
    let (q, s) := s.onMem Mem.tick
    (p || q, s)

/-- `for item in iter { this.push(item) }` on a local vector (`from_iter`, inline.rs:213) -/
def pushLoopLocal : Nat → Vec → St → Bool × Vec × St
  | 0, o, s =>
    let (p, s) := s.onMem Mem.tick
    (p, o, s)
  | k + 1, o, s =>
    match s.onMem Mem.genVal with
    | (none, s) => (true, o, s)
    | (some a, s) =>
      if o.len < o.cap then pushLoopLocal k (o.store a) s
      else
        let (_, s) := s.onMem (Mem.dropId a)
        (true, o, s)

/-- `InlineVec::from_iter` (inline.rs:208) building a temporary: `into_iter()`, `size_hint()` (user
calls), the assertion on the lower bound, the push loop; the iterator is dropped at the end of the
loop or by unwinding; the new vector is returned (and then dropped by the caller) or dropped by
the unwinding -/
def iFromIter (hint k : Nat) (s : St) : Bool × St :=
  let (p0, s) := s.onMem Mem.tick
  if p0 then (true, s)
  else
    let (p1, s) := s.onMem Mem.tick
    if p1 then
      let (_, s) := s.onMem Mem.tick
      (true, s)
    else if hint ≤ s.v.cap then
      let (p, o, s) := pushLoopLocal k (iNew s.v.cap) s
      let (q, s) := s.onMem Mem.tick
      -- `Drop for InlineVec`: by the caller (a `for` loop that a panicking destructor leaves), or
      -- by the unwinding (no destructor panics then: every element is dropped)
      let (r, s) :=
        if p || q then (false, (s.onMem (Mem.dropSlice (o.range 0 o.len))).2)
        else s.onMem (Mem.dropLoop (o.range 0 o.len))
      (p || q || r, s)
    else
      let (_, s) := s.onMem Mem.tick
      (true, s)

/-- loop of `extend_from_slice` writing into a local vector `o` -/
def cloneIntoLocal : List Slot → Vec → St → Bool × Vec × St
  | [], o, s => (false, o, s)
  | x :: xs, o, s =>
    match s.onMem (Mem.cloneSlot x) with
    | (none, s) => (true, o, s)
    | (some b, s) => cloneIntoLocal xs (o.store b) (s.chk (o.len < o.cap))


/-- `Clone::clone` = `from_slice_clone(self.as_slice())` (inline.rs:1201,900); the clone is a
local: dropped by the unwinding if a clone panics, dropped by the caller otherwise -/
def iClone (s : St) : Bool × St :=
  let o := iNew s.v.cap
  let (p, o, s) := cloneIntoLocal (s.v.range 0 s.v.len) o s
  let (q, s) := s.onMem (Mem.dropLoop (o.range 0 o.len))
  (p || q, s)

/-- `append` (inline.rs:478) from another InlineVec holding `n` fresh values; afterwards the
caller drops `other` -/
def iAppend (n : Nat) (s : St) : Bool × St :=
  let (ids, s) := mkVals n s
  let o : Vec := { slots := ids.map .init ++ uninits (s.v.cap - n), len := n }
  let (p, o, s) :=
    if s.v.len + n ≤ s.v.cap then
      let s := s.wrChunk s.v.len (o.range 0 n)
      let s := s.setLen (s.v.len + n)
      (false, o.setLen 0, s)
    else (true, o, s)
  (p, s.withMem (Mem.markDropSlots (o.range 0 o.len)))

/-- `split_off` (inline.rs:756); the returned vector is then dropped by the caller -/
def iSplitOff (at_ : Nat) (s : St) : Bool × St :=
  if at_ ≤ s.v.len then
    let o := iNew s.v.cap
    let len := s.v.len
    let rem := len - at_
    let s := s.setLen at_
    let s := s.chk (rem ≤ o.cap)
    let o := o.writeChunk 0 (s.v.range at_ len)
    let o := o.setLen rem
    s.onMem (Mem.dropLoop (o.range 0 o.len))
  else (true, s)

/-- `Drain` (common/drain.rs) / `IntoIter` (inline.rs:1301) cursor -/
structure Cur where
  lo : Nat
  hi : Nat
  deriving Repr

/-- `next` (drain.rs:73, inline.rs:1312): read the slot, the caller gets the value -/
def frontStep (c : Cur) (s : St) : Cur × St :=
  if c.lo < c.hi then
    let (a, s) := s.onMem (Mem.readMove (s.v.get c.lo))
    ({ c with lo := c.lo + 1 }, s.withMem (Mem.retId a))
  else (c, s)

/-- `next_back` (drain.rs:94, inline.rs:1349) -/
def backStep (c : Cur) (s : St) : Cur × St :=
  if c.lo < c.hi then
    let (a, s) := s.onMem (Mem.readMove (s.v.get (c.hi - 1)))
    ({ c with hi := c.hi - 1 }, s.withMem (Mem.retId a))
  else (c, s)

/-- std's default `advance_by(k)`: `k` times `next()`, each item dropped at once (a user `Drop`
that may panic; the cursor has already moved) -/
def skipFront : Nat → Cur → St → Bool × Cur × St
  | 0, c, s => (false, c, s)
  | k + 1, c, s =>
    if c.lo < c.hi then
      let (a, s) := s.onMem (Mem.readMove (s.v.get c.lo))
      let c := { c with lo := c.lo + 1 }
      let (p, s) := s.onMem (Mem.dropId a)
      if p then (true, c, s) else skipFront k c s
    else (false, c, s)

/-- std's default `advance_back_by(k)` -/
def skipBack : Nat → Cur → St → Bool × Cur × St
  | 0, c, s => (false, c, s)
  | k + 1, c, s =>
    if c.lo < c.hi then
      let (a, s) := s.onMem (Mem.readMove (s.v.get (c.hi - 1)))
      let c := { c with hi := c.hi - 1 }
      let (p, s) := s.onMem (Mem.dropId a)
      if p then (true, c, s) else skipBack k c s
    else (false, c, s)

/-- a script of pulls; `true` = a destructor of a skipped item panicked (the script stops) -/
def iterSteps : List IStep → Cur → St → Bool × Cur × St
  | [], c, s => (false, c, s)
  | .front :: r, c, s =>
    let (c, s) := frontStep c s
    iterSteps r c s
  | .back :: r, c, s =>
    let (c, s) := backStep c s
    iterSteps r c s
  | .nth k :: r, c, s =>
    match skipFront k c s with
    | (true, c, s) => (true, c, s)
    | (false, c, s) =>
      let (c, s) := frontStep c s
      iterSteps r c s
  | .nthBack k :: r, c, s =>
    match skipBack k c s with
    | (true, c, s) => (true, c, s)
    | (false, c, s) =>
      let (c, s) := backStep c s
      iterSteps r c s

/-- `fold` / `for_each` (std default: `while let Some(x) = self.next() { acc = f(acc, x) }`) with
a user closure that takes the item: a user call that may panic — the item, already moved out, is
then dropped by the unwinding — and otherwise keeps the item (handed to the caller). `n` = fuel
(`hi - lo`). -/
def foldFront : Nat → Cur → St → Bool × Cur × St
  | 0, c, s => (false, c, s)
  | n + 1, c, s =>
    if c.lo < c.hi then
      let (a, s) := s.onMem (Mem.readMove (s.v.get c.lo))
      let c := { c with lo := c.lo + 1 }
      let (p, s) := s.onMem Mem.tick
      if p then
        let (_, s) := s.onMem (Mem.dropId a)
        (true, c, s)
      else foldFront n c (s.withMem (Mem.retId a))
    else (false, c, s)

/-- `rfold` (std default over `next_back`) with the same closure -/
def foldBack : Nat → Cur → St → Bool × Cur × St
  | 0, c, s => (false, c, s)
  | n + 1, c, s =>
    if c.lo < c.hi then
      let (a, s) := s.onMem (Mem.readMove (s.v.get (c.hi - 1)))
      let c := { c with hi := c.hi - 1 }
      let (p, s) := s.onMem Mem.tick
      if p then
        let (_, s) := s.onMem (Mem.dropId a)
        (true, c, s)
      else foldBack n c (s.withMem (Mem.retId a))
    else (false, c, s)

/-- `count()` (std default: `fold(0, |n, _| n + 1)`): every item is dropped inside the closure -/
def countFront : Nat → Cur → St → Bool × Cur × St
  | 0, c, s => (false, c, s)
  | n + 1, c, s =>
    if c.lo < c.hi then
      let (a, s) := s.onMem (Mem.readMove (s.v.get c.lo))
      let c := { c with lo := c.lo + 1 }
      let (p, s) := s.onMem (Mem.dropId a)
      if p then (true, c, s) else countFront n c s
    else (false, c, s)

/-- `last()` (std default: `fold(None, |_, x| Some(x))`): each new item replaces the accumulator,
whose previous value `prev` is dropped; the last one is handed to the caller.  When that drop
panics the new accumulator `Some(x)` — already written to the closure's return slot — is not dropped
by the unwinding (observed, rustc 1.96; same rule as `tRoundtrip`): it leaks -/
def lastFront : Nat → Option Nat → Cur → St → Bool × Option Nat × Cur × St
  | 0, prev, c, s => (false, prev, c, s)
  | n + 1, prev, c, s =>
    if c.lo < c.hi then
      let (a, s) := s.onMem (Mem.readMove (s.v.get c.lo))
      let c := { c with lo := c.lo + 1 }
      match prev with
      | none => lastFront n (some a) c s
      | some y =>
        let (p, s) := s.onMem (Mem.dropId y)
        if p then (true, none, c, s) else lastFront n (some a) c s
    else (false, prev, c, s)

/-- the iterator is consumed by value through a provided method; returns the panic flag and the
cursor that the iterator's own `Drop` then sees -/
def consume (fin : IFin) (c : Cur) (s : St) : Bool × Cur × St :=
  match fin with
  | .fold => foldFront (c.hi - c.lo) c s
  | .rfold => foldBack (c.hi - c.lo) c s
  | .count => countFront (c.hi - c.lo) c s
  | .last =>
    match lastFront (c.hi - c.lo) none c s with
    | (true, _, c, s) => (true, c, s)
    | (false, acc, c, s) =>
      match acc with
      | some a => (false, c, s.withMem (Mem.retId a))
      | none => (false, c, s)
  | .drop | .leak => (false, c, s)

/-- `Drain::drop` (drain.rs:110): drop the unread range, then move the tail back -/
def drainDrop (c : Cur) (tailStart tailLen : Nat) (s : St) : Bool × St :=
  let (p, s) := s.onMem (Mem.dropSlice (s.v.range c.lo c.hi))
  if p then (true, s)
  else
    let start := s.v.len
    let s := s.copyWithin tailStart start tailLen
    (false, s.setLen (start + tailLen))

/-- `drain(a..b)` (drain.rs:32), a script of pulls, then the iterator is forgotten, or consumed by
value and/or dropped (`Drain::drop`; also by the unwinding when a pull or the consumption panics) -/
def drainOp (a b : Nat) (script : List IStep) (fin : IFin) (s : St) : Bool × St :=
  if a ≤ b ∧ b ≤ s.v.len then
    let len := s.v.len
    let s := s.setLen a
    let (p, c, s) := iterSteps script { lo := a, hi := b } s
    if p then
      let (_, s) := drainDrop c b (len - b) s
      (true, s)
    else
      match fin with
      | .leak => (false, s)
      | fin =>
        let (p, c, s) := consume fin c s
        let (q, s) := drainDrop c b (len - b) s
        (p || q, s)
  else (true, s)

/-- `into_iter` (inline.rs:1288), a script of pulls, then the iterator is forgotten, or consumed by
value and/or dropped (`IntoIter::drop`, inline.rs:1336, a `for` loop); afterwards the caller
continues with `InlineVec::new()` -/
def iIntoIter (script : List IStep) (fin : IFin) (s : St) : Bool × St :=
  let (p, c, s) := iterSteps script { lo := 0, hi := s.v.len } s
  let (p, s) :=
    if p then
      let (_, s) := s.onMem (Mem.dropSlice (s.v.range c.lo c.hi))
      (true, s)
    else
      match fin with
      | .leak => (false, s)
      | fin =>
        let (p, c, s) := consume fin c s
        if p then
          let (_, s) := s.onMem (Mem.dropSlice (s.v.range c.lo c.hi))
          (true, s)
        else s.onMem (Mem.dropLoop (s.v.range c.lo c.hi))
  (p, { s with v := iNew s.v.cap })

/-- `Drop for InlineVec` (inline.rs:1206) -/
def iDrop (s : St) : Bool × St :=
  let (p, s) := s.onMem (Mem.dropLoop (s.v.range 0 s.v.len))
  (p, { s with v := { s.v with len := 0, h := { s.v.h with alive := false } } })

/-- The bitwise move of `from_mut_vector` (inline.rs:193, thin.rs:189): the `src.len` slots of
`src` are copied to the front of the empty `dst`, `dst.set_len(src.len)`, `src.set_len(0)`.
Returns `(dst, src)`. -/
def moveAll (src dst : Vec) : Vec × Vec :=
  ((dst.writeChunk 0 (src.range 0 src.len)).setLen src.len, src.setLen 0)

/-- an empty `ThinVec<_, Reserved>` as `with_capacity(c)` builds it in the buffer `b` -/
def thinLocal (esz c b : Nat) : Vec :=
  { slots := uninits (roundCap esz (max c (minCap esz))), len := 0,
    h := { thin := true, esz := esz, buf := b } }

/-- `ThinVec::from(v)` then `InlineVec::from(t)`: two `from_mut_vector`; each emptied source is
dropped at the end of the call (nothing left to drop in it) -/
def iRoundtrip (s : St) : Bool × St :=
  let len := s.v.len
  -- ThinVec::<_, Reserved>::with_capacity(len)
  let (b, s) := s.onMem Mem.alloc
  let t0 := thinLocal s.v.h.esz len b
  let s := s.chk (len ≤ t0.cap)
  let (t, v0) := moveAll s.v t0
  -- drop of the emptied InlineVec
  let s := s.withMem (Mem.markDropSlots (v0.range 0 v0.len))
  -- InlineVec::from_mut_vector(t)
  let i0 := iNew v0.cap
  let s := s.chk (len ≤ i0.cap)
  let (i, t) := moveAll t i0
  -- drop of the emptied ThinVec: elements (none), Reserved prefix (no drop), dealloc
  let s := s.withMem (Mem.markDropSlots (t.range 0 t.len))
  let s := s.withMem (Mem.free t.h.buf)
  (false, { s with v := { i with h := v0.h } })

end HipVerif.Slots
