/-
Data types of the auto-trait table (property C05).

`Gen/AutoTraits.lean` (regenerated from /repo/src by `harness/src/extract/autotraits.rs`)
contains only data of these types; `Model/AutoTrait.lean` contains the resolution procedure.
Lifetimes and const generics are erased: auto traits never depend on them (a `'static`-only
impl would be recorded through `ImplFact.lifetimeGeneric = false`).
-/
namespace HipVerif.Model.AutoTrait

/-- The two auto traits of interest. -/
inductive Trait where
  | send
  | sync
  deriving Repr, DecidableEq, Inhabited

/-- Type terms. `named` = a struct/enum/union defined in the crate (looked up in the table,
    name = module path of the definition); `std` = a type of another crate (resolved through
    the `use` declarations, e.g. `alloc::vec::Vec`), decided by the base-fact list of the model. -/
inductive Ty where
  | named (n : String) (args : List Ty)
  | std (n : String) (args : List Ty)
  | ref (t : Ty)
  | refMut (t : Ty)
  | rawPtrConst (t : Ty)
  | rawPtrMut (t : Ty)
  | phantom (t : Ty)
  | cell (t : Ty)
  | atomicUsize
  | nonNull (t : Ty)
  | prim (n : String)
  | param (i : Nat)
  | maybeUninit (t : Ty)
  | manuallyDrop (t : Ty)
  | tuple (ts : List Ty)
  | slice (t : Ty)
  | array (t : Ty)
  | unit
  | nonZeroU8
  deriving Repr, Inhabited

inductive Kind where
  | struct
  | enum
  | union
  deriving Repr, DecidableEq, Inhabited

/-- A struct/enum/union: `fields` are the types of ALL fields of all variants, written over
    `param 0 … param (nparams-1)` (the type parameters in declaration order). -/
structure Def where
  name : String
  kind : Kind
  nparams : Nat
  lifetimes : Nat
  fields : List Ty
  loc : String
  deriving Repr, Inhabited

/-- An explicit `unsafe impl<…> Send/Sync for Target<…> where …` (or a negative impl).
    The translator only accepts impls whose self type applies the target to distinct impl
    parameters, so `bounds` can be written over the TARGET's parameters. `otherBounds` are the
    non-auto-trait bounds (resolved names), `lifetimeGeneric` says that every lifetime argument
    of the self type is `'_` or an unconstrained impl lifetime parameter. -/
structure ImplFact where
  tr : Trait
  target : String
  negative : Bool
  bounds : List (Ty × Trait)
  otherBounds : List String
  lifetimeGeneric : Bool
  loc : String
  deriving Repr, Inhabited

structure Table where
  defs : List Def
  impls : List ImplFact
  deriving Repr, Inhabited

end HipVerif.Model.AutoTrait
