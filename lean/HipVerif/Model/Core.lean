/-
The shared state machine of the string/bytes family (`HipByt`, and through the
`repr(transparent)` wrappers `HipStr`, `HipOsStr`, `HipPath`).

It mirrors what the code DOES, field by field and branch by branch
(src/bytes.rs, src/bytes/raw.rs, src/bytes/raw/allocated.rs, src/smart.rs):

* a handle is `inline bytes | borrowed src off len | heap owner ptrBuf off len` — the heap
  descriptor carries the owner AND a separate data pointer `(ptrBuf, off)` exactly like
  `Allocated { owner, ptr, len }`, so "the data pointer lies in the owner's buffer" is a
  theorem about reachable states (`Wf`), not something the types enforce;
* an `Inner` is the `Box<Inner<Vec<u8>, B>>`: stored count (= shares − 1), the owner `Vec`
  (its bytes — possibly longer than any window: a stale tail —, its capacity, the identity
  of its buffer) and a liveness flag (freed boxes stay in the list, dead);
* `Vec<u8>` itself is SPECIFIED, not modelled: exact-capacity constructors, amortised growth
  `max (2*cap) (max required 8)`, a fresh buffer identity whenever it grows.

Everything is a total computable function, import-free, so that the same definitions are
compiled into `core_driver` (correspondence with the real crate) and reasoned about in
`Props/`.
-/
import HipVerif.Gen.Ranges

namespace HipVerif.Core
open HipVerif.RangeTy

inductive Backend where
  | arc | rc | unique
  deriving DecidableEq, Repr

structure Cfg where
  backend : Backend
  /-- largest STORED count (`shares − 1`) that an increment may produce; the real value is
  `usize::MAX − 1` for `Arc` (`while old < usize::MAX - 1`) and `Rc` (`new < usize::MAX`).
  A parameter: the theorems hold for every ceiling. -/
  ceil : Nat
  /-- debug assertions compiled in? -/
  debug : Bool
  /-- `INLINE_CAPACITY` (23 on 64-bit) -/
  icap : Nat
  deriving Repr

/-- `Box<Inner<Vec<u8>, B>>` -/
structure Inner where
  count : Nat
  data : List UInt8
  cap : Nat
  buf : Nat
  live : Bool
  deriving Repr, DecidableEq

inductive Rep where
  | inline (bytes : List UInt8)
  | borrowed (src off len : Nat)
  | heap (owner ptrBuf off len : Nat)
  deriving Repr, DecidableEq

structure Handle where
  repr : Rep
  /-- ghost: descends from an explicit `with_capacity` request (the only documented source
  of non-normalised values reachable through the safe API) -/
  tainted : Bool
  deriving Repr, DecidableEq

/-- allocator-visible effects of a step -/
inductive Event where
  | allocInner (i : Nat)
  | freeInner (i : Nat)
  | allocBuf (b cap : Nat)
  | freeBuf (b : Nat)
  /-- the Vec grew: its buffer `old` was reallocated into `new` -/
  | growBuf (old new cap : Nat)
  /-- a caller-owned `Vec` buffer entered the system (`From<Vec<u8>>`) -/
  | importBuf (b cap : Nat)
  /-- a buffer left the system inside a returned `Vec` (`into_vec`, a `mutate` guard) -/
  | exportBuf (b : Nat)
  /-- bytes `[lo, hi)` of buffer `b` were written -/
  | write (b lo hi : Nat)
  deriving Repr, DecidableEq

structure State where
  inners : List Inner
  /-- caller-owned memory that may be borrowed -/
  srcs : List (List UInt8)
  pool : List (Option Handle)
  nextBuf : Nat
  deriving Repr

/-- user-visible result of an operation -/
inductive Ret where
  | unit
  | optByte (b : Option UInt8)
  | bool (b : Bool)
  | bytes (bs : List UInt8)
  | nat (n : Nat)
  /-- `Err` of `try_slice`: requested start, end and the kind -/
  | sliceErr (a b : Nat) (k : SliceErrorKind)
  | none
  | panic
  | badOp
  deriving Repr, DecidableEq

structure Out where
  ret : Ret
  events : List Event
  deriving Repr

/-- operations of a `mutate()` guard on the owned `Vec<u8>` -/
inductive VecOp where
  | push (b : UInt8)
  | extend (bs : List UInt8)
  | truncate (n : Nat)
  | clear
  deriving Repr, DecidableEq

inductive Op where
  | new (d : Nat)
  | fromSlice (d : Nat) (bs : List UInt8)
  /-- `From<Vec<u8>>` / `From<Box<[u8]>>` (cap = len) / `Cow::Owned` -/
  | fromVec (d : Nat) (bs : List UInt8) (cap : Nat)
  /-- `borrowed` / `from_static` / `Cow::Borrowed` -/
  | borrowed (d src off len : Nat)
  | withCapacity (d n : Nat)
  | inline (d : Nat) (bs : List UInt8)
  | tryInline (d : Nat) (bs : List UInt8)
  | clone (h d : Nat)
  | slice (h d : Nat) (sb eb : Bound)
  | trySlice (h d : Nat) (sb eb : Bound)
  /-- `try_slice_ref` with a probe at signed address distance `rel` from the value's start
  (`relNeg` = the probe starts before) and of length `plen` -/
  | trySliceRef (h d : Nat) (relNeg : Bool) (rel plen : Nat)
  | sliceRef (h d : Nat) (relNeg : Bool) (rel plen : Nat)
  /-- what an inherited `str` method does with one std item: `slice_ref_unchecked` of a
  window that std guarantees to lie inside -/
  | adopt (h d off len : Nat)
  | pushSlice (h : Nat) (bs : List UInt8)
  | pop (h : Nat)
  | truncate (h n : Nat)
  | clear (h : Nat)
  | shrinkTo (h n : Nat)
  | shrinkToFit (h : Nat)
  /-- `as_mut_slice()`: if granted, write `b` at `i` -/
  | asMutWrite (h i : Nat) (b : UInt8)
  /-- `to_mut_slice()[i] = b` -/
  | toMutWrite (h i : Nat) (b : UInt8)
  | makeAsciiLower (h : Nat)
  | makeAsciiUpper (h : Nat)
  | toAsciiLower (h d : Nat)
  | toAsciiUpper (h d : Nat)
  | mutate (h : Nat) (script : List VecOp)
  /-- the guard is `mem::forget`-ten -/
  | mutateLeak (h : Nat) (script : List VecOp)
  | intoOwned (h d : Nat)
  | intoVec (h : Nat)
  /-- `Vec::from(hip)` -/
  | toVec (h : Nat)
  | intoBorrowed (h : Nat)
  | repeat (h d n : Nat)
  | spareCapacity (h : Nat)
  | drop (h : Nat)
  deriving Repr, DecidableEq

/-! ## Vec<u8> as specified -/

/-- `RawVec::grow_amortized` for `u8`: `max(2*cap, required)` and at least 8. -/
def growCap (cap required : Nat) : Nat := max (max (2 * cap) required) 8

def asciiLower (b : UInt8) : UInt8 := if 65 ≤ b.toNat ∧ b.toNat ≤ 90 then b + 32 else b
def asciiUpper (b : UInt8) : UInt8 := if 97 ≤ b.toNat ∧ b.toNat ≤ 122 then b - 32 else b

/-! ## Accessors -/

def getH (s : State) (h : Nat) : Option Handle := s.pool[h]?.getD none
def setH (s : State) (h : Nat) (v : Option Handle) : State := { s with pool := s.pool.set h v }
def getI (s : State) (i : Nat) : Option Inner := s.inners[i]?
def setI (s : State) (i : Nat) (x : Inner) : State := { s with inners := s.inners.set i x }

def init (srcs : List (List UInt8)) (slots : Nat) : State :=
  { inners := [], srcs := srcs, pool := List.replicate slots none, nextBuf := 1 }

/-- the bytes a handle exposes (`as_slice`) -/
def view (s : State) (h : Handle) : List UInt8 :=
  match h.repr with
  | .inline bs => bs
  | .borrowed src off len => ((s.srcs[src]?.getD []).drop off).take len
  | .heap owner _ off len => (((getI s owner).map (·.data)).getD [] |>.drop off).take len

def hlen (h : Handle) : Nat :=
  match h.repr with
  | .inline bs => bs.length
  | .borrowed _ _ len => len
  | .heap _ _ _ len => len

def isHeap (h : Handle) : Bool := match h.repr with | .heap .. => true | _ => false
def isInline (h : Handle) : Bool := match h.repr with | .inline .. => true | _ => false
def isBorrowed (h : Handle) : Bool := match h.repr with | .borrowed .. => true | _ => false

/-- `HipByt::is_normalized` -/
def isNormalized (cfg : Cfg) (h : Handle) : Bool :=
  isInline h || isBorrowed h || decide (hlen h > cfg.icap)

/-- `HipByt::capacity` -/
def capacity (cfg : Cfg) (s : State) (h : Handle) : Nat :=
  match h.repr with
  | .inline _ => cfg.icap
  | .borrowed _ _ len => len
  | .heap owner _ _ _ => ((getI s owner).map (·.cap)).getD 0

/-- `Kind::is_unique` on the owner of a heap handle -/
def ownerUnique (cfg : Cfg) (s : State) (owner : Nat) : Bool :=
  match cfg.backend with
  | .unique => true
  | _ => ((getI s owner).map (·.count)).getD 0 == 0

/-- `Allocated::is_valid` (the debug assertion at the head of most `Allocated` methods) -/
def heapValid (s : State) (owner ptrBuf off len : Nat) : Bool :=
  match getI s owner with
  | some x => x.live && (ptrBuf == x.buf) && decide (off ≤ x.data.length) && decide (off + len ≤ x.data.length)
  | none => false

/-! ## Primitive state transformers -/

/-- `Kind::incr`: `true` = `Done`, `false` = `Overflow` -/
def incr (cfg : Cfg) (s : State) (owner : Nat) : State × Bool :=
  match cfg.backend, getI s owner with
  | .unique, _ => (s, false)
  | _, some x => if x.count < cfg.ceil then (setI s owner { x with count := x.count + 1 }, true) else (s, false)
  | _, none => (s, false)

/-- `Smart::drop`: `Kind::decr`; on `Overflow` (last share) the box and the Vec's buffer are freed. -/
def release (cfg : Cfg) (s : State) (owner : Nat) : State × List Event :=
  match getI s owner with
  | some x =>
    if cfg.backend == .unique || x.count == 0 then
      (setI s owner { x with live := false },
        (if x.cap > 0 then [Event.freeBuf x.buf] else []) ++ [Event.freeInner owner])
    else (setI s owner { x with count := x.count - 1 }, [])
  | none => (s, [])

/-- `Allocated::new(vec)`: box a Vec that already exists (buffer `buf`, capacity `cap`). -/
def boxVec (s : State) (data : List UInt8) (cap buf : Nat) : State × Nat × List Event :=
  let i := s.inners.length
  ({ s with inners := s.inners ++ [{ count := 0, data := data, cap := cap, buf := buf, live := true }] },
    i, [Event.allocInner i])

/-- a fresh `Vec<u8>` with exactly `cap` bytes of capacity holding `data`
(`Vec::with_capacity`, `to_vec`, `repeat`), then `Allocated::new`. -/
def newHeap (s : State) (data : List UInt8) (cap : Nat) : State × Rep × List Event :=
  let b := s.nextBuf
  let s1 := { s with nextBuf := s.nextBuf + 1 }
  let (s2, i, ev) := boxVec s1 data cap b
  (s2, .heap i b 0 data.length,
    (if cap > 0 then [Event.allocBuf b cap] else []) ++ ev ++
    (if data.length > 0 then [Event.write b 0 data.length] else []))

/-- dropping a handle (`Drop for HipByt`) -/
def dropRepr (cfg : Cfg) (s : State) (r : Rep) : State × List Event :=
  match r with
  | .heap owner _ _ _ => release cfg s owner
  | _ => (s, [])

/-- `HipByt::from_slice` -/
def fromSliceRepr (cfg : Cfg) (s : State) (bs : List UInt8) : State × Rep × List Event :=
  if bs.length = 0 then (s, .inline [], [])
  else if bs.length ≤ cfg.icap then (s, .inline bs, [])
  else newHeap s bs bs.length

/-- `HipByt::normalized_from_vec` on a Vec living in buffer `buf` with capacity `cap`
(already accounted for by the caller of this function). -/
def fromVecRepr (cfg : Cfg) (s : State) (bs : List UInt8) (cap buf : Nat) : State × Rep × List Event :=
  if bs.length ≤ cfg.icap then
    (s, .inline bs, if cap > 0 then [Event.freeBuf buf] else [])
  else
    let (s1, i, ev) := boxVec s bs cap buf
    (s1, .heap i buf 0 bs.length, ev)

/-- debug assertion -/
def dbgFails (cfg : Cfg) (cond : Bool) : Bool := cfg.debug && !cond

/-- `Allocated::explicit_clone` + `HipByt::clone` -/
def cloneRepr (cfg : Cfg) (s : State) (hd : Handle) : State × Rep × List Event :=
  match hd.repr with
  | .inline bs => (s, .inline bs, [])
  | .borrowed src off len => (s, .borrowed src off len, [])
  | .heap owner ptrBuf off len =>
    let (s1, done) := incr cfg s owner
    if done then (s1, .heap owner ptrBuf off len, [])
    else newHeap s (view s hd) (view s hd).length   -- `Allocated::from_slice(self.as_slice())`

/-- `HipByt::range_unchecked(a..b)` for `a ≤ b ≤ len` -/
def rangeRepr (cfg : Cfg) (s : State) (hd : Handle) (a b : Nat) : State × Rep × List Event :=
  match hd.repr with
  | .inline bs => (s, .inline ((bs.drop a).take (b - a)), [])
  | .borrowed src off _ => (s, .borrowed src (off + a) (b - a), [])
  | .heap owner ptrBuf off _ =>
    if b - a ≤ cfg.icap then (s, .inline (((view s hd).drop a).take (b - a)), [])
    else
      let (s1, done) := incr cfg s owner
      if done then (s1, .heap owner ptrBuf (off + a) (b - a), [])
      else newHeap s (((view s hd).drop a).take (b - a)) (b - a)

/-- `HipByt::make_unique` -/
def makeUnique (cfg : Cfg) (s : State) (hd : Handle) : State × Rep × List Event :=
  match hd.repr with
  | .inline bs => (s, .inline bs, [])
  | .borrowed _ _ _ => fromSliceRepr cfg s (view s hd)
  | .heap owner ptrBuf off len =>
    if ownerUnique cfg s owner then (s, .heap owner ptrBuf off len, [])
    else
      let bs := view s hd
      let (s1, r, ev1) := newHeap s bs bs.length      -- `from_vec(as_slice().to_vec())`
      let (s2, ev2) := release cfg s1 owner            -- `allocated.explicit_drop()`
      (s2, r, ev1 ++ ev2)

/-- write through a unique/inline handle: replace the window's bytes by `f` of them -/
def writeView (s : State) (r : Rep) (f : List UInt8 → List UInt8) : State × Rep × List Event :=
  match r with
  | .inline bs => (s, .inline (f bs), [])
  | .borrowed src off len => (s, .borrowed src off len, [])   -- never reached: callers gate on it
  | .heap owner ptrBuf off len =>
    match getI s owner with
    | some x =>
      let w := (x.data.drop off).take len
      let data' := x.data.take off ++ f w ++ x.data.drop (off + len)
      (setI s owner { x with data := data' }, .heap owner ptrBuf off len,
        if len > 0 then [Event.write x.buf off (off + len)] else [])
    | none => (s, r, [])

def setAt (bs : List UInt8) (i : Nat) (b : UInt8) : List UInt8 := bs.set i b

/-- run a guard script on an owned Vec: `(data, cap, buf, nextBuf, events)` -/
def vecApply (data : List UInt8) (cap buf nextBuf : Nat) : List VecOp → List UInt8 × Nat × Nat × Nat × List Event
  | [] => (data, cap, buf, nextBuf, [])
  | op :: rest =>
    let (data1, cap1, buf1, next1, ev1) :=
      match op with
      | .push b =>
        if data.length + 1 ≤ cap then (data ++ [b], cap, buf, nextBuf, [])
        else
          let c := growCap cap (data.length + 1)
          (data ++ [b], c, nextBuf, nextBuf + 1,
            [if cap > 0 then Event.growBuf buf nextBuf c else Event.allocBuf nextBuf c])
      | .extend bs =>
        if data.length + bs.length ≤ cap then (data ++ bs, cap, buf, nextBuf, [])
        else
          let c := growCap cap (data.length + bs.length)
          (data ++ bs, c, nextBuf, nextBuf + 1,
            [if cap > 0 then Event.growBuf buf nextBuf c else Event.allocBuf nextBuf c])
      | .truncate n => (data.take n, cap, buf, nextBuf, [])
      | .clear => ([], cap, buf, nextBuf, [])
    let (d, c, b, n, ev2) := vecApply data1 cap1 buf1 next1 rest
    (d, c, b, n, ev1 ++ ev2)

/-- `HipByt::take_vec`: the owned Vec `(data, cap, buf)`, the state with the handle emptied. -/
def takeVec (cfg : Cfg) (s : State) (h : Nat) (hd : Handle) :
    State × (List UInt8 × Nat × Nat) × List Event :=
  let copyOut : State × (List UInt8 × Nat × Nat) × List Event :=
    -- `Vec::from(self.as_slice())`, then `*self = Self::new()` (drops the old value)
    let bs := view s hd
    let b := s.nextBuf
    let s1 := { s with nextBuf := s.nextBuf + 1 }
    let (s2, ev) := dropRepr cfg s1 hd.repr
    (setH s2 h (some { hd with repr := .inline [] }), (bs, bs.length, b),
      (if bs.length > 0 then [Event.allocBuf b bs.length, Event.write b 0 bs.length] else []) ++ ev)
  match hd.repr with
  | .heap owner _ off len =>
    match getI s owner with
    | some x =>
      -- `try_into_vec`: same start and sole owner → unwrap the box, `truncate(len)`
      if off == 0 && ownerUnique cfg s owner then
        (setH (setI s owner { x with live := false }) h (some { hd with repr := .inline [] }),
          (x.data.take len, x.cap, x.buf), [Event.freeInner owner])
      else copyOut
    | none => copyOut
  | _ => copyOut

/-! ## The step function -/

def ok (s : State) (r : Ret) (ev : List Event) : State × Out := (s, { ret := r, events := ev })

/-- install a new handle in an EMPTY slot -/
def install (s : State) (d : Nat) (r : Rep) (t : Bool) (ret : Ret) (ev : List Event) : State × Out :=
  ok (setH s d (some { repr := r, tainted := t })) ret ev

def slotFree (s : State) (d : Nat) : Bool := d < s.pool.length && (getH s d).isNone

/-- `HipByt::truncate(n)` (also behind `clear` and `pop`) -/
def truncateOp (cfg : Cfg) (s : State) (h : Nat) (hd : Handle) (n : Nat) (ret : Ret) : State × Out :=
  if n < hlen hd then
    let res : State × Out :=
      match hd.repr with
      | .heap owner ptrBuf off _ =>
        if n ≤ cfg.icap then
          let (s1, ev) := release cfg s owner
          ok (setH s1 h (some { hd with repr := .inline ((view s hd).take n) })) ret ev
        else ok (setH s h (some { hd with repr := .heap owner ptrBuf off n })) ret []
      | .inline bs => ok (setH s h (some { hd with repr := .inline (bs.take n) })) ret []
      | .borrowed src off _ => ok (setH s h (some { hd with repr := .borrowed src off n })) ret []
    match getH res.1 h with
    | some hd' => if dbgFails cfg (isNormalized cfg hd') then ok s .panic [] else res
    | none => res
  else ok s ret []

/-- `HipByt::shrink_to(n)` -/
def shrinkToOp (cfg : Cfg) (s : State) (h : Nat) (hd : Handle) (n : Nat) : State × Out :=
  match hd.repr with
  | .heap owner _ _ len =>
    let m := max n len
    if m > cfg.icap then
      match getI s owner with
      | some x =>
        if x.cap ≤ m then ok s .unit []
        else
          -- a new owner with exactly `m` bytes of capacity; the old share is released
          let (s1, r, ev1) := newHeap s (view s hd) m
          let (s2, ev2) := release cfg s1 owner
          ok (setH s2 h (some { hd with repr := r })) .unit (ev1 ++ ev2)
      | none => ok s .unit []
    else
      let (s1, ev) := release cfg s owner
      ok (setH s1 h (some { hd with repr := .inline (view s hd) })) .unit ev
  | _ => ok s .unit []

def step (cfg : Cfg) (s : State) (op : Op) : State × Out :=
  match op with
  | .new d =>
    if slotFree s d then install s d (.inline []) false .unit [] else ok s .badOp []
  | .fromSlice d bs =>
    if slotFree s d then
      let (s1, r, ev) := fromSliceRepr cfg s bs
      install s1 d r false .unit ev
    else ok s .badOp []
  | .fromVec d bs cap =>
    if slotFree s d && decide (bs.length ≤ cap) then
      -- the caller's Vec lives in a fresh buffer (none if it never allocated)
      let b := s.nextBuf
      let s0 := { s with nextBuf := s.nextBuf + 1 }
      let (s1, r, ev) := fromVecRepr cfg s0 bs cap b
      install s1 d r false .unit ((if cap > 0 then [Event.importBuf b cap] else []) ++ ev)
    else ok s .badOp []
  | .borrowed d src off len =>
    if slotFree s d && decide (off + len ≤ (s.srcs[src]?.getD []).length) && decide (src < s.srcs.length) then
      install s d (.borrowed src off len) false .unit []
    else ok s .badOp []
  | .withCapacity d n =>
    if slotFree s d then
      if n ≤ cfg.icap then install s d (.inline []) false .unit []
      else
        let (s1, r, ev) := newHeap s [] n
        install s1 d r true .unit ev
    else ok s .badOp []
  | .inline d bs =>
    if slotFree s d then
      if bs.length ≤ cfg.icap then install s d (.inline bs) false .unit [] else ok s .panic []
    else ok s .badOp []
  | .tryInline d bs =>
    if slotFree s d then
      if bs.length ≤ cfg.icap then install s d (.inline bs) false (.bool true) [] else ok s (.bool false) []
    else ok s .badOp []
  | .clone h d =>
    match getH s h with
    | some hd =>
      if slotFree s d then
        let (s1, r, ev) := cloneRepr cfg s hd
        install s1 d r hd.tainted .unit ev
      else ok s .badOp []
    | none => ok s .badOp []
  | .slice h d sb eb =>
    match getH s h with
    | some hd =>
      if slotFree s d then
        match Gen.Ranges.simplifyRangeMono sb eb (hlen hd) with
        | .ok (a, b) =>
          let (s1, r, ev) := rangeRepr cfg s hd a b
          if dbgFails cfg (isNormalized cfg { repr := r, tainted := hd.tainted }) then ok s .panic []
          else install s1 d r hd.tainted .unit ev
        | _ => ok s .panic []
      else ok s .badOp []
    | none => ok s .badOp []
  | .trySlice h d sb eb =>
    match getH s h with
    | some hd =>
      if slotFree s d then
        match Gen.Ranges.simplifyRangeMono sb eb (hlen hd) with
        | .ok (a, b) =>
          let (s1, r, ev) := rangeRepr cfg s hd a b
          if dbgFails cfg (isNormalized cfg { repr := r, tainted := hd.tainted }) then ok s .panic []
          else install s1 d r hd.tainted (.bool true) ev
        | .err (a, b, k) => ok s (.sliceErr a b k) []
        | _ => ok s .panic []
      else ok s .badOp []
    | none => ok s .badOp []
  | .trySliceRef h d relNeg rel plen =>
    match getH s h with
    | some hd =>
      if slotFree s d then
        -- addresses rebased: the value starts at `base`, the probe at `base ± rel`
        let base := rel + 1
        let q := if relNeg then base - rel else base + rel
        match Gen.Ranges.tryRangeOf ⟨base, hlen hd⟩ ⟨q, plen⟩ with
        | .ok (some (a, b)) =>
          let (s1, r, ev) := rangeRepr cfg s hd a b
          if dbgFails cfg (isNormalized cfg { repr := r, tainted := hd.tainted }) then ok s .panic []
          else install s1 d r hd.tainted (.bool true) ev
        | .ok none => ok s (.bool false) []
        | _ => ok s .panic []
      else ok s .badOp []
    | none => ok s .badOp []
  | .sliceRef h d relNeg rel plen =>
    match getH s h with
    | some hd =>
      if slotFree s d then
        let base := rel + 1
        let q := if relNeg then base - rel else base + rel
        match Gen.Ranges.tryRangeOf ⟨base, hlen hd⟩ ⟨q, plen⟩ with
        | .ok (some (a, b)) =>
          let (s1, r, ev) := rangeRepr cfg s hd a b
          if dbgFails cfg (isNormalized cfg { repr := r, tainted := hd.tainted }) then ok s .panic []
          else install s1 d r hd.tainted .unit ev
        | _ => ok s .panic []
      else ok s .badOp []
    | none => ok s .badOp []
  | .adopt h d off len =>
    match getH s h with
    | some hd =>
      if slotFree s d && decide (off + len ≤ hlen hd) then
        let (s1, r, ev) := rangeRepr cfg s hd off (off + len)
        if dbgFails cfg (isNormalized cfg { repr := r, tainted := hd.tainted }) then ok s .panic []
        else install s1 d r hd.tainted .unit ev
      else ok s .badOp []
    | none => ok s .badOp []
  | .pushSlice h bs =>
    match getH s h with
    | some hd =>
      let newLen := hlen hd + bs.length
      let inPlace : Option (State × Out) :=
        match hd.repr with
        | .heap owner _ off len =>
          match getI s owner with
          | some x =>
            if ownerUnique cfg s owner then
              -- `push_slice_unchecked`: truncate the Vec to the end of the view, extend, rebase
              let kept := x.data.take (off + len)
              let data' := kept ++ bs
              if data'.length ≤ x.cap then
                some (ok (setH (setI s owner { x with data := data' }) h
                    (some { hd with repr := .heap owner x.buf off (len + bs.length) })) .unit
                  (if bs.length > 0 then [Event.write x.buf (off + len) (off + len + bs.length)] else []))
              else
                let c := growCap x.cap data'.length
                let b := s.nextBuf
                let s1 := { s with nextBuf := s.nextBuf + 1 }
                some (ok (setH (setI s1 owner { x with data := data', cap := c, buf := b }) h
                    (some { hd with repr := .heap owner b off (len + bs.length) })) .unit
                  [if x.cap > 0 then Event.growBuf x.buf b c else Event.allocBuf b c,
                    Event.write b (off + len) (off + len + bs.length)])
            else none
          | none => none
        | _ => none
      match inPlace with
      | some r => r
      | none =>
        if newLen ≤ cfg.icap then
          -- make it inline first (drops the old value), then append
          let (s1, ev) := if isInline hd then (s, []) else dropRepr cfg s hd.repr
          ok (setH s1 h (some { hd with repr := .inline (view s hd ++ bs) })) .unit ev
        else
          let (s1, r, ev1) := newHeap s (view s hd ++ bs) newLen
          let (s2, ev2) := dropRepr cfg s1 hd.repr
          ok (setH s2 h (some { hd with repr := r })) .unit (ev1 ++ ev2)
    | none => ok s .badOp []
  | .pop h =>
    match getH s h with
    | some hd =>
      let v := view s hd
      if v.length = 0 then ok s (.optByte none) []
      else truncateOp cfg s h hd (v.length - 1) (.optByte v.getLast?)
    | none => ok s .badOp []
  | .truncate h n =>
    match getH s h with
    | some hd => truncateOp cfg s h hd n .unit
    | none => ok s .badOp []
  | .clear h =>
    match getH s h with
    | some hd => truncateOp cfg s h hd 0 .unit
    | none => ok s .badOp []
  | .shrinkTo h n =>
    match getH s h with
    | some hd => shrinkToOp cfg s h hd n
    | none => ok s .badOp []
  | .shrinkToFit h =>
    match getH s h with
    | some hd => shrinkToOp cfg s h hd (hlen hd)
    | none => ok s .badOp []
  | .asMutWrite h i b =>
    match getH s h with
    | some hd =>
      let granted :=
        match hd.repr with
        | .inline _ => true
        | .borrowed .. => false
        | .heap owner _ _ _ => ownerUnique cfg s owner
      if granted then
        if i < hlen hd then
          let (s1, r, ev) := writeView s hd.repr (fun w => setAt w i b)
          ok (setH s1 h (some { hd with repr := r })) (.bool true) ev
        else ok s (.bool true) []
      else ok s (.bool false) []
    | none => ok s .badOp []
  | .toMutWrite h i b =>
    match getH s h with
    | some hd =>
      let (s1, r1, ev1) := makeUnique cfg s hd
      if i < hlen hd then
        let (s2, r2, ev2) := writeView s1 r1 (fun w => setAt w i b)
        ok (setH s2 h (some { hd with repr := r2 })) .unit (ev1 ++ ev2)
      else ok (setH s1 h (some { hd with repr := r1 })) .unit ev1
    | none => ok s .badOp []
  | .makeAsciiLower h =>
    match getH s h with
    | some hd =>
      let (s1, r1, ev1) := makeUnique cfg s hd
      let (s2, r2, ev2) := writeView s1 r1 (fun w => w.map asciiLower)
      ok (setH s2 h (some { hd with repr := r2 })) .unit (ev1 ++ ev2)
    | none => ok s .badOp []
  | .makeAsciiUpper h =>
    match getH s h with
    | some hd =>
      let (s1, r1, ev1) := makeUnique cfg s hd
      let (s2, r2, ev2) := writeView s1 r1 (fun w => w.map asciiUpper)
      ok (setH s2 h (some { hd with repr := r2 })) .unit (ev1 ++ ev2)
    | none => ok s .badOp []
  | .toAsciiLower h d =>
    match getH s h with
    | some hd =>
      if slotFree s d then
        let (s0, r0, ev0) := cloneRepr cfg s hd
        let c : Handle := { repr := r0, tainted := hd.tainted }
        let (s1, r1, ev1) := makeUnique cfg s0 c
        let (s2, r2, ev2) := writeView s1 r1 (fun w => w.map asciiLower)
        install s2 d r2 hd.tainted .unit (ev0 ++ ev1 ++ ev2)
      else ok s .badOp []
    | none => ok s .badOp []
  | .toAsciiUpper h d =>
    match getH s h with
    | some hd =>
      if slotFree s d then
        let (s0, r0, ev0) := cloneRepr cfg s hd
        let c : Handle := { repr := r0, tainted := hd.tainted }
        let (s1, r1, ev1) := makeUnique cfg s0 c
        let (s2, r2, ev2) := writeView s1 r1 (fun w => w.map asciiUpper)
        install s2 d r2 hd.tainted .unit (ev0 ++ ev1 ++ ev2)
      else ok s .badOp []
    | none => ok s .badOp []
  | .mutate h script =>
    match getH s h with
    | some hd =>
      let (s1, (data, cap, buf), ev1) := takeVec cfg s h hd
      let (data', cap', buf', next', ev2) := vecApply data cap buf s1.nextBuf script
      let s2 := { s1 with nextBuf := next' }
      -- guard drop: `*self.result = HipByt::from(owned)`
      let (s3, r, ev3) := fromVecRepr cfg s2 data' cap' buf'
      ok (setH s3 h (some { hd with repr := r })) .unit (ev1 ++ ev2 ++ ev3)
    | none => ok s .badOp []
  | .mutateLeak h script =>
    match getH s h with
    | some hd =>
      let (s1, (data, cap, buf), ev1) := takeVec cfg s h hd
      let (_, cap', buf', next', ev2) := vecApply data cap buf s1.nextBuf script
      -- the guard is forgotten: the value stays empty, the Vec leaks (a capacity-0 Vec owns no buffer)
      ok { s1 with nextBuf := next' } .unit (ev1 ++ ev2 ++ (if cap' > 0 then [Event.exportBuf buf'] else []))
    | none => ok s .badOp []
  | .intoOwned h d =>
    match getH s h with
    | some hd =>
      if slotFree s d then
        match hd.repr with
        | .borrowed _ _ _ =>
          let (s1, r, ev) := fromSliceRepr cfg s (view s hd)
          install (setH s1 h none) d r hd.tainted .unit ev
        | r => install (setH s h none) d r hd.tainted .unit []
      else ok s .badOp []
    | none => ok s .badOp []
  | .intoVec h =>
    match getH s h with
    | some hd =>
      match hd.repr with
      | .heap owner _ off len =>
        match getI s owner with
        | some x =>
          if off == 0 && ownerUnique cfg s owner then
            ok (setH (setI s owner { x with live := false }) h none) (.bytes (x.data.take len))
              (Event.freeInner owner :: (if x.cap > 0 then [Event.exportBuf x.buf] else []))
          else ok s (.bool false) []
        | none => ok s (.bool false) []
      | _ => ok s (.bool false) []
    | none => ok s .badOp []
  | .toVec h =>
    match getH s h with
    | some hd =>
      let viaInto : Option (State × Out) :=
        match hd.repr with
        | .heap owner _ off len =>
          match getI s owner with
          | some x =>
            if off == 0 && ownerUnique cfg s owner then
              some (ok (setH (setI s owner { x with live := false }) h none) (.bytes (x.data.take len))
                (Event.freeInner owner :: (if x.cap > 0 then [Event.exportBuf x.buf] else [])))
            else none
          | none => none
        | _ => none
      match viaInto with
      | some r => r
      | none =>
        -- `err.as_slice().to_vec()`, then `err` is dropped
        let bs := view s hd
        let b := s.nextBuf
        let s1 := { s with nextBuf := s.nextBuf + 1 }
        let (s2, ev) := dropRepr cfg s1 hd.repr
        ok (setH s2 h none) (.bytes bs)
          ((if bs.length > 0 then [Event.allocBuf b bs.length, Event.write b 0 bs.length, Event.exportBuf b] else []) ++ ev)
    | none => ok s .badOp []
  | .intoBorrowed h =>
    match getH s h with
    | some hd =>
      match hd.repr with
      | .borrowed _ _ _ => ok (setH s h none) (.bytes (view s hd)) []
      | _ => ok s (.bool false) []
    | none => ok s .badOp []
  | .repeat h d n =>
    match getH s h with
    | some hd =>
      if slotFree s d then
        if hlen hd = 0 || n = 1 then
          let (s1, r, ev) := cloneRepr cfg s hd
          install s1 d r hd.tainted .unit ev
        -- `checked_mul` must not overflow AND `[u8]::repeat`'s `Vec::with_capacity` refuses more
        -- than `isize::MAX` bytes ("capacity overflow"): both panic
        else if hlen hd * n < U / 2 then
          let bs := (List.replicate n (view s hd)).flatten
          if hlen hd * n ≤ cfg.icap then install s d (.inline bs) false .unit []
          else
            let (s1, r, ev) := newHeap s bs (hlen hd * n)
            install s1 d r false .unit ev
        else ok s .panic []
      else ok s .badOp []
    | none => ok s .badOp []
  | .spareCapacity h =>
    match getH s h with
    | some hd =>
      match hd.repr with
      | .inline bs => ok s (.nat (cfg.icap - bs.length)) []
      | .borrowed .. => ok s (.nat 0) []
      | .heap owner _ off len =>
        match getI s owner with
        | some x =>
          if ownerUnique cfg s owner then
            -- truncates the owner Vec to the end of the view
            ok (setI s owner { x with data := x.data.take (off + len) })
              (.nat (x.cap - (off + len))) []
          else ok s (.nat 0) []
        | none => ok s (.nat 0) []
    | none => ok s .badOp []
  | .drop h =>
    match getH s h with
    | some hd =>
      let (s1, ev) := dropRepr cfg s hd.repr
      ok (setH s1 h none) .unit ev
    | none => ok s .badOp []

def run (cfg : Cfg) (s : State) : List Op → State × List Out
  | [] => (s, [])
  | op :: ops =>
    let (s1, o) := step cfg s op
    let (s2, os) := run cfg s1 ops
    (s2, o :: os)

end HipVerif.Core
