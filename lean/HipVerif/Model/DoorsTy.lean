/-
Data types of the "doors" table (property C06, the part that is a statement over public
signatures): which inputs can a HipStr / HipOsStr / HipPath be made from, and through which
kind of function. `Gen/Doors.lean` (regenerated from /repo/src by
`harness/src/extract/doors.rs`, written by the `pubfns` generator) contains only data of
these types. Keys as in `Model/PubFnsTy.lean` (string operations are infeasible in the kernel).
-/
import HipVerif.Model.PubFnsTy

namespace HipVerif.Model.Doors

/-- Class of an input type, read off the signature (see `extract/doors.rs` for the exact rules;
    anything not recognised is `other`). -/
inductive InClass where
  /-- `str`, `String`, `char`, `HipStr`, wrappers/iterators/`AsRef` of those: valid UTF-8 by type -/
  | strLike
  /-- `OsStr`, `OsString`, `Path`, `PathBuf`, `HipOsStr`, `HipPath`, wrappers/`AsRef` of those -/
  | osLike
  /-- `u8`/`u16` slices, arrays, vectors, `HipByt`, `BStr`/`BString`, `AsRef<[u8]>`, `FromUtf8Error` -/
  | bytesLike
  /-- a structured source the fn decodes itself: `D: Deserializer<'de>`, `R: io::Read` -/
  | decoder
  /-- integers, `bool`, ranges, patterns: no content -/
  | scalar
  | other
  deriving Repr, DecidableEq, Inhabited

/-- One callable function whose return type mentions `HipStr` (`producesStr`), `HipOsStr`
    (`producesOs`) or `HipPath` (`producesPath`) — inside `Result`/`Option`/tuples/references/
    iterator wrappers and associated types of the impl included. `fallible` = the outermost
    return type is `Result<…>` or `Option<…>`. `sig` is for display. -/
structure Door where
  name : String
  key : Nat
  simpleKey : Nat
  isUnsafe : Bool
  producesStr : Bool
  producesOs : Bool
  producesPath : Bool
  inputs : List InClass
  fallible : Bool
  sig : String
  loc : String
  deriving Repr, Inhabited

end HipVerif.Model.Doors
