/-
Types and primitives used by the GENERATED `HipVerif/Gen/Ranges.lean`
(translation of the crate's range-normalisation functions).

`usize` arithmetic is modelled on `Nat` with the explicit bound `U = 2^64`.
An unchecked operator whose mathematical result leaves `[0, U)` yields the outcome
`overflow` ("panics with debug assertions, wraps in release"); violating the precondition
of an unsafe primitive yields `ub`.
-/
namespace HipVerif.RangeTy

/-- `usize::MAX + 1` on the 64-bit targets the verification covers. -/
def U : Nat := 2 ^ 64

/-- `core::ops::Bound<usize>`. -/
inductive Bound where
  | included (n : Nat)
  | excluded (n : Nat)
  | unbounded
  deriving Repr, DecidableEq

/-- `bytes::SliceErrorKind`. -/
inductive SliceErrorKind where
  | startGreaterThanEnd
  | startOutOfBounds
  | endOutOfBounds
  deriving Repr, DecidableEq

/-- `common::RangeError`. -/
inductive RangeError where
  | startOverflows
  | endOverflows
  | startGreaterThanEnd (start end_ : Nat)
  | endOutOfBounds (end_ len : Nat)
  deriving Repr, DecidableEq

/-- Outcome of running a translated function. -/
inductive R (ε α : Type) where
  | ok (a : α)
  | err (e : ε)
  | overflow
  | ub
  deriving Repr, DecidableEq

namespace R
@[inline] def bind {ε α β} (x : R ε α) (f : α → R ε β) : R ε β :=
  match x with
  | ok a => f a
  | err e => err e
  | overflow => overflow
  | ub => ub

instance {ε} : Monad (R ε) where
  pure := ok
  bind := bind

@[simp] theorem pure_eq {ε α} (a : α) : (pure a : R ε α) = ok a := rfl
@[simp] theorem bind_ok {ε α β} (a : α) (f : α → R ε β) : (ok a >>= f) = f a := rfl
@[simp] theorem bind_err {ε α β} (e : ε) (f : α → R ε β) : ((err e : R ε α) >>= f) = err e := rfl
@[simp] theorem bind_overflow {ε α β} (f : α → R ε β) : ((overflow : R ε α) >>= f) = overflow := rfl
@[simp] theorem bind_ub {ε α β} (f : α → R ε β) : ((ub : R ε α) >>= f) = ub := rfl

@[simp] theorem ite_bind {ε α β} (c : Prop) [Decidable c] (x y : R ε α) (f : α → R ε β) :
    ((if c then x else y) >>= f) = if c then x >>= f else y >>= f := by
  split <;> rfl

/-- the `?` operator on a `Result` value -/
def ofExcept {ε α} : Except ε α → R ε α
  | .ok a => ok a
  | .error e => err e
end R

/-- unchecked `a + b` on `usize` -/
def uadd {ε} (a b : Nat) : R ε Nat := if a + b < U then .ok (a + b) else .overflow
/-- unchecked `a - b` on `usize` -/
def usub {ε} (a b : Nat) : R ε Nat := if b ≤ a then .ok (a - b) else .overflow
/-- unchecked `a * b` on `usize` -/
def umul {ε} (a b : Nat) : R ε Nat := if a * b < U then .ok (a * b) else .overflow
/-- `usize::saturating_add` -/
def satAdd (a b : Nat) : Nat := if a + b < U then a + b else U - 1
/-- `usize::wrapping_add` -/
def wrapAdd (a b : Nat) : Nat := (a + b) % U
/-- `usize::checked_add` -/
def checkedAdd (a b : Nat) : Option Nat := if a + b < U then some (a + b) else none
/-- `Option::ok_or` -/
def okOr {ε α} (o : Option α) (e : ε) : Except ε α :=
  match o with
  | some a => .ok a
  | none => .error e

/-- `x.checked_add(y).ok_or(e)?` in one step. -/
theorem ofExcept_okOr_checkedAdd {ε} (a b : Nat) (e : ε) :
    R.ofExcept (okOr (checkedAdd a b) e) = if a + b < U then (R.ok (a + b) : R ε Nat) else R.err e := by
  unfold checkedAdd okOr R.ofExcept
  by_cases h : a + b < U <;> simp [h]

/-- A `&[u8]` as an address range (`ptr`, `len`); addresses are natural numbers. -/
structure Slice where
  ptr : Nat
  len : Nat
  deriving Repr, DecidableEq

/-- `<[u8]>::as_ptr_range`: one-past-the-end never overflows for a real slice
(an allocation never wraps the address space) — the theorems assume `ptr + len < U`. -/
def ptrRange (s : Slice) : Nat × Nat := (s.ptr, s.ptr + s.len)
/-- `ptr::offset_from` (in bytes, `u8` elements): a signed distance. -/
def offsetFrom (a b : Nat) : Int := (a : Int) - (b : Int)
/-- `isize → usize` `try_into` -/
def tryIntoUsize (i : Int) : Option Nat := if 0 ≤ i then some i.toNat else none
/-- `unwrap_unchecked`: undefined behaviour on `None`. -/
def unwrapUnchecked {ε α} : Option α → R ε α
  | some a => .ok a
  | none => .ub

/-- `a.offset_from(b).try_into().unwrap_unchecked()` in one step. -/
theorem unwrap_tryInto_offsetFrom {ε} (a b : Nat) :
    (unwrapUnchecked (tryIntoUsize (offsetFrom a b)) : R ε Nat) = if b ≤ a then .ok (a - b) else .ub := by
  unfold unwrapUnchecked tryIntoUsize offsetFrom
  by_cases h : b ≤ a
  · have : (0 : Int) ≤ (a : Int) - (b : Int) := by omega
    simp only [this, h, if_true]
    congr 1
    omega
  · have : ¬ (0 : Int) ≤ (a : Int) - (b : Int) := by omega
    simp [this, h]

end HipVerif.RangeTy
