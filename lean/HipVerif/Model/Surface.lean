/-
C17 "surface" — the hand-written, REVIEWED inputs and the Bool row predicates over
`Gen/Surface.lean`:
* `requiredMethods`  — per trait that occurs, the methods an impl MUST define;
* `reviewedOverrides`— every OTHER method defined by an impl (an override of a provided method),
  with the differential / model that drives it;
* `traitCover`, `implCounts` — per trait the property that covers its impls, and the pinned
  number of impls per (type, trait) pair (macro invocations: number of entries per file);
* `reviewedUnsafeImpls`, `macroUnsafeExempt`, `expectedGuards`.
A new impl, a new override, a new `unsafe impl`, a macro arm that expands a caller expression
inside `unsafe`, or a changed compile-time guard is a named break of `Props/C17Surface.lean`.
(In Model/, not Props/, so that `tables_driver` still builds when a theorem breaks.)
-/
import HipVerif.Model.SurfaceTy
import HipVerif.Gen.Surface

namespace HipVerif.Model.Surface
open HipVerif.Model.PubFns (encKey)
open HipVerif.Gen.Surface (impls implChunks unsafeImpls exportedMacros constGuards)

/-- What drives an overridden provided method. -/
inductive Driver where
  /-- `serdrive` calls every `visit_*` of the serde visitors directly (C16 `visit_sound`) -/
  | serdrive
  /-- `vecdrive` compares `len`/`size_hint` of `Drain` and `IntoIter` with the items left (C13) -/
  | vecdrive
  /-- `Gen/Atomics` tabulates the `Kind for Arc` methods, `is_unique` included (C04) -/
  | atomicsC04
  | patdrive
  | cmpdrive
  | slotdrive
  /-- reviewed, no differential exercises it (reason in the comment next to the entry) -/
  | notDriven
  deriving Repr, DecidableEq, Inhabited

/-- The property / model that covers the impls of a trait. -/
inductive Cover where
  /-- comparison/hash/borrow coherence: `Gen/CmpImpls`, cmpdrive -/
  | cmpC12
  /-- serde / borsh codecs: `Gen/Visitors`, serdrive -/
  | codecC16
  /-- inherited `str` API and pattern plumbing: `Gen/Wiring`, patdrive -/
  | wiringC11
  | doorsC06
  /-- constructors, conversions, views, clone/drop of the string family: Core differential,
      `Gen/Delegates` -/
  | coreC01
  /-- vectors, their iterators and the sealed vector traits: vecdrive / slotdrive (C13–C15) -/
  | slotsC13
  /-- `Debug`/`Display`: `Gen/FmtDelegates` -/
  | fmtC01
  /-- `Send`/`Sync`: `Gen/AutoTraits`, rustc probes -/
  | autoC05
  /-- the counter backends: `Gen/Atomics`, loom programs -/
  | atomicsC04
  /-- marker traits without behaviour (`Copy`, `Eq`, `Error`, `Unpin`, `UnwindSafe` …) -/
  | marker
  /-- reviewed, not driven: `ToSocketAddrs for HipStr` forwards to `str`'s impl -/
  | notDriven
  deriving Repr, DecidableEq, Inhabited

/-! ### 1. Trait impls -/

/-- Required methods per trait (std, serde, borsh and the crate's own traits). A trait that is
    not listed fails `no_unreviewed_overrides` for every method its impls define. -/
def requiredMethods : List (Nat × List Nat) := [
  (key% "Adopt", [key% "adopt_unchecked"]),
  (key% "AsMut", [key% "as_mut"]),
  (key% "AsRef", [key% "as_ref"]),
  (key% "Backend", []),
  (key% "Borrow", [key% "borrow"]),
  (key% "BorshDeserialize", [key% "deserialize_reader"]),
  (key% "BorshSerialize", [key% "serialize"]),
  (key% "Clone", [key% "clone"]),
  (key% "Copy", []),
  (key% "Debug", [key% "fmt"]),
  (key% "Default", [key% "default"]),
  (key% "Deref", [key% "deref"]),
  (key% "DerefMut", [key% "deref_mut"]),
  (key% "Deserialize", [key% "deserialize"]),
  (key% "Display", [key% "fmt"]),
  (key% "DoubleEndedIterator", [key% "next_back"]),
  (key% "DoubleEndedPattern", [key% "trim_matches"]),
  (key% "Drop", [key% "drop"]),
  (key% "Eq", []),
  (key% "Error", []),
  (key% "ExactSizeIterator", []),
  (key% "Extend", [key% "extend"]),
  (key% "From", [key% "from"]),
  (key% "FromIterator", [key% "from_iter"]),
  (key% "FusedIterator", []),
  (key% "Hash", [key% "hash"]),
  (key% "IntoIterator", [key% "into_iter"]),
  (key% "Iterator", [key% "next"]),
  (key% "Kind", [key% "one", key% "incr", key% "decr", key% "get"]),
  (key% "MutVector", [key% "set_len", key% "as_mut_ptr", key% "as_non_null", key% "as_mut_slice"]),
  (key% "Ord", [key% "cmp"]),
  (key% "PartialEq", [key% "eq"]),
  (key% "PartialOrd", [key% "partial_cmp"]),
  (key% "Pattern", [key% "split", key% "split_inclusive", key% "split_terminator", key% "splitn", key% "split_once", key% "matches", key% "match_indices", key% "trim_start_matches", key% "strip_prefix"]),
  (key% "RefUnwindSafe", []),
  (key% "ReversePattern", [key% "strip_suffix", key% "trim_end_matches", key% "rsplit", key% "rsplit_terminator", key% "rsplitn", key% "rsplit_once", key% "rmatches", key% "rmatch_indices"]),
  (key% "Sealed", []),
  (key% "Send", []),
  (key% "Serialize", [key% "serialize"]),
  (key% "Sync", []),
  (key% "ToSocketAddrs", [key% "to_socket_addrs"]),
  (key% "TryFrom", [key% "try_from"]),
  (key% "Unpin", []),
  (key% "UnwindSafe", []),
  (key% "Vector", [key% "len", key% "capacity", key% "as_slice", key% "as_ptr"]),
  (key% "Visitor", [key% "expecting"])
]

/-- Every method defined by an impl that is NOT required by its trait: (type, trait, method,
    driver). The serde visitors override the `visit_*` they accept; the two owning iterators
    override `size_hint` and `ExactSizeIterator::len`; `Arc` overrides `Kind::is_unique` (the
    acquire fence). Nothing else on the current source: no `ne`, `clone_from`, `nth`, `fold`,
    `deserialize_in_place`, … -/
def reviewedOverrides : List (Nat × Nat × Nat × Driver) := [
  (key% "bytes::serde::OwnedVisitor", key% "Visitor", key% "visit_bytes", .serdrive),
  (key% "bytes::serde::OwnedVisitor", key% "Visitor", key% "visit_byte_buf", .serdrive),
  (key% "bytes::serde::OwnedVisitor", key% "Visitor", key% "visit_str", .serdrive),
  (key% "bytes::serde::OwnedVisitor", key% "Visitor", key% "visit_string", .serdrive),
  (key% "bytes::serde::OwnedVisitor", key% "Visitor", key% "visit_seq", .serdrive),
  (key% "bytes::serde::BorrowedVisitor", key% "Visitor", key% "visit_borrowed_bytes", .serdrive),
  (key% "bytes::serde::BorrowedVisitor", key% "Visitor", key% "visit_bytes", .serdrive),
  (key% "bytes::serde::BorrowedVisitor", key% "Visitor", key% "visit_byte_buf", .serdrive),
  (key% "bytes::serde::BorrowedVisitor", key% "Visitor", key% "visit_borrowed_str", .serdrive),
  (key% "bytes::serde::BorrowedVisitor", key% "Visitor", key% "visit_str", .serdrive),
  (key% "bytes::serde::BorrowedVisitor", key% "Visitor", key% "visit_string", .serdrive),
  (key% "bytes::serde::BorrowedVisitor", key% "Visitor", key% "visit_seq", .serdrive),
  (key% "common::drain::Drain", key% "Iterator", key% "size_hint", .vecdrive),
  (key% "common::drain::Drain", key% "ExactSizeIterator", key% "len", .vecdrive),
  (key% "smart::Arc", key% "Kind", key% "is_unique", .atomicsC04),
  (key% "string::serde::OwnedVisitor", key% "Visitor", key% "visit_str", .serdrive),
  (key% "string::serde::OwnedVisitor", key% "Visitor", key% "visit_string", .serdrive),
  (key% "string::serde::OwnedVisitor", key% "Visitor", key% "visit_bytes", .serdrive),
  (key% "string::serde::OwnedVisitor", key% "Visitor", key% "visit_byte_buf", .serdrive),
  (key% "string::serde::BorrowedVisitor", key% "Visitor", key% "visit_borrowed_str", .serdrive),
  (key% "string::serde::BorrowedVisitor", key% "Visitor", key% "visit_str", .serdrive),
  (key% "string::serde::BorrowedVisitor", key% "Visitor", key% "visit_string", .serdrive),
  (key% "string::serde::BorrowedVisitor", key% "Visitor", key% "visit_borrowed_bytes", .serdrive),
  (key% "string::serde::BorrowedVisitor", key% "Visitor", key% "visit_bytes", .serdrive),
  (key% "string::serde::BorrowedVisitor", key% "Visitor", key% "visit_byte_buf", .serdrive),
  (key% "vecs::inline::IntoIter", key% "Iterator", key% "size_hint", .vecdrive),
  (key% "vecs::inline::IntoIter", key% "ExactSizeIterator", key% "len", .vecdrive)
]

/-- Which property covers the impls of each trait (pseudo-traits `src/…rs` = the item-position
    macro invocations of that file). -/
def traitCover : List (Nat × Cover) := [
  (key% "Adopt", .wiringC11),
  (key% "AsMut", .coreC01),
  (key% "AsRef", .coreC01),
  (key% "Backend", .atomicsC04),
  (key% "Borrow", .cmpC12),
  (key% "BorshDeserialize", .codecC16),
  (key% "BorshSerialize", .codecC16),
  (key% "Clone", .coreC01),
  (key% "Copy", .marker),
  (key% "Debug", .fmtC01),
  (key% "Default", .coreC01),
  (key% "Deref", .coreC01),
  (key% "DerefMut", .coreC01),
  (key% "Deserialize", .codecC16),
  (key% "Display", .fmtC01),
  (key% "DoubleEndedIterator", .slotsC13),
  (key% "DoubleEndedPattern", .wiringC11),
  (key% "Drop", .coreC01),
  (key% "Eq", .cmpC12),
  (key% "Error", .marker),
  (key% "ExactSizeIterator", .slotsC13),
  (key% "Extend", .slotsC13),
  (key% "From", .coreC01),
  (key% "FromIterator", .slotsC13),
  (key% "FusedIterator", .slotsC13),
  (key% "Hash", .cmpC12),
  (key% "IntoIterator", .slotsC13),
  (key% "Iterator", .slotsC13),
  (key% "Kind", .atomicsC04),
  (key% "MutVector", .slotsC13),
  (key% "Ord", .cmpC12),
  (key% "PartialEq", .cmpC12),
  (key% "PartialOrd", .cmpC12),
  (key% "Pattern", .wiringC11),
  (key% "RefUnwindSafe", .marker),
  (key% "ReversePattern", .wiringC11),
  (key% "Sealed", .slotsC13),
  (key% "Send", .autoC05),
  (key% "Serialize", .codecC16),
  (key% "Sync", .autoC05),
  (key% "ToSocketAddrs", .notDriven),
  (key% "TryFrom", .coreC01),
  (key% "Unpin", .marker),
  (key% "UnwindSafe", .marker),
  (key% "Vector", .slotsC13),
  (key% "Visitor", .codecC16),
  (key% "src/bytes/bstr.rs", .cmpC12),
  (key% "src/bytes/cmp.rs", .cmpC12),
  (key% "src/os_string/cmp.rs", .cmpC12),
  (key% "src/path/cmp.rs", .cmpC12),
  (key% "src/string/bstr.rs", .cmpC12),
  (key% "src/string/cmp.rs", .cmpC12),
  (key% "src/string/pattern.rs", .wiringC11),
  (key% "src/vecs/inline.rs", .slotsC13),
  (key% "src/vecs/thin.rs", .slotsC13)
]

/-- Pinned number of impls per (self type, trait) pair — written impls and derives count 1, a
    macro invocation counts its `;`-terminated entries. -/
def implCounts : List (Nat × Nat × Nat) := [
  (key% "smart::Rc", key% "Backend", 1),
  (key% "smart::Arc", key% "Backend", 1),
  (key% "smart::Unique", key% "Backend", 1),
  (key% "bytes::raw::HipByt", key% "Default", 1),
  (key% "bytes::raw::HipByt", key% "Deref", 1),
  (key% "bytes::raw::HipByt", key% "Borrow", 2),
  (key% "bytes::raw::HipByt", key% "Hash", 1),
  (key% "bytes::raw::HipByt", key% "Debug", 1),
  (key% "bytes::SliceErrorKind", key% "Clone", 1),
  (key% "bytes::SliceErrorKind", key% "Copy", 1),
  (key% "bytes::SliceErrorKind", key% "Debug", 1),
  (key% "bytes::SliceErrorKind", key% "PartialEq", 1),
  (key% "bytes::SliceErrorKind", key% "Eq", 1),
  (key% "bytes::SliceError", key% "Clone", 1),
  (key% "bytes::SliceError", key% "Copy", 1),
  (key% "bytes::SliceError", key% "Eq", 1),
  (key% "bytes::SliceError", key% "PartialEq", 1),
  (key% "bytes::SliceError", key% "Debug", 1),
  (key% "bytes::SliceError", key% "Display", 1),
  (key% "bytes::SliceError", key% "Error", 1),
  (key% "bytes::RefMut", key% "Drop", 1),
  (key% "bytes::RefMut", key% "Deref", 1),
  (key% "bytes::RefMut", key% "DerefMut", 1),
  (key% "bytes::raw::HipByt", key% "Eq", 1),
  (key% "bytes::raw::HipByt", key% "PartialEq", 1),
  (key% "symmetric_eq!", key% "src/bytes/cmp.rs", 12),
  (key% "bytes::raw::HipByt", key% "Ord", 1),
  (key% "bytes::raw::HipByt", key% "PartialOrd", 1),
  (key% "symmetric_ord!", key% "src/bytes/cmp.rs", 12),
  (key% "bytes::raw::HipByt", key% "AsRef", 2),
  (key% "bytes::raw::HipByt", key% "From", 10),
  (key% "Vec<u8>", key% "From", 3),
  (key% "Cow<'borrow, [u8]>", key% "From", 1),
  (key% "bytes::raw::Pivot", key% "Clone", 1),
  (key% "bytes::raw::Pivot", key% "Copy", 1),
  (key% "bytes::raw::HipByt", key% "Sync", 1),
  (key% "bytes::raw::HipByt", key% "Send", 1),
  (key% "bytes::raw::Tag", key% "Clone", 1),
  (key% "bytes::raw::Tag", key% "Copy", 1),
  (key% "bytes::raw::Tag", key% "Debug", 1),
  (key% "bytes::raw::Tag", key% "PartialEq", 1),
  (key% "bytes::raw::Tag", key% "Eq", 1),
  (key% "bytes::raw::HipByt", key% "Drop", 1),
  (key% "bytes::raw::HipByt", key% "Clone", 1),
  (key% "bytes::raw::allocated::TaggedSmart", key% "Clone", 1),
  (key% "bytes::raw::allocated::TaggedSmart", key% "Copy", 1),
  (key% "bytes::raw::allocated::Allocated", key% "Copy", 1),
  (key% "bytes::raw::allocated::Allocated", key% "Clone", 1),
  (key% "bytes::raw::allocated::Allocated", key% "Sync", 1),
  (key% "bytes::raw::allocated::Allocated", key% "Send", 1),
  (key% "bytes::raw::allocated::Allocated", key% "Unpin", 1),
  (key% "bytes::raw::allocated::Allocated", key% "UnwindSafe", 1),
  (key% "bytes::raw::allocated::Allocated", key% "RefUnwindSafe", 1),
  (key% "bytes::raw::borrowed::Borrowed", key% "Clone", 1),
  (key% "bytes::raw::borrowed::Borrowed", key% "Copy", 1),
  (key% "bytes::raw::HipByt", key% "BorshDeserialize", 1),
  (key% "bytes::raw::HipByt", key% "BorshSerialize", 1),
  (key% "BString", key% "From", 1),
  (key% "symmetric_eq!", key% "src/bytes/bstr.rs", 4),
  (key% "symmetric_ord!", key% "src/bytes/bstr.rs", 4),
  (key% "bytes::raw::HipByt", key% "Serialize", 1),
  (key% "bytes::serde::OwnedVisitor", key% "Visitor", 1),
  (key% "bytes::raw::HipByt", key% "Deserialize", 1),
  (key% "bytes::serde::BorrowedVisitor", key% "Visitor", 1),
  (key% "common::RangeError", key% "Debug", 1),
  (key% "common::RangeError", key% "PartialEq", 1),
  (key% "common::RangeError", key% "PartialOrd", 1),
  (key% "common::RangeError", key% "Clone", 1),
  (key% "common::RangeError", key% "Copy", 1),
  (key% "common::RangeError", key% "Error", 1),
  (key% "common::RangeError", key% "Display", 1),
  (key% "common::SliceGuard", key% "Drop", 1),
  (key% "common::drain::Drain", key% "Iterator", 1),
  (key% "common::drain::Drain", key% "FusedIterator", 1),
  (key% "common::drain::Drain", key% "ExactSizeIterator", 1),
  (key% "common::drain::Drain", key% "DoubleEndedIterator", 1),
  (key% "common::drain::Drain", key% "Debug", 1),
  (key% "common::drain::Drain", key% "Drop", 1),
  (key% "alloc::vec::Vec<T>", key% "Sealed", 1),
  (key% "alloc::vec::Vec<T>", key% "Vector", 1),
  (key% "alloc::vec::Vec<T>", key% "MutVector", 1),
  (key% "trait_impls!", key% "PartialEq", 2),
  (key% "trait_impls!", key% "PartialOrd", 2),
  (key% "trait_impls!", key% "From", 1),
  (key% "trait_impls!", key% "FromIterator", 1),
  (key% "trait_impls!", key% "Debug", 1),
  (key% "trait_impls!", key% "Sealed", 1),
  (key% "trait_impls!", key% "Vector", 1),
  (key% "trait_impls!", key% "MutVector", 1),
  (key% "trait_impls!", key% "Extend", 1),
  (key% "symmetric_eq!", key% "PartialEq", 2),
  (key% "symmetric_ord!", key% "PartialOrd", 2),
  (key% "smart::UpdateResult", key% "Clone", 1),
  (key% "smart::UpdateResult", key% "Copy", 1),
  (key% "smart::UpdateResult", key% "PartialEq", 1),
  (key% "smart::UpdateResult", key% "Eq", 1),
  (key% "smart::Unique", key% "Kind", 1),
  (key% "smart::Rc", key% "Kind", 1),
  (key% "smart::Arc", key% "Kind", 1),
  (key% "smart::Inner", key% "Clone", 1),
  (key% "smart::Smart", key% "Clone", 1),
  (key% "smart::Smart", key% "Drop", 1),
  (key% "smart::Smart", key% "Deref", 1),
  (key% "smart::Smart", key% "Send", 1),
  (key% "smart::Smart", key% "Sync", 1),
  (key% "string::HipStr", key% "Clone", 1),
  (key% "string::HipStr", key% "Default", 1),
  (key% "string::HipStr", key% "Deref", 1),
  (key% "string::HipStr", key% "Borrow", 2),
  (key% "string::HipStr", key% "Hash", 1),
  (key% "string::HipStr", key% "Debug", 1),
  (key% "string::HipStr", key% "Display", 1),
  (key% "string::SliceErrorKind", key% "Clone", 1),
  (key% "string::SliceErrorKind", key% "Copy", 1),
  (key% "string::SliceErrorKind", key% "Debug", 1),
  (key% "string::SliceErrorKind", key% "PartialEq", 1),
  (key% "string::SliceErrorKind", key% "Eq", 1),
  (key% "string::SliceError", key% "Eq", 1),
  (key% "string::SliceError", key% "PartialEq", 1),
  (key% "string::SliceError", key% "Clone", 1),
  (key% "string::SliceError", key% "Copy", 1),
  (key% "string::SliceError", key% "Debug", 1),
  (key% "string::SliceError", key% "Display", 1),
  (key% "string::SliceError", key% "Error", 1),
  (key% "string::FromUtf8Error", key% "Eq", 1),
  (key% "string::FromUtf8Error", key% "PartialEq", 1),
  (key% "string::FromUtf8Error", key% "Clone", 1),
  (key% "string::FromUtf8Error", key% "Debug", 1),
  (key% "string::FromUtf8Error", key% "Display", 1),
  (key% "string::FromUtf8Error", key% "Error", 1),
  (key% "string::RefMut", key% "Drop", 1),
  (key% "string::RefMut", key% "Deref", 1),
  (key% "string::RefMut", key% "DerefMut", 1),
  (key% "string::AsBytes", key% "Clone", 1),
  (key% "string::AsBytes", key% "Copy", 1),
  (key% "string::AsBytes", key% "AsRef", 1),
  (key% "string::HipStr", key% "Eq", 1),
  (key% "string::HipStr", key% "PartialEq", 1),
  (key% "symmetric_eq!", key% "src/string/cmp.rs", 9),
  (key% "string::HipStr", key% "Ord", 1),
  (key% "string::HipStr", key% "PartialOrd", 1),
  (key% "symmetric_ord!", key% "src/string/cmp.rs", 7),
  (key% "string::HipStr", key% "AsRef", 5),
  (key% "string::HipStr", key% "From", 4),
  (key% "String", key% "From", 1),
  (key% "std::ffi::OsString", key% "From", 1),
  (key% "Cow<'borrow, str>", key% "From", 1),
  (key% "string::HipStr", key% "TryFrom", 6),
  (key% "string::HipStr", key% "ToSocketAddrs", 1),
  (key% "&str", key% "Adopt", 1),
  (key% "(usize, &str)", key% "Adopt", 1),
  (key% "string::pattern::IterWrapper", key% "Clone", 1),
  (key% "string::pattern::IterWrapper", key% "Iterator", 1),
  (key% "string::pattern::IterWrapper", key% "DoubleEndedIterator", 1),
  (key% "impl_pat!", key% "ReversePattern", 1),
  (key% "impl_pat!", key% "DoubleEndedPattern", 1),
  (key% "impl_pat!", key% "Pattern", 1),
  (key% "impl_pat!", key% "src/string/pattern.rs", 7),
  (key% "string::HipStr", key% "BorshDeserialize", 1),
  (key% "string::HipStr", key% "BorshSerialize", 1),
  (key% "symmetric_eq!", key% "src/string/bstr.rs", 4),
  (key% "symmetric_ord!", key% "src/string/bstr.rs", 4),
  (key% "string::HipStr", key% "Serialize", 1),
  (key% "string::serde::OwnedVisitor", key% "Visitor", 1),
  (key% "string::HipStr", key% "Deserialize", 1),
  (key% "string::serde::BorrowedVisitor", key% "Visitor", 1),
  (key% "vecs::inline::TaggedU8", key% "Clone", 1),
  (key% "vecs::inline::TaggedU8", key% "Copy", 1),
  (key% "vecs::inline::InlineVec", key% "Clone", 1),
  (key% "vecs::inline::InlineVec", key% "Drop", 1),
  (key% "vecs::inline::InlineVec", key% "Deref", 1),
  (key% "vecs::inline::InlineVec", key% "DerefMut", 1),
  (key% "vecs::inline::InlineVec", key% "AsRef", 1),
  (key% "vecs::inline::InlineVec", key% "AsMut", 1),
  (key% "vecs::inline::InlineVec", key% "Debug", 1),
  (key% "vecs::inline::InlineVec", key% "Hash", 1),
  (key% "vecs::inline::InlineVec", key% "Extend", 1),
  (key% "vecs::inline::InlineVec", key% "IntoIterator", 1),
  (key% "vecs::inline::IntoIter", key% "Iterator", 1),
  (key% "vecs::inline::IntoIter", key% "ExactSizeIterator", 1),
  (key% "vecs::inline::IntoIter", key% "Drop", 1),
  (key% "vecs::inline::IntoIter", key% "DoubleEndedIterator", 1),
  (key% "vecs::inline::IntoIter", key% "FusedIterator", 1),
  (key% "vecs::inline::InlineVec", key% "Eq", 1),
  (key% "trait_impls!", key% "src/vecs/inline.rs", 39),
  (key% "vecs::inline::InlineVec", key% "Ord", 1),
  (key% "vecs::inline::InsertErrorKind", key% "Clone", 1),
  (key% "vecs::inline::InsertErrorKind", key% "Copy", 1),
  (key% "vecs::inline::InsertErrorKind", key% "Debug", 1),
  (key% "vecs::inline::InsertErrorKind", key% "PartialEq", 1),
  (key% "vecs::inline::InsertErrorKind", key% "Eq", 1),
  (key% "vecs::inline::InsertError", key% "Clone", 1),
  (key% "vecs::inline::InsertError", key% "Copy", 1),
  (key% "vecs::inline::InsertError", key% "Debug", 1),
  (key% "vecs::inline::InsertError", key% "PartialEq", 1),
  (key% "vecs::inline::InsertError", key% "Eq", 1),
  (key% "vecs::inline::InsertError", key% "Error", 1),
  (key% "vecs::inline::InsertError", key% "Display", 1),
  (key% "vecs::thin::Reserved", key% "Default", 1),
  (key% "vecs::thin::Reserved", key% "Clone", 1),
  (key% "vecs::thin::Reserved", key% "Copy", 1),
  (key% "vecs::thin::Reserved", key% "Debug", 1),
  (key% "vecs::thin::Reserved", key% "PartialEq", 1),
  (key% "vecs::thin::Reserved", key% "Eq", 1),
  (key% "vecs::thin::Header", key% "Clone", 1),
  (key% "vecs::thin::Header", key% "Copy", 1),
  (key% "vecs::thin::Header", key% "Debug", 1),
  (key% "vecs::thin::ThinVec", key% "Deref", 1),
  (key% "vecs::thin::ThinVec", key% "DerefMut", 1),
  (key% "vecs::thin::ThinVec", key% "Drop", 1),
  (key% "trait_impls!", key% "src/vecs/thin.rs", 43),
  (key% "os_string::HipOsStr", key% "Clone", 1),
  (key% "os_string::HipOsStr", key% "Default", 1),
  (key% "os_string::HipOsStr", key% "Deref", 1),
  (key% "os_string::HipOsStr", key% "Hash", 1),
  (key% "os_string::HipOsStr", key% "Debug", 1),
  (key% "os_string::RefMut", key% "Debug", 1),
  (key% "os_string::RefMut", key% "Drop", 1),
  (key% "os_string::RefMut", key% "Deref", 1),
  (key% "os_string::RefMut", key% "DerefMut", 1),
  (key% "os_string::HipOsStr", key% "Eq", 1),
  (key% "os_string::HipOsStr", key% "PartialEq", 1),
  (key% "symmetric_eq!", key% "src/os_string/cmp.rs", 17),
  (key% "os_string::HipOsStr", key% "Ord", 1),
  (key% "os_string::HipOsStr", key% "PartialOrd", 1),
  (key% "symmetric_ord!", key% "src/os_string/cmp.rs", 17),
  (key% "os_string::HipOsStr", key% "AsRef", 2),
  (key% "os_string::HipOsStr", key% "Borrow", 1),
  (key% "os_string::HipOsStr", key% "From", 10),
  (key% "OsString", key% "From", 2),
  (key% "Cow<'borrow, OsStr>", key% "From", 1),
  (key% "os_string::HipOsStr", key% "Serialize", 1),
  (key% "os_string::HipOsStr", key% "Deserialize", 1),
  (key% "path::HipPath", key% "Clone", 1),
  (key% "path::HipPath", key% "Default", 1),
  (key% "path::HipPath", key% "Deref", 1),
  (key% "path::HipPath", key% "Hash", 1),
  (key% "path::HipPath", key% "Debug", 1),
  (key% "path::RefMut", key% "Debug", 1),
  (key% "path::RefMut", key% "Drop", 1),
  (key% "path::RefMut", key% "Deref", 1),
  (key% "path::RefMut", key% "DerefMut", 1),
  (key% "path::HipPath", key% "Eq", 1),
  (key% "path::HipPath", key% "PartialEq", 1),
  (key% "symmetric_eq!", key% "src/path/cmp.rs", 16),
  (key% "path::HipPath", key% "Ord", 1),
  (key% "path::HipPath", key% "PartialOrd", 1),
  (key% "symmetric_ord!", key% "src/path/cmp.rs", 16),
  (key% "path::HipPath", key% "AsRef", 2),
  (key% "path::HipPath", key% "Borrow", 2),
  (key% "path::HipPath", key% "From", 14),
  (key% "PathBuf", key% "From", 1),
  (key% "Cow<'borrow, Path>", key% "From", 1),
  (key% "path::HipPath", key% "Serialize", 1),
  (key% "path::HipPath", key% "Deserialize", 1)
]

def required (tr : Nat) : Option (List Nat) := (requiredMethods.find? (·.1 == tr)).map (·.2)

/-- Row predicate of `no_unreviewed_overrides`. -/
def overridesOk (r : ImplRow) : Bool :=
  r.methods.isEmpty ||
    match required r.traitKey with
    | none => false
    | some req => r.methods.all fun m =>
        req.contains m.1 || reviewedOverrides.any fun e => e.1 == r.tyKey && e.2.1 == r.traitKey && e.2.2.1 == m.1

/-- Reviewed overrides that no impl defines any more. -/
def staleOverrides : List (Nat × Nat × Nat × Driver) :=
  reviewedOverrides.filter fun e =>
    !(impls.any fun r => r.tyKey == e.1 && r.traitKey == e.2.1 && r.methods.any fun m => m.1 == e.2.2.1)

/-- Number of impls of the pair in the generated table. -/
def countOf (ty tr : Nat) : Nat :=
  (impls.filter fun r => r.tyKey == ty && r.traitKey == tr).foldl (fun n r => n + r.entries) 0

/-- Row predicate of `impl_pairs_reviewed` (first half): the pair is pinned and its trait covered. -/
def pairReviewed (r : ImplRow) : Bool :=
  r.kind != .negative &&
  (implCounts.any fun e => e.1 == r.tyKey && e.2.1 == r.traitKey) &&
  (traitCover.any fun e => e.1 == r.traitKey)

/-- Pinned pairs whose count differs from the table (a new / removed impl of an existing pair,
    or a stale entry: count 0). -/
def miscountedPairs : List (Nat × Nat × Nat) :=
  implCounts.filter fun e => countOf e.1 e.2.1 != e.2.2

/-! ### 2. Unsafe impls -/

/-- The reviewed `unsafe impl`s: (type, trait). All are of the string family's pointer-holding
    types (C05); the vectors have none (`ThinVec` is deliberately neither `Send` nor `Sync`). -/
def reviewedUnsafeImpls : List (Nat × Nat) := [
  (key% "bytes::raw::HipByt", key% "Sync"), (key% "bytes::raw::HipByt", key% "Send"),
  (key% "bytes::raw::allocated::Allocated", key% "Sync"), (key% "bytes::raw::allocated::Allocated", key% "Send"),
  (key% "smart::Smart", key% "Send"), (key% "smart::Smart", key% "Sync")
]

/-- Row predicate of `unsafe_auto_impls_bound_all_params`: an `unsafe impl Send` (resp. `Sync`)
    bounds EVERY type parameter that occurs in a field type of the target by `Send` (resp.
    `Sync`); other unsafe traits and specialised impls are not accepted at all. -/
def unsafeImplOk (u : UnsafeImpl) : Bool :=
  (u.traitKey == key% "Send" || u.traitKey == key% "Sync") &&
    match u.fieldParams with
    | none => false
    | some ps => ps.all fun p => u.bounds.contains (p, u.traitKey)

/-- Reviewed PHANTOM parameters: (definition path, index of the type parameter) of public types
    whose parameter occurs in a field type without any value of it being owned or shared
    (`PhantomData<fn() -> T>`-style markers), so that `Ty<NotSend>: Send` is legitimate. The
    rustc probes of `probedrive --only c05` instantiate every OTHER in-field parameter of every
    public type with a non-`Send` / non-`Sync` witness and require a rejection.
    EMPTY: no public type of the crate has such a parameter. -/
def phantomParams : List (String × Nat) := []

def unreviewedUnsafeImpls : List UnsafeImpl :=
  unsafeImpls.filter fun u => !reviewedUnsafeImpls.contains (u.tyKey, u.traitKey)

def staleUnsafeImpls : List (Nat × Nat) :=
  reviewedUnsafeImpls.filter fun e => !(unsafeImpls.any fun u => u.tyKey == e.1 && u.traitKey == e.2)

/-! ### 3. Exported macros -/

/-- Reviewed exemptions (macro name key, arm): arms allowed to expand a caller-supplied fragment
    inside `unsafe`. EMPTY: no exported macro arm of the crate contains an `unsafe` block. -/
def macroUnsafeExempt : List (Nat × Nat) := []

/-- Row predicate of `macro_unsafe_hygiene`. -/
def macroArmOk (m : MacroArm) : Bool :=
  m.inUnsafe.isEmpty || macroUnsafeExempt.contains (m.nameKey, m.arm)

/-- Exported macros that take an expression (the probe corpus must have a program for each). -/
def exprMacros : List String :=
  (exportedMacros.filter fun m => !m.exprVars.isEmpty).map (·.name) |>.eraseDups

/-! ### 4. Compile-time guards -/

/-- The expected compile-time guards: (context, owner, condition). The conditions are compared
    as normalised token text, so the strictness of every comparison is part of the entry.
    * `TaggedU8<SHIFT, TAG>` packs a length and a tag in one non-zero byte: `0 < SHIFT < 8`,
      `0 < TAG < 1 << SHIFT` (STRICT: the tag must fit below the length bits —
      `Props.C17.tag_len_disjoint`), `len <= u8::MAX >> SHIFT`;
    * `InlineVec<T, CAP, SHIFT, TAG>`: `CAP != 0`, `CAP <= TaggedU8::max()`; `extend_from_array`
      checks `N <= CAP` at compile time;
    * layout asserts of the `HipByt` union and of `Borrowed` (C07);
    * run-or-compile-time bounds of the `const fn`s (`inline`, `swap_remove`, `remove`, …). -/
def expectedGuards : List (GuardCtx × Nat × Nat) := [
  (.constFn,    key% "bytes::raw::HipByt::inline", key% "bytes . len ()<= Self::inline_capacity ()"),
  (.constBlock, key% "bytes::raw::Union::ASSERTS", key% "size_of::<Self> () == size_of::<HipByt<'borrow, B>> ()"),
  (.constBlock, key% "bytes::raw::Union::ASSERTS", key% "align_of::<Self> () == align_of::<HipByt<'borrow, B>> ()"),
  (.constBlock, key% "bytes::raw::borrowed::Borrowed::ASSERTS", key% "offset_of ! (Self, tag) == 0"),
  (.constBlock, key% "bytes::raw::borrowed::Borrowed::ASSERTS", key% "offset_of ! (Self, tag) == size_of::<Self> () - 1"),
  (.constFn,    key% "common::maybe_uninit_write_copy_of_slice", key% "len == dst . len ()"),
  (.constBlock, key% "vecs::inline::TaggedU8::max", key% "SHIFT> 0"),
  (.constBlock, key% "vecs::inline::TaggedU8::max", key% "SHIFT<8"),
  (.constBlock, key% "vecs::inline::TaggedU8::new", key% "SHIFT> 0"),
  (.constBlock, key% "vecs::inline::TaggedU8::new", key% "SHIFT<8"),
  (.constBlock, key% "vecs::inline::TaggedU8::new", key% "TAG> 0"),
  (.constBlock, key% "vecs::inline::TaggedU8::new", key% "TAG<(1<<SHIFT)"),
  (.constFn,    key% "vecs::inline::TaggedU8::new", key% "len<= Self::max ()"),
  (.constBlock, key% "vecs::inline::InlineVec::new", key% "CAP != 0"),
  (.constBlock, key% "vecs::inline::InlineVec::new", key% "CAP<= TaggedU8::<SHIFT, TAG>::max ()"),
  (.constBlock, key% "vecs::inline::InlineVec::zeroed", key% "CAP != 0"),
  (.constBlock, key% "vecs::inline::InlineVec::zeroed", key% "CAP<= TaggedU8::<SHIFT, TAG>::max ()"),
  (.constFn,    key% "vecs::inline::InlineVec::const_append", key% "other_len<= CAP - len"),
  (.constFn,    key% "vecs::inline::InlineVec::swap_remove", key% "index<len"),
  (.constFn,    key% "vecs::inline::InlineVec::remove", key% "index<len"),
  (.constBlock, key% "vecs::inline::InlineVec::extend_from_array", key% "N<= CAP"),
  (.constFn,    key% "vecs::inline::InlineVec::extend_from_array", key% "new_len<= CAP"),
  (.constFn,    key% "vecs::inline::InlineVec::extend_from_slice_copy", key% "slice . len ()<= CAP - len")
]

def guardKey (g : ConstGuard) : GuardCtx × Nat × Nat := (g.ctx, g.ownerKey, g.condKey)

def unexpectedGuards : List ConstGuard := constGuards.filter fun g => !expectedGuards.contains (guardKey g)

def missingGuards : List (GuardCtx × Nat × Nat) :=
  expectedGuards.filter fun e => !(constGuards.map guardKey).contains e

/-- The byte `TaggedU8::new(len)` builds: `(len << SHIFT) as u8 | TAG`. -/
def pack (shift tag len : Nat) : Nat := (len <<< shift) ||| tag

/-- Bool form of the packing property for one (SHIFT, TAG, len). -/
def packOk (s t l : Nat) : Bool :=
  pack s t l >>> s == l && pack s t l &&& (2 ^ s - 1) == t && pack s t l < 256 && 0 < pack s t l

/-- Generated keys agree with the strings next to them (evaluated, not kernel-checked). -/
def surfaceKeysOk : Bool :=
  impls.all (fun r => r.tyKey == encKey r.ty && r.methods.all fun m => m.1 == encKey m.2) &&
  unsafeImpls.all (fun u => u.tyKey == encKey u.ty) &&
  exportedMacros.all (fun m => m.nameKey == encKey m.name) &&
  constGuards.all fun g => g.ownerKey == encKey g.owner && g.condKey == encKey g.cond

end HipVerif.Model.Surface
