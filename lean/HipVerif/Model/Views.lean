import HipVerif.Model.ViewsTy
import HipVerif.Gen.CmpImpls

/-!
# The four comparison views (property C12) — executable model

`View = bytes | str | osstr | path`: how std compares / orders / hashes `[u8]`, `str`, `OsStr`
(Unix: a byte string) and `Path` (Unix). Everything is a function of the underlying byte string.

* `eqV`, `cmpV`: `bytes`/`str`/`osstr` are lexicographic on bytes (for `str` this is std's definition:
  `str::cmp` is `as_bytes().cmp`); `path` compares `components` (std: `Path::eq`/`Path::cmp` are
  `components() == components()` / `compare_components`).
* `hashStreamV`: the exact byte stream `Hash::hash` feeds to the `Hasher` (through the default
  `Hasher` methods: `write_length_prefix` = `write_usize` = 8 little-endian bytes, `write_str(s)` =
  `write(s)` then `write_u8(0xff)`).
* `stdView`: the view std (or `bstr`) uses when the two operands are of the given view types — a fixed,
  commented table; `viewOf`/`rowOk`/`borrowOk` evaluate the rows of `Gen/CmpImpls.lean` against it.

Trusted: this file *is* the model of std; it is validated against the real std by the differential
`harness/src/bin/cmpdrive.rs` (exhaustive small byte strings, recording `Hasher`).
-/

namespace HipVerif.Views

/-- The view through which two values are compared / hashed. -/
inductive View where
  | bytes  -- `[u8]` (also `BStr`)
  | str    -- `str`
  | osstr  -- `OsStr` (Unix: bytes)
  | path   -- `Path` (Unix: components)
  deriving DecidableEq, Repr, Inhabited

def View.name : View → String
  | .bytes => "bytes" | .str => "str" | .osstr => "osstr" | .path => "path"

/-! ## Lexicographic comparison -/

/-- `u8::cmp`. -/
def cmpByte (a b : UInt8) : Ordering := compare a.toNat b.toNat

/-- Lexicographic comparison of two lists (`<[T] as Ord>::cmp`, `Iterator::cmp`): first difference
    decides, a strict prefix is smaller. -/
def lexBy {α : Type} (c : α → α → Ordering) : List α → List α → Ordering
  | [], [] => .eq
  | [], _ :: _ => .lt
  | _ :: _, [] => .gt
  | a :: as, b :: bs =>
    match c a b with
    | .eq => lexBy c as bs
    | o => o

/-- `<[u8] as Ord>::cmp`. -/
def lexCmp (x y : List UInt8) : Ordering := lexBy cmpByte x y

/-! ## Unix `Path::components` -/

/-- `std::path::Component` on Unix (no `Prefix`). The derived `Ord` follows declaration order:
    `RootDir < CurDir < ParentDir < Normal(_)`, `Normal` compared as `OsStr` (bytes). -/
inductive Comp where
  | root
  | cur
  | parent
  | normal (b : List UInt8)
  deriving DecidableEq, Repr, Inhabited

/-- `b'/'` -/
def SEP : UInt8 := 47
/-- `b'.'` -/
def DOT : UInt8 := 46

/-- `bytes.split(|b| *b == b'/')`: always at least one piece. -/
def splitSlash : List UInt8 → List (List UInt8)
  | [] => [[]]
  | c :: cs =>
    if c = SEP then [] :: splitSlash cs
    else match splitSlash cs with
      | p :: ps => (c :: p) :: ps
      | [] => [[c]]

/-- What a piece between separators contributes in the body of the path
    (`Components::parse_single_component`): `""` and `"."` nothing, `".."` `ParentDir`, else `Normal`. -/
def pieceComp (p : List UInt8) : Option Comp :=
  if p = [] then none
  else if p = [DOT] then none
  else if p = [DOT, DOT] then some .parent
  else some (.normal p)

/-- `Path::new(OsStr::from_bytes(x)).components().collect()` on Unix:
    `RootDir` iff `x` starts with `/`; otherwise a leading `.` piece is kept as `CurDir`
    (`include_cur_dir`); then every piece through `pieceComp`. -/
def components (x : List UInt8) : List Comp :=
  let pieces := splitSlash x
  let lead :=
    if x.head? = some SEP then [Comp.root]
    else if pieces.head? = some [DOT] then [Comp.cur]
    else []
  lead ++ pieces.filterMap pieceComp

/-- Position of a `Component` variant in the enum (derived `Ord` compares this first). -/
def Comp.rank : Comp → Nat
  | .root => 0 | .cur => 1 | .parent => 2 | .normal _ => 3

/-- `<Component as Ord>::cmp` (derived). -/
def Comp.cmp : Comp → Comp → Ordering
  | .normal a, .normal b => lexCmp a b
  | a, b => compare a.rank b.rank

/-- `Component::as_os_str` bytes, `none` for `RootDir` (which `Path::hash` does not feed). -/
def Comp.hashBytes : Comp → Option (List UInt8)
  | .root => none
  | .cur => some [DOT]
  | .parent => some [DOT, DOT]
  | .normal b => some b

/-! ## Hash streams -/

/-- `usize::to_ne_bytes` on a 64-bit little-endian target (value taken mod 2^64). -/
def le8 (n : Nat) : List UInt8 :=
  (List.range 8).map fun i => UInt8.ofNat ((n / 256 ^ i) % 256)

/-- `usize::rotate_right(2)` on 64 bits. -/
def rotr2 (n : Nat) : Nat := n / 4 + (n % 4) * 2 ^ 62

/-- `chunk_bits` of `Path::hash`: for every chunk written,
    `chunk_bits = chunk_bits.wrapping_add(len).rotate_right(2)`. -/
def chunkBits (lens : List Nat) : Nat :=
  lens.foldl (fun cb l => rotr2 ((cb + l) % 2 ^ 64)) 0

/-- `<Path as Hash>::hash` on Unix as a function of `components`: the bytes of every component except
    `RootDir`, without separators, then `write_usize(chunk_bits)`. -/
def pathHashOfComps (cs : List Comp) : List UInt8 :=
  let ws := cs.filterMap Comp.hashBytes
  ws.flatten ++ le8 (chunkBits (ws.map List.length))

/-- State of the byte loop in std's `<Path as Hash>::hash`. -/
structure PathHashState where
  componentStart : Nat
  chunkBits : Nat
  out : List UInt8
  deriving Repr

/-- `chunk_bits = …; h.write(to_hash)` -/
def PathHashState.emit (st : PathHashState) (chunk : List UInt8) : PathHashState :=
  { st with chunkBits := rotr2 ((st.chunkBits + chunk.length) % 2 ^ 64), out := st.out ++ chunk }

/-- std's `<Path as Hash>::hash` (Unix: no prefix, not verbatim), statement by statement:
    ```
    for i in 0..bytes.len() {
        if is_sep_byte(bytes[i]) {
            if i > component_start { emit(&bytes[component_start..i]) }
            component_start = i + 1;
            let tail = &bytes[component_start..];
            component_start += match tail { [b'.'] => 1, [b'.', sep, ..] if is_sep_byte(*sep) => 1, _ => 0 };
        }
    }
    if component_start < bytes.len() { emit(&bytes[component_start..]) }
    h.write_usize(chunk_bits);
    ```
    Proved equal to `pathHashOfComps ∘ components` for every byte string
    (`Lemmas/Views.lean: pathHashLoop_eq`, `Props.C12.path_hash_loop_eq`); both are also compared
    with the real std by the differential. -/
def pathHashLoop (bytes : List UInt8) : List UInt8 :=
  let n := bytes.length
  let st := (List.range n).foldl (fun (st : PathHashState) i =>
    if bytes[i]?.getD 0 = SEP then
      let st := if i > st.componentStart then
          st.emit ((bytes.drop st.componentStart).take (i - st.componentStart)) else st
      let cs := i + 1
      let extra := match bytes.drop cs with
        | [d] => if d = DOT then 1 else 0
        | d :: s :: _ => if d = DOT ∧ s = SEP then 1 else 0
        | _ => 0
      { st with componentStart := cs + extra }
    else st) ⟨0, 0, []⟩
  let st := if st.componentStart < n then st.emit (bytes.drop st.componentStart) else st
  st.out ++ le8 st.chunkBits

/-! ## The views -/

/-- `a == b` through view `v`. -/
def eqV (v : View) (x y : List UInt8) : Bool :=
  match v with
  | .path => decide (components x = components y)
  | _ => decide (x = y)

/-- `a.cmp(b)` (= `a.partial_cmp(b).unwrap()`) through view `v`. -/
def cmpV (v : View) (x y : List UInt8) : Ordering :=
  match v with
  | .path => lexBy Comp.cmp (components x) (components y)
  | _ => lexCmp x y

/-- The byte stream `a.hash(&mut h)` feeds to `h` through view `v`. -/
def hashStreamV (v : View) (x : List UInt8) : List UInt8 :=
  match v with
  | .bytes => le8 x.length ++ x          -- `[u8]`/`BStr`: `write_length_prefix(len); write(bytes)`
  | .osstr => le8 x.length ++ x          -- `OsStr`: `self.as_encoded_bytes().hash(state)`
  | .str => x ++ [0xff]                  -- `str`: `write_str` = `write(bytes); write_u8(0xff)`
  | .path => pathHashOfComps (components x)

/-! ## Which view std uses for a pair of view types -/

/-- The view through which std (or `bstr`, for the `BStr` rows) compares a value of view type `a` with
    one of view type `b` (`==`, `partial_cmp`), `none` when there is no such impl.

    | pair                      | impl                                                        | view  |
    |---------------------------|-------------------------------------------------------------|-------|
    | `[u8]`×`[u8]`             | `impl PartialEq<[U]> for [T]` / `Ord for [T]`               | bytes |
    | `BStr`×`BStr`,`BStr`×`[u8]` | bstr `impl_partial_eq!`/`impl_partial_ord!(BStr, [u8])`   | bytes |
    | `BStr`×`str`              | bstr `impl_partial_eq!(BStr, str)`: `as_bytes()` both sides | bytes |
    | `str`×`str`               | `impl Ord for str`: `as_bytes().cmp`                        | str   |
    | `OsStr`×`OsStr`           | `impl Ord for OsStr`: `bytes().cmp`                         | osstr |
    | `OsStr`×`str`             | `impl PartialEq<str> for OsStr`, `PartialOrd<str>`: bytes   | osstr |
    | `Path`×`Path`             | `impl PartialEq for Path`: `components() == components()`   | path  |
    | `Path`×`OsStr`            | `impl_cmp_os_str!`: `<Path as PartialEq>::eq(self, other.as_ref())` | path |
-/
def stdView : Target → Target → Option View
  | .slice, .slice => some .bytes
  | .bstr, .bstr => some .bytes
  | .bstr, .slice => some .bytes
  | .slice, .bstr => some .bytes
  | .bstr, .str => some .bytes
  | .str, .bstr => some .bytes
  | .str, .str => some .str
  | .osStr, .osStr => some .osstr
  | .osStr, .str => some .osstr
  | .str, .osStr => some .osstr
  | .path, .path => some .path
  | .path, .osStr => some .path
  | .osStr, .path => some .path
  | _, _ => none

/-- How a view type hashes: `[u8]`, `BStr` (`self.as_bytes().hash`) length-prefixed; `str` with the
    `0xff` terminator; `OsStr` as its bytes slice; `Path` component-wise. -/
def hashViewOf : Target → View
  | .slice => .bytes
  | .bstr => .bytes
  | .str => .str
  | .osStr => .osstr
  | .path => .path

/-- The std view type a Hip type stands for (`HipByt` ≙ `[u8]`, `HipStr` ≙ `str`, …). -/
def HipTy.target : HipTy → Target
  | .byt => .slice | .str => .str | .os => .osStr | .path => .path

/-- The view type an owned/borrowed std operand type dereferences to. -/
def StdTy.target : StdTy → Target
  | .slice | .array | .vec | .boxSlice | .cowSlice => .slice
  | .str | .string | .boxStr | .cowStr => .str
  | .osStr | .osString | .boxOsStr | .cowOsStr => .osStr
  | .path | .pathBuf | .boxPath | .cowPath => .path
  | .bstr | .bstring => .bstr

def Operand.target : Operand → Target
  | .hip h => h.target
  | .std s _ => s.target

/-- `AsRef` conversions that reinterpret the same bytes: an operand whose view type is `cls` may be
    passed where `impl AsRef<t>` is expected (existence is checked by rustc; listed so that a helper
    going through an unrelated target is rejected). -/
def asRefOk (cls t : Target) : Bool :=
  match cls, t with
  | .slice, .slice => true
  | .str, .str | .str, .slice | .str, .osStr | .str, .path | .str, .bstr => true
  | .osStr, .osStr | .osStr, .path => true
  | .path, .path | .path, .osStr => true
  | .bstr, .bstr | .bstr, .slice => true
  | _, _ => false

/-- Do two views compare (`==`, `cmp`) the same way? (`bytes`, `str`, `osstr` are all bytewise.) -/
def sameCmp (v w : View) : Bool := (v == .path) == (w == .path)

/-- Do two views feed the same hash stream? -/
def sameHash (v w : View) : Bool :=
  match v, w with
  | .bytes, .bytes | .bytes, .osstr | .osstr, .bytes | .osstr, .osstr => true
  | .str, .str => true
  | .path, .path => true
  | _, _ => false

/-! ## Evaluating the generated rows -/

/-- The generated facts the rows are read against. -/
structure Env where
  table : List CmpRow
  newtypes : List NewtypeRow
  sigs : List AccessorSig

def Env.accTarget (env : Env) (h : HipTy) (a : Accessor) : Option Target :=
  (env.sigs.find? fun s => s.owner = h ∧ s.acc = a).map (·.ret)

def Env.inner (env : Env) (h : HipTy) : Option HipTy :=
  (env.newtypes.find? fun n => n.outer = h).map (·.inner)

/-- The hand-written (non-macro) impl of `tr` between two Hip types. -/
def Env.hipRow (env : Env) (tr : TraitKind) (l r : HipTy) : Option CmpRow :=
  env.table.find? fun row => row.trait = tr ∧ row.lhs = .hip l ∧ row.rhs = .hip r

/-- The view through which the impl compares (for `Hash` rows: hashes) `self` and `other`, computed
    from what the source says; `none` = the body cannot be given a view. `fuel` bounds the `.0`
    delegation chain (`HipPath.0 : HipOsStr`, `HipOsStr.0 : HipByt`). -/
def viewOf (env : Env) : Nat → CmpRow → Option View
  | fuel, row =>
    match row.body with
    | .helper _ t1 t2 _ a1 _ _ _ _ =>
      -- `f(arg1, arg2)` evaluates `arg1.as_ref() <op> arg2.as_ref()` with `AsRef<t1>`, `AsRef<t2>`
      if a1 = .self then stdView t1 t2 else stdView t2 t1
    | .viaAccessor _ acc _ =>
      match row.lhs, row.rhs with
      | .hip l, .hip r => do
        let tl ← env.accTarget l acc
        let tr ← env.accTarget r acc
        stdView tl tr
      | _, _ => none
    | .inherentEq =>
      -- byte equality of the two windows: `Lemmas.Views.inherent_eq_ok`
      match row.lhs, row.rhs with
      | .hip .byt, .hip .byt => some .bytes
      | _, _ => none
    | .field0Eq =>
      match fuel with
      | 0 => none
      | fuel + 1 =>
        match row.lhs, row.rhs with
        | .hip l, .hip r => do
          let il ← env.inner l
          let ir ← env.inner r
          let row' ← env.hipRow row.trait il ir
          viewOf env fuel row'
        | _, _ => none
    | .marker => none
    | .hashVia acc =>
      match row.lhs with
      | .hip l => (env.accTarget l acc).map hashViewOf
      | _ => none

/-- The view std uses for the corresponding std pair (for `Hash`: how the std counterpart hashes). -/
def expectedView (row : CmpRow) : Option View :=
  match row.trait with
  | .hash => some (hashViewOf row.lhs.target)
  | .eq | .borrow => none
  | _ => stdView row.lhs.target row.rhs.target

/-- Delegation depth allowed for `.0 == .0`. -/
def FUEL : Nat := 4

def viewsAgree (tr : TraitKind) (got expected : Option View) : Bool :=
  match got, expected with
  | some v, some w => if tr = .hash then sameHash v w else sameCmp v w
  | _, _ => false

/-- Is the row coherent with std? Shape of the body fits the trait, the operand order is a
    permutation of (`self`, `other`), the swapped `PartialOrd` order reverses (and nothing else
    does), each operand is viewed through a byte-preserving `AsRef`, and the resulting view is the
    one std uses for the corresponding std pair. -/
def rowOk (env : Env) (row : CmpRow) : Bool :=
  let viewOk := viewsAgree row.trait (viewOf env FUEL row) (expectedView row)
  match row.trait, row.body with
  | .partialEq, .helper _ t1 t2 op a1 a2 rev _ _ =>
    op = .eqeq && a1 != a2 && !rev
      && asRefOk row.lhs.target (if a1 = .self then t1 else t2)
      && asRefOk row.rhs.target (if a1 = .self then t2 else t1) && viewOk
  | .partialOrd, .helper _ t1 t2 op a1 a2 rev _ _ =>
    op = .partialCmp && a1 != a2 && rev == (a1 == .other)
      && asRefOk row.lhs.target (if a1 = .self then t1 else t2)
      && asRefOk row.rhs.target (if a1 = .self then t2 else t1) && viewOk
  | .partialEq, .viaAccessor _ _ op => op = .eqeq && viewOk   -- a `ptr::eq ||` shortcut is sound: `eqV_refl`
  | .partialEq, .inherentEq => viewOk
  | .partialEq, .field0Eq => viewOk
  | .partialOrd, .viaAccessor sc _ op => sc = .none && op = .partialCmp && viewOk
  | .ord, .viaAccessor sc _ op => sc = .none && op = .cmp && row.lhs = row.rhs && viewOk
  | .eq, .marker =>
    row.lhs = row.rhs &&
      (match row.lhs with
       | .hip h => (env.hipRow .partialEq h h).isSome
       | _ => false)
  | .hash, .hashVia _ => row.lhs = row.rhs && viewOk
  | _, _ => false

/-- Names of the sub-checks of `rowOk` that fail for a row (`[]` iff the shape is known and nothing
    fails); used by the driver's `rows` listing to say *why* a row is BAD. -/
def rowDiag (env : Env) (row : CmpRow) : List String :=
  let view := if viewsAgree row.trait (viewOf env FUEL row) (expectedView row) then [] else ["view"]
  let helper (wantOp : CmpOp) (wantRev : Arg → Bool) (t1 t2 : Target) (op : CmpOp) (a1 a2 : Arg) (rev : Bool) :=
    (if op = wantOp then [] else ["op"]) ++ (if a1 != a2 then [] else ["args"]) ++
    (if rev == wantRev a1 then [] else ["reverse"]) ++
    (if asRefOk row.lhs.target (if a1 = .self then t1 else t2)
        && asRefOk row.rhs.target (if a1 = .self then t2 else t1) then [] else ["asref"]) ++ view
  match row.trait, row.body with
  | .partialEq, .helper _ t1 t2 op a1 a2 rev _ _ => helper .eqeq (fun _ => false) t1 t2 op a1 a2 rev
  | .partialOrd, .helper _ t1 t2 op a1 a2 rev _ _ => helper .partialCmp (· == .other) t1 t2 op a1 a2 rev
  | _, _ => if rowOk env row then [] else if view.isEmpty then ["shape"] else view

/-! ## Borrow rows -/

def Env.ownerView (env : Env) (tr : TraitKind) (h : HipTy) : Option View :=
  (env.hipRow tr h h).bind (viewOf env FUEL)

/-- The two known findings (D7, D8): genuinely incoherent `Borrow` impls kept by the crate. -/
def BorrowRow.isKnownFinding (b : BorrowRow) : Bool :=
  (b.owner = .path && b.target = .osStr) || (b.owner = .str && b.target = .bstr)

/-- `Borrow` contract for one row: `borrow()` returns the owner's bytes as the target type, and the
    target's `Eq`, `Ord`, `Hash` agree with the owner's. -/
def borrowOk (env : Env) (b : BorrowRow) : Bool :=
  let accT := env.accTarget b.owner b.acc
  let shapeOk := match b.wrap with
    | .none => accT = some b.target
    | .bstrNew => accT = some .slice && b.target = .bstr
  let tv := stdView b.target b.target
  shapeOk
    && viewsAgree .partialEq (env.ownerView .partialEq b.owner) tv
    && viewsAgree .partialOrd (env.ownerView .partialOrd b.owner) tv
    && viewsAgree .ord (env.ownerView .ord b.owner) tv
    && viewsAgree .hash (env.ownerView .hash b.owner) (some (hashViewOf b.target))

/-! ## `HipByt::inherent_eq` -/

/-- A byte window in memory: address of the first byte and the bytes. -/
structure Window where
  ptr : Nat
  bytes : List UInt8

/-- `memcmp(a, b, n) == 0` on two windows of equal length `n`. -/
def memcmpIsZero (a b : List UInt8) : Bool := lexCmp a b == .eq

/-- Runs the recorded statements of `inherent_eq` (`Gen.CmpImpls.inherentEq`); `none` when control
    falls off the end (malformed). -/
def runInherentEq : List InhStep → Window → Window → Option Bool
  | [], _, _ => none
  | .ifLenNeReturn r :: rest, a, b =>
    if a.bytes.length ≠ b.bytes.length then some r else runInherentEq rest a b
  | .ifPtrEqReturn r :: rest, a, b =>
    if a.ptr = b.ptr then some r else runInherentEq rest a b
  | .retMemcmpIsZero :: _, a, b => some (memcmpIsZero a.bytes b.bytes)

/-! ## Witnesses of the two known findings (used by `Props/C12.lean`, printed by the driver, replayed
on the implementation by `cmpdrive`) -/

/-- D7: `"a/"` and `"a"` are equal as `Path`s, different as `OsStr`s. -/
def d7EqWitness : List UInt8 × List UInt8 := ([97, 47], [97])
/-- D7: `"abc"` hashes differently as `Path` and as `OsStr`. -/
def d7HashWitness : List UInt8 := [97, 98, 99]
/-- D8: `"abc"` hashes differently as `str` and as `BStr`. -/
def d8HashWitness : List UInt8 := [97, 98, 99]

/-- The generated tables of the current source tree. -/
def genEnv : Env :=
  { table := HipVerif.Gen.CmpImpls.table
    newtypes := HipVerif.Gen.CmpImpls.newtypes
    sigs := HipVerif.Gen.CmpImpls.accessorSigs }

end HipVerif.Views
