/-
C06 — the link between the signature-level door table and the differential `doordrive`
(harness/src/bin/doordrive.rs): which rows of `Gen/Doors.lean` need a differential, which of
them MUST be called (a skip is not accepted), and the reviewed copy of doordrive's call table.

`doordrive` asks `utf8_driver` for `doors` / `doorcalls` / `doorskips` at run time and reports a
`monitor` disagreement (source `coverage`) when its own table differs from these lists or does
not cover `needsDifferential`; `Props/C06Conv.lean` proves the same coverage over the generated
table. So a new lossy constructor (a new name on `lossyFns`) or a new bytes -> str door breaks a
theorem until it is added here, and breaks doordrive until it is really called there.
-/
import HipVerif.Model.Doors

namespace HipVerif.Model.Doors
open HipVerif.Gen.Doors (doors)

/-- A SAFE row through which data that is not UTF-8 by type can reach a `HipStr`, or any door
    into `HipOsStr` / `HipPath`. -/
def needsDifferential (d : Door) : Bool :=
  !d.isUnsafe && (d.producesOs || d.producesPath || (d.producesStr && !d.inputs.all strInputOk))

/-- Rows that must be CALLED by doordrive: safe functions that make a `HipStr` out of
    non-UTF-8-typed content they examine themselves — the lossy constructors, the fallible
    bytes -> str / os -> str conversions — i.e. everything except pure decoders (serde/borsh
    entry points, which C16's serdrive drives with real formats). -/
def mustBeCalled (d : Door) : Bool :=
  !d.isUnsafe && d.producesStr && !d.inputs.all strInputOk &&
    (lossyFns.contains d.simpleKey || !d.inputs.contains .decoder)

/-- Reviewed copy of doordrive's call table (full row names, by key). -/
def doorCalls : List Nat := [
  key% "string::HipStr::from_utf16",
  key% "string::HipStr::from_utf16_lossy",
  key% "string::HipStr::from_utf8",
  key% "string::HipStr::from_utf8_lossy",
  key% "<string::HipStr<'borrow, B> as TryFrom<HipByt<'borrow, B>>>::try_from",
  key% "<string::HipStr<'borrow, B> as TryFrom<&HipByt<'borrow, B>>>::try_from",
  key% "<string::HipStr<'_, B> as TryFrom<&[u8]>>::try_from",
  key% "<string::HipStr<'_, B> as TryFrom<Vec<u8>>>::try_from",
  key% "<string::HipStr<'_, B> as TryFrom<BString>>::try_from",
  key% "<string::HipStr<'a, B> as TryFrom<&'a BStr>>::try_from",
  key% "<string::HipStr<'_, B> as BorshDeserialize>::deserialize_reader",
  key% "<string::HipStr<'_, B> as Deserialize<'de>>::deserialize",
  key% "string::serde::borrow_deserialize",
  key% "os_string::HipOsStr::new",
  key% "os_string::HipOsStr::with_capacity",
  key% "os_string::HipOsStr::borrowed",
  key% "os_string::HipOsStr::into_borrowed",
  key% "os_string::HipOsStr::into_os_string",
  key% "os_string::HipOsStr::into_owned",
  key% "os_string::HipOsStr::into_str",
  key% "os_string::HipOsStr::to_str",
  key% "os_string::HipOsStr::to_str_lossy",
  key% "os_string::HipOsStr::slice_ref",
  key% "os_string::HipOsStr::try_slice_ref",
  key% "os_string::HipOsStr::from_static",
  key% "<os_string::HipOsStr<'_, B> as Clone>::clone",
  key% "<os_string::HipOsStr<'_, B> as Default>::default",
  key% "<os_string::HipOsStr<'_, B> as From<&str>>::from",
  key% "<os_string::HipOsStr<'_, B> as From<Box<str>>>::from",
  key% "<os_string::HipOsStr<'_, B> as From<String>>::from",
  key% "<os_string::HipOsStr<'_, B> as From<&OsStr>>::from",
  key% "<os_string::HipOsStr<'_, B> as From<OsString>>::from",
  key% "<os_string::HipOsStr<'borrow, B> as From<Cow<'borrow, str>>>::from",
  key% "<os_string::HipOsStr<'borrow, B> as From<HipStr<'borrow, B>>>::from",
  key% "<os_string::HipOsStr<'borrow, B> as From<&HipStr<'borrow, B>>>::from",
  key% "path::HipPath::new",
  key% "path::HipPath::borrowed",
  key% "path::HipPath::into_borrowed",
  key% "path::HipPath::into_os_str",
  key% "path::HipPath::into_os_string",
  key% "path::HipPath::into_path_buf",
  key% "path::HipPath::into_owned",
  key% "path::HipPath::into_str",
  key% "path::HipPath::from_static",
  key% "<path::HipPath<'_, B> as Clone>::clone",
  key% "<path::HipPath<'_, B> as Default>::default",
  key% "<path::HipPath<'_, B> as From<&Path>>::from",
  key% "<path::HipPath<'_, B> as From<&str>>::from",
  key% "<path::HipPath<'_, B> as From<&OsStr>>::from",
  key% "<path::HipPath<'_, B> as From<Box<str>>>::from",
  key% "<path::HipPath<'_, B> as From<String>>::from",
  key% "<path::HipPath<'_, B> as From<OsString>>::from",
  key% "<path::HipPath<'_, B> as From<PathBuf>>::from",
  key% "<path::HipPath<'borrow, B> as From<Cow<'borrow, str>>>::from",
  key% "<path::HipPath<'borrow, B> as From<Cow<'borrow, OsStr>>>::from",
  key% "<path::HipPath<'borrow, B> as From<Cow<'borrow, Path>>>::from",
  key% "<path::HipPath<'borrow, B> as From<HipOsStr<'borrow, B>>>::from",
  key% "<path::HipPath<'borrow, B> as From<HipStr<'borrow, B>>>::from",
  key% "<path::HipPath<'borrow, B> as From<&HipOsStr<'borrow, B>>>::from",
  key% "<path::HipPath<'borrow, B> as From<&HipStr<'borrow, B>>>::from",
  key% "<os_string::HipOsStr<'borrow, B> as From<HipPath<'borrow, B>>>::from",
  key% "<os_string::HipOsStr<'borrow, B> as From<&HipPath<'borrow, B>>>::from",
  key% "<path::HipPath<'_, B> as Deserialize<'de>>::deserialize",
  key% "path::serde::borrow_deserialize"]

/-- Reviewed skip list of doordrive (rows exercised by another differential). -/
def doorSkips : List Nat := [
  -- delegates to std's `OsString::deserialize`; driven by C16 serdrive against `OsString`
  key% "<os_string::HipOsStr<'_, B> as Deserialize<'de>>::deserialize"]

/-- Rows that need a differential and have neither a call nor a reasoned skip. -/
def uncoveredDoors : List Door :=
  doors.filter fun d => needsDifferential d && !doorCalls.contains d.key && !doorSkips.contains d.key

/-- "Must" rows that are not called. -/
def uncalledMustDoors : List Door :=
  doors.filter fun d => mustBeCalled d && !doorCalls.contains d.key

/-- Entries of the call / skip lists that name no row needing a differential. -/
def staleDoorCalls : List Nat :=
  (doorCalls ++ doorSkips).filter fun k => !(doors.any fun d => needsDifferential d && d.key == k)

end HipVerif.Model.Doors
