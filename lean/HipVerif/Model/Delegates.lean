/-
Wrapper delegation (tie for C01/C06 "four types") — the hand-written, REVIEWED inputs and the
Bool row predicates over `Gen/Delegates.lean`:
* `expectedTarget` — which fn of the wrapped type a pure delegate must call (same name unless
  listed in `renamed` / `renamedRow`);
* `preserving` — targets whose result is valid for the wrapper type whenever the receiver is a
  valid wrapper value and every argument is typed (`&str`, `&OsStr`, … never raw bytes);
* `reviewed` — every `composed` / `other` fn allowed to exist, with the model that covers it;
(In Model/, not Props/, so that `tables_driver` still builds when a regenerated table breaks a
theorem of `Props/C01Delegates.lean`.)
-/
import HipVerif.Model.DelegatesTy
import HipVerif.Gen.Delegates

namespace HipVerif.Model.Delegates
open HipVerif.Model.PubFns (encKey)
open HipVerif.Model.Doors (InClass)
open HipVerif.Gen.Delegates (rows driven)

/-- Which model covers a reviewed non-delegate fn. -/
inductive Cover where
  | strStep
  | wiring
  | doors
  | view
  | conv
  deriving Repr, DecidableEq, Inhabited

/-! ### Expected delegation targets -/

/-- Wrapper fn (by simple name) → fn of the wrapped type, where the names differ because the
    wrapper speaks of `str`/`OsStr`/`Path` and `HipByt` of slices and vectors. Everything not
    listed must delegate to the fn of the SAME name. (`HipPath` wraps `HipOsStr`.) -/
def renamed : List (Wrapper × Nat × Nat) := [
  (.str,  key% "as_str",          key% "as_slice"),
  (.str,  key% "as_mut_str",      key% "as_mut_slice"),
  (.str,  key% "to_mut_str",      key% "to_mut_slice"),
  (.str,  key% "push_str",        key% "push_slice"),
  (.str,  key% "into_string",     key% "into_vec"),
  (.str,  key% "into_bytes",      key% ".0"),
  -- `mutate` takes the buffer out (the guard writes it back through `From<String>`)
  (.str,  key% "mutate",          key% "take_vec"),
  -- the unchecked constructor IS the tuple constructor applied to its argument
  (.str,  key% "from_utf8_unchecked", key% "(wrap)"),
  (.os,   key% "as_os_str",       key% "as_slice"),
  (.os,   key% "push",            key% "push_slice"),
  (.os,   key% "into_os_string",  key% "into_vec"),
  (.os,   key% "take_os_string",  key% "take_vec"),
  (.os,   key% "into_bytes",      key% ".0"),
  -- a `&'static str` is borrowed as is
  (.os,   key% "from_static",     key% "borrowed"),
  (.path, key% "as_path",         key% "as_os_str"),
  (.path, key% "into_path_buf",   key% "into_os_string"),
  (.path, key% "into_os_str",     key% ".0")
]

/-- Per-row exceptions (full row name): conversions OUT of a wrapper are all called `from`. -/
def renamedRow : List (Nat × Nat) := [
  (key% "<HipByt<'borrow, B> as From<HipStr<'borrow, B>>>::from", key% ".0"),
  (key% "<HipByt<'borrow, B> as From<HipOsStr<'borrow, B>>>::from", key% ".0"),
  (key% "<Vec<u8> as From<HipStr<'_, B>>>::from", key% "into"),
  (key% "<Vec<u8> as From<HipOsStr<'_, B>>>::from", key% "into"),
  (key% "<path::HipPath<'borrow, B> as From<HipOsStr<'borrow, B>>>::from", key% "(wrap)")
]

/-- The target a pure delegate row must have. -/
def expectedTarget (r : Row) : Nat :=
  match renamedRow.find? (fun e => e.1 == r.key) with
  | some e => e.2
  | none =>
    match renamed.find? (fun e => e.1 == r.wrapper && e.2.1 == r.simpleKey) with
    | some e => e.2.2
    | none => r.simpleKey

/-! ### Validity-preserving targets -/

/-- Fns of the wrapped type whose effect keeps the bytes valid for the wrapper's encoding
    whenever the receiver holds valid bytes and every argument is TYPED (str-like for `HipStr`,
    str- or os-like for `HipOsStr`/`HipPath`) or content-free:
    views of the own bytes, constructors from typed data, whole-value copies, ASCII case
    mapping, repetition, concatenation of typed pieces, appending a typed piece, capacity
    management, and `slice_ref`-style adoption of a typed sub-slice (the result's bytes ARE the
    typed argument's bytes). NOT in the list: `slice`, `try_slice`, `slice_unchecked`,
    `truncate`, `pop`, `set_len`, `as_mut_slice_unchecked` … — anything that cuts at a byte index. -/
def preserving : List Nat := [
  key% ".0", key% "(wrap)",
  key% "as_slice", key% "as_mut_slice", key% "to_mut_slice", key% "as_borrowed", key% "into_borrowed",
  key% "into_vec", key% "take_vec", key% "into", key% "as_ptr", key% "as_mut_ptr",
  key% "new", key% "with_capacity", key% "borrowed", key% "from", key% "from_static",
  key% "clone", key% "into_owned",
  key% "to_ascii_lowercase", key% "to_ascii_uppercase", key% "make_ascii_lowercase", key% "make_ascii_uppercase",
  key% "repeat", key% "concat_slices", key% "concat", key% "join_slices", key% "join",
  key% "push_slice", key% "clear", key% "shrink_to", key% "shrink_to_fit",
  key% "slice_ref", key% "try_slice_ref",
  -- `HipPath` delegates to `HipOsStr` fns, which are themselves rows of this table
  key% "as_os_str", key% "into_os_string", key% "into_str", key% "take_os_string"
]

/-- Is the parameter class typed for the wrapper (or content-free)? Raw bytes never are. -/
def classTyped (w : Wrapper) (c : InClass) : Bool :=
  c == .scalar || c == .strLike || (w != .str && c == .osLike)

/-! ### Reviewed non-delegate fns -/

/-- Every `composed` / `other` fn of the three wrappers, with the model that covers it. -/
def reviewed : List (Nat × Cover) := [
  -- strStep: operations of the HipStr state machine (Model/Str `strStep`, driven by coredrive s_* ops):
  -- slice/slice_ref panic exactly when try_* fails; pop = last char index + guarded truncate; push encodes
  -- the char and appends; the os/path `mutate` go through take_*_string (a delegate to take_vec)
  (key% "string::HipStr::slice", .strStep), -- composed: try_slice, panic!
  (key% "string::HipStr::slice_ref", .strStep), -- composed: try_slice_ref, panic!
  (key% "string::HipStr::pop", .strStep), -- composed: as_str, truncate, .next_back, .char_indices
  (key% "string::HipStr::push", .strStep), -- other: push_slice, .encode_utf8, .as_bytes
  (key% "os_string::HipOsStr::mutate", .strStep), -- composed: take_os_string
  (key% "path::HipPath::mutate", .strStep), -- composed: take_path_buf
  -- doors: the checked / lossy doors of C06 (`Props/C06Doors.lean`, `Props/C06.lean` str guards): validation by std
  -- (`String::from_utf16`, `from_utf8_lossy`, `HipStr::from_utf8`) before the bytes are kept
  (key% "string::HipStr::from_utf16", .doors), -- other: String::from_utf16
  (key% "string::HipStr::from_utf16_lossy", .doors), -- other: .into
  (key% "string::HipStr::from_utf8_lossy", .doors), -- other: (wrap), from
  (key% "<string::HipStr<'borrow, B> as TryFrom<HipByt<'borrow, B>>>::try_from", .doors), -- composed: from_utf8
  (key% "<string::HipStr<'borrow, B> as TryFrom<&HipByt<'borrow, B>>>::try_from", .doors), -- composed: from_utf8, .clone
  (key% "os_string::HipOsStr::into_str", .doors), -- other: .0, HipStr::from_utf8
  (key% "os_string::HipOsStr::to_str_lossy", .doors), -- other: clone, as_os_str, HipStr::from
  -- wiring: inherited `str` API — std finds the pieces on `as_str()`, each piece is adopted by `slice_ref_unchecked`
  -- (a sub-slice of a valid str is valid); tabulated and checked by the wiring table (C11)
  (key% "string::HipStr::to_lowercase", .wiring), -- composed: from, as_str, .to_lowercase
  (key% "string::HipStr::to_uppercase", .wiring), -- composed: from, as_str, .to_uppercase
  (key% "string::HipStr::trim", .wiring), -- composed: as_str, slice_ref_unchecked, .trim
  (key% "string::HipStr::trim_start", .wiring), -- composed: as_str, slice_ref_unchecked, .trim_start
  (key% "string::HipStr::trim_end", .wiring), -- composed: as_str, slice_ref_unchecked, .trim_end
  (key% "string::HipStr::split", .wiring), -- composed: as_str, IterWrapper::new, .split
  (key% "string::HipStr::split_inclusive", .wiring), -- composed: as_str, IterWrapper::new, .split_inclusive
  (key% "string::HipStr::rsplit", .wiring), -- composed: as_str, IterWrapper::new, .rsplit
  (key% "string::HipStr::split_terminator", .wiring), -- composed: as_str, IterWrapper::new, .split_terminator
  (key% "string::HipStr::rsplit_terminator", .wiring), -- composed: as_str, IterWrapper::new, .rsplit_terminator
  (key% "string::HipStr::splitn", .wiring), -- composed: as_str, IterWrapper::new, .splitn
  (key% "string::HipStr::rsplitn", .wiring), -- composed: as_str, IterWrapper::new, .rsplitn
  (key% "string::HipStr::split_once", .wiring), -- composed: as_str, slice_ref_unchecked, slice_ref_unchecked, .split_once
  (key% "string::HipStr::rsplit_once", .wiring), -- composed: as_str, slice_ref_unchecked, slice_ref_unchecked, .rsplit_once
  (key% "string::HipStr::matches", .wiring), -- composed: as_str, IterWrapper::new, .matches
  (key% "string::HipStr::rmatches", .wiring), -- composed: as_str, IterWrapper::new, .rmatches
  (key% "string::HipStr::match_indices", .wiring), -- composed: as_str, IterWrapper::new, .match_indices
  (key% "string::HipStr::rmatch_indices", .wiring), -- composed: as_str, IterWrapper::new, .rmatch_indices
  (key% "string::HipStr::trim_matches", .wiring), -- composed: as_str, slice_ref_unchecked, .trim_matches
  (key% "string::HipStr::trim_start_matches", .wiring), -- composed: as_str, slice_ref_unchecked, .trim_start_matches
  (key% "string::HipStr::trim_end_matches", .wiring), -- composed: as_str, slice_ref_unchecked, .trim_end_matches
  (key% "string::HipStr::strip_prefix", .wiring), -- composed: as_str, slice_ref_unchecked, .strip_prefix
  (key% "string::HipStr::strip_suffix", .wiring), -- composed: as_str, slice_ref_unchecked, .strip_suffix
  (key% "string::HipStr::split_whitespace", .wiring), -- composed: as_str, IterWrapper::new, .split_whitespace
  (key% "string::HipStr::split_ascii_whitespace", .wiring), -- composed: as_str, IterWrapper::new, .split_ascii_whitespace
  (key% "string::HipStr::lines", .wiring), -- composed: as_str, IterWrapper::new, .lines
  -- view: borrow/size views composed over a delegate view (`as_str`, `as_os_str`, `as_path`, `new`, `borrowed`):
  -- no byte is produced or changed
  (key% "string::HipStr::from_static", .view), -- composed: borrowed
  (key% "<string::HipStr<'_, B> as Default>::default", .view), -- composed: new
  (key% "<string::HipStr<'_, B> as Deref>::deref", .view), -- composed: as_str
  (key% "<string::HipStr<'_, B> as Borrow<str>>::borrow", .view), -- composed: as_str
  (key% "<string::HipStr<'_, B> as AsRef<str>>::as_ref", .view), -- composed: as_str
  (key% "<string::HipStr<'_, B> as AsRef<[u8]>>::as_ref", .view), -- other: .as_bytes
  (key% "<string::HipStr<'_, B> as AsRef<std::ffi::OsStr>>::as_ref", .view), -- composed: as_str, .as_ref
  (key% "<string::HipStr<'_, B> as AsRef<std::path::Path>>::as_ref", .view), -- composed: as_str, .as_ref
  (key% "<string::HipStr<'_, B> as Borrow<BStr>>::borrow", .view), -- other: .as_bytes
  (key% "<string::HipStr<'_, B> as AsRef<BStr>>::as_ref", .view), -- other: .as_bytes
  (key% "<os_string::HipOsStr<'_, B> as Default>::default", .view), -- composed: new
  (key% "<os_string::HipOsStr<'_, B> as Deref>::deref", .view), -- composed: as_os_str
  (key% "<os_string::HipOsStr<'_, B> as AsRef<OsStr>>::as_ref", .view), -- composed: as_os_str
  (key% "<os_string::HipOsStr<'_, B> as AsRef<std::path::Path>>::as_ref", .view), -- composed: as_os_str, .as_ref
  (key% "<os_string::HipOsStr<'_, B> as Borrow<OsStr>>::borrow", .view), -- composed: as_os_str
  (key% "path::HipPath::inline_capacity", .view), -- composed: HipByt::inline_capacity
  (key% "<path::HipPath<'_, B> as Default>::default", .view), -- composed: new
  (key% "<path::HipPath<'_, B> as Deref>::deref", .view), -- composed: as_path
  (key% "<path::HipPath<'_, B> as AsRef<Path>>::as_ref", .view), -- composed: as_path
  (key% "<path::HipPath<'_, B> as AsRef<OsStr>>::as_ref", .view), -- composed: as_os_str
  (key% "<path::HipPath<'_, B> as Borrow<Path>>::borrow", .view), -- composed: as_path
  (key% "<path::HipPath<'_, B> as Borrow<OsStr>>::borrow", .view), -- composed: as_os_str
  -- conv: conversions composed of delegates and views only (constructors of the Core differential, C01):
  -- owned-or-borrowed dispatch (`Cow`), clone-then-convert, unwrap-or-copy
  (key% "<string::HipStr<'borrow, B> as From<Cow<'borrow, str>>>::from", .conv), -- composed: borrowed, from
  (key% "<String as From<HipStr<'_, B>>>::from", .conv), -- composed: into_string, as_str
  (key% "<std::ffi::OsString as From<HipStr<'_, B>>>::from", .conv), -- composed: into_string, as_str, .into
  (key% "<Cow<'borrow, str> as From<HipStr<'borrow, B>>>::from", .conv), -- composed: into_borrowed
  (key% "<os_string::HipOsStr<'borrow, B> as From<Cow<'borrow, str>>>::from", .conv), -- composed: borrowed, from
  (key% "<os_string::HipOsStr<'borrow, B> as From<HipStr<'borrow, B>>>::from", .conv), -- other: (wrap), HipStr::into_bytes
  (key% "<os_string::HipOsStr<'borrow, B> as From<&HipStr<'borrow, B>>>::from", .conv), -- composed: from, HipStr::clone
  (key% "<OsString as From<HipOsStr<'_, B>>>::from", .conv), -- composed: into_os_string, as_os_str
  (key% "<Cow<'borrow, OsStr> as From<HipOsStr<'borrow, B>>>::from", .conv), -- composed: into_borrowed
  (key% "<path::HipPath<'borrow, B> as From<Cow<'borrow, str>>>::from", .conv), -- composed: borrowed, from
  (key% "<path::HipPath<'borrow, B> as From<Cow<'borrow, OsStr>>>::from", .conv), -- composed: borrowed, from
  (key% "<path::HipPath<'borrow, B> as From<Cow<'borrow, Path>>>::from", .conv), -- composed: borrowed, from
  (key% "<path::HipPath<'borrow, B> as From<&HipOsStr<'borrow, B>>>::from", .conv), -- composed: from, HipOsStr::clone
  (key% "<path::HipPath<'borrow, B> as From<&HipStr<'borrow, B>>>::from", .conv), -- composed: from, HipStr::clone
  (key% "<PathBuf as From<HipPath<'_, B>>>::from", .conv), -- composed: into_path_buf, as_path, .to_path_buf
  (key% "<OsString as From<HipPath<'_, B>>>::from", .conv), -- composed: into_os_string, as_os_str, .to_os_string
  (key% "<os_string::HipOsStr<'borrow, B> as From<HipPath<'borrow, B>>>::from", .conv), -- composed: HipPath::into_os_str
  (key% "<os_string::HipOsStr<'borrow, B> as From<&HipPath<'borrow, B>>>::from", .conv), -- composed: from, HipPath::clone
  (key% "<Cow<'borrow, Path> as From<HipPath<'borrow, B>>>::from", .conv)  -- composed: into_borrowed
]

/-! ### Row predicates -/

/-- Row predicate of `delegates_named_ok`. -/
def delegateOk (r : Row) : Bool :=
  r.shape != .delegate ||
    (r.argsUnchanged && (match r.targets with | [t] => t.1 == expectedTarget r | _ => false))

/-- The row touches validity: it claims a type for bytes (tuple constructor or an unchecked
    re-typing constructor) or it mutates the wrapped value in place. -/
def touchesValidity (r : Row) : Bool := r.wraps || !r.retyped.isEmpty || r.mutSelf

/-- Row predicate of `retyping_only_after_delegate_or_guard`. -/
def retypeOk (r : Row) : Bool :=
  !touchesValidity r || r.isUnsafe || r.shape == .guarded ||
    (r.shape == .delegate &&
      (match r.targets with | [t] => preserving.contains t.1 | _ => false) &&
      r.argClasses.all (classTyped r.wrapper)) ||
    ((r.shape == .composed || r.shape == .other) && (reviewed.any fun e => e.1 == r.key))

/-- Row predicate of `no_unreviewed_shapes` (first half). -/
def shapeReviewed (r : Row) : Bool :=
  r.shape == .delegate || r.shape == .guarded || (reviewed.any fun e => e.1 == r.key)

/-- Reviewed entries that are no longer `composed`/`other` rows. -/
def staleReviewed : List Nat :=
  (reviewed.filter fun e =>
    !(rows.any fun r => r.key == e.1 && (r.shape == .composed || r.shape == .other))).map (·.1)

/-- Wrapper fns driven by the Core differential that have no row. -/
def uncoveredDriven : List (Wrapper × Nat × String) :=
  driven.filter fun d => !(rows.any fun r => r.wrapper == d.1 && r.simpleKey == d.2.1)

/-- Generated keys agree with the strings next to them (evaluated, not kernel-checked). -/
def delegateKeysOk : Bool :=
  rows.all (fun r => r.key == encKey r.name &&
    (r.targets ++ r.callees ++ r.ext ++ r.retyped).all fun n => n.1 == encKey n.2) &&
  driven.all fun d => d.2.1 == encKey d.2.2

end HipVerif.Model.Delegates
