/-
Data types of the public-function table (property C17).

`Gen/PubFns.lean` (regenerated from /repo/src by `harness/src/extract/pubfns.rs`) contains
only data of these types.
-/
namespace HipVerif.Model.PubFns

/-! ### Keys

String operations (even `==` on two literals) cost milliseconds each in Lean's kernel, which
makes `decide +kernel` over a 500-row table with string-keyed lists take minutes. Every
comparison made by the C17 theorems is therefore on the KEY of a string: its UTF-8 bytes read
as a big-endian base-256 natural number (GMP arithmetic in the kernel). The strings stay in the
rows for display; `keysOk` below (run by `#guard` in `Props/C17.lean` and by the driver's
`selfcheck`) checks that each generated key is the key of the string next to it. -/

/-- Key of a string. -/
def encKey (s : String) : Nat := s.toUTF8.data.foldl (fun acc b => acc * 256 + b.toNat) 0

/-- Inverse of `encKey` on valid UTF-8 (display only). -/
def decKey (k : Nat) : String :=
  let rec go (fuel : Nat) (k : Nat) (acc : List UInt8) : List UInt8 :=
    match fuel with
    | 0 => acc
    | fuel + 1 => if k == 0 then acc else go fuel (k / 256) (UInt8.ofNat (k % 256) :: acc)
  let bytes := go (Nat.log2 k / 8 + 2) k []
  (String.fromUTF8? ⟨bytes.toArray⟩).getD "<invalid key>"

/-- `key% "text"` elaborates to the numeric key of the literal (computed by the macro, so the
    kernel only ever sees a numeral). -/
macro "key% " s:str : term => do
  return Lean.Syntax.mkNumLit (toString (encKey s.getString))

/-- Number of base-256 digits of a key. -/
def keyLen (k : Nat) : Nat := if k == 0 then 0 else Nat.log2 k / 8 + 1

/-- Key of the concatenation of the two strings. -/
def keyAppend (a b : Nat) : Nat := a * 256 ^ keyLen b + b

/-- Does the string of key `k` end with the string of key `suf`? -/
def keyEndsWith (k suf : Nat) : Bool := k % 256 ^ keyLen suf == suf && keyLen suf ≤ keyLen k

/-- Does the string of key `k` start with the string of key `pre`? -/
def keyStartsWith (k pre : Nat) : Bool :=
  keyLen pre ≤ keyLen k && k / 256 ^ (keyLen k - keyLen pre) == pre

/-- Does the string of key `k` contain the string of key `pat`? -/
def keyContains (k pat : Nat) : Bool :=
  (List.range (keyLen k + 1 - keyLen pat)).any fun i => (k / 256 ^ i) % 256 ^ keyLen pat == pat

/-- Key of the string without its last `n` bytes. -/
def keyDropEnd (k n : Nat) : Nat := k / 256 ^ n

/-- How the function is reachable by a client crate. -/
inductive FnKind where
  /-- `pub fn` of a module (publicly reachable, possibly through `pub use`) -/
  | free
  /-- `pub fn` of an inherent impl of a public type (or of a type leaked by a public signature) -/
  | inherent
  /-- method declared by a public trait or by a supertrait of one -/
  | traitDecl
  /-- method of a trait impl (std/foreign or public trait) involving a public type -/
  | traitImpl
  /-- `fn` found in a `macro_rules!` body (token scan: no lifetime skeleton) -/
  | macroBody
  deriving Repr, DecidableEq, Inhabited

/-- A region (lifetime) of a signature, after elision has been resolved by the language rules. -/
inductive Region where
  | static
  /-- declared lifetime parameter of the fn, impl or trait (key of its name, e.g. `'borrow`) -/
  | named (k : Nat)
  /-- n-th elided lifetime of the fn's inputs (late-bound, fresh per call) -/
  | elided (n : Nat)
  /-- n-th anonymous lifetime of the impl header (`impl From<&[u8]> for HipByt<'_, B>`) -/
  | anon (n : Nat)
  deriving Repr, DecidableEq, Inhabited

/-- Where a region enters. `selfRef` = the reference of `&self`/`&mut self`; `selfHip`/`argHip` =
    the `'borrow` parameter of a Hip value (receiver / argument); `argRef` = a reference
    argument (at any depth); `…Other` = any other lifetime parameter (guards, errors, `Cow`,
    iterator types, lifetimes in the bounds of a generic argument). -/
inductive InRole where
  | selfRef
  | selfHip
  | selfOther
  /-- lifetime parameter of `Self` that is the region of a `&'p mut` field of the type
      (`Drain<'a, V>`, the `RefMut` guards): through `&self`/`&mut self` that data can only be
      reborrowed for the self-borrow, never handed out at `'p` -/
  | selfMut
  | argRef
  | argHip
  | argOther
  deriving Repr, DecidableEq, Inhabited

/-- Where a region leaves: a reference, the `'borrow` of a Hip value, another lifetime parameter. -/
inductive OutPos where
  | ref
  | hip
  | other
  deriving Repr, DecidableEq, Inhabited

structure InRegion where
  role : InRole
  region : Region
  deriving Repr, DecidableEq, Inhabited

structure OutRegion where
  pos : OutPos
  region : Region
  deriving Repr, DecidableEq, Inhabited

/-- One callable function. `outlives` lists the declared bounds `(a, b)` meaning `a: b`. -/
structure FnSig where
  name : String
  /-- key of `name` -/
  key : Nat
  /-- last path segment of `name` -/
  simple : String
  simpleKey : Nat
  /-- key of `name` without `::simple` (the type / trait impl / module owning the fn) -/
  ownerKey : Nat
  kind : FnKind
  isUnsafe : Bool
  nameUnchecked : Bool
  hasSafetyDoc : Bool
  /-- `some callee`: the body is a PURE FORWARDER — its only statement is (possibly inside
      `unsafe {}`) one call/method call in unsafe context whose receiver and arguments are the
      fn's own parameters passed through unvalidated, at least one of them not `self`
      (the string is for display only) -/
  forwardsToUnsafe : Option String
  /-- bounds in force — inline bounds and where-clauses of the fn and of its impl/trait block —
      as (key of the bounded type, key of the bound): `(key% "T", key% "Copy")`,
      `(key% "B", key% "Backend")`, `(key% "S", key% "?Sized")`, `(key% "T", key% "'static")`;
      bounds with arguments keep them (`AsRef<str>`) -/
  bounds : List (Nat × Nat)
  /-- the same, for display -/
  boundsShown : String
  /-- key of the ELEMENT type parameter (first type argument of the self type, for the types of
      `vecs::`), 0 if none -/
  elemParam : Nat
  /-- `some primitive`: the body — or a fn of the same type / a free fn of the crate that it
      calls — duplicates bits with a raw copy (`copy_nonoverlapping`, `ptr::copy`, `copy_from*`,
      `copy_to*`, `read*`, `assume_init_read`, `transmute_copy`); display only -/
  dupBits : Option String
  /-- the fn reads from a source that stays alive: `&self`, or a parameter that is a shared
      reference to something mentioning the element type / `Self` (`&[T]`, `&Self`) -/
  sharedSrc : Bool
  /-- the fn produces owned elements: returns `Self` / the element type by value, or takes
      `&mut self` -/
  producesOwned : Bool
  ins : List InRegion
  outs : List OutRegion
  outlives : List (Region × Region)
  loc : String
  deriving Repr, Inhabited

/-- What a lifetime-manufacturing site does. -/
inductive SiteKind where
  /-- `mem::transmute` / `transmute_copy` -/
  | transmute
  /-- `slice::from_raw_parts(_mut)`, `from_(mut_)ptr_range` -/
  | fromRawParts
  /-- `&*p`, `&mut *p`, `&(*p).field` in unsafe context -/
  | refDeref
  /-- `p.as_ref()` / `p.as_mut()` (NonNull / raw pointer) in unsafe context -/
  | ptrAsRef
  /-- call of a crate fn named `*_extended` (returns a caller-chosen lifetime) -/
  | extendedCall
  deriving Repr, DecidableEq, Inhabited

structure Site where
  kind : SiteKind
  fn : String
  fnKey : Nat
  fnUnsafe : Bool
  inMacro : Bool
  loc : String
  deriving Repr, DecidableEq, Inhabited

/-- Generated keys agree with the strings they stand for (not kernel-checked: evaluated). -/
def keysOk (fns : List FnSig) (sites : List Site) : Bool :=
  fns.all (fun f => f.key == encKey f.name && f.simpleKey == encKey f.simple &&
    f.key == (if f.ownerKey == 0 then f.simpleKey
              else keyAppend (keyAppend f.ownerKey (encKey "::")) f.simpleKey)) &&
  sites.all (fun s => s.fnKey == encKey s.fn)

end HipVerif.Model.PubFns
