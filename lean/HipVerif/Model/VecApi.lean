/-
C13 coverage gate — reviewed map and Bool row predicates over `Gen/VecApi.lean`.
(In Model/, not Props/, so that `tables_driver`-style listings still build when a regenerated
table breaks the theorem of `Props/C13Api.lean`.)

`vecApiCoverage` says, for every function of the vector family (InlineVec, ThinVec, their
iterators and errors, the draining iterator, the sealed Vector/MutVector traits), how the C13
machinery covers it. A new `pub fn` in /repo/src/vecs (a new row of `vecFns`), an operation
dropped from `vecdrive`'s dispatch or from the list model, or a method `vecdrive` no longer calls
falsifies `vec_api_covered`; `uncoveredFns` / `badEntries` / `staleEntries` name the culprit.
-/
import HipVerif.Model.VecApiTy
import HipVerif.Model.PubFnsTy
import HipVerif.Model.Vecs
import HipVerif.Gen.VecApi

namespace HipVerif.Model.VecApi
open HipVerif.Model.PubFns (encKey)
open HipVerif.Gen.VecApi (vecFns driveOps driveCalls)

/-- Protocol name (key) of an operation of the list model — the word `Driver/Vec.lean` parses and
    `vecdrive` sends. Total by construction: a new constructor of `Vecs.Op` does not compile
    until it is named here. -/
def opKey : HipVerif.Vecs.Op α → Nat
  | .push _ => key% "push"
  | .tryPush _ => key% "try_push"
  | .pop => key% "pop"
  | .popIf _ => key% "pop_if"
  | .insert .. => key% "insert"
  | .tryInsert .. => key% "try_insert"
  | .remove _ => key% "remove"
  | .swapRemove _ => key% "swap_remove"
  | .truncate _ => key% "truncate"
  | .clear => key% "clear"
  | .resize .. => key% "resize"
  | .resizeWith .. => key% "resize_with"
  | .extendFromSlice _ => key% "ext_slice"
  | .extendFromSliceCopy _ => key% "ext_copy"
  | .extendFromArray _ => key% "ext_array"
  | .extendFromWithin .. => key% "ext_within"
  | .extendFromWithinCopy .. => key% "ext_within_copy"
  | .tryExtendFromWithin .. => key% "try_ext_within"
  | .extend .. => key% "ext_iter"
  | .append _ => key% "append"
  | .constAppend .. => key% "const_append"
  | .spareWrite _ => key% "spare_write"
  | .splitOff _ => key% "split_off"
  | .drain .. => key% "drain"
  | .tryDrain .. => key% "try_drain"
  | .intoIter _ => key% "into_iter"
  | .clone => key% "clone"
  | .reserve _ => key% "reserve"
  | .reserveExact _ => key% "reserve_exact"
  | .shrinkTo _ => key% "shrink_to"
  | .shrinkToFit => key% "shrink_fit"
  | .withCapacity _ => key% "with_cap"
  | .from .. => key% "from"

/-- The protocol names of all operations of the list model. -/
def modelOpKeys : List Nat :=
  [key% "push",
   key% "try_push",
   key% "pop",
   key% "pop_if",
   key% "insert",
   key% "try_insert",
   key% "remove",
   key% "swap_remove",
   key% "truncate",
   key% "clear",
   key% "resize",
   key% "resize_with",
   key% "ext_slice",
   key% "ext_copy",
   key% "ext_array",
   key% "ext_within",
   key% "ext_within_copy",
   key% "try_ext_within",
   key% "ext_iter",
   key% "append",
   key% "const_append",
   key% "spare_write",
   key% "split_off",
   key% "drain",
   key% "try_drain",
   key% "into_iter",
   key% "clone",
   key% "reserve",
   key% "reserve_exact",
   key% "shrink_to",
   key% "shrink_fit",
   key% "with_cap",
   key% "from"]

/-- The reviewed coverage map: key of the function's full name ↦ how it is covered. -/
def vecApiCoverage : List (Nat × Cover) := [
  (key% "common::drain::Drain::as_slice", .monitoredBy "drive_drain: the undrained middle"),
  (key% "<common::drain::Drain<'_, V> as Iterator>::next", .drivenAs (key% "drain")),
  (key% "<common::drain::Drain<'_, V> as Iterator>::size_hint", .monitoredBy "run_script_exact: items left after every pull"),
  (key% "<common::drain::Drain<'_, V> as ExactSizeIterator>::len", .monitoredBy "run_script_exact: items left after every pull"),
  (key% "<common::drain::Drain<'_, V> as DoubleEndedIterator>::next_back", .drivenAs (key% "drain")),
  (key% "<common::drain::Drain<'_, V> as fmt::Debug>::fmt", .reviewedNotDriven "compared with `Drain(<undrained middle>)` by drive_drain through format!, which is not a method call"),
  (key% "<common::drain::Drain<'a, V> as Drop>::drop", .reviewedNotDriven "implicit: every drain operation drops (or forgets) the iterator; its effect is the state compared after the step"),
  (key% "common::traits::Vector::len", .monitoredBy "accessors (trait_views: the sealed Vector/MutVector views agree with the inherent accessors)"),
  (key% "common::traits::Vector::capacity", .monitoredBy "accessors (trait_views: the sealed Vector/MutVector views agree with the inherent accessors)"),
  (key% "common::traits::Vector::as_slice", .monitoredBy "accessors (trait_views: the sealed Vector/MutVector views agree with the inherent accessors)"),
  (key% "common::traits::Vector::as_ptr", .monitoredBy "accessors (trait_views: the sealed Vector/MutVector views agree with the inherent accessors)"),
  (key% "common::traits::MutVector::as_mut_ptr", .monitoredBy "accessors (trait_views: the sealed Vector/MutVector views agree with the inherent accessors)"),
  (key% "common::traits::MutVector::as_non_null", .monitoredBy "accessors (trait_views: the sealed Vector/MutVector views agree with the inherent accessors)"),
  (key% "common::traits::MutVector::as_mut_slice", .monitoredBy "accessors (trait_views: the sealed Vector/MutVector views agree with the inherent accessors)"),
  (key% "vecs::inline::InlineVec::new", .monitoredBy "reset (every sequence starts from `new()`)"),
  (key% "vecs::inline::InlineVec::from_array", .drivenAs (key% "from")),
  (key% "vecs::inline::InlineVec::len", .monitoredBy "observe"),
  (key% "vecs::inline::InlineVec::as_slice", .monitoredBy "observe"),
  (key% "vecs::inline::InlineVec::as_mut_slice", .monitoredBy "accessors"),
  (key% "vecs::inline::InlineVec::capacity", .monitoredBy "observe"),
  (key% "vecs::inline::InlineVec::as_ptr", .monitoredBy "accessors"),
  (key% "vecs::inline::InlineVec::as_non_null", .monitoredBy "accessors"),
  (key% "vecs::inline::InlineVec::as_mut_ptr", .monitoredBy "accessors"),
  (key% "vecs::inline::InlineVec::try_push", .drivenAs (key% "try_push")),
  (key% "vecs::inline::InlineVec::push", .drivenAs (key% "push")),
  (key% "vecs::inline::InlineVec::set_len", .drivenAs (key% "spare_write")),
  (key% "vecs::inline::InlineVec::spare_capacity_mut", .drivenAs (key% "spare_write")),
  (key% "vecs::inline::InlineVec::pop", .drivenAs (key% "pop")),
  (key% "vecs::inline::InlineVec::pop_if", .drivenAs (key% "pop_if")),
  (key% "vecs::inline::InlineVec::append", .drivenAs (key% "append")),
  (key% "vecs::inline::InlineVec::const_append", .drivenAs (key% "const_append")),
  (key% "vecs::inline::InlineVec::clear", .drivenAs (key% "clear")),
  (key% "vecs::inline::InlineVec::truncate", .drivenAs (key% "truncate")),
  (key% "vecs::inline::InlineVec::swap_remove", .drivenAs (key% "swap_remove")),
  (key% "vecs::inline::InlineVec::insert", .drivenAs (key% "insert")),
  (key% "vecs::inline::InlineVec::try_insert", .drivenAs (key% "try_insert")),
  (key% "vecs::inline::InlineVec::remove", .drivenAs (key% "remove")),
  (key% "vecs::inline::InlineVec::split_off", .drivenAs (key% "split_off")),
  (key% "vecs::inline::InlineVec::resize_with", .drivenAs (key% "resize_with")),
  (key% "vecs::inline::InlineVec::extend_from_array", .drivenAs (key% "ext_array")),
  (key% "vecs::inline::InlineVec::drain", .drivenAs (key% "drain")),
  (key% "vecs::inline::InlineVec::extend_from_slice", .drivenAs (key% "ext_slice")),
  (key% "vecs::inline::InlineVec::extend_from_within", .drivenAs (key% "ext_within")),
  (key% "vecs::inline::InlineVec::resize", .drivenAs (key% "resize")),
  (key% "vecs::inline::InlineVec::from_slice_copy", .drivenAs (key% "from")),
  (key% "vecs::inline::InlineVec::extend_from_slice_copy", .drivenAs (key% "ext_copy")),
  (key% "vecs::inline::InlineVec::copy", .drivenAs (key% "clone")),
  (key% "vecs::inline::InlineVec::extend_from_within_copy", .drivenAs (key% "ext_within_copy")),
  (key% "<vecs::inline::InlineVec<T, CAP, SHIFT, TAG> as Clone>::clone", .drivenAs (key% "clone")),
  (key% "<vecs::inline::InlineVec<T, CAP, SHIFT, TAG> as Drop>::drop", .reviewedNotDriven "implicit: every sequence drops its vectors and iterators; element lifecycle is C14"),
  (key% "<vecs::inline::InlineVec<T, CAP, SHIFT, TAG> as Deref>::deref", .reviewedNotDriven "implicit in the accessors monitor (`&v[..]`, `&mut v[..]`), no call by name"),
  (key% "<vecs::inline::InlineVec<T, CAP, SHIFT, TAG> as DerefMut>::deref_mut", .reviewedNotDriven "implicit in the accessors monitor (`&v[..]`, `&mut v[..]`), no call by name"),
  (key% "<vecs::inline::InlineVec<T, CAP, SHIFT, TAG> as AsRef<[T]>>::as_ref", .monitoredBy "accessors"),
  (key% "<vecs::inline::InlineVec<T, CAP, SHIFT, TAG> as AsMut<[T]>>::as_mut", .monitoredBy "accessors"),
  (key% "<vecs::inline::InlineVec<T, CAP, SHIFT, TAG> as fmt::Debug>::fmt", .reviewedNotDriven "delegates to as_slice(); comparison / hashing / formatting coherence is C12"),
  (key% "<vecs::inline::InlineVec<T, CAP, SHIFT, TAG> as hash::Hash>::hash", .reviewedNotDriven "delegates to as_slice(); comparison / hashing / formatting coherence is C12"),
  (key% "<vecs::inline::InlineVec<T, CAP, SHIFT, TAG> as Extend<T>>::extend", .drivenAs (key% "ext_iter")),
  (key% "<vecs::inline::InlineVec<T, CAP, SHIFT, TAG> as IntoIterator>::into_iter", .drivenAs (key% "into_iter")),
  (key% "<vecs::inline::IntoIter<T, CAP, SHIFT, TAG> as Iterator>::next", .drivenAs (key% "into_iter")),
  (key% "<vecs::inline::IntoIter<T, CAP, SHIFT, TAG> as Iterator>::size_hint", .monitoredBy "run_script_exact: items left after every pull"),
  (key% "<vecs::inline::IntoIter<T, CAP, SHIFT, TAG> as ExactSizeIterator>::len", .monitoredBy "run_script_exact: items left after every pull"),
  (key% "<vecs::inline::IntoIter<T, CAP, SHIFT, TAG> as Drop>::drop", .reviewedNotDriven "implicit: every sequence drops its vectors and iterators; element lifecycle is C14"),
  (key% "<vecs::inline::IntoIter<T, CAP, SHIFT, TAG> as DoubleEndedIterator>::next_back", .drivenAs (key% "into_iter")),
  (key% "<vecs::inline::InlineVec<T, CAP, SHIFT, TAG> as Ord>::cmp", .reviewedNotDriven "delegates to as_slice(); comparison / hashing / formatting coherence is C12"),
  (key% "vecs::inline::InsertErrorKind::message", .monitoredBy "try_insert: message of the error kind"),
  (key% "vecs::inline::InsertError::message", .monitoredBy "try_insert: message of the error kind"),
  (key% "<vecs::inline::InsertError<T> as fmt::Display>::fmt", .indirect (key% "to_string") "Display checked through to_string() in the try_insert monitor"),
  (key% "vecs::thin::ThinVec::from_slice_copy", .drivenAs (key% "from")),
  (key% "vecs::thin::ThinVec::new", .monitoredBy "reset (every sequence starts from `new()`)"),
  (key% "vecs::thin::ThinVec::with_capacity", .drivenAs (key% "with_cap")),
  (key% "vecs::thin::ThinVec::split_off", .drivenAs (key% "split_off")),
  (key% "vecs::thin::ThinVec::capacity", .monitoredBy "observe"),
  (key% "vecs::thin::ThinVec::len", .monitoredBy "observe"),
  (key% "vecs::thin::ThinVec::is_empty", .monitoredBy "accessors"),
  (key% "vecs::thin::ThinVec::prefix", .monitoredBy "accessors"),
  (key% "vecs::thin::ThinVec::as_ptr", .monitoredBy "accessors"),
  (key% "vecs::thin::ThinVec::as_mut_ptr", .monitoredBy "accessors"),
  (key% "vecs::thin::ThinVec::as_non_null", .monitoredBy "accessors"),
  (key% "vecs::thin::ThinVec::as_slice", .monitoredBy "observe"),
  (key% "vecs::thin::ThinVec::as_mut_slice", .monitoredBy "accessors"),
  (key% "vecs::thin::ThinVec::set_len", .drivenAs (key% "spare_write")),
  (key% "vecs::thin::ThinVec::reserve_exact", .drivenAs (key% "reserve_exact")),
  (key% "vecs::thin::ThinVec::reserve", .drivenAs (key% "reserve")),
  (key% "vecs::thin::ThinVec::truncate", .drivenAs (key% "truncate")),
  (key% "vecs::thin::ThinVec::push", .drivenAs (key% "push")),
  (key% "vecs::thin::ThinVec::pop", .drivenAs (key% "pop")),
  (key% "vecs::thin::ThinVec::insert", .drivenAs (key% "insert")),
  (key% "vecs::thin::ThinVec::remove", .drivenAs (key% "remove")),
  (key% "vecs::thin::ThinVec::swap_remove", .drivenAs (key% "swap_remove")),
  (key% "vecs::thin::ThinVec::append", .drivenAs (key% "append")),
  (key% "vecs::thin::ThinVec::clear", .drivenAs (key% "clear")),
  (key% "vecs::thin::ThinVec::spare_capacity_mut", .drivenAs (key% "spare_write")),
  (key% "vecs::thin::ThinVec::drain", .drivenAs (key% "drain")),
  (key% "vecs::thin::ThinVec::try_drain", .drivenAs (key% "try_drain")),
  (key% "vecs::thin::ThinVec::resize", .drivenAs (key% "resize")),
  (key% "vecs::thin::ThinVec::extend_from_within", .drivenAs (key% "ext_within")),
  (key% "vecs::thin::ThinVec::try_extend_from_within", .drivenAs (key% "try_ext_within")),
  (key% "vecs::thin::ThinVec::extend_from_slice", .drivenAs (key% "ext_slice")),
  (key% "vecs::thin::ThinVec::extend_from_slice_copy", .drivenAs (key% "ext_copy")),
  (key% "vecs::thin::ThinVec::shrink_to", .drivenAs (key% "shrink_to")),
  (key% "vecs::thin::ThinVec::shrink_to_fit", .drivenAs (key% "shrink_fit")),
  (key% "<vecs::thin::ThinVec<T, P> as ops::Deref>::deref", .reviewedNotDriven "implicit in the accessors monitor (`&v[..]`, `&mut v[..]`), no call by name"),
  (key% "<vecs::thin::ThinVec<T, P> as ops::DerefMut>::deref_mut", .reviewedNotDriven "implicit in the accessors monitor (`&v[..]`, `&mut v[..]`), no call by name"),
  (key% "<vecs::thin::ThinVec<T, C> as Drop>::drop", .reviewedNotDriven "implicit: every sequence drops its vectors and iterators; element lifecycle is C14")
]

def driveOpKeys : List Nat := driveOps.map (·.2)
def driveCallKeys : List Nat := driveCalls.map (·.2)

/-- The entry of a function, if any. -/
def coverOf (k : Nat) : Option Cover := (vecApiCoverage.find? (·.1 == k)).map (·.2)

/-- Row predicate: a SAFE function of the vector family has an entry. -/
def fnCovered (f : VecFn) : Bool := f.isUnsafe || (coverOf f.key).isSome

/-- Entry predicate: the entry names an existing function and its claim is backed by the
    generated facts. -/
def entryOk (e : Nat × Cover) : Bool :=
  match vecFns.find? (·.key == e.1) with
  | none => false
  | some f =>
    match e.2 with
    | .drivenAs op =>
      modelOpKeys.contains op && driveOpKeys.contains op && driveCallKeys.contains f.simpleKey
    | .monitoredBy _ => driveCallKeys.contains f.simpleKey
    | .indirect via _ => driveCallKeys.contains via
    | .reviewedNotDriven _ => true

/-- Safe functions without an entry (must be empty). -/
def uncoveredFns : List String := (vecFns.filter (!fnCovered ·)).map (·.name)

/-- Entries whose claim is not backed (unknown operation, operation not dispatched by `vecdrive`,
    method never called by `vecdrive`) — must be empty. -/
def badEntries : List Nat :=
  (vecApiCoverage.filter fun e => (vecFns.any (·.key == e.1)) && !entryOk e).map (·.1)

/-- Entries for functions that no longer exist, and duplicated entries — must be empty. -/
def staleEntries : List Nat :=
  (vecApiCoverage.filter fun e =>
    !(vecFns.any (·.key == e.1)) || (vecApiCoverage.filter (·.1 == e.1)).length != 1).map (·.1)

/-- The list model and `vecdrive` have the same operation vocabulary. -/
def opsAgree : Bool :=
  modelOpKeys.all driveOpKeys.contains && driveOpKeys.all modelOpKeys.contains

/-- Generated keys agree with the strings next to them (evaluated, not kernel-checked). -/
def vecApiKeysOk : Bool :=
  vecFns.all (fun f => f.key == encKey f.name && f.simpleKey == encKey f.simple) &&
  driveOps.all (fun p => p.2 == encKey p.1) && driveCalls.all (fun p => p.2 == encKey p.1)

end HipVerif.Model.VecApi
