/-
Types for the GENERATED `Gen/Wiring.lean` (property C11) and the Bool-valued row predicates that
`Props/C11.lean` proves over it and `Driver/Wiring.lean` evaluates.

hipstr does not re-implement the `str` algorithms: every "inherited" method of `HipStr`
(src/string.rs) CALLS the std method and re-adopts the `&str` results as owned sub-slices of `self`.
What can go wrong is therefore *wiring*:

  * the wrapper `HipStr::m` calls something else than `str::m` (directly, or through the sealed
    pattern traits of src/string/pattern.rs whose impls are produced by the `impl_pat!` macro),
  * on something else than `self.as_str()`, or with a modified pattern / count,
  * a `&str` result is adopted from another value than `self`, components get swapped, an index
    component (`match_indices`) is altered,
  * `IterWrapper` forwards `next`/`next_back` to the wrong inner method.

The translator (`harness/src/extract/wiring.rs`) records what each body literally says; the
predicates below say what it has to say.  The std side ("what does `str::m` look like") is the
hand-written table `stdSigs`, written from the std documentation, independently of hipstr.
-/
namespace HipVerif.Wiring

/-! ## Row types (data recorded by the translator) -/

/-- The value a `&str` result is adopted from. -/
inductive Src where
  /-- `self` (the `HipStr` the wrapper was called on) -/
  | selfRef
  /-- the `source` parameter of `Adopt::adopt_unchecked` -/
  | sourceParam
  /-- the field `self.source` of `IterWrapper` -/
  | selfSourceField
  | other (expr : String)
  deriving Repr, DecidableEq

/-- The haystack the std method is called on. -/
inductive Recv where
  /-- `self.as_str()` -/
  | selfAsStr
  /-- `self.0` : delegation to the same-named `HipByt` method (ASCII case mapping, `repeat`) -/
  | selfBytes
  /-- no haystack: associated function `String::m(v)` (`from_utf16*`) -/
  | stringFn
  | other (expr : String)
  deriving Repr, DecidableEq

/-- How an argument (pattern, count) or an index component travels. -/
inductive Pass where
  /-- the method has no such argument / component -/
  | absent
  /-- the bare parameter (resp. `self.<i>` for an index component), nothing applied to it -/
  | unchanged
  | other (expr : String)
  deriving Repr, DecidableEq

/-- Through what the std method is reached. -/
inductive Via where
  /-- `self.as_str().m(…)` -/
  | direct
  /-- `pattern.m(…, self.as_str())` with `pattern : P`, `P : <bound>` (a trait of pattern.rs);
      the trait impl (an `impl_pat!` arm) then calls the `str` method -/
  | patTrait (bound : String)
  /-- `self.0.m(…)` -/
  | bytes
  /-- `String::m(…)` -/
  | stringFn
  deriving Repr, DecidableEq

/-- How the `&str` components of the std result become `HipStr`s. -/
inductive Adopt where
  /-- `IterWrapper::new(<src>, <std iterator>)`: every item adopted by `Adopt::adopt_unchecked` -/
  | iterWrapper (src : Src)
  /-- `<src>.slice_ref_unchecked(s)` written in the wrapper itself, once per component -/
  | sliceRef (src : Src)
  /-- allocating result (`String`): `Self::from(…)` / `.into()` / `.map(Into::into)` -/
  | fromString
  /-- `Self(<HipByt>)` -/
  | wrapBytes
  | notAdopted (expr : String)
  deriving Repr, DecidableEq

/-- Shape of the std result as consumed by the wrapper body. -/
inductive Shape where
  | iter | single | option | optionPair | owned | resultOwned
  deriving Repr, DecidableEq

/-- Declared return type of the wrapper. -/
inductive RetTy where
  | self | optSelf | optPair | resultSelf
  /-- `IterWrapper<'_, 'borrow, B, P::<name><'_>>` -/
  | iterAssoc (name : String)
  /-- `IterWrapper<'_, 'borrow, B, <name>>` (a `core::str` iterator type) -/
  | iterStd (name : String)
  | other (s : String)
  deriving Repr, DecidableEq

/-- One inherent method of `HipStr` (src/string.rs) that wraps a `str`/`String` method. -/
structure WrapperRow where
  name : String
  via : Via
  /-- the method actually called (on the pattern, on `self.as_str()`, on `self.0`, on `String`) -/
  callee : String
  recv : Recv
  patArg : Pass
  countArg : Pass
  shape : Shape
  adopt : Adopt
  /-- for `sliceRef`: output component i adopts component `comps[i]` of the std result -/
  comps : List Nat
  ret : RetTy
  loc : String
  deriving Repr, DecidableEq

/-- Haystack of the `str` call inside an `impl_pat!` arm. -/
inductive ArmRecv where
  /-- the `&str` parameter of the trait method -/
  | haystack
  | other (expr : String)
  deriving Repr, DecidableEq

/-- One trait method body of one `impl_pat!` macro arm (`fn m(self, [n,] haystack: &str) { haystack.m([n,] self) }`). -/
structure ArmRow where
  /-- `base` | `reverse` | `double_ended` -/
  arm : String
  /-- the trait the arm implements: `Pattern` | `ReversePattern` | `DoubleEndedPattern` -/
  trait : String
  method : String
  callee : String
  recv : ArmRecv
  /-- `self` (the pattern) passed on -/
  patArg : Pass
  countArg : Pass
  /-- `X` when the method returns `Self::X<'_>`, else `""` -/
  assocTy : String
  /-- right-hand side of `type X<'haystack> = …` with lifetimes dropped, e.g. `core::str::RSplitN<Self>` -/
  stdTy : String
  loc : String
  deriving Repr, DecidableEq

/-- `reverse` re-invokes the base arm, `double_ended` re-invokes `reverse`. -/
structure ArmChainRow where
  arm : String
  trait : String
  /-- the arm invoked recursively by the transcriber (`""` for none) -/
  includes : String
  loc : String
  deriving Repr, DecidableEq

/-- One `impl_pat!(…)` invocation: which std pattern type gets which traits. -/
structure InvocationRow where
  arm : String
  /-- the pattern type, lifetimes dropped: `&str`, `&&str`, `&String`, `char`, `&[char]`, `F`, `&[char; N]` -/
  ty : String
  /-- where clause (spaces removed), `""` if none -/
  whereCl : String
  loc : String
  deriving Repr, DecidableEq

/-- One of the pattern traits declared in pattern.rs. -/
structure TraitRow where
  name : String
  /-- the supertrait among the pattern traits (`""` for none) -/
  super : String
  /-- declared methods with "has a `usize` count parameter" -/
  methods : List (String × Bool)
  loc : String
  deriving Repr, DecidableEq

/-- One component of the value returned by an `Adopt::adopt_unchecked` impl. -/
inductive Comp where
  /-- `<src>.slice_ref_unchecked(self)` (`proj = none`) or `…(self.<i>)` (`proj = some i`) -/
  | adoptStr (src : Src) (proj : Option Nat)
  /-- `self.<i>` passed through -/
  | idx (proj : Nat)
  | other (expr : String)
  deriving Repr, DecidableEq

/-- One `impl Adopt for <item type>`. -/
structure AdoptRow where
  /-- `&str` | `(usize,&str)` -/
  itemTy : String
  out : List Comp
  loc : String
  deriving Repr, DecidableEq

inductive FwdRecv where
  /-- `self.inner` -/
  | selfInner
  | other (expr : String)
  deriving Repr, DecidableEq

inductive ItemMap where
  /-- `.map(|item| item.adopt_unchecked(<src>))` -/
  | adoptFrom (src : Src)
  /-- result returned as is (no item involved, e.g. `size_hint`) -/
  | none
  | other (expr : String)
  deriving Repr, DecidableEq

/-- One method DEFINED in an `impl Iterator / DoubleEndedIterator / FusedIterator / ExactSizeIterator
    for IterWrapper` block: `fn m(&mut self, ARGS) { self.inner.<callee>(ARGS') [.map(|item| adopt)] }`. -/
structure FwdRow where
  /-- `Iterator` | `DoubleEndedIterator` | … -/
  trait : String
  method : String
  /-- the inner method it forwards to -/
  callee : String
  recv : FwdRecv
  /-- the method's own parameters handed on as they are, in order (`absent` = it has none) -/
  args : Pass
  item : ItemMap
  /-- trait bounds put on the inner iterator type parameter by this impl -/
  innerBounds : List String
  /-- `S::Item: Adopt<'borrow, B>` is required -/
  itemAdopt : Bool
  loc : String
  deriving Repr, DecidableEq

/-- `IterWrapper::new(p₀, p₁) = Self { f: e, … }`. -/
structure NewRow where
  params : List String
  fields : List (String × String)
  loc : String
  deriving Repr, DecidableEq

/-- `HipStr::slice_ref_unchecked(&self, slice) = Self(self.0.<callee>(slice.<conv>()))`:
    the link to the byte-level adoption (`adopt` of `Model/Core.lean`). -/
structure SliceRefRow where
  callee : String
  conv : String
  /-- receiver of `callee` -/
  recv : Recv
  loc : String
  deriving Repr, DecidableEq

/-- Everything the translator emits. -/
structure Tables where
  wrappers : List WrapperRow
  arms : List ArmRow
  chain : List ArmChainRow
  invocations : List InvocationRow
  traits : List TraitRow
  adopts : List AdoptRow
  forwards : List FwdRow
  /-- every type of the crate with an `impl Iterator` (name, `file:line`) -/
  iterTypes : List (String × String)
  /-- every trait implemented for `IterWrapper` -/
  iterTraits : List String
  iterNew : NewRow
  sliceRef : SliceRefRow
  deriving Repr

/-- A row of the flattened table (so that a falsified theorem names one row). -/
inductive Row where
  | wrapper (r : WrapperRow)
  | arm (r : ArmRow)
  | chain (r : ArmChainRow)
  | adopt (r : AdoptRow)
  | sliceRef (r : SliceRefRow)
  deriving Repr, DecidableEq

def Row.loc : Row → String
  | .wrapper r => r.loc | .arm r => r.loc | .chain r => r.loc | .adopt r => r.loc | .sliceRef r => r.loc

/-- `repr` without the namespace prefix -/
def short {α} [Repr α] (a : α) : String := (reprStr a).replace "HipVerif.Wiring." ""

def Row.describe : Row → String
  | .wrapper r =>
    s!"wrapper HipStr::{r.name}: calls `{r.callee}` via {short r.via} on {short r.recv}, pattern {short r.patArg}, " ++
    s!"count {short r.countArg}, result {short r.shape} adopted by {short r.adopt} components {r.comps}, returns {short r.ret}"
  | .arm r =>
    s!"impl_pat!({r.arm}) {r.trait}::{r.method}: calls str::`{r.callee}` on {short r.recv}, pattern {short r.patArg}, " ++
    s!"count {short r.countArg}, type {r.assocTy} = {r.stdTy}"
  | .chain r => s!"impl_pat!({r.arm}) implements {r.trait}, includes arm '{r.includes}'"
  | .adopt r => s!"impl Adopt for {r.itemTy}: returns {short r.out}"
  | .sliceRef r => s!"HipStr::slice_ref_unchecked: calls `{r.callee}` on {short r.recv} with slice.{r.conv}()"

/-- The flattened table `wiring_ok` quantifies over (iterator forwarding has its own theorem). -/
def Tables.rows (t : Tables) : List Row :=
  t.wrappers.map .wrapper ++ t.arms.map .arm ++ t.chain.map .chain ++ t.adopts.map .adopt ++ [.sliceRef t.sliceRef]

/-! ## The std side: signatures of the `str` / `String` methods (from the std documentation) -/

/-- Item type of a std iterator. -/
inductive ItemTy where
  | str | idxStr
  deriving Repr, DecidableEq

structure StdSig where
  name : String
  hasPat : Bool
  hasCount : Bool
  /-- shape of the result: iterator / `&str` / `Option<&str>` / `Option<(&str,&str)>` / `String` / `Result<String,_>` -/
  shape : Shape
  /-- name of the `core::str` iterator type returned (`""` if not an iterator) -/
  iterTy : String
  item : ItemTy
  deriving Repr, DecidableEq

/-- `str::…` methods that return pieces of the haystack, and the allocating `str`/`String` functions
    hipstr re-exports. Source: the documentation of `core::str` (Rust 1.8x). -/
def stdSigs : List StdSig := [
  ⟨"trim", false, false, .single, "", .str⟩,
  ⟨"trim_start", false, false, .single, "", .str⟩,
  ⟨"trim_end", false, false, .single, "", .str⟩,
  ⟨"trim_matches", true, false, .single, "", .str⟩,
  ⟨"trim_start_matches", true, false, .single, "", .str⟩,
  ⟨"trim_end_matches", true, false, .single, "", .str⟩,
  ⟨"strip_prefix", true, false, .option, "", .str⟩,
  ⟨"strip_suffix", true, false, .option, "", .str⟩,
  ⟨"split_once", true, false, .optionPair, "", .str⟩,
  ⟨"rsplit_once", true, false, .optionPair, "", .str⟩,
  ⟨"split", true, false, .iter, "Split", .str⟩,
  ⟨"rsplit", true, false, .iter, "RSplit", .str⟩,
  ⟨"split_inclusive", true, false, .iter, "SplitInclusive", .str⟩,
  ⟨"split_terminator", true, false, .iter, "SplitTerminator", .str⟩,
  ⟨"rsplit_terminator", true, false, .iter, "RSplitTerminator", .str⟩,
  ⟨"splitn", true, true, .iter, "SplitN", .str⟩,
  ⟨"rsplitn", true, true, .iter, "RSplitN", .str⟩,
  ⟨"matches", true, false, .iter, "Matches", .str⟩,
  ⟨"rmatches", true, false, .iter, "RMatches", .str⟩,
  ⟨"match_indices", true, false, .iter, "MatchIndices", .idxStr⟩,
  ⟨"rmatch_indices", true, false, .iter, "RMatchIndices", .idxStr⟩,
  ⟨"split_whitespace", false, false, .iter, "SplitWhitespace", .str⟩,
  ⟨"split_ascii_whitespace", false, false, .iter, "SplitAsciiWhitespace", .str⟩,
  ⟨"lines", false, false, .iter, "Lines", .str⟩,
  ⟨"to_lowercase", false, false, .owned, "", .str⟩,
  ⟨"to_uppercase", false, false, .owned, "", .str⟩,
  ⟨"to_ascii_lowercase", false, false, .owned, "", .str⟩,
  ⟨"to_ascii_uppercase", false, false, .owned, "", .str⟩,
  ⟨"repeat", false, true, .owned, "", .str⟩,
  ⟨"from_utf16", false, false, .resultOwned, "", .str⟩,
  ⟨"from_utf16_lossy", false, false, .owned, "", .str⟩
]

def stdSig? (name : String) : Option StdSig := stdSigs.find? (·.name == name)

/-! ## Row predicates -/

def Pass.isUnchanged : Pass → Bool
  | .unchanged => true | _ => false

def Pass.isAbsent : Pass → Bool
  | .absent => true | _ => false

/-- An argument is passed unchanged exactly when std's method has it, and is absent otherwise. -/
def passOk (has : Bool) (p : Pass) : Bool :=
  if has then p.isUnchanged else p.isAbsent

/-- The trait `t` or one of its supertraits (fuel = number of traits) declares `m`; returns the declaring trait. -/
def declaringTrait (ts : List TraitRow) : Nat → String → String → Option (String × Bool)
  | 0, _, _ => none
  | fuel + 1, t, m =>
    match ts.find? (·.name == t) with
    | none => none
    | some tr =>
      match tr.methods.find? (·.1 == m) with
      | some (_, c) => some (tr.name, c)
      | none => if tr.super == "" then none else declaringTrait ts fuel tr.super m

/-- An `impl_pat!` arm method is wired correctly: `fn m(self, [n,] haystack) { haystack.m([n,] self) }`,
    its associated iterator type is std's iterator type for `m`, and the trait declares `m` with the same arity. -/
def armOk (t : Tables) (a : ArmRow) : Bool :=
  match stdSig? a.method with
  | none => false
  | some sig =>
    a.callee == a.method
    && a.recv == .haystack
    && a.patArg == .unchanged
    && passOk sig.hasCount a.countArg
    && sig.hasPat
    && (if sig.shape == .iter
        then a.assocTy == sig.iterTy && a.stdTy == "core::str::" ++ sig.iterTy ++ "<Self>"
        else a.assocTy == "" && a.stdTy == "")
    && (t.traits.find? (·.name == a.trait)).any (fun tr => tr.methods.contains (a.method, sig.hasCount))
    && t.chain.any (fun c => c.arm == a.arm && c.trait == a.trait)

/-- The arm chain is `base ← reverse ← double_ended` and each arm implements the trait of its level
    whose supertrait is the trait of the included arm. -/
def chainOk (t : Tables) (c : ArmChainRow) : Bool :=
  ((c.arm == "base" && c.trait == "Pattern" && c.includes == "")
   || (c.arm == "reverse" && c.trait == "ReversePattern" && c.includes == "base")
   || (c.arm == "double_ended" && c.trait == "DoubleEndedPattern" && c.includes == "reverse"))
  && (t.traits.find? (·.name == c.trait)).any (fun tr =>
        (t.chain.find? (·.arm == c.includes)).map (·.trait) == (if tr.super == "" then none else some tr.super)
        -- every declared method of the trait has exactly one body in this arm
        && tr.methods.all (fun m => (t.arms.filter (fun a => a.arm == c.arm && a.method == m.1)).length == 1)
        && (t.arms.filter (fun a => a.arm == c.arm)).all (fun a => a.trait == c.trait && tr.methods.any (·.1 == a.method)))

/-- `impl Adopt for &str` adopts the whole item from `source`; `impl Adopt for (usize, &str)` passes
    component 0 unchanged and adopts component 1 from `source`. -/
def adoptOk (a : AdoptRow) : Bool :=
  (a.itemTy == "&str" && a.out == [.adoptStr .sourceParam none])
  || (a.itemTy == "(usize,&str)" && a.out == [.idx 0, .adoptStr .sourceParam (some 1)])

def itemTyName : ItemTy → String
  | .str => "&str" | .idxStr => "(usize,&str)"

/-- `HipStr::slice_ref_unchecked` hands the bytes of the piece to `HipByt::slice_ref_unchecked` of `self.0`. -/
def sliceRefOk (r : SliceRefRow) : Bool :=
  r.callee == "slice_ref_unchecked" && r.conv == "as_bytes" && r.recv == .selfBytes

/-- Expected declared return type. -/
def retOk (sig : StdSig) (viaPat : Bool) (ret : RetTy) : Bool :=
  match sig.shape with
  | .iter => ret == (if viaPat then .iterAssoc sig.iterTy else .iterStd sig.iterTy)
  | .single => ret == .self
  | .option => ret == .optSelf
  | .optionPair => ret == .optPair
  | .owned => ret == .self
  | .resultOwned => ret == .resultSelf

/-- Expected adoption for the shape of the result. -/
def adoptShapeOk (t : Tables) (sig : StdSig) (r : WrapperRow) : Bool :=
  match sig.shape with
  | .iter =>
    r.adopt == .iterWrapper .selfRef && r.comps == []
    -- the item type of std's iterator has an `Adopt` impl, and that impl is right
    && (t.adopts.filter (·.itemTy == itemTyName sig.item)).length == 1
    && (t.adopts.filter (·.itemTy == itemTyName sig.item)).all adoptOk
  | .single | .option => r.adopt == .sliceRef .selfRef && r.comps == [0]
  | .optionPair => r.adopt == .sliceRef .selfRef && r.comps == [0, 1]
  | .owned | .resultOwned => false

/-- A wrapper is wired correctly.

  * piece-returning methods: `HipStr::m` reaches `str::m` — either directly, `self.as_str().m()`, or
    through the pattern trait: `pattern.m([n,] self.as_str())`, where the trait (the bound of `P` or a
    supertrait) declares `m` and the `impl_pat!` arm of that trait is `armOk` (calls `haystack.m([n,] self)`);
    the pattern and the count are passed unchanged; the result is adopted from `self`
    (`IterWrapper::new(self, …)` / `self.slice_ref_unchecked(component)`, components in order);
  * allocating methods (`to_lowercase`, `to_uppercase`): `Self::from(self.as_str().m())`;
    `from_utf16*`: `String::m(v)` converted with `into`;
  * `to_ascii_lowercase`, `to_ascii_uppercase`, `repeat`: delegated to the SAME-NAMED `HipByt` method on
    `self.0` (what those do is C10's `repeat` and the `patdrive` differential, not wiring). -/
def wrapperOk (t : Tables) (r : WrapperRow) : Bool :=
  match stdSig? r.name with
  | none => false
  | some sig =>
    r.callee == r.name
    && r.shape == sig.shape
    && retOk sig (match r.via with | .patTrait _ => true | _ => false) r.ret
    && (match r.via with
        | .direct =>
          r.recv == .selfAsStr && !sig.hasPat && r.patArg == .absent && passOk sig.hasCount r.countArg
          && (match sig.shape with
              | .owned => r.adopt == .fromString && r.comps == []
              | .resultOwned => false
              | _ => adoptShapeOk t sig r)
        | .patTrait bound =>
          r.recv == .selfAsStr && sig.hasPat && r.patArg == .unchanged && passOk sig.hasCount r.countArg
          && adoptShapeOk t sig r
          && (match declaringTrait t.traits t.traits.length bound r.callee with
              | none => false
              | some (tr, cnt) =>
                cnt == sig.hasCount
                -- the arm implementing that trait has exactly one body for `m`, and it is right
                && (t.arms.filter (fun a => a.trait == tr && a.method == r.callee)).length == 1
                && (t.arms.filter (fun a => a.trait == tr && a.method == r.callee)).all (armOk t))
        | .bytes =>
          r.recv == .selfBytes && r.adopt == .wrapBytes && r.patArg == .absent
          && passOk sig.hasCount r.countArg && r.comps == []
          && ["to_ascii_lowercase", "to_ascii_uppercase", "repeat"].contains r.name
        | .stringFn =>
          r.recv == .stringFn && r.adopt == .fromString && r.patArg == .absent && r.countArg == .absent
          && r.comps == [] && ["from_utf16", "from_utf16_lossy"].contains r.name)

/-- The row predicate of `wiring_ok`. -/
def rowOk (t : Tables) : Row → Bool
  | .wrapper r => wrapperOk t r
  | .arm a => armOk t a
  | .chain c => chainOk t c
  | .adopt a => adoptOk a
  | .sliceRef r => sliceRefOk r

/-- The methods of the std iterator traits an `IterWrapper` impl may define by plain forwarding:
    (name, trait, takes an argument, yields items that have to be adopted). Anything else (e.g. `fold`,
    whose closure would have to adopt) is an unknown shape: the row fails. -/
def fwdSpec : List (String × String × Bool × Bool) := [
  ("next", "Iterator", false, true),
  ("nth", "Iterator", true, true),
  ("last", "Iterator", false, true),
  ("size_hint", "Iterator", false, false),
  ("count", "Iterator", false, false),
  ("next_back", "DoubleEndedIterator", false, true),
  ("nth_back", "DoubleEndedIterator", true, true),
  ("len", "ExactSizeIterator", false, false)]

/-- One defined iterator method of `IterWrapper` is right: it forwards to the SAME-named method of
    `self.inner` (`next` → `next`, `next_back` → `next_back`, `nth` → `nth`, `nth_back` → `nth_back`, …),
    in the impl of the trait that declares it and under the same bound on the inner iterator, hands its
    own arguments on unchanged, and adopts every yielded item from `self.source` (methods that yield no
    item return the inner result as is). -/
def fwdOk (f : FwdRow) : Bool :=
  match fwdSpec.find? (·.1 == f.method) with
  | none => false
  | some (_, tr, hasArg, yields) =>
    f.callee == f.method && f.recv == .selfInner
    && f.trait == tr && f.innerBounds.contains tr
    && passOk hasArg f.args
    && (if yields then f.item == .adoptFrom .selfSourceField && f.itemAdopt else f.item == .none)

def FwdRow.describe (f : FwdRow) : String :=
  s!"IterWrapper {f.trait}::{f.method}: forwards to inner `{f.callee}` on {short f.recv}, arguments {short f.args}, " ++
  s!"item {short f.item}, inner bounds {f.innerBounds}"

/-- `IterWrapper::new(source, inner)` stores its arguments in the fields of the same name. -/
def newOk (n : NewRow) : Bool :=
  n.params == ["source", "inner"] && n.fields == [("source", "source"), ("inner", "inner")]

/-- Forwarding is one to one: exactly one `next`, exactly one `next_back`, all rows `fwdOk`, `new` stores
    the source and the std iterator as given.

    Not required (observed on the current source, recorded in `iterTraits` / the absence of a row):
    `size_hint` is NOT overridden (the default `(0, None)` is sound, merely uninformative) and
    `FusedIterator` is not implemented for `IterWrapper`; `patdrive` checks at run time that an
    exhausted wrapper keeps returning `None` like std's (fused) iterators. -/
def forwardingOk (t : Tables) : Bool :=
  t.forwards.all fwdOk
  && (t.forwards.filter (·.method == "next")).length == 1
  && (t.forwards.filter (·.method == "next_back")).length == 1
  && newOk t.iterNew
  && t.iterTraits.contains "Iterator" && t.iterTraits.contains "DoubleEndedIterator"

/-- Methods named in the statement of C11 (and their reverse variants present in the crate). -/
def requiredWrappers : List String := [
  "split", "rsplit", "splitn", "rsplitn", "split_terminator", "rsplit_terminator", "split_inclusive",
  "split_once", "rsplit_once", "matches", "rmatches", "match_indices", "rmatch_indices",
  "trim", "trim_start", "trim_end", "trim_matches", "trim_start_matches", "trim_end_matches",
  "strip_prefix", "strip_suffix", "lines", "split_whitespace", "split_ascii_whitespace",
  "to_lowercase", "to_uppercase", "to_ascii_lowercase", "to_ascii_uppercase", "repeat",
  "from_utf16", "from_utf16_lossy"]

/-- Pattern types of the property's quantifier with the strongest trait level each must reach
    (`double_ended` ⊇ `reverse` ⊇ `base`). -/
def requiredPatternTypes : List (String × String) := [
  ("char", "double_ended"), ("&str", "reverse"), ("&String", "reverse"), ("&[char]", "double_ended"),
  ("&[char; N]", "reverse"), ("F", "double_ended")]

def armLevel : String → Nat
  | "base" => 1 | "reverse" => 2 | "double_ended" => 3 | _ => 0

/-- The iterator types of the crate and the property that owns each: `IterWrapper` (the only one whose
    items are adopted pieces: this table), `Drain` and `IntoIter` of the vectors (elements moved out:
    C14). Everything else a user iterates (`chars`, `bytes`, `char_indices`, `iter` of the byte
    slice, …) comes through `Deref` from std and yields std's own borrowed items. -/
def knownIterTypes : List String := ["IterWrapper", "Drain", "IntoIter"]

/-- Each required wrapper has exactly one row; each required pattern type has an invocation of at
    least the required level (for closures: with the `FnMut(char) -> bool` bound); the crate has no
    iterator type besides the classified ones (a new one must be looked at). -/
def coverageOk (t : Tables) : Bool :=
  t.iterTypes.all (fun it => knownIterTypes.contains it.1)
  && t.iterTypes.any (fun it => it.1 == "IterWrapper")
  && requiredWrappers.all (fun m => (t.wrappers.filter (·.name == m)).length == 1)
  && requiredPatternTypes.all (fun (ty, lvl) =>
        t.invocations.any (fun i => i.ty == ty && armLevel lvl ≤ armLevel i.arm
          && (ty != "F" || i.whereCl == "F:(FnMut(char)->bool)+Sized")))

end HipVerif.Wiring
