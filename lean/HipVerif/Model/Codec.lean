/-
  Executable model of the crate's serialisation code (property C16).

  * borsh: `ser` / `deShape` — the reader AS CODED in `src/bytes/borsh.rs` (u32 little-endian
    prefix, zero shortcut, `Vec::with_capacity(len.min(cap))`, one `push` per byte read, `eof`
    error as soon as the input runs out), together with the TRACE of capacity requests the
    `Vec` makes (initial reservation, then `RawVec::grow_amortized` doublings); `HipStr` =
    bytes reader then UTF-8 check.
  * serde: `visit` INTERPRETS a row of the generated table `Gen/Visitors.lean` on one serde
    data-model token, including serde's `Visitor` default methods (`visit_borrowed_str` →
    `visit_str`, `visit_string` → `visit_str`, `visit_char` → `visit_str`,
    `visit_borrowed_bytes` → `visit_bytes`, `visit_byte_buf` → `visit_bytes`, otherwise
    `invalid_type`); `deserialize` follows the `Deserialize`/`borrow_deserialize` rows
    (visitor or delegation); `serialize` follows the `Serialize` rows.
  * the Bool-valued row predicates (`visitorOk`, `deRowOk`, …) through which the table theorems
    of `Props/C16.lean` are stated, so that the driver can list falsifying rows.

  UTF-8 well-formedness is a parameter `valid : List UInt8 → Bool` everywhere.
-/
import HipVerif.Model.CodecTy
import HipVerif.Spec.Codec
import HipVerif.Gen.Visitors

namespace HipVerif.Codec
open HipVerif.Spec.Codec (Token SerOut collect leBytes fromLe)

/-- Error outcomes.  There is no `panic`/`overflow`/`abort` outcome: no step of the modelled
code can panic (all arithmetic is on `usize` values bounded by a `u32`, `Vec::push` and
`with_capacity` only fail by allocation failure, which the allocation bound rules out). -/
inductive Err where
  /-- borsh: the input ended early (`Unexpected length of input`). -/
  | eof
  /-- borsh: the bytes are not UTF-8 (`ErrorKind::InvalidData`). -/
  | invalidData
  /-- serde: `Error::invalid_value` (bytes that are not UTF-8). -/
  | invalidValue
  /-- serde: `Error::invalid_type` (the visitor does not implement the method). -/
  | invalidType
  /-- serde: an element of the sequence is not a `u8` (the `?` in the `visit_seq` loop). -/
  | element
  /-- serde: an unconditional `Err(..)` body, or std's `OsString` implementation refusing. -/
  | custom
  /-- no row for this type/entry point in the generated table (never for a complete table). -/
  | noImpl
  deriving DecidableEq, Repr, Inhabited

/-- Decidable equality of outcomes (core has no instance for `Except`); used by examples. -/
instance exceptDecEq {ε α : Type} [DecidableEq ε] [DecidableEq α] : DecidableEq (Except ε α)
  | .ok a, .ok b =>
    if h : a = b then isTrue (by rw [h]) else isFalse (by intro h'; cases h'; exact h rfl)
  | .error a, .error b =>
    if h : a = b then isTrue (by rw [h]) else isFalse (by intro h'; cases h'; exact h rfl)
  | .ok _, .error _ => isFalse (by intro h; cases h)
  | .error _, .ok _ => isFalse (by intro h; cases h)

/-! ## `Vec<u8>` capacity model -/

/-- `RawVec::<u8>::grow_amortized(len, 1)` on a full vector of capacity `cap`:
`max(MIN_NON_ZERO_CAP = 8, max(2 * cap, cap + 1))`. -/
def growCap (cap : Nat) : Nat := max 8 (max (2 * cap) (cap + 1))

/-- A `Vec<u8>` under construction: content (reversed), length, capacity and every capacity
request made so far (most recent first). -/
structure VecSt where
  rev  : List UInt8
  len  : Nat
  cap  : Nat
  reqs : List Nat
  deriving Repr

/-- `Vec::with_capacity(c)`. -/
def VecSt.withCapacity (c : Nat) : VecSt := ⟨[], 0, c, [c]⟩

/-- `Vec::push`: grows (one request) only when `len == cap`. -/
def VecSt.push (v : VecSt) (b : UInt8) : VecSt :=
  if v.len = v.cap then
    ⟨b :: v.rev, v.len + 1, growCap v.cap, growCap v.cap :: v.reqs⟩
  else
    ⟨b :: v.rev, v.len + 1, v.cap, v.reqs⟩

/-- The bytes of the vector. -/
def VecSt.bytes (v : VecSt) : List UInt8 := v.rev.reverse

/-- Largest element of a request trace. -/
def maxOf : List Nat → Nat
  | [] => 0
  | r :: rs => max r (maxOf rs)

/-! ## borsh -/

/-- `BorshSerialize for HipByt/HipStr` = `[u8]::serialize`: the length as `u32` LE, then the
bytes (the `u32::try_from(len)` failure is `serFits`). -/
def ser (b : List UInt8) : List UInt8 := leBytes 4 b.length ++ b

/-- The length fits the `u32` prefix (otherwise the writer returns `InvalidData`). -/
def serFits (b : List UInt8) : Bool := b.length < 2 ^ 32

/-- Result of a borsh read: the value and the unread rest (or an error), and the trace of
capacity requests. -/
structure DeOut where
  result : Except Err (List UInt8 × List UInt8)
  reqs   : List Nat
  deriving Repr

/-- Largest single capacity request of a read. -/
def DeOut.maxRequest (o : DeOut) : Nat := maxOf o.reqs

/-- `uN::deserialize_reader`: `k` bytes little-endian, or `eof`. -/
def readPrefix (k : Nat) (input : List UInt8) : Option (Nat × List UInt8) :=
  if input.length < k then none else some (fromLe (input.take k), input.drop k)

/-- `for _ in 0..n { vec.push(u8::deserialize_reader(reader)?) }`. -/
def readLoop : Nat → List UInt8 → VecSt → DeOut
  | 0, input, v => ⟨.ok (v.bytes, input), v.reqs⟩
  | _ + 1, [], v => ⟨.error .eof, v.reqs⟩
  | n + 1, b :: rest, v => readLoop n rest (v.push b)

/-- The reader of `impl BorshDeserialize for HipByt` for a given generated shape. -/
def deShape (sh : BorshDe) (input : List UInt8) : DeOut :=
  match sh with
  | .reader k zeroIsNew reserve _ _ =>
    match readPrefix k input with
    | none => ⟨.error .eof, []⟩
    | some (len, rest) =>
      if zeroIsNew && len == 0 then ⟨.ok ([], rest), []⟩
      else
        let cap0 := match reserve with
          | .minLen c => min len c
          | .exact => len
        readLoop len rest (VecSt.withCapacity cap0)
  | _ => ⟨.error .noImpl, []⟩

/-- Shape of the row for `kind` in a borsh table. -/
def borshShape (rows : List BorshDeRow) (kind : HipKind) : Option BorshDe :=
  (rows.find? (·.kind == kind)).map (·.shape)

/-- `BorshDeserialize::deserialize_reader` of `kind` (`byt` or `str`) following the table. -/
def borshDe (valid : List UInt8 → Bool) (rows : List BorshDeRow) (kind : HipKind)
    (input : List UInt8) : DeOut :=
  match borshShape rows kind with
  | some .viaBytThenValidate =>
    match borshShape rows .byt with
    | some sh =>
      let o := deShape sh input
      match o.result with
      | .ok (b, rest) => if valid b then ⟨.ok (b, rest), o.reqs⟩ else ⟨.error .invalidData, o.reqs⟩
      | .error e => ⟨.error e, o.reqs⟩
    | none => ⟨.error .noImpl, []⟩
  | some .viaBytUnchecked =>
    match borshShape rows .byt with
    | some sh => deShape sh input
    | none => ⟨.error .noImpl, []⟩
  | some sh => deShape sh input
  | none => ⟨.error .noImpl, []⟩

/-- The `HipByt` reader of the current source. -/
def de (input : List UInt8) : DeOut :=
  borshDe (fun _ => true) Gen.Visitors.borshDeRows .byt input

/-- The `HipStr` reader of the current source. -/
def deStr (valid : List UInt8 → Bool) (input : List UInt8) : DeOut :=
  borshDe valid Gen.Visitors.borshDeRows .str input

/-- Row predicate of the borsh reader table: the `byt` reader has a `u32` prefix, reads byte by
byte and reserves at most `min(len, c)` with `c ≤ limit`; the `str` reader validates. -/
def borshShapeRowOk (limit : Nat) (r : BorshDeRow) : Bool :=
  match r.shape with
  | .reader k _ (.minLen c) perByte _ => r.kind == .byt && k == 4 && perByte && c ≤ limit
  | .reader _ _ .exact _ _ => false
  | .viaBytThenValidate => r.kind == .str
  | .viaBytUnchecked => false
  | .other => false

/-- The call transfers all the bytes or fails (never a silent short read/write). -/
def IoCall.exact : IoCall → Bool
  | .delegate _ | .readExact | .writeAll => true
  | .read | .write | .other _ => false

/-- Full row predicate of the borsh reader table: the shape is the safe one, every use of the
reader is exact (`read_exact`-style: delegation to borsh's primitives) and the body has no
`unsafe` block. -/
def borshDeRowOk (limit : Nat) (r : BorshDeRow) : Bool :=
  borshShapeRowOk limit r && r.io.all IoCall.exact && !r.usesUnsafe

/-- Row predicate of the borsh writer table. -/
def borshSerRowOk (r : BorshSerRow) : Bool :=
  (match r.shape with
   | .sliceU8 => r.kind == .byt || r.kind == .str
   | .other => false) &&
  r.io.all IoCall.exact && !r.usesUnsafe

/-- The cap of the `byt` reader's up-front reservation, as read from the source. -/
def borshCap (rows : List BorshDeRow) : Option Nat :=
  match borshShape rows .byt with
  | some (.reader _ _ (.minLen c) _ _) => some c
  | _ => none

/-! ## serde: visitors -/

/-- serde's `Visitor` default methods: the method a missing method forwards to. -/
def Method.fallback : Method → Option Method
  | .borrowedStr => some .str
  | .string => some .str
  | .char => some .str
  | .borrowedBytes => some .bytes
  | .byteBuf => some .bytes
  | .str | .bytes | .seq => none

/-- Body of method `m` in an `impl Visitor` (the first `fn` of that name). -/
def findBody (ms : List MethodRow) (m : Method) : Option Body :=
  (ms.find? (·.method == m)).map (·.body)

/-- The method that actually runs for a call of `m`, and its body: the visitor's own method, or
the one serde's default forwards to. -/
def resolve (ms : List MethodRow) (m : Method) : Option (Method × Body) :=
  match findBody ms m with
  | some b => some (m, b)
  | none =>
    match m.fallback with
    | some m' => (findBody ms m').map (m', ·)
    | none => none

/-- Runs a non-sequence body on the payload: the content of the value produced and whether it
borrows the input. -/
def runBody (valid : List UInt8 → Bool) : Body → List UInt8 → Except Err (List UInt8 × Bool)
  | .copy, p => .ok (p, false)
  | .take, p => .ok (p, false)
  | .borrow, p => .ok (p, true)
  | .validateThen b, p => if valid p then runBody valid b p else .error .invalidValue
  | .seq _, _ => .error .invalidType
  | .error, _ => .error .custom

/-- A call of the non-sequence method `m` with payload `p`. -/
def visitData (valid : List UInt8 → Bool) (v : VisitorRow) (m : Method) (p : List UInt8) :
    Except Err (List UInt8 × Bool) :=
  match resolve v.methods m with
  | some (_, b) => runBody valid b p
  | none => .error .invalidType

/-- The `while let Some(b) = seq.next_element()? { bytes.push(b) }` loop: all the bytes, or the
first element error. -/
def collectOutcome (xs : List (Option UInt8)) : Except Err (List UInt8 × Bool) :=
  match collect xs with
  | some bs => .ok (bs, false)
  | none => .error .element

/-- A `visit_seq` call with elements `xs`, given the resolved method. -/
def seqOutcome (r : Option (Method × Body)) (xs : List (Option UInt8)) :
    Except Err (List UInt8 × Bool) :=
  match r with
  | some (_, .seq _) => collectOutcome xs
  | some (_, .error) => .error .custom
  | _ => .error .invalidType

/-- One visitor call: the content of the `Hip` value built and whether it borrows. -/
def visit (valid : List UInt8 → Bool) (v : VisitorRow) (t : Token) :
    Except Err (List UInt8 × Bool) :=
  match t with
  | .other => .error .invalidType
  | .seq _ xs => seqOutcome (resolve v.methods .seq) xs
  | .str p => visitData valid v .str p
  | .borrowedStr p => visitData valid v .borrowedStr p
  | .string p => visitData valid v .string p
  | .bytes p => visitData valid v .bytes p
  | .borrowedBytes p => visitData valid v .borrowedBytes p
  | .byteBuf p => visitData valid v .byteBuf p
  | .char p => visitData valid v .char p

/-- The cap applied to the size hint in `visit_seq` (`some none`: a reservation without cap). -/
def seqCapOf (v : VisitorRow) : Option (Option Nat) :=
  match resolve v.methods .seq with
  | some (_, .seq c) => some c
  | _ => none

/-- Capacity reserved up front on the sequence path (`Vec::with_capacity(..)` in `visit_seq`). -/
def visitReserve (v : VisitorRow) (t : Token) : Option Nat :=
  match t with
  | .seq hint _ =>
    (seqCapOf v).map (fun cap =>
      match cap with
      | some c => min (hint.getD 0) c
      | none => hint.getD 0)
  | _ => none

/-- Capacity requests of the whole sequence path: the reservation, then one `push` per element
(`n` elements arrive). -/
def seqRequests (cap0 n : Nat) : List Nat :=
  ((List.replicate n (0 : UInt8)).foldl VecSt.push (VecSt.withCapacity cap0)).reqs

/-! ### Row predicates -/

/-- The body contains a `borrow`. -/
def Body.hasBorrow : Body → Bool
  | .borrow => true
  | .validateThen b => b.hasBorrow
  | _ => false

/-- The body validates UTF-8 before building anything. -/
def Body.validates : Body → Bool
  | .validateThen _ => true
  | _ => false

/-- The body is built from `copy`/`take`/`borrow`/`validateThen` only. -/
def Body.plain : Body → Bool
  | .copy | .take | .borrow => true
  | .validateThen b => b.plain
  | .seq _ | .error => false

/-- Methods whose argument is a string type / a byte type / borrowed for `'de`. -/
def Method.isStr : Method → Bool
  | .str | .borrowedStr | .string | .char => true
  | _ => false

def Method.isBorrowed : Method → Bool
  | .borrowedStr | .borrowedBytes => true
  | _ => false

/-- Acceptable body of `visit_seq`: the capped collection loop (only for `HipByt`) or an error. -/
def seqBodyOk (limit : Nat) (v : VisitorRow) : Body → Bool
  | .seq (some c) => v.kind == .byt && c ≤ limit
  | .error => true
  | _ => false

/-- Acceptable body of a non-sequence method `m`: an error, or a plain body that validates
whenever a `HipStr` is built from something that is not a string type, and never validates
when a `HipByt` is built. -/
def dataBodyOk (v : VisitorRow) (m : Method) (b : Body) : Bool :=
  b == .error ||
  (b.plain && (v.kind != .str || m.isStr || b.validates) && (v.kind != .byt || !b.validates))

/-- One `fn visit_*` is acceptable in visitor `v`:
* a `borrow` appears only in a `visit_borrowed_*` method of a visitor whose `Value` has the
  `'de` lifetime;
* a visitor producing a `HipStr` validates in every method that does not receive a string type;
* a visitor producing a `HipByt` never rejects bytes (no validation);
* `visit_seq` (and only it) has a `seq` body, only for `HipByt`, with a cap of at most `limit`. -/
def methodOk (limit : Nat) (v : VisitorRow) (r : MethodRow) : Bool :=
  (!r.body.hasBorrow || (v.borrowsDe && r.method.isBorrowed)) &&
  (if r.method == .seq then seqBodyOk limit v r.body else dataBodyOk v r.method r.body)

/-- Methods a `String`-like visitor must answer (std's `StringVisitor`, see `Spec.stringDe`). -/
def strMethods : List Method :=
  [.str, .borrowedStr, .string, .bytes, .borrowedBytes, .byteBuf, .char]

/-- Methods a `HipByt` visitor must answer: `visit_seq` (what `Vec<u8>` accepts and what formats
without a byte-string type present) and the three byte-string methods (its own encoding). -/
def bytMethods : List Method := [.seq, .bytes, .borrowedBytes, .byteBuf]

/-- `m` resolves to a body that does not unconditionally fail. -/
def answers (v : VisitorRow) (m : Method) : Bool :=
  match resolve v.methods m with
  | some (_, .error) => false
  | some _ => true
  | none => false

/-- `m` resolves to a borrowing body. -/
def borrowsOn (v : VisitorRow) (m : Method) : Bool :=
  match resolve v.methods m with
  | some (_, b) => b.hasBorrow
  | none => false

/-- Row predicate of the visitor table. -/
def visitorOk (limit : Nat) (v : VisitorRow) : Bool :=
  (v.kind == .byt || v.kind == .str) &&
  (v.id == (match v.kind, v.borrowsDe with
            | .byt, false => .bytOwned | .byt, true => .bytBorrowed
            | _, false => .strOwned | _, true => .strBorrowed)) &&
  v.methods.all (methodOk limit v) &&
  (if v.kind == .str then strMethods else bytMethods).all (answers v) &&
  (!v.borrowsDe ||
    (borrowsOn v .borrowedStr && borrowsOn v .borrowedBytes))

/-- Shape of a resolved body up to the owned/borrowed distinction. -/
inductive Shape where
  | none | fail | plain (validates : Bool) | seq | odd (b : Body)
  deriving DecidableEq, Repr

def Body.shape : Body → Shape
  | .copy | .take | .borrow => .plain false
  | .validateThen b => if b.plain then .plain true else .odd (.validateThen b)
  | .seq _ => .seq
  | .error => .fail

def methodShape (v : VisitorRow) (m : Method) : Shape :=
  match resolve v.methods m with
  | some (_, b) => b.shape
  | none => .none

def allMethods : List Method :=
  [.str, .borrowedStr, .string, .bytes, .borrowedBytes, .byteBuf, .seq, .char]

/-- The owned and the borrowed visitor of one type answer every method with the same shape. -/
def pairOk (vo vb : VisitorRow) : Bool :=
  vo.kind == vb.kind && !vo.borrowsDe && vb.borrowsDe &&
  allMethods.all (fun m => methodShape vo m == methodShape vb m)

/-- The visitor with a given id. -/
def findVisitor (vs : List VisitorRow) (id : VisitorId) : Option VisitorRow :=
  vs.find? (·.id == id)

/-! ## serde: entry points -/

/-- The row of an entry point. -/
def findDe (ds : List DeRow) (k : HipKind) (e : Entry) : Option DeRow :=
  ds.find? (fun r => r.kind == k && r.entry == e)

/-- `<Hip as Deserialize>::deserialize` / `borrow_deserialize` on a deserializer that makes
the single visitor call `t`.  `osDe` is std's `OsString` implementation (a parameter: platform
dependent, not part of the crate).  `fuel` bounds the delegation depth. -/
def deserializeFuel (valid : List UInt8 → Bool) (osDe : Token → Except Err (List UInt8))
    (vs : List VisitorRow) (ds : List DeRow) :
    Nat → HipKind → Entry → Token → Except Err (List UInt8 × Bool)
  | 0, _, _, _ => .error .noImpl
  | fuel + 1, k, e, t =>
    match findDe ds k e with
    | none => .error .noImpl
    | some r =>
      match r.target with
      | .visitor _ id =>
        match findVisitor vs id with
        | some v => visit valid v t
        | none => .error .noImpl
      | .stdOsString => (osDe t).map (·, false)
      | .hip k' e' => deserializeFuel valid osDe vs ds fuel k' e' t

/-- Entry points of the current source. -/
def deserialize (valid : List UInt8 → Bool) (osDe : Token → Except Err (List UInt8))
    (k : HipKind) (e : Entry) (t : Token) : Except Err (List UInt8 × Bool) :=
  deserializeFuel valid osDe Gen.Visitors.visitors Gen.Visitors.deRows 3 k e t

/-- The hint `h` is acceptable for an entry point of `kind`/`entry`.  A BORROWING entry point must
ask for the borrowable form (`deserialize_bytes` / `deserialize_str`): a format that honours
hints (bincode-like) lends its input for those and hands out a fresh `Vec`/`String` for
`deserialize_byte_buf` / `deserialize_string`, so asking for the owned form makes
`borrow_deserialize` copy.  An OWNED entry point may ask for either form of its own family. -/
def hintOk (kind : HipKind) (entry : Entry) (h : Hint) : Bool :=
  match kind, entry with
  | .byt, .borrowing => h == .bytes
  | .str, .borrowing => h == .str
  | .byt, .owned => h == .bytes || h == .byteBuf
  | .str, .owned => h == .str || h == .string
  | _, _ => false

/-- The `Deserializer::deserialize_*` method an entry point ends up calling: its own, or the one
of the crate entry point it delegates to (`none`: std's `OsString`, or no such row). -/
def entryHint (ds : List DeRow) (k : HipKind) (e : Entry) : Option Hint :=
  match findDe ds k e with
  | some r =>
    match r.target with
    | .visitor h _ => some h
    | .hip k' e' =>
      (match findDe ds k' e' with
       | some r' => (match r'.target with | .visitor h _ => some h | _ => none)
       | none => none)
    | .stdOsString => none
  | none => none

/-- Row predicate of the entry-point table: a visitor target exists, has the row's kind, is the
borrowed visitor exactly for `borrow_deserialize`, and the hint is acceptable (`hintOk`: the
borrowable form for `borrow_deserialize`, the type's own family otherwise);
`OsString` is only used by `HipOsStr`; a crate delegate is a *visitor* row of the same entry
kind. -/
def deRowOk (vs : List VisitorRow) (ds : List DeRow) (r : DeRow) : Bool :=
  !r.overridesInPlace &&
  match r.target with
  | .visitor h id =>
    (match findVisitor vs id with
     | some v => v.kind == r.kind && v.borrowsDe == (r.entry == .borrowing)
     | none => false) &&
    hintOk r.kind r.entry h
  | .stdOsString => r.kind == .os && r.entry == .owned
  | .hip k e =>
    r.kind == .path && k == .str && e == r.entry &&
    (match findDe ds k e with
     | some r' => (match r'.target with | .visitor _ _ => true | _ => false)
     | none => false)

/-- Every entry point the crate documents is present exactly once. -/
def deTableComplete (ds : List DeRow) : Bool :=
  [(HipKind.byt, Entry.owned), (.byt, .borrowing), (.str, .owned), (.str, .borrowing),
   (.os, .owned), (.path, .owned), (.path, .borrowing)].all
    (fun ke => (ds.filter (fun r => r.kind == ke.1 && r.entry == ke.2)).length == 1)

/-! ## serde: `Serialize` -/

/-- What `<Hip as Serialize>::serialize` asks the serializer to write, following the table. -/
def serializeWith (valid : List UInt8 → Bool) (rows : List SerRow) (k : HipKind)
    (c : List UInt8) : Option SerOut :=
  match rows.find? (·.kind == k) with
  | none => none
  | some r =>
    match r.call with
    | .serializeBytes => some (.bytes c)
    | .serializeStr => some (.str c)
    | .stdOsStr => some (Spec.Codec.osStrSer c)
    | .stdPath => some (Spec.Codec.pathSer valid c)

/-- `Serialize` of the current source. -/
def serialize (valid : List UInt8 → Bool) (k : HipKind) (c : List UInt8) : Option SerOut :=
  serializeWith valid Gen.Visitors.serRows k c

/-- Row predicate of the `Serialize` table. -/
def serRowOk (r : SerRow) : Bool :=
  match r.kind, r.call with
  | .byt, .serializeBytes => true
  | .str, .serializeStr => true
  | .os, .stdOsStr => true
  | .path, .stdPath => true
  | _, _ => false

def serTableComplete (rows : List SerRow) : Bool :=
  [HipKind.byt, .str, .os, .path].all (fun k => (rows.filter (·.kind == k)).length == 1)

/-- The tokens a format may present when reading back what `serialize` wrote: a string comes
back through one of the three string methods, a byte string through one of the three byte
methods or — in formats without a byte-string type, e.g. JSON — as a sequence of `u8`. -/
def presentations (o : SerOut) (hint : Option Nat) : List Token :=
  match o with
  | .str s => [.str s, .borrowedStr s, .string s]
  | .bytes b => [.bytes b, .borrowedBytes b, .byteBuf b, .seq hint (b.map some)]
  | .osUnix _ => []
  | .error => []

/-! ## bstr conversions -/

/-- Row predicate of the bstr conversion table: conversions into `HipStr` are fallible and
validate; `borrow` only from a `&'a BStr` (directly or through `Cow::Borrowed`). -/
def bstrRowOk (r : BstrRow) : Bool :=
  r.body.plain &&
  (r.kind == .byt || r.kind == .str) &&
  (r.kind != .str || (r.body.validates && r.fallible)) &&
  (!r.body.hasBorrow || r.src == .bstrRef || r.src == .cowBorrowed)

/-- A bstr conversion on payload `p`. -/
def bstrConv (valid : List UInt8 → Bool) (r : BstrRow) (p : List UInt8) :
    Except Err (List UInt8 × Bool) :=
  runBody valid r.body p

/-! ## The whole table -/

/-- The capacity limit the property allows for an up-front reservation that depends only on an
unauthenticated length (prefix or size hint). -/
def capLimit : Nat := 4096

/-- One line per generated row: `(file:line, ok?)`. -/
def rowReport : List (String × Bool) :=
  let vs := Gen.Visitors.visitors
  let ds := Gen.Visitors.deRows
  vs.map (fun v => (v.loc, visitorOk capLimit v)) ++
  (match findVisitor vs .bytOwned, findVisitor vs .bytBorrowed with
   | some a, some b => [(b.loc ++ " (owned/borrowed pair)", pairOk a b)]
   | _, _ => [("src/bytes/serde.rs (missing visitor)", false)]) ++
  (match findVisitor vs .strOwned, findVisitor vs .strBorrowed with
   | some a, some b => [(b.loc ++ " (owned/borrowed pair)", pairOk a b)]
   | _, _ => [("src/string/serde.rs (missing visitor)", false)]) ++
  Gen.Visitors.auxVisitors.map (fun a => (a.loc ++ " (unmodelled visitor " ++ a.name ++ ")", false)) ++
  ds.map (fun r => (r.loc, deRowOk vs ds r)) ++
  [("Deserialize table complete", deTableComplete ds)] ++
  Gen.Visitors.serRows.map (fun r => (r.loc, serRowOk r)) ++
  [("Serialize table complete", serTableComplete Gen.Visitors.serRows)] ++
  Gen.Visitors.borshDeRows.map (fun r => (r.loc, borshDeRowOk capLimit r)) ++
  [("BorshDeserialize table complete",
     (borshShape Gen.Visitors.borshDeRows .byt).isSome &&
     (borshShape Gen.Visitors.borshDeRows .str).isSome &&
     Gen.Visitors.borshDeRows.length == 2)] ++
  Gen.Visitors.borshSerRows.map (fun r => (r.loc, borshSerRowOk r)) ++
  Gen.Visitors.bstrRows.map (fun r => (r.loc, bstrRowOk r))

/-- Every generated row passes its predicate. -/
def tableOk : Bool := rowReport.all (·.2)

end HipVerif.Codec
