import HipVerif.Model.AtomicsTy

/-!
# Operational release/acquire model of the atomically counted pointer (C04)

One atomic location (the share count of `Smart<T, Arc>`, which stores `shares - 1`), one
non-atomic payload (the `Inner` box: value + allocation), `n` threads.

* The count is a list of messages `{val, rel}` in modification order (`hist ++ [last]`).
  A read-modify-write reads `last` and appends; a plain `load` may read ANY message whose
  index is not smaller than the reading thread's coherence index `coh` (stale reads are in).
* Views are vector clocks `List Nat` indexed by thread (missing entries are `0`), `vjoin` is
  the pointwise maximum.  An RMW with ordering `o` writes
  `rel := (if o.isRelease then view else ⊥) ⊔ read.rel` (release sequences continue through
  RMWs); a plain store writes `rel := if o.isRelease then view else ⊥`.  A read with an
  acquire ordering joins `read.rel` into `view`, otherwise into `pend`; an acquire fence does
  `view ⊔= pend`.  Release fences are not modelled (treated as no-ops: conservative).
* The count lives in the same box as the payload: an atomic access after the free sets `uaf`.
* The payload carries FastTrack-style access clocks: `acc[u]`/`wr[u]` = epoch of the last
  access / last write by thread `u` (a thread's own component is ticked at every payload
  access).  A read by `t` races unless `wr ≤ view t`; a write or the free races unless
  `acc ≤ view t`.
* Handing a handle to another thread (`send`, a rendezvous of two idle threads; an
  asynchronous channel is the composition of two rendezvous through a relay thread, and the
  theorems hold for every number of threads) joins the sender's view and coherence index
  into the receiver's.
* A handle may also be used BY REFERENCE from other threads (`Arc`-backed values are `Sync`):
  `borrow t u` gives thread `t` a shared reference to a handle of `u` (`refs`), through which
  `t` may `read`, `clone` and `count`; while references are out the lender is `pinned`: it keeps
  the handle and only uses `&self` methods itself.  `borrow`/`unborrow` synchronise like
  spawning / joining a scoped thread.  A lent handle counts once in the share count however
  many threads use it.
* Thread actions: `read`, `clone` (`incr`; on `Overflow` a deep copy = a read of the payload),
  `drop` (`decr`; on `Overflow` free the box), `mutate` (`is_unique`, then write if true),
  `unwrap` (`is_unique`, then take the box if true), `count` (`get`).  The counter methods are
  NOT built in: they are the step lists of a `Proto` (instantiated with
  `HipVerif.Gen.Atomics.proto`), interpreted one `AStep` per scheduler step.

Everything is a total computable function (`step : Cfg → State → Label → Option State`), so
the same definitions are used by the theorems (`Props/C04.lean`) and by the exhaustive
search (`Driver/Conc.lean`).
-/

namespace HipVerif.Model.Conc
open HipVerif.Model

/-! ## Views -/

/-- Pointwise maximum of two vector clocks (the shorter one is padded with `0`). -/
def vjoin : List Nat → List Nat → List Nat
  | [], b => b
  | a :: as, [] => a :: as
  | a :: as, b :: bs => max a b :: vjoin as bs

/-- `v[t] := x`, padding with `0` when `v` is too short. -/
def vset : List Nat → Nat → Nat → List Nat
  | [], 0, x => [x]
  | [], t + 1, x => 0 :: vset [] t x
  | _ :: as, 0, x => x :: as
  | a :: as, t + 1, x => a :: vset as t x

/-- Pointwise `≤` of two vector clocks (missing entries are `0`). -/
def vleb : List Nat → List Nat → Bool
  | [], _ => true
  | a :: as, [] => a == 0 && vleb as []
  | a :: as, b :: bs => decide (a ≤ b) && vleb as bs

/-! ## State -/

/-- A message of the atomic count: the value and the released view. -/
structure Msg where
  val : Nat
  rel : List Nat
  deriving DecidableEq, Repr, Inhabited, Hashable

/-- Which high-level operation a thread is in the middle of. -/
inductive Kont where
  | clone | drop | mutate | unwrap | count
  deriving DecidableEq, Repr, Inhabited, Hashable

/-- In-flight counter method: the remaining steps and the register `old`. -/
structure Pc where
  k : Kont
  code : List AStep
  old : Nat
  deriving DecidableEq, Repr, Inhabited, Hashable

structure Thread where
  /-- handles to the shared buffer held by this thread (not counting the in-flight one) -/
  handles : Nat
  /-- happens-before knowledge -/
  view : List Nat
  /-- views read with a non-acquire ordering, waiting for an acquire fence -/
  pend : List Nat
  /-- coherence index: the thread may not read a message of the count older than this -/
  coh : Nat
  pc : Option Pc
  /-- results of the finished actions, in program order (observable outcome) -/
  res : List Nat
  /-- shared references (`&handle`) this thread currently holds to a handle of the listed
  threads (scoped threads / `Arc<HipStr>`): the thread may `read`, `clone`, `count` through them -/
  refs : List Nat := []
  deriving DecidableEq, Repr, Inhabited, Hashable

structure State where
  /-- older messages of the count, in modification order -/
  hist : List Msg
  /-- the last message of the count -/
  last : Msg
  thr : List Thread
  /-- epoch of the last payload access (read, write or free) per thread -/
  acc : List Nat
  /-- epoch of the last payload write (or free) per thread -/
  wr : List Nat
  /-- payload content (number of in-place mutations so far) -/
  pval : Nat
  /-- how many times the box has been freed -/
  freed : Nat
  /-- two conflicting payload accesses were not ordered by happens-before -/
  race : Bool
  /-- the payload or the count (which live in the same box) was accessed, or the box freed
  again, after it had been freed -/
  uaf : Bool
  deriving DecidableEq, Repr, Inhabited, Hashable

/-- Model parameters: the largest storable count (`usize::MAX - 1` in the crate; the count
is a machine word modulo `ceil + 2`) and the protocol description. -/
structure Cfg where
  ceil : Nat
  proto : Proto
  /-- debug assertions are compiled in (`debug_assert!` statements touching the counter run) -/
  debug : Bool := false

/-- Some thread holds a shared reference to a handle of thread `u`: `u` must keep that handle
alive and may only use its handles through `&self` methods until the references are returned. -/
def pinned (s : State) (u : Nat) : Bool := s.thr.any fun wh => wh.refs.contains u

/-- Message at modification-order index `i` (`i ≥ hist.length` is the last one). -/
def State.msgAt (s : State) (i : Nat) : Msg := s.hist[i]?.getD s.last

/-- `old - n` modulo `ceil + 2`. -/
def wrapSub (ceil old n : Nat) : Nat := if n ≤ old then old - n else old + (ceil + 2) - n

/-- `old + n` modulo `ceil + 2`. -/
def wrapAdd (ceil old n : Nat) : Nat := if old + n < ceil + 2 then old + n else old + n - (ceil + 2)

/-! ## Thread-local control -/

/-- The statements of a branch arm followed by its `return`. -/
def armCode (arm : List Simple) (r : Ret) : List AStep := arm.map AStep.simple ++ [AStep.ret r]

/-- Resolve a leading `branch` on the register (a thread-local, deterministic step). -/
def norm (ceil : Nat) (code : List AStep) (old : Nat) : List AStep :=
  match code with
  | .branch c n thn rt els re :: _ =>
      if c.eval old (n.eval ceil) then armCode thn rt else armCode els re
  | .guard c n thn r :: rest =>
      if c.eval old (n.eval ceil) then armCode thn r else norm ceil rest old
  | code => code

/-- If only fences remain before the `return`, the value that will be returned. -/
def localRet : List AStep → Option Ret
  | .ret r :: _ => some r
  | .simple (.fence _) :: rest => localRet rest
  | _ => none

/-- An acquire fence will still be executed before the `return`. -/
def localAcq : List AStep → Bool
  | .simple (.fence o) :: rest => o.isAcquire || localAcq rest
  | _ => false

/-- A read with ordering `o` of a message with released view `rel`. -/
def acquireInto (th : Thread) (o : Ord) (rel : List Nat) : Thread :=
  if o.isAcquire then { th with view := vjoin th.view rel } else { th with pend := vjoin th.pend rel }

/-- Tick the thread's own clock component (done at every payload access). -/
def tick (th : Thread) (t : Nat) : Thread :=
  { th with view := vset th.view t (th.view[t]?.getD 0 + 1) }

/-! ## Payload accesses -/

/-- Thread `t` (with already ticked `view`) reads the payload. -/
def payRead (s : State) (t : Nat) (view : List Nat) : State :=
  { s with race := s.race || !vleb s.wr view,
           uaf := s.uaf || decide (0 < s.freed),
           acc := vset s.acc t (view[t]?.getD 0) }

/-- Thread `t` (with already ticked `view`) writes the payload. -/
def payWrite (s : State) (t : Nat) (view : List Nat) : State :=
  { s with race := s.race || !vleb s.acc view,
           uaf := s.uaf || decide (0 < s.freed),
           acc := vset s.acc t (view[t]?.getD 0),
           wr := vset s.wr t (view[t]?.getD 0) }

/-- Thread `t` frees the box (a write access that also counts the free). -/
def payFree (s : State) (t : Nat) (view : List Nat) : State :=
  { payWrite s t view with freed := s.freed + 1 }

/-! ## Atomic accesses -/

/-- Thread `t` (old record `th`) reads message `i` with ordering `o` and continues at `pc'`. -/
def doLoad (s : State) (t : Nat) (th : Thread) (i : Nat) (o : Ord) (pc' : Pc) : State :=
  { s with thr := s.thr.set t (acquireInto { th with coh := i, pc := some pc' } o (s.msgAt i).rel),
           uaf := s.uaf || decide (0 < s.freed) }

/-- Thread `t` performs an atomic read-modify-write with ordering `o` writing `newVal`. -/
def doRmw (s : State) (t : Nat) (th : Thread) (o : Ord) (newVal : Nat) (pc' : Pc) : State :=
  { s with hist := s.hist ++ [s.last],
           last := { val := newVal, rel := vjoin (if o.isRelease then th.view else []) s.last.rel },
           thr := s.thr.set t
             (acquireInto { th with coh := s.hist.length + 1, pc := some pc' } o s.last.rel),
           uaf := s.uaf || decide (0 < s.freed) }

/-- Thread `t` performs a plain store (appended at the end of the modification order; it does
not continue a release sequence). -/
def doStore (s : State) (t : Nat) (th : Thread) (o : Ord) (newVal : Nat) (pc' : Pc) : State :=
  { s with hist := s.hist ++ [s.last],
           last := { val := newVal, rel := if o.isRelease then th.view else [] },
           thr := s.thr.set t { th with coh := s.hist.length + 1, pc := some pc' },
           uaf := s.uaf || decide (0 < s.freed) }

/-! ## Completion of an action -/

/-- The counter method of action `k` returned `r` in thread `t` (`th` already has `pc := none`).
Result codes logged in `res`: clone `0` shared / `1` private copy; drop `0` / `1` freed;
mutate and unwrap `1` granted / `0` refused; count the value. -/
def finish (s : State) (t : Nat) (th : Thread) (k : Kont) (old : Nat) (r : Ret) : Option State :=
  match k, r with
  | .clone, .done =>
      some { s with thr := s.thr.set t { th with handles := th.handles + 1, res := th.res ++ [0] } }
  | .clone, .overflow =>
      let th' := tick th t
      some { payRead s t th'.view with thr := s.thr.set t { th' with res := th.res ++ [1] } }
  | .drop, .done =>
      some { s with thr := s.thr.set t { th with res := th.res ++ [0] } }
  | .drop, .overflow =>
      let th' := tick th t
      some { payFree s t th'.view with thr := s.thr.set t { th' with res := th.res ++ [1] } }
  | .mutate, .bool true =>
      let th' := tick th t
      some { payWrite s t th'.view with
               pval := s.pval + 1, thr := s.thr.set t { th' with res := th.res ++ [1] } }
  | .mutate, .bool false =>
      some { s with thr := s.thr.set t { th with res := th.res ++ [0] } }
  | .unwrap, .bool true =>
      let th' := tick th t
      some { payFree s t th'.view with
               thr := s.thr.set t { th' with handles := th.handles - 1, res := th.res ++ [1] } }
  | .unwrap, .bool false =>
      some { s with thr := s.thr.set t { th with res := th.res ++ [0] } }
  | .count, .oldPlus k =>
      some { s with thr := s.thr.set t { th with res := th.res ++ [old + k] } }
  | _, _ => none

/-! ## Steps -/

/-- High-level actions a thread holding a handle may start. -/
inductive Action where
  | read | clone | drop | mutate | unwrap | count
  deriving DecidableEq, Repr, Inhabited, Hashable

/-- Scheduler choices.  `micro t ch`: thread `t` executes the next step of its in-flight
method; `ch` selects the message read by a `load` (its index), and for a CAS attempt `0` =
success, `i + 1` = failure reading message `i`.  `send t u`: `t` hands one handle to `u`.
`read`, `clone`, `count` (the `&self` methods) may be started on an own handle or through a
borrowed reference; `drop`, `mutate`, `unwrap`, `send` need an own handle and are not available
to a thread while one of its handles is lent out (`pinned`). -/
inductive Label where
  | start (t : Nat) (a : Action)
  | micro (t : Nat) (ch : Nat)
  | send (t u : Nat)
  /-- thread `u` lends a shared reference to one of its handles to thread `t` (e.g. spawns a
  scoped thread borrowing `&h`): synchronises `u → t` -/
  | borrow (t u : Nat)
  /-- thread `t` gives the reference back to `u` (e.g. `u` joins the scoped thread):
  synchronises `t → u` -/
  | unborrow (t u : Nat)
  deriving DecidableEq, Repr, Inhabited, Hashable

/-- Begin the counter method `code` for action `k`. -/
def begin (c : Cfg) (s : State) (t : Nat) (th : Thread) (k : Kont) (code : List AStep) : State :=
  { s with thr := s.thr.set t { th with pc := some ⟨k, norm c.ceil code 0, 0⟩ } }

/-- The thread can call a `&self` method: it owns a handle or holds a shared reference. -/
def canUse (th : Thread) : Bool := th.handles != 0 || !th.refs.isEmpty

/-- The thread can call a `&mut self` / `self` method: it owns a handle and none is lent out. -/
def canOwn (s : State) (t : Nat) (th : Thread) : Bool := th.handles != 0 && !pinned s t

def startStep (c : Cfg) (s : State) (t : Nat) (a : Action) : Option State :=
  match s.thr[t]? with
  | none => none
  | some th =>
    if th.pc.isSome then none else
    match a with
    | .read =>
        if canUse th then
          let th' := tick th t
          some { payRead s t th'.view with thr := s.thr.set t { th' with res := th.res ++ [s.pval] } }
        else none
    | .clone => if canUse th then some (begin c s t th .clone c.proto.incr) else none
    | .count => if canUse th then some (begin c s t th .count c.proto.get) else none
    | .drop =>
        if canOwn s t th then
          some (begin c s t { th with handles := th.handles - 1 } .drop c.proto.decr)
        else none
    | .mutate => if canOwn s t th then some (begin c s t th .mutate c.proto.isUnique) else none
    | .unwrap => if canOwn s t th then some (begin c s t th .unwrap c.proto.isUnique) else none

def microStep (c : Cfg) (s : State) (t : Nat) (ch : Nat) : Option State :=
  match s.thr[t]? with
  | none => none
  | some th =>
    match th.pc with
    | none => none
    | some pc =>
      match pc.code with
      | [] => none
      | .load o :: rest =>
          if th.coh ≤ ch ∧ ch ≤ s.hist.length then
            let v := (s.msgAt ch).val
            some (doLoad s t th ch o ⟨pc.k, norm c.ceil rest v, v⟩)
          else none
      | .rmwSub n o :: rest =>
          if ch = 0 then
            let v := s.last.val
            some (doRmw s t th o (wrapSub c.ceil v n) ⟨pc.k, norm c.ceil rest v, v⟩)
          else none
      | .rmwAdd n o :: rest =>
          if ch = 0 then
            let v := s.last.val
            some (doRmw s t th o (wrapAdd c.ceil v n) ⟨pc.k, norm c.ceil rest v, v⟩)
          else none
      | .casLoop weak b so fo :: rest =>
          if pc.old < b.eval c.ceil then
            match ch with
            | 0 =>
                if s.last.val = pc.old then
                  some (doRmw s t th so (wrapAdd c.ceil pc.old 1) ⟨pc.k, [.ret .done], pc.old⟩)
                else none
            | i + 1 =>
                let v := (s.msgAt i).val
                if th.coh ≤ i ∧ i ≤ s.hist.length ∧ (weak ∨ v ≠ pc.old) then
                  some (doLoad s t th i fo ⟨pc.k, pc.code, v⟩)
                else none
          else if ch = 0 then
            some { s with thr := s.thr.set t { th with pc := some ⟨pc.k, norm c.ceil rest pc.old, pc.old⟩ } }
          else none
      | .simple (.fence o) :: rest =>
          if ch = 0 then
            let th' : Thread :=
              { th with view := if o.isAcquire then vjoin th.view th.pend else th.view,
                        pc := some ⟨pc.k, norm c.ceil rest pc.old, pc.old⟩ }
            some { s with thr := s.thr.set t th' }
          else none
      | .simple (.storeOldPlus k o) :: rest =>
          if ch = 0 then
            some (doStore s t th o (wrapAdd c.ceil pc.old k) ⟨pc.k, norm c.ceil rest pc.old, pc.old⟩)
          else none
      | .simple (.storeOldMinus k o) :: rest =>
          if ch = 0 then
            some (doStore s t th o (wrapSub c.ceil pc.old k) ⟨pc.k, norm c.ceil rest pc.old, pc.old⟩)
          else none
      | .simple (.debugLoad o) :: rest =>
          if c.debug then
            if th.coh ≤ ch ∧ ch ≤ s.hist.length then
              some (doLoad s t th ch o ⟨pc.k, norm c.ceil rest pc.old, pc.old⟩)
            else none
          else if ch = 0 then
            some { s with thr := s.thr.set t { th with pc := some ⟨pc.k, norm c.ceil rest pc.old, pc.old⟩ } }
          else none
      | .simple (.storeLit v o) :: rest =>
          if ch = 0 then
            some (doStore s t th o v ⟨pc.k, norm c.ceil rest pc.old, pc.old⟩)
          else none
      | .simple (.rmwSub n o) :: rest =>
          if ch = 0 then
            some (doRmw s t th o (wrapSub c.ceil s.last.val n) ⟨pc.k, norm c.ceil rest pc.old, pc.old⟩)
          else none
      | .simple (.rmwAdd n o) :: rest =>
          if ch = 0 then
            some (doRmw s t th o (wrapAdd c.ceil s.last.val n) ⟨pc.k, norm c.ceil rest pc.old, pc.old⟩)
          else none
      | .guard .. :: _ =>
          if ch = 0 then
            some { s with thr := s.thr.set t { th with pc := some ⟨pc.k, norm c.ceil pc.code pc.old, pc.old⟩ } }
          else none
      | .branch .. :: _ =>
          if ch = 0 then
            some { s with thr := s.thr.set t { th with pc := some ⟨pc.k, norm c.ceil pc.code pc.old, pc.old⟩ } }
          else none
      | .ret r :: _ =>
          if ch = 0 then finish s t { th with pc := none } pc.k pc.old r else none

def sendStep (s : State) (t u : Nat) : Option State :=
  match s.thr[t]?, s.thr[u]? with
  | some th, some uh =>
      if t = u || th.pc.isSome || uh.pc.isSome || !canOwn s t th then none else
      let th' : Thread := { th with handles := th.handles - 1 }
      let uh' : Thread :=
        { uh with handles := uh.handles + 1, view := vjoin uh.view th.view, coh := max uh.coh th.coh }
      some { s with thr := (s.thr.set t th').set u uh' }
  | _, _ => none

def borrowStep (s : State) (t u : Nat) : Option State :=
  match s.thr[t]?, s.thr[u]? with
  | some th, some uh =>
      if t = u || th.pc.isSome || uh.pc.isSome || uh.handles == 0 then none else
      let th' : Thread :=
        { th with refs := u :: th.refs, view := vjoin th.view uh.view, coh := max th.coh uh.coh }
      some { s with thr := s.thr.set t th' }
  | _, _ => none

def unborrowStep (s : State) (t u : Nat) : Option State :=
  match s.thr[t]?, s.thr[u]? with
  | some th, some uh =>
      if t = u || th.pc.isSome || uh.pc.isSome || !th.refs.contains u then none else
      let th' : Thread := { th with refs := th.refs.erase u }
      let uh' : Thread := { uh with view := vjoin uh.view th.view, coh := max uh.coh th.coh }
      some { s with thr := (s.thr.set t th').set u uh' }
  | _, _ => none

/-- One scheduler step. -/
def step (c : Cfg) (s : State) : Label → Option State
  | .start t a => startStep c s t a
  | .micro t ch => microStep c s t ch
  | .send t u => sendStep s t u
  | .borrow t u => borrowStep s t u
  | .unborrow t u => unborrowStep s t u

/-- Run a whole schedule (`none` when some choice is not enabled). -/
def run (c : Cfg) (s : State) : List Label → Option State
  | [] => some s
  | l :: ls => match step c s l with
    | none => none
    | some s' => run c s' ls

/-- A fresh thread holding `h` handles. -/
def Thread.init (h : Nat) : Thread :=
  { handles := h, view := [], pend := [], coh := 0, pc := none, res := [], refs := [] }

/-- Initial state: thread `i` holds `hs[i]` handles to one buffer created (and handed out,
with synchronisation) before the threads start; the count stores `shares - 1`. -/
def init (hs : List Nat) : State :=
  { hist := [], last := { val := hs.sum - 1, rel := [] }, thr := hs.map Thread.init,
    acc := [], wr := [], pval := 0, freed := 0, race := false, uaf := false }

/-! ## Side conditions on a protocol description

Bool-valued so that they can be decided on the generated description (`Props/C04.lean`) and
listed by the driver (`obligations`).  The theorems of `Props/C04.lean` take them as
hypotheses about an arbitrary `Proto`. -/

/-- The arm of a branch consists of fences only (it does not touch the counter). -/
def fenceArm (arm : List Simple) : Bool := arm.all Simple.isFence

/-- The arm of a branch contains an acquire fence. -/
def acqFenceArm (arm : List Simple) : Bool :=
  arm.any fun | .fence o => o.isAcquire | _ => false

/-- `decr` is `old = fetch_sub(1, _); if old == 0 { fences; Overflow } else { fences; Done }`:
in particular the decrement is an atomic read-modify-write. -/
def decrShape (p : Proto) : Bool :=
  match p.decr with
  | [.rmwSub 1 _, .branch .eq (.lit 0) thn .overflow els .done] => fenceArm thn && fenceArm els
  | _ => false

/-- The decrement has release semantics. -/
def decrIsRelease (p : Proto) : Bool :=
  match p.decr with
  | .rmwSub _ o :: _ => o.isRelease
  | _ => false

/-- The `Overflow` branch of `decr` acquires (acquire fence, or the RMW itself is acquire). -/
def decrAcquires (p : Proto) : Bool :=
  match p.decr with
  | [.rmwSub _ o, .branch _ _ thn _ _ _] => o.isAcquire || acqFenceArm thn
  | _ => false

/-- In `decr` nothing touches the counter after the `fetch_sub` (only fences and the returned
value): once the share is given back the block may be freed by another thread, in any build
profile (`debug_assert!` included). -/
def decrNoAccessAfterRelease (p : Proto) : Bool :=
  match p.decr with
  | .rmwSub _ _ :: rest => rest.all fun
      | .branch _ _ thn _ els _ => thn.all Simple.isFence && els.all Simple.isFence
      | .simple s => s.isFence
      | .ret _ => true
      | _ => false
  | _ => false

/-- `incr` is `old = load(_); while old < bound { CAS(old, old + 1) … }; Overflow`: in particular
the increment is an atomic read-modify-write. -/
def incrShape (p : Proto) : Bool :=
  match p.incr with
  | [.load _, .casLoop _ _ _ _, .ret .overflow] => true
  | _ => false

/-- The loop bound of `incr` keeps the stored count `≤ ceil`. -/
def incrBoundOk (ceil : Nat) (p : Proto) : Bool :=
  match p.incr with
  | [_, .casLoop _ b _ _, _] => decide (b.eval ceil ≤ ceil)
  | _ => false

/-- `is_unique` is `if load(_) == 0 { fences; true } else { fences; false }`. -/
def uniqShape (p : Proto) : Bool :=
  match p.isUnique with
  | [.load _, .branch .eq (.lit 0) thn (.bool true) els (.bool false)] => fenceArm thn && fenceArm els
  | _ => false

/-- The `true` branch of `is_unique` acquires (acquire fence, or the load itself is acquire). -/
def uniqAcquires (p : Proto) : Bool :=
  match p.isUnique with
  | [.load o, .branch _ _ thn _ _ _] => o.isAcquire || acqFenceArm thn
  | _ => false

/-- `get` is `load(_) + k`. -/
def getShape (p : Proto) : Bool :=
  match p.get with
  | [.load _, .ret (.oldPlus _)] => true
  | _ => false

/-- Source sites of the rows of `code` that contain a plain `store` (falsifying rows of
`noPlainStore`), given the per-row sites emitted by the translator. -/
def storeSites (code : List AStep) (sites : List String) : List String :=
  ((code.zip sites).filter fun p => p.1.hasStore).map (·.2)

/-- The named side conditions, for the driver's `obligations` command (`one` = the value a
fresh counter is created with; `incr_bound_le_ceil` is shown for `ceil = 10`). -/
def obligations (p : Proto) (one : Nat) : List (String × Bool) :=
  [("one_is_zero", one == 0),
   ("decr_is_rmw", decrShape p),
   ("decr_is_release", decrIsRelease p),
   ("decr_overflow_has_acquire_fence", decrAcquires p),
   ("no_counter_access_after_release", decrNoAccessAfterRelease p),
   ("incr_is_rmw", incrShape p),
   ("incr_bound_le_ceil", incrBoundOk 10 p),
   ("is_unique_shape", uniqShape p),
   ("is_unique_has_acquire_fence", uniqAcquires p),
   ("get_is_load", getShape p)]

end HipVerif.Model.Conc
