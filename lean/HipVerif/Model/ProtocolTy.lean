/-
Types for the GENERATED `Gen/Protocol.lean` (the order in which descriptor-juggling functions
touch the shared payload and the share count) and the legality predicate decided over it.
-/
namespace HipVerif.ProtocolTy

inductive Ev where
  | testUnique | take | read | write | incr | release | forget | moveOut | assignSelf
  deriving Repr, DecidableEq

structure FnProto where
  fn_ : String
  /-- the distinct event sequences of the function's control-flow paths, in source order -/
  paths : List (List Ev)
  /-- an `unsafe fn` whose documented precondition is sole ownership -/
  assumesUnique : Bool
  loc : String
  deriving Repr, DecidableEq

/-- A share holder's event sequence is legal when, reading left to right:
  * after a `release` there is no payload access (`read`/`write`/`take`) and no count operation
    (`incr`/`testUnique`) any more — the memory may already belong to somebody else or be freed —
    and no second release;
  * a `write`/`take` happens only after a uniqueness test (or the function assumes uniqueness);
  * assigning through `*self` drops (releases) the descriptor unless it was moved out of `self`
    before (`replace(self, …)`, `take_allocated`, `union_move`). -/
def legalFrom (released tested moved : Bool) : List Ev → Bool
  | [] => true
  | .release :: rest => !released && legalFrom true tested moved rest
  | .assignSelf :: rest =>
    if moved then legalFrom released tested moved rest else !released && legalFrom true tested true rest
  | .moveOut :: rest => legalFrom released tested true rest
  | .forget :: rest => legalFrom released tested moved rest
  | .testUnique :: rest => !released && legalFrom released true moved rest
  | .incr :: rest => !released && legalFrom released tested moved rest
  | .read :: rest => !released && legalFrom released tested moved rest
  | .write :: rest => !released && tested && legalFrom released tested moved rest
  | .take :: rest => !released && tested && legalFrom released tested moved rest

def legal (f : FnProto) : Bool := f.paths.all (legalFrom false f.assumesUnique false)

end HipVerif.ProtocolTy
