/-
C06 (signature part) — reviewed lists and Bool row predicates over `Gen/Doors.lean`.
(In Model/, not Props/, so that `tables_driver` still builds when a regenerated table breaks a
theorem of `Props/C06Doors.lean`.)
-/
import HipVerif.Model.DoorsTy
import HipVerif.Gen.Doors

namespace HipVerif.Model.Doors
open HipVerif.Model.PubFns (encKey)
open HipVerif.Gen.Doors (doors)

/-- Infallible constructors (by simple name) that take non-UTF-8-typed input and REPLACE what
    is invalid (U+FFFD) instead of failing: `String::from_utf8_lossy`, `String::from_utf16_lossy`
    and `OsStr::to_string_lossy` wrappers. Their bodies are covered by C06 `lossy_*`. -/
def lossyFns : List Nat := [key% "from_utf8_lossy", key% "from_utf16_lossy", key% "to_str_lossy"]

/-- The reviewed unsafe doors (full row names): unsafe fns that make a `HipStr` from input that
    is not UTF-8 by type, or an OS string / path from raw bytes. -/
def uncheckedDoors : List Nat := [key% "string::HipStr::from_utf8_unchecked"]

/-- Input classes a `HipStr` may be made from without any check: UTF-8 by type, or no content. -/
def strInputOk (c : InClass) : Bool := c == .strLike || c == .scalar

/-- Row predicate of `str_doors_checked`: a SAFE fn producing a `HipStr` from anything that is
    not UTF-8 by type (raw bytes, UTF-16 units, OS strings, a decoder, anything unrecognised)
    is fallible or one of the lossy constructors. -/
def strDoorOk (d : Door) : Bool :=
  !d.producesStr || d.isUnsafe || d.inputs.all strInputOk || d.fallible ||
    lossyFns.contains d.simpleKey

/-- Row predicate of `os_doors_typed`: a SAFE fn producing a `HipOsStr`/`HipPath` takes only
    str-like / os-like / content-free inputs — a decoder only when the result is fallible;
    raw bytes (and unrecognised inputs) never. -/
def osDoorOk (d : Door) : Bool :=
  !(d.producesOs || d.producesPath) || d.isUnsafe ||
    d.inputs.all fun c =>
      c == .strLike || c == .osLike || c == .scalar || (c == .decoder && d.fallible)

/-- Is the row an UNSAFE door: unsafe, and it makes a `HipStr` from non-UTF-8-typed input or an
    OS string / path from raw bytes / unrecognised input? -/
def isUncheckedDoor (d : Door) : Bool :=
  d.isUnsafe &&
    ((d.producesStr && !d.inputs.all strInputOk) ||
     ((d.producesOs || d.producesPath) &&
        d.inputs.any fun c => c == .bytesLike || c == .other || c == .decoder))

/-- Unsafe doors that are not reviewed. -/
def unreviewedDoors : List Door :=
  doors.filter fun d => isUncheckedDoor d && !uncheckedDoors.contains d.key

/-- Reviewed doors that no longer exist. -/
def staleDoors : List Nat :=
  uncheckedDoors.filter fun k => !(doors.any fun d => isUncheckedDoor d && d.key == k)

/-- Generated keys agree with the strings next to them (evaluated, not kernel-checked). -/
def doorKeysOk : Bool := doors.all fun d => d.key == encKey d.name

end HipVerif.Model.Doors
