/-
L0 ("slot level") model of `hipstr::vecs::{InlineVec, ThinVec}` — core types and primitives.

A container is an array of slots (`uninit | init id`), a length, and (ThinVec) a prefix slot and a
heap buffer.  Elements are identity-tracked: every value ever created carries a unique id.
Raw copies (`ptr::copy`, `copy_nonoverlapping`, `ptr::read`, `ptr::write`) move slot contents
bitwise, i.e. they DUPLICATE ids; the monitor in `Mem` (the list `out` of ids that were dropped or
handed to the caller) flags every drop/return of an id that is already out (`doubleDrop`) and
every drop/read of a never-written slot (`dropUninit`/`readUninit`).

User callbacks (`Clone::clone`, `Drop::drop`, `Default::default`, `Iterator::next`, `FnMut`)
go through `Mem.tick`: the invocation for which the budget is `some 0` panics (once).
-/
namespace HipVerif.Slots

inductive Slot where
  | uninit
  | init (id : Nat)
  deriving DecidableEq, Repr, Inhabited

inductive Ev where
  | mk (a : Nat)            -- a value is created (by the caller, a generator, an iterator, Default)
  | clone (a b : Nat)       -- `a.clone()` produced `b`
  | drop (a : Nat)          -- `Drop::drop` ran on `a`
  | ret (a : Nat)           -- `a` was handed back to the caller
  | allocBuf (b : Nat)
  | freeBuf (b : Nat)
  | oob                     -- write beyond the capacity
  | doubleDrop (a : Nat)    -- drop/return of an id already dropped or returned
  | dropUninit              -- drop of a never-initialised slot
  | readUninit              -- read (clone/move) of a never-initialised slot or of a dead id
  | doubleFree (b : Nat)
  deriving DecidableEq, Repr

def Ev.bad : Ev → Bool
  | .oob | .doubleDrop _ | .dropUninit | .readUninit | .doubleFree _ => true
  | _ => false

/-- Global memory/monitor state. `trace` is newest-first. -/
structure Mem where
  next : Nat := 0
  out : List Nat := []
  trace : List Ev := []
  budget : Option Nat := none
  calls : Nat := 0
  nextBuf : Nat := 0
  bufs : List Nat := []
  deriving Repr

def Mem.emit (e : Ev) (m : Mem) : Mem := { m with trace := e :: m.trace }

/-- One user-callback invocation; `true` = this invocation panics. -/
def Mem.tick (m : Mem) : Bool × Mem :=
  match m.budget with
  | none => (false, { m with calls := m.calls + 1 })
  | some 0 => (true, { m with calls := m.calls + 1, budget := none })
  | some (k + 1) => (false, { m with calls := m.calls + 1, budget := some k })

def Mem.fresh (m : Mem) : Nat × Mem := (m.next, { m with next := m.next + 1 })

/-- The caller creates a value (no callback involved). -/
def Mem.mkVal (m : Mem) : Nat × Mem :=
  (m.next, { m with next := m.next + 1, trace := .mk m.next :: m.trace })

/-- A user callback produces a value (generator, `Iterator::next`, `Default::default`). -/
def Mem.genVal (m : Mem) : Option Nat × Mem :=
  let (p, m) := m.tick
  if p then (none, m) else let (a, m) := m.mkVal; (some a, m)

/-- The value `a` is handed (back) to the caller. -/
def Mem.retId (a : Nat) (m : Mem) : Mem :=
  if a ∈ m.out then m.emit (.doubleDrop a)
  else { m with out := a :: m.out, trace := .ret a :: m.trace }

/-- The record part of `Drop::drop` (no callback accounting). -/
def Mem.markDrop (a : Nat) (m : Mem) : Mem :=
  if a ∈ m.out then m.emit (.doubleDrop a)
  else { m with out := a :: m.out, trace := .drop a :: m.trace }

/-- `Drop::drop` on the value `a`: recorded, then the callback may panic. -/
def Mem.dropId (a : Nat) (m : Mem) : Bool × Mem := (m.markDrop a).tick

def Mem.dropSlot : Slot → Mem → Bool × Mem
  | .uninit, m => (false, m.emit .dropUninit)
  | .init a, m => m.dropId a

/-- `a.clone()`: the callback may panic (before anything is created). -/
def Mem.cloneId (a : Nat) (m : Mem) : Option Nat × Mem :=
  let (p, m) := m.tick
  if p then (none, m)
  else (some m.next, { m with next := m.next + 1, trace := .clone a m.next :: m.trace })

/-- Clone through a reference to a slot of a container. -/
def Mem.cloneSlot : Slot → Mem → Option Nat × Mem
  | .uninit, m => (none, m.emit .readUninit)
  | .init a, m => if a ∈ m.out then (none, m.emit .readUninit) else m.cloneId a

/-- `ptr::drop_in_place::<[T]>`: after the first panic the remaining elements are still dropped,
then the panic propagates (a second panic would abort; with a one-shot budget it cannot happen). -/
def Mem.dropSlice : List Slot → Mem → Bool × Mem
  | [], m => (false, m)
  | x :: xs, m =>
    let (p, m) := m.dropSlot x
    let (q, m) := Mem.dropSlice xs m
    (p || q, m)

/-- `for i in a..b { assume_init_drop(i) }`: the first panic leaves the loop. -/
def Mem.dropLoop : List Slot → Mem → Bool × Mem
  | [], m => (false, m)
  | x :: xs, m =>
    let (p, m) := m.dropSlot x
    if p then (true, m) else Mem.dropLoop xs m

def Mem.alloc (m : Mem) : Nat × Mem :=
  (m.nextBuf, { m with nextBuf := m.nextBuf + 1, bufs := m.nextBuf :: m.bufs,
                        trace := .allocBuf m.nextBuf :: m.trace })

def Mem.free (b : Nat) (m : Mem) : Mem :=
  if b ∈ m.bufs then { m with bufs := m.bufs.erase b, trace := .freeBuf b :: m.trace }
  else m.emit (.doubleFree b)

/-- Reading a slot for a move (`ptr::read`, `assume_init_read`): nothing happens to the slot. -/
def Mem.readMove : Slot → Mem → Nat × Mem
  | .uninit, m => (0, m.emit .readUninit)
  | .init a, m => (a, m)

/-! ### Containers -/

/-- what does not change when slots are written: kind, element size, prefix, buffer -/
structure Hdr where
  thin : Bool := false
  /-- `size_of::<T>()` (ThinVec only: minimal capacity and capacity rounding). -/
  esz : Nat := 8
  /-- the prefix type has a destructor and a panicking-capable `Default` -/
  tracked : Bool := false
  pref : Slot := .uninit
  buf : Nat := 0
  /-- the container exists (ThinVec: owns its buffer) -/
  alive : Bool := true
  deriving Repr

structure Vec where
  slots : List Slot := []
  len : Nat := 0
  h : Hdr := {}
  deriving Repr

def Vec.cap (v : Vec) : Nat := v.slots.length
def Vec.get (i : Nat) (v : Vec) : Slot := v.slots[i]?.getD .uninit
def Vec.write (i : Nat) (x : Slot) (v : Vec) : Vec := { v with slots := v.slots.set i x }
def Vec.setLen (n : Nat) (v : Vec) : Vec := { v with len := n }
/-- slots `[a, b)` -/
def Vec.range (a b : Nat) (v : Vec) : List Slot := (v.slots.drop a).take (b - a)
/-- bitwise copy of `c` to `dst..` (callers check `dst + c.length ≤ cap`) -/
def Vec.writeChunk (dst : Nat) (c : List Slot) (v : Vec) : Vec :=
  { v with slots := v.slots.take dst ++ c ++ v.slots.drop (dst + c.length) }
/-- `ptr::copy(src, dst, n)` inside one buffer (memmove semantics) -/
def Vec.copyWithin (src dst n : Nat) (v : Vec) : Vec := v.writeChunk dst (v.range src (src + n))
def Vec.swap (i j : Nat) (v : Vec) : Vec :=
  { v with slots := (v.slots.set i (v.get j)).set j (v.get i) }

structure St where
  mem : Mem := {}
  v : Vec := {}
  deriving Repr

inductive Ret where
  | unit | none | some (a : Nat) | errFull (a : Nat) | errOob (a : Nat) | panic | na
  deriving DecidableEq, Repr

/-- bounds check of a raw write: a violation is recorded as `oob` -/
def St.chk (c : Bool) (s : St) : St := if c then s else { s with mem := s.mem.emit .oob }

/-- write one slot of the main container (`ptr::write`, `MaybeUninit::write`) -/
def St.wr (i : Nat) (x : Slot) (s : St) : St :=
  if i < s.v.cap then { s with v := s.v.write i x } else { s with mem := s.mem.emit .oob }

/-- bitwise copy of a chunk into the main container -/
def St.wrChunk (dst : Nat) (c : List Slot) (s : St) : St :=
  if dst + c.length ≤ s.v.cap then { s with v := s.v.writeChunk dst c }
  else { s with mem := s.mem.emit .oob }

def St.copyWithin (src dst n : Nat) (s : St) : St := s.wrChunk dst (s.v.range src (src + n))

def St.setLen (n : Nat) (s : St) : St := { s with v := s.v.setLen n }

/-- apply a memory primitive -/
@[inline] def St.onMem {α} (f : Mem → α × Mem) (s : St) : α × St :=
  let (a, m) := f s.mem
  (a, { s with mem := m })

@[inline] def St.withMem (f : Mem → Mem) (s : St) : St := { s with mem := f s.mem }

end HipVerif.Slots

namespace HipVerif.Slots

/-! ### Shared helpers -/

/-- one pull on a `Drain` / `IntoIter`: what the types DEFINE (`next`, `next_back`) and the provided
methods as std's default implementations derive them (`nth(k)` = `k` times `next` dropping the item,
then `next`; `skip(k).next()` and the second pull of `step_by(k+1)` are `nth(k)`; `rev().next()` is
`next_back`) -/
inductive IStep where
  | front | back
  | nth (k : Nat)
  | nthBack (k : Nat)
  deriving DecidableEq, Repr

/-- how the iterator ends: dropped, forgotten, or consumed by value through a provided method
(`last`, `count`, `fold`/`for_each`, `rfold` — all of them std's `fold` loops over `next` /
`next_back`, after which the iterator is dropped) -/
inductive IFin where
  | drop | leak | last | count | fold | rfold
  deriving DecidableEq, Repr

/-- the caller creates `n` values -/
def mkVals : Nat → St → List Nat × St
  | 0, s => ([], s)
  | n + 1, s =>
    let (a, s) := s.onMem Mem.mkVal
    let (as, s) := mkVals n s
    (a :: as, s)

/-- values the caller still owns are released by the caller (recorded, no callback accounting) -/
def Mem.markDrops : List Nat → Mem → Mem
  | [], m => m
  | a :: as, m => Mem.markDrops as (m.markDrop a)

def Mem.markDropSlots : List Slot → Mem → Mem
  | [], m => m
  | .uninit :: xs, m => Mem.markDropSlots xs (m.emit .dropUninit)
  | .init a :: xs, m => Mem.markDropSlots xs (m.markDrop a)

/-- `vec.push`-style store: write slot `len`, then `set_len(len + 1)` -/
def St.store (a : Nat) (s : St) : St := (s.wr s.v.len (.init a)).setLen (s.v.len + 1)

def Vec.store (a : Nat) (o : Vec) : Vec := (o.write o.len (.init a)).setLen (o.len + 1)

def uninits (n : Nat) : List Slot := List.replicate n .uninit

/-- `size_of::<Header>()` for an 8-byte prefix: prefix, cap, len -/
def hdr : Nat := 24

/-- `ThinVec::MINIMAL_CAPACITY` -/
def minCap (esz : Nat) : Nat :=
  if esz = 0 then 0 else if esz ≥ 64 then 1 else if esz ≥ 32 then 3 else 32 / esz

/-- capacity actually obtained for a requested payload: `layout(n).2` (header 24 bytes, align 8) -/
def roundCap (esz n : Nat) : Nat :=
  if esz = 0 then n else ((hdr + n * esz + 7) / 8 * 8 - hdr) / esz

end HipVerif.Slots
