/-
Types of the C01 coverage gate for the byte string and its representation layer:
`Gen/BytApi.lean` (REGENERATED from /repo/src and harness/src/bin/coredrive.rs by
harness/src/extract/bytapi.rs) imports this file and contains data only.
Keys are as in `Model/PubFnsTy.lean`.
-/
namespace HipVerif.Model.BytApi

inductive Vis where
  | pub
  | crate
  | priv
  | traitImpl
  deriving Repr, DecidableEq, Inhabited

/-- One fn of the family: inherent / associated fns (any visibility) of `HipByt`, `Union`,
    `Allocated`, `TaggedSmart`, `Borrowed`, `Smart`, the free fns of `bytes` and `bytes::raw`,
    and the `Clone`/`Drop`/`Default`/`From`/`Deref`/`AsRef` impl fns involving `HipByt`.
    `reachedFrom` = INDICES (in `bytFns`) of the public entry points — `pub` fns of `HipByt` and
    the trait-impl fns — from which the fn is reachable in the family's call graph (computed by
    the translator; name-based, over-approximate for method calls). -/
structure BytFn where
  name : String
  key : Nat
  simple : String
  simpleKey : Nat
  ty : String
  vis : Vis
  isUnsafe : Bool
  reachedFrom : List Nat
  loc : String
  deriving Repr, Inhabited

/-- How a fn of the family is covered by the C01 machinery. -/
inductive Cover where
  /-- a public entry point that IS one (or several) operations of the Core model: each name
      (key) must be in the model's vocabulary and in `coredrive`'s dispatch, and
      `impl Subject for HipByt` of coredrive must call a method of the fn's own name -/
  | coreOp (ops : List Nat)
  /-- same, but the call is implicit in Rust (`Drop::drop`): only the vocabulary is checked -/
  | coreOpImplicit (ops : List Nat) (why : String)
  /-- a helper of the representation layer, reached only through the named public entry points
      (keys of their full names): each must have a `coreOp`/`coreOpImplicit`/`monitoredBy` entry
      and the generated call graph must reach the helper from it -/
  | viaOp (entryPoints : List Nat)
  /-- called by one of coredrive's per-step monitors (observe / repr monitor); coredrive must
      call a method of the fn's name somewhere -/
  | monitoredBy (what : String)
  /-- reviewed: deliberately not driven by the Core differential, with the reason -/
  | reviewedNotDriven (reason : String)
  deriving Repr, Inhabited

end HipVerif.Model.BytApi
