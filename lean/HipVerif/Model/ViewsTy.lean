/-!
# Types of the generated comparison-impl table (`Gen/CmpImpls.lean`)  — property C12

The translator (`harness/src/extract/cmpimpls.rs`) records, for every `PartialEq` / `PartialOrd` /
`Ord` / `Eq` / `Hash` / `Borrow` impl the crate offers on `HipByt`, `HipStr`, `HipOsStr`, `HipPath`,
**what the source literally says**: operand types, and the shape of the body (which helper function
with which `impl AsRef<…>` bounds and which operator, or which accessors are compared). It never
decides through which *view* (bytes / str / OsStr / Path) the impl compares: that is computed in Lean
(`Model/Views.lean`, `viewOf`) from the recorded data.

Data only; no functions with proof content here.
-/

namespace HipVerif.Views

/-- The four string-like types of the crate (any backend, any lifetime). -/
inductive HipTy where
  | byt   -- `HipByt<'_, B>`
  | str   -- `HipStr<'_, B>`
  | os    -- `HipOsStr<'_, B>`
  | path  -- `HipPath<'_, B>`
  deriving DecidableEq, Repr, Inhabited

/-- Standard-library (and `bstr`) operand types that appear in the `symmetric_*!` tables. -/
inductive StdTy where
  | slice      -- `[u8]`
  | array      -- `[u8; N]`
  | vec        -- `Vec<u8>`
  | boxSlice   -- `Box<[u8]>`
  | cowSlice   -- `Cow<'_, [u8]>`
  | str        -- `str`
  | string     -- `String`
  | boxStr     -- `Box<str>`
  | cowStr     -- `Cow<'_, str>`
  | osStr      -- `OsStr`
  | osString   -- `OsString`
  | boxOsStr   -- `Box<OsStr>`
  | cowOsStr   -- `Cow<'_, OsStr>`
  | path       -- `Path`
  | pathBuf    -- `PathBuf`
  | boxPath    -- `Box<Path>`
  | cowPath    -- `Cow<'_, Path>`
  | bstr       -- `bstr::BStr`
  | bstring    -- `bstr::BString`
  deriving DecidableEq, Repr, Inhabited

/-- An operand type of an impl: a Hip type, or a std type possibly behind one `&`. -/
inductive Operand where
  | hip (t : HipTy)
  | std (t : StdTy) (ref : Bool)
  deriving DecidableEq, Repr, Inhabited

/-- Which trait the impl is for. -/
inductive TraitKind where
  | partialEq | partialOrd | ord | eq | hash | borrow
  deriving DecidableEq, Repr, Inhabited

/-- The unsized std "view" types: what an `impl AsRef<X>` bound names, what an accessor returns,
    what a `Borrow<X>` impl targets. -/
inductive Target where
  | slice   -- `[u8]`
  | str     -- `str`
  | osStr   -- `OsStr`
  | path    -- `Path`
  | bstr    -- `BStr`
  deriving DecidableEq, Repr, Inhabited

/-- The operator a body applies to the two views. -/
inductive CmpOp where
  | eqeq        -- `a == b`
  | partialCmp  -- `a.partial_cmp(b)`
  | cmp         -- `a.cmp(b)`
  deriving DecidableEq, Repr, Inhabited

/-- Which of the method's two parameters is passed in a helper-call argument position. -/
inductive Arg where
  | self | other
  deriving DecidableEq, Repr, Inhabited

/-- Inherent accessors of the Hip types that hand-written impls go through. -/
inductive Accessor where
  | asSlice | asBytes | asStr | asOsStr | asPath
  deriving DecidableEq, Repr, Inhabited

/-- A short-circuit placed in front of the comparison with `||`. -/
inductive Shortcut where
  | none
  /-- `ptr::eq(self.0.as_encoded_bytes(), other.0.as_encoded_bytes()) || …`
      (fat-pointer equality: same address and same length). -/
  | ptrEqEncodedBytes
  deriving DecidableEq, Repr, Inhabited

/-- A wrapper applied to the accessor result in a `Borrow` body. -/
inductive Wrapper where
  | none
  | bstrNew   -- `BStr::new(…)`
  deriving DecidableEq, Repr, Inhabited

/-- What the body of an impl does, as written in the source. -/
inductive Body where
  /-- Macro-generated: the method body is `f(arg1, arg2)` (followed by `.map(Ordering::reverse)` iff
      `reverse`), where `fn f(a: impl AsRef<asRef1>, b: impl AsRef<asRef2>)` has the body
      `a.as_ref() <op> b.as_ref()`. `helperLoc`/`macroLoc`: where `f` and the macro arm are defined. -/
  | helper (name : String) (asRef1 asRef2 : Target) (op : CmpOp) (arg1 arg2 : Arg) (reverse : Bool)
           (helperLoc macroLoc : String)
  /-- Hand-written: `[shortcut ||] self.acc() <op> other.acc()`. -/
  | viaAccessor (shortcut : Shortcut) (acc : Accessor) (op : CmpOp)
  /-- Hand-written: `self.inherent_eq(other)` (`bytes/raw.rs`, steps in `Gen.CmpImpls.inherentEq`). -/
  | inherentEq
  /-- Hand-written: `self.0 == other.0`: delegates to the impl of the wrapped Hip type
      (`Gen.CmpImpls.newtypes`). -/
  | field0Eq
  /-- `impl Eq`: no body. -/
  | marker
  /-- `Hash`: `self.acc().hash(state)`. -/
  | hashVia (acc : Accessor)
  deriving DecidableEq, Repr, Inhabited

/-- One impl: `impl <trait><rhs> for <lhs>` (`rhs = lhs` for `Ord`/`Eq`/`Hash`). `feature` is the
    `#[cfg(feature = …)]` guarding it (file-level or item-level), `""` when none. -/
structure CmpRow where
  trait : TraitKind
  lhs : Operand
  rhs : Operand
  body : Body
  feature : String
  loc : String
  deriving DecidableEq, Repr, Inhabited

/-- `impl Borrow<target> for owner { fn borrow(&self) -> &target { wrap(self.acc()) } }`. -/
structure BorrowRow where
  owner : HipTy
  target : Target
  acc : Accessor
  wrap : Wrapper
  feature : String
  loc : String
  deriving DecidableEq, Repr, Inhabited

/-- `pub struct outer<'borrow, B>(inner<'borrow, B>)`: what `.0` is. -/
structure NewtypeRow where
  outer : HipTy
  inner : HipTy
  loc : String
  deriving DecidableEq, Repr, Inhabited

/-- Signature of an inherent accessor: `fn acc(&self) -> &ret` on `owner`. -/
structure AccessorSig where
  owner : HipTy
  acc : Accessor
  ret : Target
  loc : String
  deriving DecidableEq, Repr, Inhabited

/-- One impl template inside `symmetric_eq!` / `symmetric_ord!` for a row `($a, $b) = $f`:
    `impl <trait><other> for <self> { fn …(&self, other) { $f(arg1, arg2)[.map(Ordering::reverse)] } }`
    where `selfIsA` tells whether `Self = $a` (then the parameter type is `$b`) or `Self = $b`. -/
structure MacroTemplate where
  macroName : String
  trait : TraitKind
  selfIsA : Bool
  arg1 : Arg
  arg2 : Arg
  reverse : Bool
  loc : String
  deriving DecidableEq, Repr, Inhabited

/-- The statements of `HipByt::inherent_eq` in source order. -/
inductive InhStep where
  /-- `if self.len() != other.len() { return r; }` -/
  | ifLenNeReturn (r : Bool)
  /-- `if core::ptr::eq(self.as_ptr(), other.as_ptr()) { return r; }` -/
  | ifPtrEqReturn (r : Bool)
  /-- tail expression `memcmp(self_ptr, other_ptr, len * size_of::<u8>()) == 0` -/
  | retMemcmpIsZero
  deriving DecidableEq, Repr, Inhabited

end HipVerif.Views
