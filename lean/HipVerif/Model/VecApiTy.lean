/-
Data types of the vector-API coverage gate (property C13).

`Gen/VecApi.lean` (regenerated from /repo/src and from harness/src/bin/vecdrive.rs by
`harness/src/extract/vecapi.rs`) contains only data of these types; the reviewed map and the
row predicates are in `Model/VecApi.lean`, the theorem in `Props/C13Api.lean`.
-/
namespace HipVerif.Model.VecApi

/-- One callable function of the vector family (a row of the public-function table whose path is
    under `vecs::`, `common::drain::` or `common::traits::`). Keys are as in `Model/PubFnsTy.lean`
    (UTF-8 bytes read as a base-256 number). -/
structure VecFn where
  name : String
  key : Nat
  /-- last path segment -/
  simple : String
  simpleKey : Nat
  isUnsafe : Bool
  loc : String
  deriving Repr, Inhabited

/-- How a function of the vector family is covered by the C13 machinery. -/
inductive Cover where
  /-- driven by the operation of the list model with this protocol name (key): the name must be
      an operation of `Model/Vecs.lean`, be dispatched by `vecdrive`, and `vecdrive` must call a
      method with the function's own name -/
  | drivenAs (op : Nat)
  /-- called by one of `vecdrive`'s per-step monitors (accessor agreement, iterator views, error
      messages); `vecdrive` must call a method with the function's own name -/
  | monitoredBy (what : String)
  /-- reached only through another call that `vecdrive` makes (key of that identifier) -/
  | indirect (via : Nat) (why : String)
  /-- reviewed: deliberately not driven by C13, with the reason -/
  | reviewedNotDriven (reason : String)
  deriving Repr, Inhabited

end HipVerif.Model.VecApi
