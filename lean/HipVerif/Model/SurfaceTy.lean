/-
Data types of the "surface" table (C17): what exists in the crate besides its callable
functions — trait impls and the methods they define, `unsafe impl`s, exported macro arms,
compile-time guards. `Gen/Surface.lean` (regenerated from /repo/src by
`harness/src/extract/surface.rs`) contains only data of these types. Strings are for display;
comparisons are on numeric keys (`Model/PubFnsTy.lean`).
-/
import HipVerif.Model.PubFnsTy

namespace HipVerif.Model.Surface

inductive ImplKind where
  /-- `impl Trait for Type { … }` in the source -/
  | written
  /-- one entry of a `#[derive(…)]` -/
  | derived
  /-- an `impl … Trait for … { … }` arm found in a `macro_rules!` body (type = `name!`) -/
  | macroArm
  /-- an item-position macro invocation (type = `name!`, trait = the file; `entries` =
      number of `;`-terminated entries: the expansion itself is not read) -/
  | macroCall
  /-- `impl !Trait for Type` -/
  | negative
  deriving Repr, DecidableEq, Inhabited

/-- One trait impl. `tyKey` = key of the self type (module path of a crate type, else the
    written type), `traitKey` = key of the LAST segment of the trait path (generic arguments
    dropped: `PartialEq<str>` and `PartialEq<String>` for one type are two rows of one pair),
    `methods` = the fns the impl defines. -/
structure ImplRow where
  kind : ImplKind
  tyKey : Nat
  ty : String
  traitKey : Nat
  traitShown : String
  methods : List (Nat × String)
  entries : Nat
  isUnsafe : Bool
  loc : String
  deriving Repr, Inhabited

/-- One `unsafe impl`. `bounds` = (index of the target's type parameter, key of the bound);
    `fieldParams` = indices of the type parameters that occur in the target's field types —
    by value, behind `&`/raw pointers/`NonNull`/`PhantomData`, as arguments of other types
    (the heap header of `ThinVec`) — `none` when the impl is specialised (its self type is not
    the target applied to distinct impl parameters). -/
structure UnsafeImpl where
  tyKey : Nat
  ty : String
  traitKey : Nat
  nparams : Nat
  bounds : List (Nat × Nat)
  fieldParams : Option (List Nat)
  shown : String
  loc : String
  deriving Repr, Inhabited

/-- One arm of a `#[macro_export] macro_rules!`. `inUnsafe` = (metavariable, fragment kind) of
    every `$metavariable` of kind expr/tt/block/stmt/pat that occurs inside an `unsafe { … }` of
    the expansion; `exprVars` = the `expr` metavariables of the matcher. -/
structure MacroArm where
  nameKey : Nat
  name : String
  arm : Nat
  hasUnsafe : Bool
  inUnsafe : List (String × String)
  exprVars : List String
  loc : String
  deriving Repr, Inhabited

inductive GuardCtx where
  /-- inside `const { … }` or an associated `const X: () = { … }`: always compile time -/
  | constBlock
  /-- an `assert!` of a `const fn` body: compile time when the fn is called in const context -/
  | constFn
  deriving Repr, DecidableEq, Inhabited

/-- One `assert!` that (can) run at compile time; `cond` = its condition, tokens normalised. -/
structure ConstGuard where
  ctx : GuardCtx
  ownerKey : Nat
  owner : String
  condKey : Nat
  cond : String
  loc : String
  deriving Repr, Inhabited

end HipVerif.Model.Surface
