/-
  Data types of the generated serialisation table `HipVerif/Gen/Visitors.lean` (property C16).

  The translator (`harness/src/extract/visitors.rs`) reads the feature-gated files
  `src/{bytes,string,os_string,path}/serde.rs`, `src/{bytes,string}/borsh.rs` and
  `src/{bytes,string}/bstr.rs` and emits DATA of the types below; the interpretation of that
  data (what a row *does*) lives in `HipVerif/Model/Codec.lean`.

  Every row carries the `file:line` of the item it was read from.
-/

namespace HipVerif.Codec

/-- The four string-family types of the crate. -/
inductive HipKind where
  | byt | str | os | path
  deriving DecidableEq, Repr, Inhabited

/-- The `serde::de::Visitor` implementations of the crate: the owned and the borrowed visitor of
`src/bytes/serde.rs` and of `src/string/serde.rs`. -/
inductive VisitorId where
  | bytOwned | bytBorrowed | strOwned | strBorrowed
  deriving DecidableEq, Repr, Inhabited

/-- The `Visitor::visit_*` methods that matter for string-like data (the serde data-model entry
points a deserializer may call with string/bytes/sequence/char data). -/
inductive Method where
  | str            -- `visit_str(&str)`            transient
  | borrowedStr    -- `visit_borrowed_str(&'de str)`
  | string         -- `visit_string(String)`       owned buffer
  | bytes          -- `visit_bytes(&[u8])`         transient
  | borrowedBytes  -- `visit_borrowed_bytes(&'de [u8])`
  | byteBuf        -- `visit_byte_buf(Vec<u8>)`    owned buffer
  | seq            -- `visit_seq(SeqAccess)`
  | char           -- `visit_char(char)`
  deriving DecidableEq, Repr, Inhabited

/-- What the body of one `visit_*` method does (template-matched by the translator).

* `copy`           — `Hip::from(&slice)` / `Hip::from(v.as_bytes())`: copies the transient data.
* `take`           — `Hip::from(Vec | String)` / `Hip::from(v.into_bytes())`: takes the owned buffer.
* `borrow`         — `Hip::borrowed(v)`: keeps a reference to the deserializer's `'de` data.
* `validateThen x` — `match from_utf8(v) { Ok(s) => x, Err(_) => Err(invalid_value(..)) }`.
* `seq cap`        — `Vec::with_capacity(min(size_hint.unwrap_or(0), cap))`, push every `u8`
                     element (`?` on an element error), then `Hip::from(vec)`; `cap = none` when
                     the source applies no cap to the hint (`with_capacity(size_hint.unwrap_or(0))`).
* `error`          — unconditional `Err(..)`. -/
inductive Body where
  | copy
  | take
  | borrow
  | validateThen (next : Body)
  | seq (cap : Option Nat)
  | error
  deriving DecidableEq, Repr, Inhabited

/-- One `fn visit_*` of one `impl Visitor`. -/
structure MethodRow where
  method : Method
  body   : Body
  loc    : String
  deriving DecidableEq, Repr, Inhabited

/-- One `impl Visitor<'de> for X`.  `borrowsDe` = the `Value` type carries the visitor's own
`'de` lifetime (`type Value = HipByt<'de, B>`), i.e. the result may borrow from the input. -/
structure VisitorRow where
  id        : VisitorId
  kind      : HipKind
  name      : String
  borrowsDe : Bool
  methods   : List MethodRow
  loc       : String
  deriving DecidableEq, Repr, Inhabited

/-- `Deserializer::deserialize_*` hint passed by a `Deserialize` implementation. -/
inductive Hint where
  | bytes | byteBuf | str | string | seq | any
  deriving DecidableEq, Repr, Inhabited

/-- Which deserialisation entry point: `<T as Deserialize>::deserialize` (`owned`) or the free
function `borrow_deserialize` of the type's `serde` module (`borrowing`). -/
inductive Entry where
  | owned | borrowing
  deriving DecidableEq, Repr, Inhabited

/-- What an entry point does with the deserializer. -/
inductive DeTarget where
  /-- `deserializer.deserialize_<hint>(<Visitor>(PhantomData))`. -/
  | visitor (hint : Hint) (v : VisitorId)
  /-- `OsString::deserialize(deserializer)` then `Self::from` (std's own implementation). -/
  | stdOsString
  /-- another entry point of this crate, then `Self::from` (no copy, no re-validation). -/
  | hip (kind : HipKind) (entry : Entry)
  deriving DecidableEq, Repr, Inhabited

/-- One `impl Deserialize for Hip…` or one `pub fn borrow_deserialize`.
`overridesInPlace` = the impl also defines `deserialize_in_place` (serde's default is
`*place = Self::deserialize(d)?`); its body is not modelled. -/
structure DeRow where
  kind   : HipKind
  entry  : Entry
  target : DeTarget
  overridesInPlace : Bool
  loc    : String
  deriving DecidableEq, Repr, Inhabited

/-- An `impl Visitor` whose `Value` is not a Hip type (e.g. `type Value = ()` of an in-place
visitor): recorded with the `visit_*` methods it defines, NOT interpreted by the model. -/
structure AuxVisitorRow where
  name    : String
  value   : String
  methods : List String
  loc     : String
  deriving DecidableEq, Repr, Inhabited

/-- What `Serialize::serialize` calls. -/
inductive SerCall where
  /-- `serializer.serialize_bytes(self.as_slice())`. -/
  | serializeBytes
  /-- `serializer.serialize_str(self.as_str())`. -/
  | serializeStr
  /-- `self.as_os_str().serialize(serializer)`: std's `OsStr` implementation. -/
  | stdOsStr
  /-- `self.as_path().serialize(serializer)`: std's `Path` implementation. -/
  | stdPath
  deriving DecidableEq, Repr, Inhabited

/-- One `impl Serialize for Hip…`. -/
structure SerRow where
  kind : HipKind
  call : SerCall
  loc  : String
  deriving DecidableEq, Repr, Inhabited

/-- How the borsh reader sizes its buffer before the read loop. -/
inductive Reserve where
  /-- `Vec::with_capacity(len.min(cap))`. -/
  | minLen (cap : Nat)
  /-- `with_capacity(len)`: the unauthenticated prefix is trusted (defect D12). -/
  | exact
  deriving DecidableEq, Repr, Inhabited

/-- Final constructor of the borsh reader. -/
inductive Ctor where
  | fromVec      -- `Self::from(vec)`
  | setLen       -- fills spare capacity then `set_len` (the pre-fix shape)
  deriving DecidableEq, Repr, Inhabited

/-- Shape of `impl BorshDeserialize`. -/
inductive BorshDe where
  /-- `let len = u<8*prefixBytes>::deserialize_reader(r)? as usize;`
      `if len == 0 { Ok(Self::new()) } else { reserve; for _ in 0..len { push(u8::deserialize_reader(r)?) }; ctor }` -/
  | reader (prefixBytes : Nat) (zeroIsNew : Bool) (reserve : Reserve) (perByte : Bool) (ctor : Ctor)
  /-- `HipByt::deserialize_reader(r)?` then `Self::try_from(bytes)` mapped to `InvalidData`. -/
  | viaBytThenValidate
  /-- `HipByt::deserialize_reader(r)?` then `from_utf8_unchecked`: no validation. -/
  | viaBytUnchecked
  /-- a body that matches no template (its I/O calls are still listed in the row). -/
  | other
  deriving DecidableEq, Repr, Inhabited

/-- Shape of `impl BorshSerialize`. -/
inductive BorshSer where
  /-- `self.as_slice().serialize(w)` / `self.as_bytes().serialize(w)`: borsh's `[u8]` encoding. -/
  | sliceU8
  /-- a body that matches no template (its I/O calls are still listed in the row). -/
  | other
  deriving DecidableEq, Repr, Inhabited

/-- One use of the `reader`/`writer` parameter in a borsh impl body.
* `delegate what`  — handed to another borsh impl (`u32::deserialize_reader(reader)`,
                     `self.as_slice().serialize(writer)`): exactness is that impl's business
                     (borsh's primitives use `read_exact`/`write_all`);
* `readExact`/`writeAll` — the all-or-error calls;
* `read`/`write`   — the raw calls, which may legally transfer fewer bytes than asked;
* `other name`     — any other method or a function the parameter is passed to. -/
inductive IoCall where
  | delegate (what : String)
  | readExact
  | read
  | writeAll
  | write
  | other (name : String)
  deriving DecidableEq, Repr, Inhabited

/-- `io` = every use of the reader in the body, in source order; `usesUnsafe` = the body
contains an `unsafe` block. -/
structure BorshDeRow where
  kind  : HipKind
  shape : BorshDe
  io    : List IoCall
  usesUnsafe : Bool
  loc   : String
  deriving DecidableEq, Repr, Inhabited

structure BorshSerRow where
  kind  : HipKind
  shape : BorshSer
  io    : List IoCall
  usesUnsafe : Bool
  loc   : String
  deriving DecidableEq, Repr, Inhabited

/-- Source type of a `bstr` conversion into a Hip type. -/
inductive BstrSrc where
  | bstrRef      -- `&'a BStr`
  | bstring      -- `BString`
  | cowBorrowed  -- `Cow<'a, BStr>`, arm `Cow::Borrowed` (dispatches to the `&'a BStr` conversion)
  | cowOwned     -- `Cow<'a, BStr>`, arm `Cow::Owned` (dispatches to the `BString` conversion)
  deriving DecidableEq, Repr, Inhabited

/-- One `From`/`TryFrom` of a `bstr` type into a Hip type (`src/{bytes,string}/bstr.rs`);
`fallible` = `TryFrom`.  `body` uses the same classes as visitor methods. -/
structure BstrRow where
  src      : BstrSrc
  kind     : HipKind
  fallible : Bool
  body     : Body
  loc      : String
  deriving DecidableEq, Repr, Inhabited

end HipVerif.Codec
