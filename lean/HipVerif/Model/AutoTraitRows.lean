/-
C05 — the Bool row predicates of the C05 theorems over `Gen/AutoTraits.lean`. They live here
(not in `Props/C05.lean`) so that `tables_driver` still builds, and can list the falsifying
rows, when a theorem of `Props/C05.lean` is broken by a regenerated table.
-/
import HipVerif.Model.AutoTrait
import HipVerif.Gen.AutoTraits

namespace HipVerif.Model.AutoTrait
open HipVerif.Gen.AutoTraits (table)

/-- Row predicate of `send_sync_table`: for the public type constructor `T` and backend `b`,
    both `T<b>: Send` and `T<b>: Sync` hold exactly when `b` is not the non-atomic counter. -/
def rowOk (T : String × (Ty → Ty)) (b : BackendK) : Bool :=
  holds fuel table .send (T.2 b.ty) == (b != .rc) &&
  holds fuel table .sync (T.2 b.ty) == (b != .rc)

/-- Row predicate of `lifetime_free`. -/
def implLifetimeFree (i : ImplFact) : Bool := i.lifetimeGeneric

/-- Non-auto-trait bounds that may appear on an explicit impl without affecting the verdict:
    each is already required for the type to be well formed (`HipByt<'_, B>` needs
    `B: Backend`; `Smart<T, C>` needs `T: Clone, C: Kind`). -/
def benignBounds : List String := ["backend::Backend", "core::clone::Clone", "smart::Kind"]

/-- Row predicate of `impl_bounds_benign`. -/
def implBoundsBenign (i : ImplFact) : Bool :=
  !i.negative && i.otherBounds.all benignBounds.contains

/-- Row predicate of `rc_count_single_thread`, for one type reachable from a public type. -/
def cellRowOk (u : Ty) : Bool :=
  !mentionsCell fuel table u ||
    (!holds fuel table .sync u && (ownsCell fuel table u || !holds fuel table .send u))

/-- Every type reachable (as data) from the Rc-backed instance of a public type. -/
def rcReachable : List Ty :=
  pubTypes.flatMap (fun T => reach fuel table (T.2 BackendK.rc.ty))

end HipVerif.Model.AutoTrait
