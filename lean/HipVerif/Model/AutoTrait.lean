/-
Auto-trait resolution (`Send`/`Sync`) over the generated table — the model of what rustc's
trait solver does for the shapes that occur in hipstr (property C05).

What is MODELLED, NOT VERIFIED (checked against rustc itself by `probedrive`):
the base facts of `holds` below and the list `stdStructural`.
-/
import HipVerif.Model.AutoTraitTy

namespace HipVerif.Model.AutoTrait

/-- Substitute `args` for the parameters of a field type (fuel = nesting depth bound). -/
def subst : Nat → List Ty → Ty → Ty
  | 0, _, t => t
  | fuel + 1, args, t =>
    match t with
    | .param i => args[i]?.getD (.param i)
    | .named n as => .named n (as.map (subst fuel args))
    | .std n as => .std n (as.map (subst fuel args))
    | .ref t => .ref (subst fuel args t)
    | .refMut t => .refMut (subst fuel args t)
    | .rawPtrConst t => .rawPtrConst (subst fuel args t)
    | .rawPtrMut t => .rawPtrMut (subst fuel args t)
    | .phantom t => .phantom (subst fuel args t)
    | .cell t => .cell (subst fuel args t)
    | .nonNull t => .nonNull (subst fuel args t)
    | .maybeUninit t => .maybeUninit (subst fuel args t)
    | .manuallyDrop t => .manuallyDrop (subst fuel args t)
    | .tuple ts => .tuple (ts.map (subst fuel args))
    | .slice t => .slice (subst fuel args t)
    | .array t => .array (subst fuel args t)
    | .atomicUsize => .atomicUsize
    | .prim n => .prim n
    | .unit => .unit
    | .nonZeroU8 => .nonZeroU8

/-- Depth bound used for substitution (field types are shallow). -/
def substFuel : Nat := 16

/-- Types of other crates whose auto traits are structural in their type arguments
    (`X<A, B>: Send ⇔ A: Send ∧ B: Send`, same for `Sync`; no arguments ⇒ both hold).
    BASE FACTS. `Vec/Box/String/Range/Option/Result` own their contents; `Utf8Error`,
    `OsString`, `PathBuf`, `BString`, `Layout`, the `str` iterators are plain owned data or
    shared views of `str`. A name that is not listed makes `holds` answer `false`, so an
    unknown std type can never make a row of `send_sync_table` pass silently. -/
def stdStructural : List String := [
  "alloc::vec::Vec", "std::vec::Vec",
  "alloc::boxed::Box", "std::boxed::Box",
  "alloc::string::String", "std::string::String",
  "core::ops::Range", "std::ops::Range",
  "core::option::Option", "core::result::Result",
  "core::str::Utf8Error", "std::str::Utf8Error", "alloc::str::Utf8Error",
  "std::ffi::OsString", "std::path::PathBuf",
  "bstr::BString",
  "core::str::SplitWhitespace", "core::str::Lines", "core::str::SplitAsciiWhitespace"
]

/-- `holds fuel tbl tr ty`: does `ty : tr` hold?  (closed terms; an unresolved `param`
    answers `false`).  `fuel` bounds the unfolding depth of definitions.

    Rules, in rustc's order:
    * an explicit impl for the type constructor REPLACES the structural rule: the answer is
      "some positive impl whose `Send`/`Sync` where-clauses hold for the instantiated
      parameters" (a negative impl never holds);
    * otherwise (struct, enum and union alike) every field type must satisfy the trait;
    * base facts for the built-in type constructors (comments on each line). -/
def holds : Nat → Table → Trait → Ty → Bool
  | 0, _, _, _ => false
  | fuel + 1, tbl, tr, ty =>
    match ty with
    -- `&T: Send ⇔ T: Sync`;  `&T: Sync ⇔ T: Sync`
    | .ref t => holds fuel tbl .sync t
    -- `&mut T: Send ⇔ T: Send`;  `&mut T: Sync ⇔ T: Sync`
    | .refMut t => holds fuel tbl tr t
    -- `*const T`, `*mut T`, `NonNull<T>`: neither
    | .rawPtrConst _ => false
    | .rawPtrMut _ => false
    | .nonNull _ => false
    -- `Cell<T>: Send ⇔ T: Send`;  never `Sync`
    | .cell t => (tr == .send) && holds fuel tbl .send t
    -- `AtomicUsize`, primitives (`u8`, `usize`, `char`, `str`, …), `()`, `NonZeroU8`: both
    | .atomicUsize => true
    | .prim _ => true
    | .unit => true
    | .nonZeroU8 => true
    -- `PhantomData<T>`, `MaybeUninit<T>`, `ManuallyDrop<T>`, `[T]`, `[T; N]`: as `T`
    | .phantom t => holds fuel tbl tr t
    | .maybeUninit t => holds fuel tbl tr t
    | .manuallyDrop t => holds fuel tbl tr t
    | .slice t => holds fuel tbl tr t
    | .array t => holds fuel tbl tr t
    -- tuples: every component
    | .tuple ts => ts.all (holds fuel tbl tr)
    -- an uninstantiated parameter: nothing is known
    | .param _ => false
    -- other crates' types: structural over the arguments if listed, else unknown
    | .std n args => stdStructural.contains n && args.all (holds fuel tbl tr)
    | .named n args =>
      let explicit := tbl.impls.filter (fun i => i.target == n && i.tr == tr)
      if explicit.isEmpty then
        match tbl.defs.find? (fun d => d.name == n) with
        | some d => d.fields.all (fun f => holds fuel tbl tr (subst substFuel args f))
        | none => false
      else
        explicit.any (fun i =>
          !i.negative &&
          i.bounds.all (fun b => holds fuel tbl b.2 (subst substFuel args b.1)))

/-- Unfolding depth that is ample for the crate (deepest chain:
    `path::RefMut → HipPath → HipOsStr → HipByt → B`, a dozen steps). -/
def fuel : Nat := 40

/-- Everything reachable from a type by unfolding definitions and looking through every type
    constructor (the type itself first). Explicit impls are ignored: this is reachability of
    DATA, not of proof obligations. -/
def reach : Nat → Table → Ty → List Ty
  | 0, _, ty => [ty]
  | fuel + 1, tbl, ty =>
    ty :: (match ty with
      | .ref t | .refMut t | .rawPtrConst t | .rawPtrMut t | .nonNull t | .cell t
      | .phantom t | .maybeUninit t | .manuallyDrop t | .slice t | .array t => reach fuel tbl t
      | .tuple ts => ts.flatMap (reach fuel tbl)
      | .std _ args => args.flatMap (reach fuel tbl)
      | .named n args =>
        args.flatMap (reach fuel tbl) ++
        (match tbl.defs.find? (fun d => d.name == n) with
         | some d => d.fields.flatMap (fun f => reach fuel tbl (subst substFuel args f))
         | none => [])
      | _ => [])

/-- `Cell<…>` occurs somewhere in the data reachable from `ty` (through any constructor,
    pointers and phantom markers included). -/
def mentionsCell (fuel : Nat) (tbl : Table) (ty : Ty) : Bool :=
  (reach fuel tbl ty).any (fun t => match t with | .cell _ => true | _ => false)

/-- `ty` contains a `Cell<…>` BY VALUE (through fields, tuples, arrays, `MaybeUninit`,
    `ManuallyDrop` only): moving `ty` moves the counter itself, nobody else can see it. -/
def ownsCell : Nat → Table → Ty → Bool
  | 0, _, _ => false
  | fuel + 1, tbl, ty =>
    match ty with
    | .cell _ => true
    | .maybeUninit t | .manuallyDrop t | .array t => ownsCell fuel tbl t
    | .tuple ts => ts.any (ownsCell fuel tbl)
    | .named n args =>
      (match tbl.defs.find? (fun d => d.name == n) with
       | some d => d.fields.any (fun f => ownsCell fuel tbl (subst substFuel args f))
       | none => false)
    | _ => false

/-! ### The rows of the C05 table -/

/-- The three backends (`smart::Arc/Rc/Unique`, re-exported as `hipstr::Arc/Rc/Unique`). -/
inductive BackendK where
  | arc
  | rc
  | unique
  deriving Repr, DecidableEq, Inhabited

def BackendK.ty : BackendK → Ty
  | .arc => .named "smart::Arc" []
  | .rc => .named "smart::Rc" []
  | .unique => .named "smart::Unique" []

def BackendK.name : BackendK → String
  | .arc => "arc"
  | .rc => "rc"
  | .unique => "unique"

def backends : List BackendK := [.arc, .rc, .unique]

/-- An inner iterator that is `Send + Sync` (the witness used for `IterWrapper<_, _, B, I>`). -/
def sendSyncIter : Ty := .std "core::str::SplitWhitespace" []

/-- Public types parameterised by the backend: the four string types, their `mutate` guards,
    the error types that carry a handle, and the split/match iterator wrapper.
    (`probedrive` asks rustc about exactly these names; it fails if it has no Rust spelling
    for one of them.) -/
def pubTypes : List (String × (Ty → Ty)) := [
  ("HipByt",             fun b => .named "bytes::raw::HipByt" [b]),
  ("HipStr",             fun b => .named "string::HipStr" [b]),
  ("HipOsStr",           fun b => .named "os_string::HipOsStr" [b]),
  ("HipPath",            fun b => .named "path::HipPath" [b]),
  ("bytes::RefMut",      fun b => .named "bytes::RefMut" [b]),
  ("string::RefMut",     fun b => .named "string::RefMut" [b]),
  ("os_string::RefMut",  fun b => .named "os_string::RefMut" [b]),
  ("path::RefMut",       fun b => .named "path::RefMut" [b]),
  ("bytes::SliceError",  fun b => .named "bytes::SliceError" [b]),
  ("string::SliceError", fun b => .named "string::SliceError" [b]),
  ("string::FromUtf8Error", fun b => .named "string::FromUtf8Error" [b]),
  ("IterWrapper",        fun b => .named "string::pattern::IterWrapper" [b, sendSyncIter])
]

/-- Backend-independent types that the rustc probe ALSO checks against `holds`
    (they exercise further base facts: `Cell`, atomics, `NonNull`, arrays, `&mut V`). -/
def extraTypes : List (String × Ty) := [
  ("Arc",    .named "smart::Arc" []),
  ("Rc",     .named "smart::Rc" []),
  ("Unique", .named "smart::Unique" []),
  ("InlineVec<u8>", .named "vecs::inline::InlineVec" [.prim "u8"]),
  ("InlineVec<Rc>", .named "vecs::inline::InlineVec" [.named "smart::Rc" []]),
  ("ThinVec<u8>", .named "vecs::thin::ThinVec" [.prim "u8", .named "vecs::thin::Reserved" []]),
  ("Drain<Vec<u8>>", .named "common::drain::Drain" [.std "alloc::vec::Vec" [.prim "u8"]]),
  ("inline::IntoIter<u8>", .named "vecs::inline::IntoIter" [.prim "u8"]),
  ("InsertError<u8>", .named "vecs::inline::InsertError" [.prim "u8"]),
  ("RangeError", .named "common::RangeError" [])
]

/-- The driver's lookup: a row name applied to a backend. -/
def rowType (name : String) (b : BackendK) : Option Ty :=
  match pubTypes.find? (fun p => p.1 == name) with
  | some p => some (p.2 b.ty)
  | none => (extraTypes.find? (fun p => p.1 == name)).map (·.2)

end HipVerif.Model.AutoTrait
