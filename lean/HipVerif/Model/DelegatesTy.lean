/-
Data types of the "wrapper delegation" table (tie for C01/C06: `HipStr` / `HipOsStr` /
`HipPath` are `HipByt` + guards). `Gen/Delegates.lean` (regenerated from /repo/src by
`harness/src/extract/delegates.rs`) contains only data of these types. Strings are for display;
every comparison the theorems make is on numeric keys (`Model/PubFnsTy.lean`).
-/
import HipVerif.Model.PubFnsTy
import HipVerif.Model.DoorsTy

namespace HipVerif.Model.Delegates
open HipVerif.Model.Doors (InClass)

/-- The three wrapper types: `HipStr(HipByt)`, `HipOsStr(HipByt)`, `HipPath(HipOsStr)`. -/
inductive Wrapper where
  | str
  | os
  | path
  deriving Repr, DecidableEq, Inhabited

inductive Vis where
  | pub
  | crate
  | traitImpl
  deriving Repr, DecidableEq, Inhabited

/-- What the body is, computed syntactically by the translator (fails closed into `other`):
    * `delegate` — exactly one call on the wrapped value (`targets`), no other call, no guard,
      no control flow beyond a re-wrapping `match` on `Some/None/Ok/Err`;
    * `guarded`  — guards, then exactly one target / non-view callee (or only an unchecked
      re-typing constructor);
    * `composed` — no call on the wrapped value, calls other wrapper-level fns (`callees`);
    * `other`. -/
inductive Shape where
  | delegate
  | guarded
  | composed
  | other
  deriving Repr, DecidableEq, Inhabited

/-- Checks found in a body, in order of appearance. -/
inductive GuardKind where
  /-- `is_char_boundary` (in an `assert!` or a condition) -/
  | charBoundary
  /-- `str::from_utf8`, `OsStr::to_str`: validation whose failure is reported -/
  | utf8Check
  /-- `String::from_utf8_lossy`, `from_utf16_lossy`, `to_string_lossy`: keeps the bytes only
      when std found them valid -/
  | lossyCheck
  /-- `simplify_range`: range normalisation and bounds checks -/
  | rangeCheck
  /-- any other release-mode `assert!` -/
  | assertion
  deriving Repr, DecidableEq, Inhabited

/-- A (key, display string) pair. -/
abbrev Named := Nat × String

/-- One wrapper fn. `targets` = calls on the wrapped value (`".0"` = the bare projection,
    `"(wrap)"` = the tuple constructor applied to a parameter); `callees` = wrapper-level fns
    called (`"HipStr::from_utf8"` when it belongs to another wrapper); `ext` = every other call
    (adapters such as `as_bytes()` and re-wrapping combinators excluded); `argsUnchanged` = every
    parameter reaches the single target exactly once, unchanged, in order; `mutSelf` = the
    receiver is `&mut self`; `wraps` = the tuple constructor `Self(..)` is applied (an unchecked
    claim that the bytes are valid); `retyped` = unchecked re-typing constructors used
    (`from_utf8_unchecked`, `from_encoded_bytes_unchecked`, `transmute` …); `argClasses` = class
    of each non-receiver parameter (the C06 doors classifier). -/
structure Row where
  wrapper : Wrapper
  name : String
  key : Nat
  simpleKey : Nat
  vis : Vis
  isUnsafe : Bool
  shape : Shape
  targets : List Named
  callees : List Named
  ext : List Named
  guards : List GuardKind
  argsUnchanged : Bool
  mutSelf : Bool
  wraps : Bool
  retyped : List Named
  argClasses : List InClass
  loc : String
  deriving Repr, Inhabited

end HipVerif.Model.Delegates
