/-
C01 coverage gate for the byte string and its representation layer — reviewed map and Bool row
predicates over `Gen/BytApi.lean` (counterpart of `Model/VecApi.lean` for the vectors).
(In Model/, not Props/, so that `tables_driver` still builds when a regenerated table breaks the
theorem of `Props/C01Api.lean`.)

`bytApiCoverage` says, for EVERY fn of `HipByt`, `Union`, `Allocated`, `TaggedSmart`, `Borrowed`,
`Smart`, the free fns of `bytes` / `bytes::raw`, and the lifecycle/conversion trait impls of
`HipByt`, how the C01 machinery covers it. A new `pub fn` on `HipByt` (`split_off`), a new helper
of the representation layer (`Allocated::split_off_unchecked`), an operation dropped from
coredrive's dispatch or from the Core model, or a method coredrive no longer calls falsifies
`byt_api_covered`; `uncoveredFns` / `badEntries` / `staleEntries` name the culprit.
-/
import HipVerif.Model.BytApiTy
import HipVerif.Model.PubFnsTy
import HipVerif.Model.Core
import HipVerif.Gen.BytApi

namespace HipVerif.Model.BytApi
open HipVerif.Model.PubFns (encKey)
open HipVerif.Gen.BytApi (bytFns driveOps bytCalls driveCalls)

/-- Protocol name (key) of an operation of the Core model — the word `Driver/Core.lean` parses
    and coredrive sends. Total by construction: a new constructor of `Core.Op` does not compile
    until it is named here. -/
def opKey : HipVerif.Core.Op → Nat
  | .new .. => key% "new"
  | .fromSlice .. => key% "from_slice"
  | .fromVec .. => key% "from_vec"
  | .borrowed .. => key% "borrowed"
  | .withCapacity .. => key% "with_cap"
  | .inline .. => key% "inline"
  | .tryInline .. => key% "try_inline"
  | .clone .. => key% "clone"
  | .slice .. => key% "slice"
  | .trySlice .. => key% "try_slice"
  | .trySliceRef .. => key% "try_slice_ref"
  | .sliceRef .. => key% "slice_ref"
  | .adopt .. => key% "adopt"
  | .pushSlice .. => key% "push"
  | .pop .. => key% "pop"
  | .truncate .. => key% "truncate"
  | .clear .. => key% "clear"
  | .shrinkTo .. => key% "shrink_to"
  | .shrinkToFit .. => key% "shrink_fit"
  | .asMutWrite .. => key% "as_mut"
  | .toMutWrite .. => key% "to_mut"
  | .makeAsciiLower .. => key% "lower"
  | .makeAsciiUpper .. => key% "upper"
  | .toAsciiLower .. => key% "to_lower"
  | .toAsciiUpper .. => key% "to_upper"
  | .mutate .. => key% "mutate"
  | .mutateLeak .. => key% "mutate_leak"
  | .intoOwned .. => key% "into_owned"
  | .intoVec .. => key% "into_vec"
  | .toVec .. => key% "to_vec"
  | .intoBorrowed .. => key% "into_borrowed"
  | .repeat .. => key% "repeat"
  | .spareCapacity .. => key% "spare"
  | .drop .. => key% "drop"

/-- The protocol names of all 34 operations of the Core model. -/
def modelOpKeys : List Nat :=
  [key% "new",
   key% "from_slice",
   key% "from_vec",
   key% "borrowed",
   key% "with_cap",
   key% "inline",
   key% "try_inline",
   key% "clone",
   key% "slice",
   key% "try_slice",
   key% "try_slice_ref",
   key% "slice_ref",
   key% "adopt",
   key% "push",
   key% "pop",
   key% "truncate",
   key% "clear",
   key% "shrink_to",
   key% "shrink_fit",
   key% "as_mut",
   key% "to_mut",
   key% "lower",
   key% "upper",
   key% "to_lower",
   key% "to_upper",
   key% "mutate",
   key% "mutate_leak",
   key% "into_owned",
   key% "into_vec",
   key% "to_vec",
   key% "into_borrowed",
   key% "repeat",
   key% "spare",
   key% "drop"]

/-- The reviewed coverage map: key of the fn's full name ↦ how it is covered. -/
def bytApiCoverage : List (Nat × Cover) := [
  (key% "bytes::raw::HipByt::new", .coreOp [key% "new"]),
  (key% "bytes::raw::HipByt::inline", .coreOp [key% "inline"]),
  (key% "bytes::raw::HipByt::try_inline", .coreOp [key% "try_inline"]),
  (key% "bytes::raw::HipByt::with_capacity", .coreOp [key% "with_cap"]),
  (key% "bytes::raw::HipByt::borrowed", .coreOp [key% "borrowed"]),
  (key% "bytes::raw::HipByt::len", .monitoredBy "observe"),
  (key% "bytes::raw::HipByt::is_empty", .monitoredBy "observe"),
  (key% "bytes::raw::HipByt::as_ptr", .monitoredBy "repr_monitor (data pointer / block identity)"),
  (key% "bytes::raw::HipByt::as_mut_ptr", .reviewedNotDriven "raw-pointer twin of `as_mut_slice` (same uniqueness test, op `as_mut`); writing through it needs `unsafe`"),
  (key% "bytes::raw::HipByt::as_mut_ptr_unchecked", .reviewedNotDriven "unsafe fn: outside the safe-client quantifier of C01 (C17 `unchecked_is_unsafe` keeps it unsafe)"),
  (key% "bytes::raw::HipByt::as_slice", .monitoredBy "observe (content compared with the model after every step)"),
  (key% "bytes::raw::HipByt::as_mut_slice", .coreOp [key% "as_mut"]),
  (key% "bytes::raw::HipByt::as_mut_slice_unchecked", .reviewedNotDriven "unsafe fn: outside the safe-client quantifier of C01 (C17 `unchecked_is_unsafe` keeps it unsafe)"),
  (key% "bytes::raw::HipByt::to_mut_slice", .coreOp [key% "to_mut"]),
  (key% "bytes::raw::HipByt::is_inline", .monitoredBy "repr_monitor"),
  (key% "bytes::raw::HipByt::is_borrowed", .monitoredBy "repr_monitor"),
  (key% "bytes::raw::HipByt::into_borrowed", .coreOp [key% "into_borrowed"]),
  (key% "bytes::raw::HipByt::as_borrowed", .reviewedNotDriven "borrowed-view twin of `into_borrowed` (op `into_borrowed`); region rule in C17 `region_flow`"),
  (key% "bytes::raw::HipByt::is_allocated", .monitoredBy "repr_monitor"),
  (key% "bytes::raw::HipByt::is_normalized", .monitoredBy "repr_monitor (normal form after every step, C07)"),
  (key% "bytes::raw::HipByt::inline_capacity", .reviewedNotDriven "constant (`Gen/Consts` INLINE_CAPACITY)"),
  (key% "bytes::raw::HipByt::capacity", .monitoredBy "observe"),
  (key% "bytes::raw::HipByt::into_vec", .coreOp [key% "into_vec"]),
  (key% "bytes::raw::HipByt::into_owned", .coreOp [key% "into_owned"]),
  (key% "bytes::raw::HipByt::slice", .coreOp [key% "slice"]),
  (key% "bytes::raw::HipByt::try_slice", .coreOp [key% "try_slice"]),
  (key% "bytes::raw::HipByt::slice_unchecked", .reviewedNotDriven "unsafe fn: outside the safe-client quantifier of C01 (C17 `unchecked_is_unsafe` keeps it unsafe); `slice`/`try_slice` reach the same `range_unchecked`"),
  (key% "bytes::raw::HipByt::slice_ref", .coreOp [key% "slice_ref"]),
  (key% "bytes::raw::HipByt::try_slice_ref", .coreOp [key% "try_slice_ref"]),
  (key% "bytes::raw::HipByt::mutate", .coreOp [key% "mutate", key% "mutate_leak"]),
  (key% "bytes::raw::HipByt::clear", .coreOp [key% "clear"]),
  (key% "bytes::raw::HipByt::pop", .coreOp [key% "pop"]),
  (key% "bytes::raw::HipByt::push", .coreOp [key% "push"]),
  (key% "bytes::raw::HipByt::push_slice", .coreOp [key% "push"]),
  (key% "bytes::raw::HipByt::repeat", .coreOp [key% "repeat"]),
  (key% "bytes::raw::HipByt::spare_capacity_mut", .coreOp [key% "spare"]),
  (key% "bytes::raw::HipByt::set_len", .reviewedNotDriven "unsafe fn: outside the safe-client quantifier of C01 (C17 `unchecked_is_unsafe` keeps it unsafe)"),
  (key% "bytes::raw::HipByt::truncate", .coreOp [key% "truncate"]),
  (key% "bytes::raw::HipByt::shrink_to", .coreOp [key% "shrink_to"]),
  (key% "bytes::raw::HipByt::shrink_to_fit", .coreOp [key% "shrink_fit"]),
  (key% "bytes::raw::HipByt::to_ascii_lowercase", .coreOp [key% "to_lower"]),
  (key% "bytes::raw::HipByt::make_ascii_lowercase", .coreOp [key% "lower"]),
  (key% "bytes::raw::HipByt::to_ascii_uppercase", .coreOp [key% "to_upper"]),
  (key% "bytes::raw::HipByt::make_ascii_uppercase", .coreOp [key% "upper"]),
  (key% "bytes::raw::HipByt::concat_slices", .reviewedNotDriven "driven by concatdrive against `Model/Concat` (C10)"),
  (key% "bytes::raw::HipByt::concat", .reviewedNotDriven "driven by concatdrive against `Model/Concat` (C10)"),
  (key% "bytes::raw::HipByt::join_slices", .reviewedNotDriven "driven by concatdrive against `Model/Concat` (C10)"),
  (key% "bytes::raw::HipByt::join", .reviewedNotDriven "driven by concatdrive against `Model/Concat` (C10)"),
  (key% "bytes::raw::HipByt::from_static", .coreOp [key% "borrowed"]),
  (key% "bytes::simplify_range", .viaOp [key% "bytes::raw::HipByt::slice", key% "bytes::raw::HipByt::try_slice"]),
  (key% "bytes::simplify_range_mono", .viaOp [key% "bytes::raw::HipByt::slice", key% "bytes::raw::HipByt::try_slice"]),
  (key% "bytes::raw::Union::into_raw", .viaOp [key% "bytes::raw::HipByt::new", key% "bytes::raw::HipByt::inline", key% "bytes::raw::HipByt::try_inline"]),
  (key% "bytes::raw::HipByt::union", .viaOp [key% "bytes::raw::HipByt::inline", key% "bytes::raw::HipByt::try_inline", key% "bytes::raw::HipByt::with_capacity"]),
  (key% "bytes::raw::HipByt::union_mut", .viaOp [key% "bytes::raw::HipByt::as_mut_slice", key% "bytes::raw::HipByt::to_mut_slice", key% "bytes::raw::HipByt::into_vec"]),
  (key% "bytes::raw::HipByt::union_move", .viaOp [key% "bytes::raw::HipByt::to_mut_slice", key% "bytes::raw::HipByt::into_owned", key% "bytes::raw::HipByt::to_ascii_lowercase"]),
  (key% "bytes::raw::HipByt::from_allocated", .viaOp [key% "bytes::raw::HipByt::with_capacity", key% "bytes::raw::HipByt::to_mut_slice", key% "bytes::raw::HipByt::into_owned"]),
  (key% "bytes::raw::HipByt::from_inline", .viaOp [key% "bytes::raw::HipByt::new", key% "bytes::raw::HipByt::inline", key% "bytes::raw::HipByt::try_inline"]),
  (key% "bytes::raw::HipByt::from_borrowed", .viaOp [key% "<bytes::raw::HipByt<'_, B> as Clone>::clone"]),
  (key% "bytes::raw::HipByt::tag", .viaOp [key% "bytes::raw::HipByt::inline", key% "bytes::raw::HipByt::try_inline", key% "bytes::raw::HipByt::with_capacity"]),
  (key% "bytes::raw::HipByt::split", .viaOp [key% "bytes::raw::HipByt::inline", key% "bytes::raw::HipByt::try_inline", key% "bytes::raw::HipByt::with_capacity"]),
  (key% "bytes::raw::HipByt::split_mut", .viaOp [key% "bytes::raw::HipByt::as_mut_slice", key% "bytes::raw::HipByt::to_mut_slice", key% "bytes::raw::HipByt::into_vec"]),
  (key% "bytes::raw::HipByt::from_vec", .viaOp [key% "bytes::raw::HipByt::with_capacity", key% "bytes::raw::HipByt::to_mut_slice", key% "bytes::raw::HipByt::push"]),
  (key% "bytes::raw::HipByt::inline_empty", .viaOp [key% "bytes::raw::HipByt::new", key% "bytes::raw::HipByt::with_capacity", key% "bytes::raw::HipByt::to_mut_slice"]),
  (key% "bytes::raw::HipByt::inline_unchecked", .viaOp [key% "bytes::raw::HipByt::inline", key% "bytes::raw::HipByt::try_inline", key% "bytes::raw::HipByt::to_mut_slice"]),
  (key% "bytes::raw::HipByt::normalized_from_vec", .viaOp [key% "<bytes::raw::HipByt<'_, B> as From<Box<[u8]>>>::from", key% "<bytes::raw::HipByt<'_, B> as From<Vec<u8>>>::from"]),
  (key% "bytes::raw::HipByt::from_slice", .viaOp [key% "bytes::raw::HipByt::to_mut_slice", key% "bytes::raw::HipByt::into_owned", key% "bytes::raw::HipByt::to_ascii_lowercase"]),
  (key% "bytes::raw::HipByt::range_unchecked", .viaOp [key% "bytes::raw::HipByt::slice", key% "bytes::raw::HipByt::try_slice", key% "bytes::raw::HipByt::slice_ref"]),
  (key% "bytes::raw::HipByt::slice_ref_unchecked", .coreOp [key% "adopt"]),
  (key% "bytes::raw::HipByt::take_vec", .viaOp [key% "bytes::raw::HipByt::mutate"]),
  (key% "bytes::raw::HipByt::take_allocated", .viaOp [key% "bytes::raw::HipByt::into_vec", key% "<bytes::raw::HipByt<'_, B> as From<Box<[u8]>>>::from", key% "<Vec<u8> as From<HipByt<'_, B>>>::from"]),
  (key% "bytes::raw::HipByt::make_unique", .viaOp [key% "bytes::raw::HipByt::to_mut_slice", key% "bytes::raw::HipByt::to_ascii_lowercase", key% "bytes::raw::HipByt::make_ascii_lowercase"]),
  (key% "bytes::raw::HipByt::inherent_eq", .reviewedNotDriven "crate-internal: called only by the `PartialEq` impls (cmpdrive, C12)"),
  (key% "bytes::raw::range_of_unchecked", .viaOp [key% "bytes::raw::HipByt::slice_ref_unchecked"]),
  (key% "bytes::raw::try_range_of", .viaOp [key% "bytes::raw::HipByt::slice_ref", key% "bytes::raw::HipByt::try_slice_ref"]),
  (key% "bytes::raw::allocated::TaggedSmart::from", .viaOp [key% "bytes::raw::HipByt::with_capacity", key% "bytes::raw::HipByt::to_mut_slice", key% "bytes::raw::HipByt::into_owned"]),
  (key% "bytes::raw::allocated::TaggedSmart::into", .viaOp [key% "bytes::raw::HipByt::inline", key% "bytes::raw::HipByt::try_inline", key% "bytes::raw::HipByt::with_capacity"]),
  (key% "bytes::raw::allocated::TaggedSmart::check_tag", .viaOp [key% "bytes::raw::HipByt::inline", key% "bytes::raw::HipByt::try_inline", key% "bytes::raw::HipByt::with_capacity"]),
  (key% "bytes::raw::allocated::Allocated::into_owner", .viaOp [key% "bytes::raw::HipByt::inline", key% "bytes::raw::HipByt::try_inline", key% "bytes::raw::HipByt::with_capacity"]),
  (key% "bytes::raw::allocated::Allocated::owner", .viaOp [key% "bytes::raw::HipByt::inline", key% "bytes::raw::HipByt::try_inline", key% "bytes::raw::HipByt::with_capacity"]),
  (key% "bytes::raw::allocated::Allocated::owner_mut", .viaOp [key% "bytes::raw::HipByt::into_vec", key% "bytes::raw::HipByt::mutate", key% "bytes::raw::HipByt::clear"]),
  (key% "bytes::raw::allocated::Allocated::new", .viaOp [key% "bytes::raw::HipByt::with_capacity", key% "bytes::raw::HipByt::to_mut_slice", key% "bytes::raw::HipByt::into_owned"]),
  (key% "bytes::raw::allocated::Allocated::from_slice", .viaOp [key% "bytes::raw::HipByt::to_mut_slice", key% "bytes::raw::HipByt::into_owned", key% "bytes::raw::HipByt::slice"]),
  (key% "bytes::raw::allocated::Allocated::len", .viaOp [key% "bytes::raw::HipByt::inline", key% "bytes::raw::HipByt::try_inline", key% "bytes::raw::HipByt::with_capacity"]),
  (key% "bytes::raw::allocated::Allocated::as_slice", .viaOp [key% "bytes::raw::HipByt::to_mut_slice", key% "bytes::raw::HipByt::into_borrowed", key% "bytes::raw::HipByt::into_vec"]),
  (key% "bytes::raw::allocated::Allocated::as_ptr", .viaOp [key% "bytes::raw::HipByt::inline", key% "bytes::raw::HipByt::try_inline", key% "bytes::raw::HipByt::with_capacity"]),
  (key% "bytes::raw::allocated::Allocated::as_mut_ptr", .viaOp [key% "bytes::raw::HipByt::repeat"]),
  (key% "bytes::raw::allocated::Allocated::as_mut_ptr_unchecked", .reviewedNotDriven "reached only from `HipByt::as_mut_ptr_unchecked` (unsafe, not driven)"),
  (key% "bytes::raw::allocated::Allocated::as_mut_slice", .viaOp [key% "bytes::raw::HipByt::as_mut_slice", key% "bytes::raw::HipByt::to_mut_slice", key% "bytes::raw::HipByt::repeat"]),
  (key% "bytes::raw::allocated::Allocated::as_mut_slice_unchecked", .viaOp [key% "bytes::raw::HipByt::as_mut_slice", key% "bytes::raw::HipByt::to_mut_slice", key% "bytes::raw::HipByt::repeat"]),
  (key% "bytes::raw::allocated::Allocated::slice_unchecked", .viaOp [key% "bytes::raw::HipByt::slice", key% "bytes::raw::HipByt::try_slice", key% "bytes::raw::HipByt::slice_ref"]),
  (key% "bytes::raw::allocated::Allocated::explicit_clone", .viaOp [key% "<bytes::raw::HipByt<'_, B> as Clone>::clone"]),
  (key% "bytes::raw::allocated::Allocated::explicit_drop", .viaOp [key% "bytes::raw::HipByt::to_mut_slice", key% "bytes::raw::HipByt::shrink_to", key% "bytes::raw::HipByt::shrink_to_fit"]),
  (key% "bytes::raw::allocated::Allocated::is_valid", .viaOp [key% "bytes::raw::HipByt::inline", key% "bytes::raw::HipByt::try_inline", key% "bytes::raw::HipByt::with_capacity"]),
  (key% "bytes::raw::allocated::Allocated::capacity", .viaOp [key% "bytes::raw::HipByt::into_vec", key% "bytes::raw::HipByt::mutate", key% "bytes::raw::HipByt::clear"]),
  (key% "bytes::raw::allocated::Allocated::try_into_vec", .viaOp [key% "bytes::raw::HipByt::into_vec", key% "bytes::raw::HipByt::mutate", key% "<bytes::raw::HipByt<'_, B> as From<Box<[u8]>>>::from"]),
  (key% "bytes::raw::allocated::Allocated::is_unique", .viaOp [key% "bytes::raw::HipByt::with_capacity", key% "bytes::raw::HipByt::as_mut_slice", key% "bytes::raw::HipByt::to_mut_slice"]),
  (key% "bytes::raw::allocated::Allocated::push_slice_unchecked", .viaOp [key% "bytes::raw::HipByt::push", key% "bytes::raw::HipByt::push_slice"]),
  (key% "bytes::raw::allocated::Allocated::spare_capacity_mut", .viaOp [key% "bytes::raw::HipByt::spare_capacity_mut"]),
  (key% "bytes::raw::allocated::Allocated::set_len", .viaOp [key% "bytes::raw::HipByt::into_vec", key% "bytes::raw::HipByt::mutate", key% "bytes::raw::HipByt::clear"]),
  (key% "bytes::raw::allocated::Allocated::shrink_to", .viaOp [key% "bytes::raw::HipByt::shrink_to", key% "bytes::raw::HipByt::shrink_to_fit"]),
  (key% "bytes::raw::borrowed::Borrowed::new", .viaOp [key% "bytes::raw::HipByt::borrowed", key% "bytes::raw::HipByt::slice", key% "bytes::raw::HipByt::try_slice"]),
  (key% "bytes::raw::borrowed::Borrowed::len", .viaOp [key% "bytes::raw::HipByt::inline", key% "bytes::raw::HipByt::try_inline", key% "bytes::raw::HipByt::with_capacity"]),
  (key% "bytes::raw::borrowed::Borrowed::as_slice", .viaOp [key% "bytes::raw::HipByt::to_mut_slice", key% "bytes::raw::HipByt::into_borrowed", key% "bytes::raw::HipByt::into_vec"]),
  (key% "bytes::raw::borrowed::Borrowed::as_ptr", .viaOp [key% "bytes::raw::HipByt::inline", key% "bytes::raw::HipByt::try_inline", key% "bytes::raw::HipByt::with_capacity"]),
  (key% "bytes::raw::borrowed::Borrowed::is_valid", .viaOp [key% "bytes::raw::HipByt::inline", key% "bytes::raw::HipByt::try_inline", key% "bytes::raw::HipByt::with_capacity"]),
  (key% "bytes::raw::borrowed::Borrowed::set_len", .viaOp [key% "bytes::raw::HipByt::into_vec", key% "bytes::raw::HipByt::mutate", key% "bytes::raw::HipByt::clear"]),
  (key% "smart::Smart::new", .viaOp [key% "bytes::raw::HipByt::with_capacity", key% "bytes::raw::HipByt::to_mut_slice", key% "bytes::raw::HipByt::into_owned"]),
  (key% "smart::Smart::inner", .viaOp [key% "bytes::raw::HipByt::with_capacity", key% "bytes::raw::HipByt::as_mut_slice", key% "bytes::raw::HipByt::to_mut_slice"]),
  (key% "smart::Smart::into_raw", .viaOp [key% "bytes::raw::HipByt::new", key% "bytes::raw::HipByt::inline", key% "bytes::raw::HipByt::try_inline"]),
  (key% "smart::Smart::from_raw", .viaOp [key% "bytes::raw::HipByt::inline", key% "bytes::raw::HipByt::try_inline", key% "bytes::raw::HipByt::with_capacity"]),
  (key% "smart::Smart::as_ref", .viaOp [key% "bytes::raw::HipByt::with_capacity", key% "bytes::raw::HipByt::as_mut_slice", key% "bytes::raw::HipByt::to_mut_slice"]),
  (key% "smart::Smart::is_unique", .viaOp [key% "bytes::raw::HipByt::with_capacity", key% "bytes::raw::HipByt::as_mut_slice", key% "bytes::raw::HipByt::to_mut_slice"]),
  (key% "smart::Smart::as_mut", .viaOp [key% "bytes::raw::HipByt::into_vec", key% "bytes::raw::HipByt::mutate", key% "bytes::raw::HipByt::clear"]),
  (key% "smart::Smart::as_mut_unchecked", .viaOp [key% "bytes::raw::HipByt::into_vec", key% "bytes::raw::HipByt::mutate", key% "bytes::raw::HipByt::clear"]),
  (key% "smart::Smart::as_mut_unchecked_extended", .viaOp [key% "bytes::raw::HipByt::spare_capacity_mut"]),
  (key% "smart::Smart::ref_count", .reviewedNotDriven "crate-internal accessor: called by the crate's own tests and the verif hook only"),
  (key% "smart::Smart::try_unwrap", .viaOp [key% "bytes::raw::HipByt::into_vec", key% "bytes::raw::HipByt::mutate", key% "<bytes::raw::HipByt<'_, B> as From<Box<[u8]>>>::from"]),
  (key% "smart::Smart::incr", .viaOp [key% "bytes::raw::HipByt::slice", key% "bytes::raw::HipByt::try_slice", key% "bytes::raw::HipByt::slice_ref"]),
  (key% "<bytes::raw::HipByt<'_, B> as Default>::default", .reviewedNotDriven "`Self::new()` (op `new`)"),
  (key% "<bytes::raw::HipByt<'_, B> as Deref>::deref", .reviewedNotDriven "`as_slice` view (monitored); implicit in coredrive's `&*h`, no call by name"),
  (key% "<bytes::raw::HipByt<'_, B> as AsRef<[u8]>>::as_ref", .reviewedNotDriven "`as_slice` view (monitored); no call by name"),
  (key% "<bytes::raw::HipByt<'_, B> as From<&[u8]>>::from", .coreOp [key% "from_slice"]),
  (key% "<bytes::raw::HipByt<'_, B> as From<&[u8 ; N]>>::from", .reviewedNotDriven "same body as `From<&[u8]>` (op `from_slice`)"),
  (key% "<bytes::raw::HipByt<'_, B> as From<Box<[u8]>>>::from", .coreOp [key% "from_vec"]),
  (key% "<bytes::raw::HipByt<'_, B> as From<Vec<u8>>>::from", .coreOp [key% "from_vec"]),
  (key% "<bytes::raw::HipByt<'borrow, B> as From<Cow<'borrow, [u8]>>>::from", .coreOp [key% "from_vec", key% "borrowed"]),
  (key% "<Vec<u8> as From<HipByt<'_, B>>>::from", .coreOp [key% "to_vec"]),
  (key% "<Cow<'borrow, [u8]> as From<HipByt<'borrow, B>>>::from", .reviewedNotDriven "`into_borrowed` or copy; composed of driven ops, not driven itself"),
  (key% "<bytes::raw::HipByt<'_, B> as Drop>::drop", .coreOpImplicit [key% "drop"] "implicit: every handle of a sequence is dropped (op `drop`, or end of the run)"),
  (key% "<bytes::raw::HipByt<'_, B> as Clone>::clone", .coreOp [key% "clone"]),
  (key% "<bytes::raw::HipByt<'_, B> as AsRef<BStr>>::as_ref", .reviewedNotDriven "`bstr` feature: the same constructors / views typed through `BStr`/`BString` (`Gen/CmpImpls` bstr views, C12); not driven by coredrive"),
  (key% "<bytes::raw::HipByt<'borrow, B> as From<&'borrow BStr>>::from", .reviewedNotDriven "`bstr` feature: the same constructors / views typed through `BStr`/`BString` (`Gen/CmpImpls` bstr views, C12); not driven by coredrive"),
  (key% "<bytes::raw::HipByt<'_, B> as From<BString>>::from", .reviewedNotDriven "`bstr` feature: the same constructors / views typed through `BStr`/`BString` (`Gen/CmpImpls` bstr views, C12); not driven by coredrive"),
  (key% "<bytes::raw::HipByt<'borrow, B> as From<Cow<'borrow, BStr>>>::from", .reviewedNotDriven "`bstr` feature: the same constructors / views typed through `BStr`/`BString` (`Gen/CmpImpls` bstr views, C12); not driven by coredrive"),
  (key% "<BString as From<HipByt<'_, B>>>::from", .reviewedNotDriven "`bstr` feature: the same constructors / views typed through `BStr`/`BString` (`Gen/CmpImpls` bstr views, C12); not driven by coredrive")
]

def driveOpKeys : List Nat := driveOps.map (·.2)
def bytCallKeys : List Nat := bytCalls.map (·.2)
def driveCallKeys : List Nat := driveCalls.map (·.2)

/-- The entry of a fn, if any. -/
def coverOf (k : Nat) : Option Cover := (bytApiCoverage.find? (·.1 == k)).map (·.2)

/-- Row predicate: the fn (safe or unsafe, whatever its visibility) has an entry. -/
def fnCovered (f : BytFn) : Bool := (coverOf f.key).isSome

/-- Is the entry of this key a driven or monitored public entry point? -/
def isAnchor (k : Nat) : Bool :=
  match coverOf k with
  | some (.coreOp _) | some (.coreOpImplicit ..) | some (.monitoredBy _) => true
  | _ => false

/-- Entry predicate: the entry names an existing fn and its claim is backed by the generated
    facts. -/
def entryOk (e : Nat × Cover) : Bool :=
  match bytFns.find? (·.key == e.1) with
  | none => false
  | some f =>
    match e.2 with
    | .coreOp ops =>
      !ops.isEmpty && ops.all (fun op => modelOpKeys.contains op && driveOpKeys.contains op) &&
        bytCallKeys.contains f.simpleKey && (f.vis == .pub || f.vis == .traitImpl)
    | .coreOpImplicit ops _ =>
      !ops.isEmpty && ops.all (fun op => modelOpKeys.contains op && driveOpKeys.contains op)
    | .viaOp eps =>
      !eps.isEmpty && eps.all fun ep =>
        isAnchor ep && f.reachedFrom.any fun i => (bytFns[i]?.map (·.key)) == some ep
    | .monitoredBy _ => driveCallKeys.contains f.simpleKey
    | .reviewedNotDriven _ => true

/-- Fns without an entry (must be empty). -/
def uncoveredFns : List BytFn := bytFns.filter (!fnCovered ·)

/-- Entries whose claim is not backed — must be empty. -/
def badEntries : List Nat :=
  (bytApiCoverage.filter fun e => (bytFns.any (·.key == e.1)) && !entryOk e).map (·.1)

/-- Entries for fns that no longer exist, and duplicated entries — must be empty. -/
def staleEntries : List Nat :=
  (bytApiCoverage.filter fun e =>
    !(bytFns.any (·.key == e.1)) || (bytApiCoverage.filter (·.1 == e.1)).length != 1).map (·.1)

/-- The Core model's operation vocabulary is dispatched by coredrive (which has the `s_*`
    operations of the `HipStr` API on top). -/
def opsDispatched : Bool := modelOpKeys.all driveOpKeys.contains

/-- Every operation of the Core model is the image of at least one entry. -/
def opsImplemented : Bool :=
  modelOpKeys.all fun op => bytApiCoverage.any fun e =>
    match e.2 with
    | .coreOp ops | .coreOpImplicit ops _ => ops.contains op
    | _ => false

/-- Generated keys agree with the strings next to them (evaluated, not kernel-checked). -/
def bytApiKeysOk : Bool :=
  bytFns.all (fun f => f.key == encKey f.name && f.simpleKey == encKey f.simple) &&
  driveOps.all (fun p => p.2 == encKey p.1) && bytCalls.all (fun p => p.2 == encKey p.1) &&
  driveCalls.all (fun p => p.2 == encKey p.1)

end HipVerif.Model.BytApi
