/-
HipStr on top of the byte-level state machine.

`HipStr` is a `repr(transparent)` wrapper of `HipByt`: every `HipStr` method is a `HipByt`
operation preceded by a check (char boundaries, `from_utf8`) or fed with arguments whose Rust
TYPE guarantees well-formedness (`&str`, `char`, `String`).  `StrSafe` states, per byte-level
operation, exactly that guarantee / check; `AllValid` is the invariant "every value is
well-formed UTF-8".  Because the representation model refines the std-side specification
(`refines`), validity is preserved at the level of plain byte lists.
-/
import HipVerif.Model.Utf8
import HipVerif.Spec.Std

namespace HipVerif.Str
open HipVerif.Utf8 HipVerif.Core HipVerif.Spec.Std HipVerif.Spec.Range HipVerif.RangeTy

/-- every value of the pool is well-formed UTF-8 -/
def AllValid (p : SPool) : Prop := ∀ h v, sget p h = some v → valid v = true

/-- What makes a byte-level operation a legitimate `HipStr` call. -/
def StrSafe (srcs : List (List UInt8)) (p : SPool) : Op → Prop
  | .fromSlice _ bs | .fromVec _ bs _ | .inline _ bs | .tryInline _ bs => valid bs = true
  | .borrowed _ src off len => valid (((srcs[src]?.getD []).drop off).take len) = true
  | .pushSlice _ bs => valid bs = true
  -- there is no byte `pop` on a `HipStr`: `HipStr::pop` is `truncate (lastCharStart v)`
  | .pop _ => False
  | .truncate h n => ∀ v, sget p h = some v → n < v.length → isBoundary v n = true
  | .slice h _ sb eb | .trySlice h _ sb eb =>
    ∀ v, sget p h = some v → ∀ a b, stdGet sb eb v.length = some (a, b) →
      isBoundary v a = true ∧ isBoundary v b = true
  | .trySliceRef h _ _ rel plen | .sliceRef h _ _ rel plen | .adopt h _ rel plen =>
    ∀ v, sget p h = some v → rel + plen ≤ v.length →
      isBoundary v rel = true ∧ isBoundary v (rel + plen) = true
  | .asMutWrite h i b | .toMutWrite h i b => ∀ v, sget p h = some v → valid (v.set i b) = true
  | .mutate h script => ∀ v, sget p h = some v → valid (script.foldl applyVecOp v) = true
  | _ => True

end HipVerif.Str
