/-
HipStr on top of the byte-level state machine.

`HipStr` is a `repr(transparent)` wrapper of `HipByt`: every `HipStr` method is a `HipByt`
operation preceded by a check (char boundaries, `from_utf8`) or fed with arguments whose Rust
TYPE guarantees well-formedness (`&str`, `char`, `String`).  `StrSafe` states, per byte-level
operation, exactly that guarantee / check; `AllValid` is the invariant "every value is
well-formed UTF-8".  Because the representation model refines the std-side specification
(`refines`), validity is preserved at the level of plain byte lists.
-/
import HipVerif.Model.Utf8
import HipVerif.Spec.Std
import HipVerif.Model.CoreWf

namespace HipVerif.Str
open HipVerif.Utf8 HipVerif.Core HipVerif.Spec.Std HipVerif.Spec.Range HipVerif.RangeTy

/-- every value of the pool is well-formed UTF-8 -/
def AllValid (p : SPool) : Prop := ∀ h v, sget p h = some v → valid v = true

/-- What makes a byte-level operation a legitimate `HipStr` call. -/
def StrSafe (srcs : List (List UInt8)) (p : SPool) : Op → Prop
  | .fromSlice _ bs | .fromVec _ bs _ | .inline _ bs | .tryInline _ bs => valid bs = true
  | .borrowed _ src off len => valid (((srcs[src]?.getD []).drop off).take len) = true
  | .pushSlice _ bs => valid bs = true
  -- there is no byte `pop` on a `HipStr`: `HipStr::pop` is `truncate (lastCharStart v)`
  | .pop _ => False
  | .truncate h n => ∀ v, sget p h = some v → n < v.length → isBoundary v n = true
  | .slice h _ sb eb | .trySlice h _ sb eb =>
    ∀ v, sget p h = some v → ∀ a b, stdGet sb eb v.length = some (a, b) →
      isBoundary v a = true ∧ isBoundary v b = true
  | .trySliceRef h _ _ rel plen | .sliceRef h _ _ rel plen | .adopt h _ rel plen =>
    ∀ v, sget p h = some v → rel + plen ≤ v.length →
      isBoundary v rel = true ∧ isBoundary v (rel + plen) = true
  | .asMutWrite h i b | .toMutWrite h i b => ∀ v, sget p h = some v → valid (v.set i b) = true
  | .mutate h script => ∀ v, sget p h = some v → valid (script.foldl applyVecOp v) = true
  | _ => True

end HipVerif.Str

namespace HipVerif.Str
open HipVerif.Utf8 HipVerif.Core HipVerif.Spec.Std HipVerif.Spec.Range HipVerif.RangeTy

/-- `string::SliceErrorKind` adds the two boundary errors to the range errors -/
inductive StrErr where
  | range (a b : Nat) (k : SliceErrorKind)
  | startNotBoundary (a b : Nat)
  | endNotBoundary (a b : Nat)
  deriving Repr, DecidableEq

/-- The `HipStr` API proper: each operation is the check the code performs followed by the
byte-level operation (src/string.rs).  Arguments of Rust type `&str` / `String` are byte lists
the caller guarantees valid (`StrArgsOk`); `char`s are scalar values. -/
inductive StrOp where
  /-- every method that adds nothing to the byte-level one (clone, drop, shrink_to, into_owned,
  make_ascii_*, to_ascii_*, repeat, mutate through `String`, into_string, …) -/
  | byte (op : Op)
  | pushStr (h : Nat) (bs : List UInt8)
  | pushChar (h : Nat) (c : Nat)
  | popChar (h : Nat)
  | truncate (h n : Nat)
  | trySlice (h d : Nat) (sb eb : Bound)
  | slice (h d : Nat) (sb eb : Bound)
  /-- `from_utf8(HipByt::from(bytes))`, `TryFrom<&[u8]>`, `TryFrom<Vec<u8>>` -/
  | fromUtf8 (d : Nat) (bs : List UInt8)
  deriving Repr

inductive StrRet where
  | byte (r : Ret)
  | char (c : Option (List UInt8))
  | sliceErr (e : StrErr)
  | utf8Err (validUpTo : Nat)
  | panic
  deriving Repr, DecidableEq

def strStep (cfg : Cfg) (s : State) : StrOp → State × StrRet
  | .byte op => let (s1, o) := Core.step cfg s op; (s1, .byte o.ret)
  | .pushStr h bs => let (s1, o) := Core.step cfg s (.pushSlice h bs); (s1, .byte o.ret)
  | .pushChar h c => let (s1, o) := Core.step cfg s (.pushSlice h (encode c)); (s1, .byte o.ret)
  | .popChar h =>
    match getH s h with
    | some hd =>
      let v := view s hd
      if v.length = 0 then (s, .char none)
      else
        -- `char_indices().next_back()` then `self.truncate(i)` (which re-checks the boundary)
        let i := lastCharStart v
        if isBoundary v i then
          let (s1, _) := Core.step cfg s (.truncate h i)
          (s1, .char (some (v.drop i)))
        else (s, .panic)
    | none => (s, .byte .badOp)
  | .truncate h n =>
    match getH s h with
    | some hd =>
      let v := view s hd
      if n ≤ v.length then
        if isBoundary v n then let (s1, o) := Core.step cfg s (.truncate h n); (s1, .byte o.ret)
        else (s, .panic)
      else (s, .byte .unit)
    | none => (s, .byte .badOp)
  | .trySlice h d sb eb =>
    match getH s h with
    | some hd =>
      let v := view s hd
      match Gen.Ranges.simplifyRangeMono sb eb v.length with
      | .ok (a, b) =>
        if !isBoundary v a then (s, .sliceErr (.startNotBoundary a b))
        else if !isBoundary v b then (s, .sliceErr (.endNotBoundary a b))
        else let (s1, o) := Core.step cfg s (.trySlice h d sb eb); (s1, .byte o.ret)
      | .err (a, b, k) => (s, .sliceErr (.range a b k))
      | _ => (s, .panic)
    | none => (s, .byte .badOp)
  | .slice h d sb eb =>
    match getH s h with
    | some hd =>
      let v := view s hd
      match Gen.Ranges.simplifyRangeMono sb eb v.length with
      | .ok (a, b) =>
        if isBoundary v a && isBoundary v b then
          let (s1, o) := Core.step cfg s (.slice h d sb eb); (s1, .byte o.ret)
        else (s, .panic)
      | _ => (s, .panic)
    | none => (s, .byte .badOp)
  | .fromUtf8 d bs =>
    if valid bs then let (s1, o) := Core.step cfg s (.fromSlice d bs); (s1, .byte o.ret)
    else (s, .utf8Err (validUpTo bs))

/-- Rust's typing of the arguments: `&str` data is valid, a `char` is a scalar value; the
`byte` ops carry their own condition (`StrSafe`). -/
def StrArgsOk (s : State) : StrOp → Prop
  | .byte op => StrSafe s.srcs (Core.abs s) op
  | .pushStr _ bs => valid bs = true
  | .pushChar _ c => isScalar c = true
  | _ => True

end HipVerif.Str
