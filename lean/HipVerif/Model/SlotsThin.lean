/-
L0 model of `ThinVec` (/repo/src/vecs/thin.rs). Every definition follows the statement order
of the Rust function named in its docstring. The shared pieces (`pop`, `remove`, `Drain`) are in
SlotsInline.lean.
-/
import HipVerif.Model.SlotsInline
namespace HipVerif.Slots

/-- size of `layout(n)`: header, `n` elements, padded to the header's alignment (8) -/
def laySize (esz n : Nat) : Nat := (hdr + n * esz + 7) / 8 * 8

/-- `set_capacity` (thin.rs:567): no-op when the layout is unchanged, otherwise `realloc`
(the slots that fit are kept, never more than the new capacity) -/
def Vec.setCapacity (n : Nat) (v : Vec) : Vec :=
  if laySize v.h.esz v.cap = laySize v.h.esz n then v
  else
    let nc := roundCap v.h.esz n
    { v with slots := (v.slots ++ uninits (nc - v.cap)).take nc }

/-- `reserve` (thin.rs:634) -/
def Vec.reserve (add : Nat) (v : Vec) : Vec :=
  if add > v.cap - v.len then v.setCapacity (max (v.len + add) (v.cap * 2)) else v

def St.reserve (add : Nat) (s : St) : St := { s with v := s.v.reserve add }

/-- `with_capacity` (thin.rs:238): alloc, then `P::default()` (a user callback for a tracked
prefix; if it panics the fresh buffer is leaked), `ptr::write` of the prefix, cap, len -/
def tWithCap (c esz : Nat) (tracked : Bool) (s : St) : Option Vec × St :=
  let cap := roundCap esz (max c (minCap esz))
  let (b, s) := s.onMem Mem.alloc
  if tracked then
    match s.onMem Mem.genVal with
    | (none, s) => (none, s)
    | (some p, s) =>
      (some { slots := uninits cap, len := 0,
              h := { thin := true, esz := esz, tracked := true, pref := .init p, buf := b } }, s)
  else
    (some { slots := uninits cap, len := 0,
            h := { thin := true, esz := esz, tracked := false, pref := .uninit, buf := b } }, s)

/-- `ThinVec::new()` executed by the caller outside of any fault injection -/
def tNewQuiet (esz : Nat) (tracked : Bool) (s : St) : St :=
  let cap := roundCap esz (minCap esz)
  let (b, s) := s.onMem Mem.alloc
  if tracked then
    let (p, s) := s.onMem Mem.mkVal
    { s with v := { slots := uninits cap, len := 0,
                    h := { thin := true, esz := esz, tracked := true, pref := .init p, buf := b } } }
  else
    { s with v := { slots := uninits cap, len := 0,
                    h := { thin := true, esz := esz, tracked := false, pref := .uninit, buf := b } } }

/-- `Drop for ThinVec` (thin.rs:1241): elements (slice drop), prefix, dealloc; a panic leaves the
rest undone -/
def tDropVec (o : Vec) (s : St) : Bool × St :=
  let (p, s) := s.onMem (Mem.dropSlice (o.range 0 o.len))
  if p then (true, s)
  else
    let (q, s) := if o.h.tracked then s.onMem (Mem.dropSlot o.h.pref) else (false, s)
    if q then (true, s) else (false, s.withMem (Mem.free o.h.buf))

/-- `push` (thin.rs:689) -/
def tPush (s : St) : Ret × St :=
  let (x, s) := s.onMem Mem.mkVal
  let s := s.reserve 1
  (.unit, s.store x)

/-- `swap_remove` (thin.rs:838) -/
def tSwapRemove (i : Nat) (s : St) : Ret × St :=
  if i < s.v.len then
    let len := s.v.len
    let (a, s) := s.onMem (Mem.readMove (s.v.get i))
    let s := s.copyWithin (len - 1) i 1
    let s := s.setLen (len - 1)
    (.some a, s.withMem (Mem.retId a))
  else (.panic, s)

/-- `insert` (thin.rs:754); a failed assertion unwinds through the by-value `element` -/
def tInsert (i : Nat) (s : St) : Ret × St :=
  let (x, s) := s.onMem Mem.mkVal
  if i ≤ s.v.len then
    let len := s.v.len
    let s := s.reserve 1
    let s := if i < len then s.copyWithin i (i + 1) (len - i) else s
    let s := s.wr i (.init x)
    (.unit, s.setLen (len + 1))
  else
    let (_, s) := s.onMem (Mem.dropId x)
    (.panic, s)

/-- `truncate` (thin.rs:655): length first, then `drop_in_place` of the tail slice -/
def tTruncate (n : Nat) (s : St) : Bool × St :=
  if n > s.v.len then (false, s)
  else
    let old := s.v.len
    let s := s.setLen n
    s.onMem (Mem.dropSlice (s.v.range n old))

/-- `clear` (thin.rs:905) -/
def tClear (s : St) : Bool × St :=
  let old := s.v.len
  let s := s.setLen 0
  s.onMem (Mem.dropSlice (s.v.range 0 old))

/-- the `for i in 1..n` loop of `extend_clone` (thin.rs:1074-1077): `k` clones of `x` -/
def tFillClone (x : Nat) : Nat → St → Bool × St
  | 0, s => (false, s)
  | k + 1, s =>
    match s.onMem (Mem.cloneId x) with
    | (none, s) => (true, s)
    | (some a, s) => tFillClone x k (s.store a)

/-- `resize` (thin.rs:1027) / `extend_clone` (thin.rs:1066): `n-1` clones, then the value itself is
moved in; on unwind (and in the truncate branch) the by-value `value` is dropped -/
def tResize (n : Nat) (s : St) : Bool × St :=
  let (x, s) := s.onMem Mem.mkVal
  if n > s.v.len then
    let k := n - s.v.len
    let s := s.reserve k
    match tFillClone x (k - 1) s with
    | (true, s) =>
      let (_, s) := s.onMem (Mem.dropId x)
      (true, s)
    | (false, s) => (false, s.store x)
  else
    let (p, s) := tTruncate n s
    let (q, s) := s.onMem (Mem.dropId x)
    (p || q, s)

/-- `guarded_slice_clone` (common.rs:168) into the spare capacity starting at `base`; `j` =
`guard.initialized`; on a panicking clone `SliceGuard::drop` drops the `j` written slots -/
def tGuardedClone (base : Nat) : List Nat → Nat → St → Bool × St
  | [], _, s => (false, s)
  | a :: as, j, s =>
    match s.onMem (Mem.cloneId a) with
    | (none, s) =>
      let (_, s) := s.onMem (Mem.dropSlice (s.v.range base (base + j)))
      (true, s)
    | (some b, s) => tGuardedClone base as (j + 1) (s.wr (base + j) (.init b))

/-- `extend_from_slice` (thin.rs:1119) -/
def tExtSlice (n : Nat) (s : St) : Bool × St :=
  let (srcs, s) := mkVals n s
  let s := s.reserve n
  let (p, s) := tGuardedClone s.v.len srcs 0 s
  let s := if p then s else s.setLen (s.v.len + n)
  (p, s.withMem (Mem.markDrops srcs))

/-- loop of `try_extend_from_within` (thin.rs:1058-1061): `k` elements starting at slot `i` -/
def tWithinLoop : Nat → Nat → St → Bool × St
  | _, 0, s => (false, s)
  | i, k + 1, s =>
    match s.onMem (Mem.cloneSlot (s.v.get i)) with
    | (none, s) => (true, s)
    | (some b, s) => tWithinLoop (i + 1) k (s.store b)

/-- `extend_from_within` (thin.rs:1039,1047): range check, `reserve`, clone loop -/
def tExtWithin (a b : Nat) (s : St) : Bool × St :=
  if a ≤ b ∧ b ≤ s.v.len then
    let s := s.reserve (b - a)
    tWithinLoop a (b - a) s
  else (true, s)

/-- loop of `extend_iter` (thin.rs:1091-1097): item number `i`, `k` items left, lower size hint
`min`; every `next` is a user callback -/
def tExtIterLoop (min : Nat) : Nat → Nat → St → Bool × St
  | _, 0, s => s.onMem Mem.tick
  | i, k + 1, s =>
    match s.onMem Mem.genVal with
    | (none, s) => (true, s)
    | (some a, s) =>
      let s := if i ≥ min then s.reserve 1 else s
      tExtIterLoop min (i + 1) k (s.store a)

/-- `Extend::extend` = `extend_iter` (thin.rs:1085) -/
def tExtIter (hint n : Nat) (s : St) : Bool × St :=
  let s := s.reserve hint
  tExtIterLoop hint 0 n s

/-- `Extend::extend` = `extend_iter` (thin.rs:1085) with every user call: `into_iter()`,
`size_hint()`, then `reserve`, the loop, and the drop of the iterator -/
def tExtend (hint k : Nat) (s : St) : Bool × St :=
  let (p0, s) := s.onMem Mem.tick
  if p0 then (true, s)
  else
    let (p1, s) := s.onMem Mem.tick
    if p1 then
      let (_, s) := s.onMem Mem.tick
      (true, s)
    else
      let (p, s) := tExtIter hint k s
      let (q, s) := s.onMem Mem.tick
      (p || q, s)

/-- loop of `from_iter` (thin.rs:205-214) on the local vector `o`: item number `i`, `k` items
left, lower size hint `min` -/
def tFromIterLoop (min : Nat) : Nat → Nat → Vec → St → Bool × Vec × St
  | _, 0, o, s =>
    let (p, s) := s.onMem Mem.tick
    (p, o, s)
  | i, k + 1, o, s =>
    match s.onMem Mem.genVal with
    | (none, s) => (true, o, s)
    | (some a, s) =>
      let o := if i ≥ min then o.reserve 1 else o
      tFromIterLoop min (i + 1) k (o.store a) (s.chk (o.len < o.cap))

/-- `ThinVec::from_iter` (thin.rs:200) building a temporary: `into_iter()`, `size_hint()`,
`with_capacity(min)` (`P::default()`), the loop; then the iterator and the new vector are dropped
(returned to the caller who drops it, or by unwinding) -/
def tFromIter (hint k : Nat) (s : St) : Bool × St :=
  let (p0, s) := s.onMem Mem.tick
  if p0 then (true, s)
  else
    let (p1, s) := s.onMem Mem.tick
    if p1 then
      let (_, s) := s.onMem Mem.tick
      (true, s)
    else
      match tWithCap hint s.v.h.esz s.v.h.tracked s with
      | (none, s) =>
        let (_, s) := s.onMem Mem.tick
        (true, s)
      | (some o, s) =>
        let (p, o, s) := tFromIterLoop hint 0 k o s
        let (q, s) := s.onMem Mem.tick
        let (r, s) := tDropVec o s
        (p || q || r, s)

/-- `guarded_slice_clone` into the spare capacity of a local vector `o` (whose length is 0) -/
def guardedCloneLocal : List Slot → Nat → Vec → St → Bool × Vec × St
  | [], _, o, s => (false, o, s)
  | x :: xs, j, o, s =>
    match s.onMem (Mem.cloneSlot x) with
    | (none, s) =>
      let (_, s) := s.onMem (Mem.dropSlice (o.range 0 j))
      (true, o, s)
    | (some b, s) => guardedCloneLocal xs (j + 1) (o.write j (.init b)) (s.chk (j < o.cap))

/-- `ThinVec::from(v.as_slice())` = `from_slice_clone` (thin.rs:121); the new vector is a local:
dropped by the unwinding if a clone panics, dropped by the caller otherwise -/
def tClone (s : St) : Bool × St :=
  match tWithCap s.v.len s.v.h.esz s.v.h.tracked s with
  | (none, s) => (true, s)
  | (some o, s) =>
    let (p, o, s) := guardedCloneLocal (s.v.range 0 s.v.len) 0 o s
    let o := if p then o else o.setLen s.v.len
    let (q, s) := tDropVec o s
    (p || q, s)

/-- `append` (thin.rs:874) from a `ThinVec<_, Reserved>` holding `n` fresh values that the
caller built; afterwards the caller drops `other` -/
def tAppend (n : Nat) (s : St) : Bool × St :=
  let (ids, s) := mkVals n s
  let (ob, s) := s.onMem Mem.alloc
  let ocap := roundCap s.v.h.esz (max n (minCap s.v.h.esz))
  let o : Vec := { slots := ids.map .init ++ uninits (ocap - n), len := n,
                   h := { thin := true, esz := s.v.h.esz, buf := ob } }
  let s := s.reserve n
  let s := s.wrChunk s.v.len (o.range 0 n)
  let s := s.setLen (s.v.len + n)
  let o := o.setLen 0
  let s := s.withMem (Mem.markDropSlots (o.range 0 o.len))
  (false, s.withMem (Mem.free o.h.buf))

/-- `split_off` (thin.rs:281); the returned vector is then dropped by the caller -/
def tSplitOff (at_ : Nat) (s : St) : Bool × St :=
  if at_ ≤ s.v.len then
    let len := s.v.len
    match tWithCap (len - at_) s.v.h.esz s.v.h.tracked s with
    | (none, s) => (true, s)
    | (some o, s) =>
      let s := s.chk (len - at_ ≤ o.cap)
      let o := o.writeChunk 0 (s.v.range at_ len)
      let s := s.setLen at_
      let o := o.setLen (len - at_)
      tDropVec o s
  else (true, s)

/-- dropping the vector itself -/
def tDrop (s : St) : Bool × St :=
  let (p, s) := tDropVec s.v s
  (p, { s with v := { s.v with len := 0, h := { s.v.h with alive := false } } })

/-- `shrink_to_fit` (thin.rs:1213) -/
def tShrinkFit (s : St) : St :=
  if s.v.len = s.v.cap then s else { s with v := s.v.setCapacity s.v.len }

/-- capacity of the intermediate InlineVec used by `tRoundtrip` -/
def rtCap : Nat := 16

/-- `InlineVec::<_, 16>::from(t)` then `ThinVec::from(i)`: two `from_mut_vector`
(inline.rs:193, thin.rs:189). `none` = not applicable (`len > 16`). On a panic the vector has been
consumed; the caller continues with `ThinVec::new()`. -/
def tRoundtrip (s : St) : Option (Bool × St) :=
  if s.v.len > rtCap then none
  else
    let len := s.v.len
    let esz := s.v.h.esz
    let tracked := s.v.h.tracked
    -- InlineVec::from_mut_vector(self)
    let (i, v0) := moveAll s.v (iNew rtCap)
    -- the emptied ThinVec is dropped at the end of from_mut_vector; whatever happens it is gone
    let (p, s) := tDropVec v0 s
    let s := { s with v := { v0 with h := { v0.h with alive := false } } }
    if p then
      -- the new InlineVec has already been moved to the return place when the by-value
      -- argument is dropped: the unwinding does not drop it (its elements leak; observed)
      some (true, tNewQuiet esz tracked s)
    else
      -- ThinVec::from_mut_vector(i)
      match tWithCap len esz tracked s with
      | (none, s) =>
        -- unwinding drops the by-value InlineVec
        let (_, s) := s.onMem (Mem.dropLoop (i.range 0 i.len))
        some (true, tNewQuiet esz tracked s)
      | (some t0, s) =>
        let s := s.chk (len ≤ t0.cap)
        let (t, i0) := moveAll i t0
        -- drop of the emptied InlineVec
        let s := s.withMem (Mem.markDropSlots (i0.range 0 i0.len))
        some (false, { s with v := t })

end HipVerif.Slots
