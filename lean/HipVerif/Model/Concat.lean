/-
Two-pass constructors `concat` / `join` (src/bytes.rs) with ADVERSARIAL user code.

The caller's iterator is traversed twice (length pass on a clone, then copy pass); its `Clone`,
`Iterator` and `AsRef` implementations are user code and may yield different pieces the second
time.  Whatever they do is SOME pair of piece lists: `ps₁` = what the length pass saw, `ps₂` =
what the copy pass saw — so "any misbehaving callback" is a universally quantified argument.

The destination is the spare capacity of `with_capacity(new_len)`: a list of `Option UInt8`
(`none` = uninitialised), `icap` slots when `new_len ≤ icap` (inline), exactly `new_len` slots
otherwise.  The checks performed are parameters (`Checks`, instantiated from the generated
`Gen/Concat.lean`), so that removing an assertion from the source changes the model.
-/
import HipVerif.Model.ConcatTy

namespace HipVerif.Concat
open HipVerif.ConcatTy

inductive Out where
  /-- the returned value: its (exposed) bytes and whether it is heap-backed -/
  | value (bytes : List (Option UInt8)) (heap : Bool)
  | panic
  /-- a copy ran past the end of the destination buffer (memory corruption) -/
  | oob
  deriving Repr, DecidableEq

def total (ps : List (List UInt8)) : Nat := (ps.map List.length).sum

/-- `ptr::copy_nonoverlapping(src, dst + pos, src.len())` -/
def writeAt (dst : List (Option UInt8)) (pos : Nat) (src : List UInt8) : List (Option UInt8) :=
  dst.take pos ++ src.map some ++ dst.drop (pos + src.length)

/-- state of the copy pass: destination and write position, or an early exit -/
inductive Pass where
  | run (dst : List (Option UInt8)) (pos : Nat)
  | panicked
  | overran
  deriving Repr, DecidableEq

/-- copy one chunk: `let end = pos + len; assert!(end <= final); copy; pos = end` -/
def copyChunk (checked : Bool) (final : Nat) (st : Pass) (chunk : List UInt8) : Pass :=
  match st with
  | .run dst pos =>
    let e := pos + chunk.length
    if checked && decide (e > final) then .panicked
    else if e > dst.length then .overran
    else .run (writeAt dst pos chunk) e
  | other => other

def capacityFor (icap newLen : Nat) : Nat := if newLen ≤ icap then icap else newLen

/-- `set_len(new_len)` and return -/
def finish (ck : Checks) (icap newLen : Nat) : Pass → Out
  | .run dst pos =>
    if ck.finalEq && pos != newLen then .panic
    else .value (dst.take newLen) (decide (newLen > icap))
  | .panicked => .panic
  | .overran => .oob

/-- `HipByt::concat(iter)`: `ps₁` seen by the length pass, `ps₂` by the copy pass. -/
def concat (ck : Checks) (icap : Nat) (ps₁ ps₂ : List (List UInt8)) : Out :=
  let newLen := total ps₁
  if newLen = 0 then .value [] false
  else
    let dst := List.replicate (capacityFor icap newLen) none
    finish ck icap newLen (ps₂.foldl (copyChunk (ck.perPiece ≥ 1) newLen) (.run dst 0))

/-- `HipByt::join(iter, sep)` -/
def join (ck : Checks) (icap : Nat) (ps₁ ps₂ : List (List UInt8)) (sep : List UInt8) : Out :=
  if ps₁.length = 0 then .value [] false
  else
    let newLen := (ps₁.length - 1) * sep.length + total ps₁
    let dst := List.replicate (capacityFor icap newLen) none
    let checked := ck.perPiece ≥ 3
    match ps₂ with
    | [] => finish ck icap newLen (.run dst 0)
    | first :: rest =>
      let st := copyChunk checked newLen (.run dst 0) first
      finish ck icap newLen
        (rest.foldl (fun st p => copyChunk checked newLen (copyChunk checked newLen st sep) p) st)

/-- what std's `[pieces].concat()` returns -/
def specConcat (ps : List (List UInt8)) : List UInt8 := ps.flatten

/-- what std's `[pieces].join(sep)` returns -/
def specJoin (ps : List (List UInt8)) (sep : List UInt8) : List UInt8 := sep.intercalate ps

end HipVerif.Concat
