/-
Data types of the capacity-assert table (property C13).

`Gen/CapAsserts.lean` (regenerated from /repo/src/vecs/inline.rs by
`harness/src/extract/capasserts.rs`) contains only data of these types.
-/
namespace HipVerif.Model.CapAsserts

/-- Syntactic shape of a capacity check `… <= CAP`. -/
inductive AssertShape where
  /-- `a + b <= CAP` (also through `let s = a + b; … s <= CAP`): the sum is computed first and
      wraps in release builds -/
  | wrappingSum
  /-- `b <= CAP - a` with `a = self.len()`: no addition before the comparison -/
  | checkedSub
  /-- `x <= CAP`: the compared quantity is not a sum -/
  | direct
  deriving Repr, DecidableEq, Inhabited

/-- Where the added operand (`b`, or the compared `x`) comes from. -/
inductive OperandSrc where
  /-- length of a foreign slice / boxed slice / generic `MutVector`: any `usize` -/
  | foreignUnbounded
  /-- length of another `InlineVec`: at most 255 (it lives in a tagged byte) -/
  | foreignInline
  /-- a const-generic array length, guarded by `const { assert!(N <= CAP) }` -/
  | constArray
  /-- length of a range already validated against `self.len()` (or `self.len()` itself) -/
  | selfRange
  /-- a number supplied by the caller (`new_len`, an iterator's size hint): any `usize` -/
  | scalar
  deriving Repr, DecidableEq, Inhabited

/-- One `assert!` / `debug_assert!` of `InlineVec` whose condition bounds a length by `CAP`. -/
structure CapAssert where
  func : String
  /-- `file:line` of the macro -/
  loc : String
  debugOnly : Bool
  shape : AssertShape
  src : OperandSrc
  /-- source text of the operand / of the condition (display only) -/
  operand : String
  cond : String
  deriving Repr, Inhabited

end HipVerif.Model.CapAsserts
