/-
  Model/Vecs.lean — "L1" executable model of `hipstr::vecs::InlineVec` and
  `hipstr::vecs::thin::ThinVec` (C13).

  One function per public operation, written the way the code does it (same order of
  capacity / index checks, `swap_remove` = swap then pop, `insert` = shift then write, the drain
  iterator shortens the vector on creation and moves the tail back on drop, …).  Sources:
  /repo/src/vecs/inline.rs, /repo/src/vecs/thin.rs, /repo/src/common.rs (`range_mono`),
  /repo/src/common/drain.rs.

  The contents are a `List α`; an `InlineVec<T, CAP, ..>` is `IV` (fixed `cap`), a
  `ThinVec<T, P>` is `TV` whose `cap` follows the growth policy of the code exactly
  (`MINIMAL_CAPACITY`, `layout`, `set_capacity`, `reserve = max(required, 2*cap)`), as a function
  of `size_of::<T>()`, `align_of::<T>()`, `size_of::<P>()`, `align_of::<P>()`.

  Every operation returns an `Outcome` (`ok value | err reason value | panic class`) and the new
  state.  A state after `panic` is what a `catch_unwind` caller observes.
  `PanicClass.unreachable` marks branches the code cannot reach (slot reads that the type
  invariant guarantees); `Props/C13` proves they are never taken.
-/
import HipVerif.Spec.Vec

namespace HipVerif.Vecs

open HipVerif.Spec.Vec (Bnd Side)

/-! ## Shared vocabulary -/

/-- `usize::MAX` (64-bit target). -/
def usizeMax : Nat := 2 ^ 64 - 1
/-- `isize::MAX` (64-bit target). -/
def isizeMax : Nat := 2 ^ 63 - 1

/-- `usize::checked_add`. -/
def checkedAdd (a b : Nat) : Option Nat :=
  if a + b ≤ usizeMax then some (a + b) else none

/-- `common::RangeError`. -/
inductive RangeError where
  | startOverflows
  | endOverflows
  | startGreaterThanEnd (s e : Nat)
  | endOutOfBounds (e len : Nat)
  deriving Repr, DecidableEq, Inhabited

/-- `common::range` / `common::range_mono` (src/common.rs:29-64): the *checked* normaliser used by
    both vectors. Same statement order as the code: start, end, `start > end`, `end > len`. -/
def rangeMono (sb eb : Bnd) (len : Nat) : Except RangeError (Nat × Nat) :=
  let start : Except RangeError Nat :=
    match sb with
    | .incl s => .ok s
    | .excl s =>
      match checkedAdd s 1 with
      | some s' => .ok s'
      | none => .error .startOverflows
    | .unb => .ok 0
  match start with
  | .error e => .error e
  | .ok s =>
    let end_ : Except RangeError Nat :=
      match eb with
      | .incl e =>
        match checkedAdd e 1 with
        | some e' => .ok e'
        | none => .error .endOverflows
      | .excl e => .ok e
      | .unb => .ok len
    match end_ with
    | .error e => .error e
    | .ok e =>
      if s > e then .error (.startGreaterThanEnd s e)
      else if e > len then .error (.endOutOfBounds e len)
      else .ok (s, e)

/-- Values an operation can hand back. -/
inductive Val (α : Type) where
  | unit
  | opt (o : Option α)
  | elem (a : α)
  | items (l : List α)
  deriving Repr, DecidableEq, Inhabited

/-- Why a `try_` operation refused. -/
inductive Reason where
  /-- `InsertErrorKind::Full` / `try_push` `Err(value)`. -/
  | full
  /-- `InsertErrorKind::OutOfBounds`. -/
  | outOfBounds
  /-- a `common::RangeError`. -/
  | range (e : RangeError)
  deriving Repr, DecidableEq, Inhabited

/-- Panic classes (never messages). -/
inductive PanicClass where
  /-- "index out of bounds". -/
  | index
  /-- InlineVec only: "inline vector is full", "new length exceeds capacity", … -/
  | capacity
  /-- a `RangeError` turned into a panic (`drain`, `extend_from_within`). -/
  | range
  /-- ThinVec only: "capacity overflow" / "invalid layout: buffer too large". -/
  | overflow
  /-- a branch the code cannot reach (proved unreachable in Props/C13). -/
  | unreachable
  deriving Repr, DecidableEq, Inhabited

/-- Result of one operation. -/
inductive Outcome (α : Type) where
  | ok (v : Val α)
  | err (r : Reason) (v : Val α)
  | panic (c : PanicClass)
  deriving Repr, DecidableEq, Inhabited

def Outcome.isPanic : Outcome α → Bool
  | .panic _ => true
  | _ => false

/-- How a draining iterator ends: dropped, or forgotten (`mem::forget`). -/
inductive DrainEnd where
  | drop
  | leak
  deriving Repr, DecidableEq, Inhabited

/-- Where a `From`/`FromIterator` conversion takes its items from. -/
inductive Src where
  /-- `[T; N]` — `from_array`. -/
  | array
  /-- `Box<[T]>` — `from_boxed_slice`. -/
  | box
  /-- `Vec<T>` — `from_mut_vector`. -/
  | vec
  /-- the other vector kind (`ThinVec → InlineVec`, `InlineVec → ThinVec`) — `from_mut_vector`. -/
  | other
  /-- `&[T]` — `from_slice_clone`. -/
  | slice
  /-- `from_slice_copy`. -/
  | sliceCopy
  /-- `Cow::Borrowed` — `from_cow` → `from_slice_clone`. -/
  | cowBorrowed
  /-- `Cow::Owned` — `from_cow` → `from_mut_vector`. -/
  | cowOwned
  /-- an iterator whose `size_hint().0` is the op's `hint` — `from_iter`. -/
  | iter
  deriving Repr, DecidableEq, Inhabited

/-- The operation alphabet (one constructor per public operation of either vector). -/
inductive Op (α : Type) where
  | push (v : α)
  | tryPush (v : α)
  | pop
  /-- `pop_if(|_| b)`. -/
  | popIf (b : Bool)
  | insert (i : Nat) (v : α)
  | tryInsert (i : Nat) (v : α)
  | remove (i : Nat)
  | swapRemove (i : Nat)
  | truncate (n : Nat)
  | clear
  | resize (n : Nat) (v : α)
  /-- `resize_with(n, f)`, `g k` = what the `k`-th call of `f` returns. -/
  | resizeWith (n : Nat) (g : Nat → α)
  | extendFromSlice (s : List α)
  | extendFromSliceCopy (s : List α)
  | extendFromArray (s : List α)
  | extendFromWithin (sb eb : Bnd)
  /-- InlineVec: `extend_from_within_copy`. -/
  | extendFromWithinCopy (sb eb : Bnd)
  | tryExtendFromWithin (sb eb : Bnd)
  /-- `Extend::extend(iter)`, the iterator announcing `size_hint().0 = hint`. -/
  | extend (hint : Nat) (items : List α)
  /-- `append(&mut other)`, `other` any `MutVector` (`Vec`, `InlineVec`, `ThinVec`) holding
      `other`; hands back what is left in `other`. -/
  | append (other : List α)
  /-- InlineVec: `const_append(&mut other)`, `other` an `InlineVec<T, cap2, ..>` (any `cap2`)
      holding `other`; hands back what is left in `other`. -/
  | constAppend (cap2 : Nat) (other : List α)
  /-- `spare_capacity_mut()`, write `vals` into its first `vals.length` slots, then
      `unsafe { set_len(len + vals.length) }` — the idiomatic way to fill a vector in place.
      ThinVec callers `reserve(vals.length)` first; InlineVec callers can only check that the
      spare slice is long enough (the harness panics "new length exceeds capacity" otherwise). -/
  | spareWrite (vals : List α)
  | splitOff (n : Nat)
  | drain (sb eb : Bnd) (script : List Side) (fin : DrainEnd)
  | tryDrain (sb eb : Bnd) (script : List Side) (fin : DrainEnd)
  /-- `mem::take`-style: the vector is consumed by `into_iter`, the iterator is driven by
      `script` and dropped; the variable then holds `new()`. -/
  | intoIter (script : List Side)
  /-- the variable is replaced by its clone. -/
  | clone
  | reserve (n : Nat)
  | reserveExact (n : Nat)
  | shrinkTo (n : Nat)
  | shrinkToFit
  /-- the variable is replaced by `with_capacity(n)` (ThinVec) . -/
  | withCapacity (n : Nat)
  /-- the variable is replaced by `From::from(src)` / `FromIterator::from_iter`. -/
  | from (src : Src) (hint : Nat) (items : List α)

/-! ## Slot-level helpers -/

/-- `<[_]>::swap(i, j)` on the initialised prefix. -/
def swap (xs : List α) (i j : Nat) : List α :=
  match xs[i]?, xs[j]? with
  | some a, some b => (xs.set i b).set j a
  | _, _ => xs

/-- The draining iterator's `Range<usize>` walked by a script over the buffer `buf` as it was
    when the iterator was created (`Drain::next` / `next_back`, src/common/drain.rs:70-96):
    yields `buf[lo]` and bumps `lo`, or decrements `hi` and yields `buf[hi]`. -/
def walk (buf : List α) : List Side → Nat → Nat → List α
  | [], _, _ => []
  | .front :: r, lo, hi =>
    if lo < hi then
      match buf[lo]? with
      | some v => v :: walk buf r (lo + 1) hi
      | none => walk buf r (lo + 1) hi
    else walk buf r lo hi
  | .back :: r, lo, hi =>
    if lo < hi then
      match buf[hi - 1]? with
      | some v => v :: walk buf r lo (hi - 1)
      | none => walk buf r lo (hi - 1)
    else walk buf r lo hi

/-! ## InlineVec -/

/-- `InlineVec<T, CAP, SHIFT, TAG>`: `cap = CAP` (a const parameter, `0 < CAP ≤ 255 >> SHIFT`),
    `xs` the initialised prefix `data[..len]`. -/
structure IV (α : Type) where
  cap : Nat
  xs : List α
  deriving Repr, DecidableEq

namespace IV

/-- `InlineVec::new`. -/
def new (cap : Nat) : IV α := ⟨cap, []⟩

/-- `try_push` (inline.rs:312): `len < CAP` else hands the value back. -/
def tryPush (s : IV α) (v : α) : Outcome α × IV α :=
  let len := s.xs.length
  if len < s.cap then (.ok .unit, { s with xs := s.xs ++ [v] })
  else (.err .full (.elem v), s)

/-- `push` (inline.rs:347): `try_push`, panics "inline vector is full" on `Err`. -/
def push (s : IV α) (v : α) : Outcome α × IV α :=
  match s.tryPush v with
  | (.err _ _, s') => (.panic .capacity, s')
  | r => r

/-- `pop` (inline.rs:422). -/
def pop (s : IV α) : Outcome α × IV α :=
  let len := s.xs.length
  if len = 0 then (.ok (.opt none), s)
  else
    match s.xs[len - 1]? with
    | some v => (.ok (.opt (some v)), { s with xs := s.xs.take (len - 1) })
    | none => (.panic .unreachable, s)

/-- `pop_if` (inline.rs:448): `last_mut()?`, then the predicate, then `pop`. -/
def popIf (s : IV α) (b : Bool) : Outcome α × IV α :=
  if s.xs.length = 0 then (.ok (.opt none), s)
  else if b then s.pop else (.ok (.opt none), s)

/-- `append` (inline.rs:478): asserts `len + other_len <= CAP`, then `append_raw` and
    `other.set_len(0)`. The value handed back is what remains in `other`. -/
def append (s : IV α) (other : List α) : Outcome α × IV α :=
  let len := s.xs.length
  let otherLen := other.length
  if len + otherLen ≤ s.cap then (.ok (.items []), { s with xs := s.xs ++ other })
  else (.panic .capacity, s)

/-- `const_append` (inline.rs:509): asserts `len + other_len <= CAP` — the capacity of `self`;
    `CAP2`, the capacity of `other`, plays no role — then `append_raw` (copy to `data[len..]`,
    `set_len(len + other_len)`) and `other.set_len(0)`.
    Result: outcome (the value is what remains in `other`), `self`, and `other` afterwards — a
    panic leaves both vectors untouched. -/
def constAppend (s : IV α) (_cap2 : Nat) (other : List α) : Outcome α × IV α × List α :=
  let len := s.xs.length
  let otherLen := other.length
  if len + otherLen ≤ s.cap then (.ok (.items []), { s with xs := s.xs ++ other }, [])
  else (.panic .capacity, s, other)

/-- `truncate` (inline.rs:568). -/
def truncate (s : IV α) (n : Nat) : Outcome α × IV α :=
  let oldLen := s.xs.length
  if n < oldLen then (.ok .unit, { s with xs := s.xs.take n })
  else (.ok .unit, s)

/-- `clear` (inline.rs:545) = `truncate(0)`. -/
def clear (s : IV α) : Outcome α × IV α := s.truncate 0

/-- `swap_remove` (inline.rs:599): assert, `data.swap(index, len-1)`, `set_len(len-1)`, read
    slot `len-1`. -/
def swapRemove (s : IV α) (i : Nat) : Outcome α × IV α :=
  let len := s.xs.length
  if i < len then
    let ys := swap s.xs i (len - 1)
    match ys[len - 1]? with
    | some v => (.ok (.elem v), { s with xs := ys.take (len - 1) })
    | none => (.panic .unreachable, s)
  else (.panic .index, s)

/-- `try_insert` (inline.rs:663): `index > len` is tested first (OutOfBounds), then
    `len == CAP` (Full); then shift right and write. -/
def tryInsert (s : IV α) (i : Nat) (v : α) : Outcome α × IV α :=
  let len := s.xs.length
  if i > len then (.err .outOfBounds (.elem v), s)
  else if len = s.cap then (.err .full (.elem v), s)
  else (.ok .unit, { s with xs := s.xs.take i ++ v :: s.xs.drop i })

/-- `insert` (inline.rs:635): `try_insert`, panics with the error's message. -/
def insert (s : IV α) (i : Nat) (v : α) : Outcome α × IV α :=
  match s.tryInsert i v with
  | (.err .outOfBounds _, s') => (.panic .index, s')
  | (.err _ _, s') => (.panic .capacity, s')
  | r => r

/-- `remove` (inline.rs:703) + `remove_unchecked`: read, shift left, `set_len(len-1)`. -/
def remove (s : IV α) (i : Nat) : Outcome α × IV α :=
  let len := s.xs.length
  if i < len then
    match s.xs[i]? with
    | some v => (.ok (.elem v), { s with xs := s.xs.take i ++ s.xs.drop (i + 1) })
    | none => (.panic .unreachable, s)
  else (.panic .index, s)

/-- `split_off` (inline.rs:756): asserts `at <= len`; the tail is copied to a new vector. -/
def splitOff (s : IV α) (n : Nat) : Outcome α × IV α :=
  if n ≤ s.xs.length then (.ok (.items (s.xs.drop n)), { s with xs := s.xs.take n })
  else (.panic .index, s)

/-- `resize_with` (inline.rs:796): grows only after asserting `new_len <= CAP` (no call of the
    closure before), one slot at a time; otherwise `truncate`. -/
def resizeWith (s : IV α) (n : Nat) (g : Nat → α) : Outcome α × IV α :=
  let len := s.xs.length
  if n > len then
    if n ≤ s.cap then (.ok .unit, { s with xs := s.xs ++ (List.range (n - len)).map g })
    else (.panic .capacity, s)
  else s.truncate n

/-- `resize` (inline.rs:1018) = `resize_with(new_len, || value.clone())`. -/
def resize (s : IV α) (n : Nat) (v : α) : Outcome α × IV α :=
  s.resizeWith n (fun _ => v)

/-- `extend_from_array` (inline.rs:834), `extend_from_slice` (:937), `extend_from_slice_copy`
    (:1097): assert `len + n <= CAP` first, then write. (`extend_from_array` also has the
    compile-time `N <= CAP`, implied by the run-time assert.) -/
def extendFromSlice (s : IV α) (items : List α) : Outcome α × IV α :=
  let len := s.xs.length
  let newLen := len + items.length
  if newLen ≤ s.cap then (.ok .unit, { s with xs := s.xs ++ items })
  else (.panic .capacity, s)

/-- `spare_capacity_mut` (inline.rs:404: the `CAP - len` slots after the elements) filled with
    `vals` by the caller, then `set_len(len + vals.length)` (inline.rs:386). The caller-side
    check `vals.length <= spare.len()` is the capacity assert; nothing is written if it fails. -/
def spareWrite (s : IV α) (vals : List α) : Outcome α × IV α := s.extendFromSlice vals

/-- `extend_from_within` / `extend_from_within_copy` (inline.rs:975, :1171): `common::range`
    error → panic; then assert the new length; then clone `current[range]` into the spare
    slots. -/
def extendFromWithin (s : IV α) (sb eb : Bnd) : Outcome α × IV α :=
  match rangeMono sb eb s.xs.length with
  | .error _ => (.panic .range, s)
  | .ok (a, b) =>
    let len := s.xs.length
    let rangeLen := b - a
    let newLen := len + rangeLen
    if newLen ≤ s.cap then
      (.ok .unit, { s with xs := s.xs ++ (s.xs.drop a).take rangeLen })
    else (.panic .capacity, s)

/-- `Extend::extend` (inline.rs:1272): `push` item by item — a full vector panics in the
    middle, keeping what was pushed so far. The size hint is not consulted. -/
def extend (s : IV α) : List α → Outcome α × IV α
  | [] => (.ok .unit, s)
  | v :: rest =>
    match s.push v with
    | (.ok _, s') => s'.extend rest
    | r => r

/-- `drain` (inline.rs:884) = `Drain::new(..).unwrap_or_else(panic)`: `set_len(start)` on
    creation; on drop the tail `[end, len)` is moved to `start`; a forgotten iterator leaves
    the vector at `[0, start)`. -/
def drain (s : IV α) (sb eb : Bnd) (script : List Side) (fin : DrainEnd) : Outcome α × IV α :=
  match rangeMono sb eb s.xs.length with
  | .error _ => (.panic .range, s)
  | .ok (a, b) =>
    let buf := s.xs
    let ys := walk buf script a b
    match fin with
    | .leak => (.ok (.items ys), { s with xs := buf.take a })
    | .drop => (.ok (.items ys), { s with xs := buf.take a ++ buf.drop b })

/-- `into_iter` (inline.rs:1288) driven by a script and dropped; the variable is `new()` again. -/
def intoIter (s : IV α) (script : List Side) : Outcome α × IV α :=
  (.ok (.items (walk s.xs script 0 s.xs.length)), new s.cap)

/-- `Clone::clone` (inline.rs:1201) = `from_slice_clone(as_slice)` = `new` + `extend_from_slice`;
    the variable is replaced by the clone. -/
def clone (s : IV α) : Outcome α × IV α :=
  match (new s.cap : IV α).extendFromSlice s.xs with
  | (.ok _, c) => (.ok .unit, c)
  | (o, _) => (o, s)

/-- `From` / `FromIterator` (inline.rs:160-217, 900-914): the new vector replaces the variable
    only if the conversion returns. -/
def from_ (s : IV α) (src : Src) (hint : Nat) (items : List α) : Outcome α × IV α :=
  let fresh : IV α := new s.cap
  let r : Outcome α × IV α :=
    match src with
    -- from_array = new + extend_from_array; from_slice_clone / from_slice_copy = new + extend
    | .array | .slice | .sliceCopy | .cowBorrowed => fresh.extendFromSlice items
    -- from_boxed_slice / from_mut_vector: assert `len <= CAP`, copy, set_len
    | .box | .vec | .other | .cowOwned =>
      if items.length ≤ s.cap then (.ok .unit, { fresh with xs := items })
      else (.panic .capacity, fresh)
    -- from_iter: assert `size_hint().0 <= CAP`, then push one by one
    | .iter =>
      if hint ≤ s.cap then fresh.extend items else (.panic .capacity, fresh)
  match r with
  | (.ok _, c) => (.ok .unit, c)
  | (o, _) => (o, s)

end IV

/-! ## ThinVec layout arithmetic -/

/-- Rounds `n` up to a multiple of `a` (`Layout::padding_needed_for` / `pad_to_align`). -/
def roundUp (n a : Nat) : Nat := (n + a - 1) / a * a

/-- Type parameters of a `ThinVec<T, P>` that the capacity depends on. -/
structure TVParams where
  /-- `size_of::<T>()` -/
  szT : Nat
  /-- `align_of::<T>()` -/
  alT : Nat
  /-- `size_of::<P>()` -/
  szP : Nat
  /-- `align_of::<P>()` -/
  alP : Nat
  deriving Repr, DecidableEq, Inhabited

/-- `align_of::<Header<T, P>>()`, `#[repr(C)] { prefix: P, cap: usize, len: usize, PhantomData }`. -/
def hdrAlign (p : TVParams) : Nat := max p.alP 8

/-- `size_of::<Header<T, P>>()`: `prefix` at 0, `cap` at the next multiple of 8, `len` 8 further,
    total rounded up to the header's alignment. -/
def hdrSize (p : TVParams) : Nat := roundUp (roundUp p.szP 8 + 16) (hdrAlign p)

/-- `ThinVec::MINIMAL_CAPACITY` (thin.rs:305-310). -/
def minimalCapacity (szT : Nat) : Nat :=
  if szT = 0 then usizeMax
  else if szT ≥ 64 then 1
  else if szT ≥ 32 then 3
  else 32 / szT

/-- `core::alloc::Layout`. -/
structure Layout where
  size : Nat
  align : Nat
  deriving Repr, DecidableEq, Inhabited

/-- Offset of the first element: `Header` size padded to `align_of::<T>()` (`DATA_OFFSET`). -/
def dataOffset (p : TVParams) : Nat := roundUp (hdrSize p) p.alT

/-- `ThinVec::layout(payload)` (thin.rs:523-545): `Layout::array::<T>(payload)`, `extend`,
    `pad_to_align`, then the capacity rounded up to what fits.
    Returns (layout, offset, rounded capacity); `none` = a `LayoutError`. -/
def layout (p : TVParams) (payload : Nat) : Option (Layout × Nat × Nat) :=
  -- Layout::array::<T>(payload): error iff payload * size > isize::MAX - (align - 1)
  let arrSize := p.szT * payload
  if arrSize > isizeMax + 1 - p.alT then none
  else
    -- Layout::extend
    let newAlign := max (hdrAlign p) p.alT
    let offset := dataOffset p
    let newSize := offset + arrSize
    if newSize > isizeMax + 1 - newAlign then none
    else
      -- pad_to_align
      let size := roundUp newSize newAlign
      let rounded := if p.szT = 0 then usizeMax else (size - offset) / p.szT
      some (⟨size, newAlign⟩, offset, rounded)

/-! ## ThinVec -/

/-- `ThinVec<T, P>`: `cap` = `header.cap`, `xs` = the `header.len` initialised elements; the
    remaining fields are the type parameters the growth policy depends on. -/
structure TV (α : Type) where
  cap : Nat
  xs : List α
  szT : Nat
  alT : Nat
  szP : Nat
  alP : Nat
  deriving Repr, DecidableEq

namespace TV

def params (s : TV α) : TVParams := ⟨s.szT, s.alT, s.szP, s.alP⟩

/-- `with_capacity` (thin.rs:238): `max(capacity, MINIMAL_CAPACITY)`, `layout(..).expect(..)`,
    `header.cap` = rounded capacity. `none` = the `expect` panics. -/
def withCapacity (p : TVParams) (capacity : Nat) : Option (TV α) :=
  let capacity := max capacity (minimalCapacity p.szT)
  match layout p capacity with
  | none => none
  | some (_, _, cap) => some ⟨cap, [], p.szT, p.alT, p.szP, p.alP⟩

/-- `ThinVec::new` = `with_capacity(MINIMAL_CAPACITY)`. -/
def new (p : TVParams) : Option (TV α) := withCapacity p (minimalCapacity p.szT)

/-- `set_capacity` (thin.rs:567): current layout recomputed from the stored capacity, new
    layout from `new_cap`; identical layouts → nothing happens (the stored capacity stays);
    otherwise `realloc` and `header.cap` = rounded new capacity. -/
def setCapacity (s : TV α) (newCap : Nat) : Outcome α × TV α :=
  match layout s.params s.cap with
  | none => (.panic .unreachable, s)          -- `unwrap_unchecked`: layout checked at creation
  | some (cur, _, _) =>
    match layout s.params newCap with
    | none => (.panic .overflow, s)           -- "invalid layout: buffer too large"
    | some (nl, _, rounded) =>
      if cur = nl then (.ok .unit, s)
      else (.ok .unit, { s with cap := rounded })

/-- `reserve_exact` (thin.rs:615). -/
def reserveExact (s : TV α) (additional : Nat) : Outcome α × TV α :=
  if additional > s.cap - s.xs.length then
    match checkedAdd s.xs.length additional with
    | none => (.panic .overflow, s)           -- "capacity overflow"
    | some required => s.setCapacity required
  else (.ok .unit, s)

/-- `reserve` (thin.rs:634): `max(required, 2 * capacity)`. -/
def reserve (s : TV α) (additional : Nat) : Outcome α × TV α :=
  if additional > s.cap - s.xs.length then
    match checkedAdd s.xs.length additional with
    | none => (.panic .overflow, s)
    | some required => s.setCapacity (max required (s.cap * 2))
  else (.ok .unit, s)

/-- Runs `k` on the state after a successful `reserve`. -/
@[inline] def afterReserve (s : TV α) (additional : Nat) (k : TV α → Outcome α × TV α) :
    Outcome α × TV α :=
  match s.reserve additional with
  | (.ok _, s') => k s'
  | r => r

/-- `push` (thin.rs:689). -/
def push (s : TV α) (v : α) : Outcome α × TV α :=
  s.afterReserve 1 fun s' => (.ok .unit, { s' with xs := s'.xs ++ [v] })

/-- `pop` (thin.rs:714). -/
def pop (s : TV α) : Outcome α × TV α :=
  let len := s.xs.length
  if len = 0 then (.ok (.opt none), s)
  else
    match s.xs[len - 1]? with
    | some v => (.ok (.opt (some v)), { s with xs := s.xs.take (len - 1) })
    | none => (.panic .unreachable, s)

/-- `insert` (thin.rs:754): assert `index <= len`, `reserve(1)`, shift, write. -/
def insert (s : TV α) (i : Nat) (v : α) : Outcome α × TV α :=
  let len := s.xs.length
  if i ≤ len then
    s.afterReserve 1 fun s' => (.ok .unit, { s' with xs := s'.xs.take i ++ v :: s'.xs.drop i })
  else (.panic .index, s)

/-- `remove` (thin.rs:798). -/
def remove (s : TV α) (i : Nat) : Outcome α × TV α :=
  let len := s.xs.length
  if i < len then
    match s.xs[i]? with
    | some v => (.ok (.elem v), { s with xs := s.xs.take i ++ s.xs.drop (i + 1) })
    | none => (.panic .unreachable, s)
  else (.panic .index, s)

/-- `swap_remove` (thin.rs:838): read `current`, overwrite it with `last` (even when they are
    the same slot), `set_len(len-1)`. -/
def swapRemove (s : TV α) (i : Nat) : Outcome α × TV α :=
  let len := s.xs.length
  if i < len then
    match s.xs[i]?, s.xs[len - 1]? with
    | some v, some l => (.ok (.elem v), { s with xs := (s.xs.set i l).take (len - 1) })
    | _, _ => (.panic .unreachable, s)
  else (.panic .index, s)

/-- `append` (thin.rs:874): `reserve(other.len())`, copy, `other.set_len(0)`. -/
def append (s : TV α) (other : List α) : Outcome α × TV α :=
  s.afterReserve other.length fun s' => (.ok (.items []), { s' with xs := s'.xs ++ other })

/-- `clear` (thin.rs:905). -/
def clear (s : TV α) : Outcome α × TV α := (.ok .unit, { s with xs := [] })

/-- `truncate` (thin.rs:655): returns early when `len > self.len()`. -/
def truncate (s : TV α) (n : Nat) : Outcome α × TV α :=
  if n > s.xs.length then (.ok .unit, s)
  else (.ok .unit, { s with xs := s.xs.take n })

/-- `Drain::new` + script + drop/forget, shared by `drain` and `try_drain`. -/
def drainCore (s : TV α) (a b : Nat) (script : List Side) (fin : DrainEnd) : Outcome α × TV α :=
  let buf := s.xs
  let ys := walk buf script a b
  match fin with
  | .leak => (.ok (.items ys), { s with xs := buf.take a })
  | .drop => (.ok (.items ys), { s with xs := buf.take a ++ buf.drop b })

/-- `drain` (thin.rs:985). -/
def drain (s : TV α) (sb eb : Bnd) (script : List Side) (fin : DrainEnd) : Outcome α × TV α :=
  match rangeMono sb eb s.xs.length with
  | .error _ => (.panic .range, s)
  | .ok (a, b) => s.drainCore a b script fin

/-- `try_drain` (thin.rs:1020). -/
def tryDrain (s : TV α) (sb eb : Bnd) (script : List Side) (fin : DrainEnd) : Outcome α × TV α :=
  match rangeMono sb eb s.xs.length with
  | .error e => (.err (.range e) .unit, s)
  | .ok (a, b) => s.drainCore a b script fin

/-- `resize` (thin.rs:1027) with `extend_clone` (:1066): `reserve(n)`, then fill in order. -/
def resize (s : TV α) (n : Nat) (v : α) : Outcome α × TV α :=
  let len := s.xs.length
  if n > len then
    s.afterReserve (n - len) fun s' =>
      (.ok .unit, { s' with xs := s'.xs ++ List.replicate (n - len) v })
  else s.truncate n

/-- `try_extend_from_within` (thin.rs:1047): range check, `reserve(end - start)`, clone loop. -/
def tryExtendFromWithin (s : TV α) (sb eb : Bnd) : Outcome α × TV α :=
  let len := s.xs.length
  match rangeMono sb eb len with
  | .error e => (.err (.range e) .unit, s)
  | .ok (a, b) =>
    s.afterReserve (b - a) fun s' =>
      (.ok .unit, { s' with xs := s'.xs ++ (s'.xs.drop a).take (b - a) })

/-- `extend_from_within` (thin.rs:1039): `try_…` then `panic_display`. -/
def extendFromWithin (s : TV α) (sb eb : Bnd) : Outcome α × TV α :=
  match s.tryExtendFromWithin sb eb with
  | (.err _ _, s') => (.panic .range, s')
  | r => r

/-- The loop of `extend_iter` / `from_iter` (thin.rs:1091, :205): item number `i` is preceded
    by `reserve(1)` when `i >= min`. -/
def extendLoop (s : TV α) (min : Nat) : Nat → List α → Outcome α × TV α
  | _, [] => (.ok .unit, s)
  | i, v :: rest =>
    let r : Outcome α × TV α := if i ≥ min then s.reserve 1 else (.ok .unit, s)
    match r with
    | (.ok _, s') => extendLoop { s' with xs := s'.xs ++ [v] } min (i + 1) rest
    | r => r

/-- `Extend::extend` = `extend_iter` (thin.rs:1085): `reserve(size_hint().0)`, then the loop. -/
def extend (s : TV α) (hint : Nat) (items : List α) : Outcome α × TV α :=
  s.afterReserve hint fun s' => s'.extendLoop hint 0 items

/-- `extend_from_slice` / `extend_from_slice_copy` (thin.rs:1119, :1151). -/
def extendFromSlice (s : TV α) (items : List α) : Outcome α × TV α :=
  s.afterReserve items.length fun s' => (.ok .unit, { s' with xs := s'.xs ++ items })

/-- `reserve(vals.length)`, `spare_capacity_mut` (thin.rs:948: the `cap - len` slots after the
    elements) filled with `vals`, `set_len(len + vals.length)` (thin.rs:601). When the values
    already fit, `reserve` does nothing: no reallocation, capacity unchanged. -/
def spareWrite (s : TV α) (vals : List α) : Outcome α × TV α := s.extendFromSlice vals

/-- `shrink_to` (thin.rs:1184). -/
def shrinkTo (s : TV α) (minCap : Nat) : Outcome α × TV α :=
  let len := s.xs.length
  let cap := s.cap
  if minCap ≥ cap then (.ok .unit, s)
  else s.setCapacity (max minCap len)

/-- `shrink_to_fit` (thin.rs:1213). -/
def shrinkToFit (s : TV α) : Outcome α × TV α :=
  let len := s.xs.length
  if len = s.cap then (.ok .unit, s)
  else s.setCapacity len

/-- `split_off` (thin.rs:281): assert, `with_capacity(len - at)` for the tail, copy. -/
def splitOff (s : TV α) (n : Nat) : Outcome α × TV α :=
  let len := s.xs.length
  if n ≤ len then
    match (withCapacity s.params (len - n) : Option (TV α)) with
    | none => (.panic .overflow, s)
    | some _ => (.ok (.items (s.xs.drop n)), { s with xs := s.xs.take n })
  else (.panic .index, s)

/-- The variable is replaced by `with_capacity(n)`. -/
def replaceWithCapacity (s : TV α) (n : Nat) : Outcome α × TV α :=
  match (withCapacity s.params n : Option (TV α)) with
  | none => (.panic .overflow, s)
  | some t => (.ok .unit, t)

/-- `From` / `FromIterator` (thin.rs:104-216): `with_capacity(len)` (or of the size hint),
    then the items are moved/cloned in. -/
def from_ (s : TV α) (src : Src) (hint : Nat) (items : List α) : Outcome α × TV α :=
  match src with
  | .iter =>
    match (withCapacity s.params hint : Option (TV α)) with
    | none => (.panic .overflow, s)
    | some t =>
      match t.extendLoop hint 0 items with
      | (.ok _, c) => (.ok .unit, c)
      | (o, _) => (o, s)
  | _ =>
    match (withCapacity s.params items.length : Option (TV α)) with
    | none => (.panic .overflow, s)
    | some t => (.ok .unit, { t with xs := items })

end TV

/-! ## One step, whole histories -/

/-- Operations `InlineVec` offers. -/
def Op.forIV : Op α → Bool
  | .tryExtendFromWithin .. | .tryDrain .. | .reserve _ | .reserveExact _ | .shrinkTo _
  | .shrinkToFit | .withCapacity _ => false
  | _ => true

/-- Operations `ThinVec` offers. -/
def Op.forTV : Op α → Bool
  | .tryPush _ | .popIf _ | .tryInsert .. | .resizeWith .. | .extendFromArray _
  | .extendFromWithinCopy .. | .intoIter _ | .clone | .constAppend .. => false
  | _ => true

/-- Outcome of an operation the vector kind does not have (never produced for a supported
    operation). -/
def unsupported : Outcome α := .err .outOfBounds .unit

def IV.step (s : IV α) : Op α → Outcome α × IV α
  | .push v => s.push v
  | .tryPush v => s.tryPush v
  | .pop => s.pop
  | .popIf b => s.popIf b
  | .insert i v => s.insert i v
  | .tryInsert i v => s.tryInsert i v
  | .remove i => s.remove i
  | .swapRemove i => s.swapRemove i
  | .truncate n => s.truncate n
  | .clear => s.clear
  | .resize n v => s.resize n v
  | .resizeWith n g => s.resizeWith n g
  | .extendFromSlice l => s.extendFromSlice l
  | .extendFromSliceCopy l => s.extendFromSlice l
  | .extendFromArray l => s.extendFromSlice l
  | .extendFromWithin sb eb => s.extendFromWithin sb eb
  | .extendFromWithinCopy sb eb => s.extendFromWithin sb eb
  | .extend _ items => s.extend items
  | .append other => s.append other
  | .constAppend cap2 other => ((s.constAppend cap2 other).1, (s.constAppend cap2 other).2.1)
  | .spareWrite vals => s.spareWrite vals
  | .splitOff n => s.splitOff n
  | .drain sb eb sc fin => s.drain sb eb sc fin
  | .intoIter sc => s.intoIter sc
  | .clone => s.clone
  | .from src hint items => s.from_ src hint items
  | .tryExtendFromWithin .. | .tryDrain .. | .reserve _ | .reserveExact _ | .shrinkTo _
  | .shrinkToFit | .withCapacity _ => (unsupported, s)

def TV.step (s : TV α) : Op α → Outcome α × TV α
  | .push v => s.push v
  | .pop => s.pop
  | .insert i v => s.insert i v
  | .remove i => s.remove i
  | .swapRemove i => s.swapRemove i
  | .truncate n => s.truncate n
  | .clear => s.clear
  | .resize n v => s.resize n v
  | .extendFromSlice l => s.extendFromSlice l
  | .extendFromSliceCopy l => s.extendFromSlice l
  | .extendFromWithin sb eb => s.extendFromWithin sb eb
  | .tryExtendFromWithin sb eb => s.tryExtendFromWithin sb eb
  | .extend hint items => s.extend hint items
  | .append other => s.append other
  | .spareWrite vals => s.spareWrite vals
  | .splitOff n => s.splitOff n
  | .drain sb eb sc fin => s.drain sb eb sc fin
  | .tryDrain sb eb sc fin => s.tryDrain sb eb sc fin
  | .reserve n => s.reserve n
  | .reserveExact n => s.reserveExact n
  | .shrinkTo n => s.shrinkTo n
  | .shrinkToFit => s.shrinkToFit
  | .withCapacity n => s.replaceWithCapacity n
  | .from src hint items => s.from_ src hint items
  | .tryPush _ | .popIf _ | .tryInsert .. | .resizeWith .. | .extendFromArray _
  | .extendFromWithinCopy .. | .intoIter _ | .clone | .constAppend .. => (unsupported, s)

/-- A whole history: the outcomes in order and the final state. A panicking step leaves the
    state a `catch_unwind` caller sees and the history goes on. -/
def IV.run (s : IV α) : List (Op α) → List (Outcome α) × IV α
  | [] => ([], s)
  | op :: rest =>
    let (o, s') := s.step op
    let (os, s'') := IV.run s' rest
    (o :: os, s'')

def TV.run (s : TV α) : List (Op α) → List (Outcome α) × TV α
  | [] => ([], s)
  | op :: rest =>
    let (o, s') := s.step op
    let (os, s'') := TV.run s' rest
    (o :: os, s'')

/-! ## Payloads given by a count

A source of `n` equal elements (`vec![v; n]`, `repeat(v).take(n)`) can be far longer than any
list a machine materialises — for a zero-sized element type `n = usize::MAX` is a legal `Vec`.
`stepRep` computes the step of the operation on `List.replicate n v` WITHOUT building that list
when the operation is rejected; `Lemmas/Vecs.lean` proves it equal to `step` on the replicated
payload, so the driver can answer such lines. -/

/-- The operations whose payload may be given as a count. -/
inductive RepShape where
  /-- `append(&mut other)` -/
  | append
  /-- `extend_from_slice(&s)` -/
  | extendFromSlice
  /-- `extend_from_slice_copy(&s)` -/
  | extendFromSliceCopy
  /-- `extend(iter)`, the iterator announcing `hint` -/
  | extend (hint : Nat)
  /-- `from_iter(iter)`, the iterator announcing `hint` -/
  | fromIter (hint : Nat)
  deriving Repr, DecidableEq, Inhabited

/-- The operation with an explicit payload. -/
def RepShape.toOp : RepShape → List α → Op α
  | .append, l => .append l
  | .extendFromSlice, l => .extendFromSlice l
  | .extendFromSliceCopy, l => .extendFromSliceCopy l
  | .extend hint, l => .extend hint l
  | .fromIter hint, l => .from .iter hint l

/-- `IV.step (sh.toOp (replicate n v))` without materialising `replicate n v` on rejection. -/
def IV.stepRep (s : IV α) (sh : RepShape) (n : Nat) (v : α) : Outcome α × IV α :=
  let len := s.xs.length
  match sh with
  | .append =>
    if len + n ≤ s.cap then (.ok (.items []), { s with xs := s.xs ++ List.replicate n v })
    else (.panic .capacity, s)
  | .extendFromSlice | .extendFromSliceCopy =>
    if len + n ≤ s.cap then (.ok .unit, { s with xs := s.xs ++ List.replicate n v })
    else (.panic .capacity, s)
  | .extend _ =>
    -- pushes until the vector is full
    if len + n ≤ s.cap then (.ok .unit, { s with xs := s.xs ++ List.replicate n v })
    else (.panic .capacity, { s with xs := s.xs ++ List.replicate (s.cap - len) v })
  | .fromIter hint =>
    if hint ≤ s.cap then
      if n ≤ s.cap then (.ok .unit, { s with xs := List.replicate n v }) else (.panic .capacity, s)
    else (.panic .capacity, s)

/-- `TV.step (sh.toOp (replicate n v))`; the payload is only built inside the continuation that
    runs after a successful `reserve`. (`fromIter` is not offered: `with_capacity` of a huge hint
    succeeds for zero-sized elements and the loop then really runs `n` times.) -/
def TV.stepRep (s : TV α) (sh : RepShape) (n : Nat) (v : α) : Outcome α × TV α :=
  match sh with
  | .append =>
    s.afterReserve n fun s' => (.ok (.items []), { s' with xs := s'.xs ++ List.replicate n v })
  | .extendFromSlice | .extendFromSliceCopy =>
    s.afterReserve n fun s' => (.ok .unit, { s' with xs := s'.xs ++ List.replicate n v })
  | .extend hint => s.afterReserve hint fun s' => s'.extendLoop hint 0 (List.replicate n v)
  | .fromIter _ => (unsupported, s)

/-! ## `usize` arithmetic of the capacity checks

The list model compares `len + n ≤ cap` on unbounded naturals. The code computes on `usize`
(`U = 2^64`): that is faithful only if the check cannot wrap. -/

/-- `2^64`. -/
def U : Nat := 2 ^ 64

/-- `assert!(len + n <= CAP)` as release builds evaluate it: the sum wraps. -/
def capOk_wrapping (len n cap : Nat) : Prop := (len + n) % U ≤ cap

/-- `assert!(n <= CAP - len)` (with `len ≤ CAP`, so the subtraction is exact). -/
def capOk_checked (len n cap : Nat) : Prop := n ≤ cap - len

instance : Decidable (capOk_wrapping a b c) := by unfold capOk_wrapping; exact inferInstance
instance : Decidable (capOk_checked a b c) := by unfold capOk_checked; exact inferInstance

end HipVerif.Vecs
