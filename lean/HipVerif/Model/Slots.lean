/-
L0 model: operations as data (`Op`), one step (`step`), histories (`run`).
An operation line of the driver / one call sequence of the Rust harness = one `Op`.
-/
import HipVerif.Model.SlotsThin
namespace HipVerif.Slots

inductive Op where
  | push | tryPush | pop
  /-- `pop_if(|_| ans)`, the predicate being a fault point -/
  | popIf (ans : Bool)
  /-- `FromIterator::from_iter` into a temporary vector that is dropped afterwards -/
  | fromIter (hint n : Nat)
  | insert (i : Nat) | tryInsert (i : Nat) | remove (i : Nat) | swapRemove (i : Nat)
  | truncate (n : Nat) | clear | resize (n : Nat) | resizeWith (n : Nat)
  | extSlice (n : Nat) | extWithin (a b : Nat) | extIter (hint n : Nat)
  | clone | append (n : Nat) | splitOff (at_ : Nat)
  | drain (a b : Nat) (script : List IStep) (fin : IFin)
  | intoIter (script : List IStep) (fin : IFin)
  | reserve (n : Nat) | shrinkFit | roundtrip
  | dropVec
  deriving DecidableEq, Repr

def liftB (r : Bool × St) : Ret × St := (boolRet r.1, r.2)

/-- one operation on an InlineVec -/
def iStep : Op → St → Ret × St
  | .push, s => iPush s
  | .tryPush, s => iTryPush s
  | .pop, s => iPop s
  | .popIf b, s => iPopIf b s
  | .fromIter h n, s => liftB (iFromIter h n s)
  | .insert i, s => iInsert i s
  | .tryInsert i, s => iTryInsert i s
  | .remove i, s => iRemove i s
  | .swapRemove i, s => iSwapRemove i s
  | .truncate n, s => liftB (iTruncate n s)
  | .clear, s => liftB (iTruncate 0 s)
  | .resize n, s => liftB (iResize n s)
  | .resizeWith n, s => liftB (iResizeWith n s)
  | .extSlice n, s => liftB (iExtSlice n s)
  | .extWithin a b, s => liftB (iExtWithin a b s)
  | .extIter _ n, s => liftB (iExtend n s)
  | .clone, s => liftB (iClone s)
  | .append n, s => liftB (iAppend n s)
  | .splitOff a, s => liftB (iSplitOff a s)
  | .drain a b sc f, s => liftB (drainOp a b sc f s)
  | .intoIter sc f, s => liftB (iIntoIter sc f s)
  | .reserve _, s => (.na, s)
  | .shrinkFit, s => (.na, s)
  | .roundtrip, s => liftB (iRoundtrip s)
  | .dropVec, s => liftB (iDrop s)

/-- one operation on a ThinVec -/
def tStep : Op → St → Ret × St
  | .push, s => tPush s
  | .tryPush, s => (.na, s)
  | .pop, s => iPop s
  | .popIf _, s => (.na, s)
  | .fromIter h n, s => liftB (tFromIter h n s)
  | .insert i, s => tInsert i s
  | .tryInsert _, s => (.na, s)
  | .remove i, s => iRemove i s
  | .swapRemove i, s => tSwapRemove i s
  | .truncate n, s => liftB (tTruncate n s)
  | .clear, s => liftB (tClear s)
  | .resize n, s => liftB (tResize n s)
  | .resizeWith _, s => (.na, s)
  | .extSlice n, s => liftB (tExtSlice n s)
  | .extWithin a b, s => liftB (tExtWithin a b s)
  | .extIter h n, s => liftB (tExtend h n s)
  | .clone, s => liftB (tClone s)
  | .append n, s => liftB (tAppend n s)
  | .splitOff a, s => liftB (tSplitOff a s)
  | .drain a b sc f, s => liftB (drainOp a b sc f s)
  | .intoIter _ _, s => (.na, s)
  | .reserve n, s => (.unit, s.reserve n)
  | .shrinkFit, s => (.unit, tShrinkFit s)
  | .roundtrip, s => match tRoundtrip s with | none => (.na, s) | some r => liftB r
  | .dropVec, s => liftB (tDrop s)

/-- One operation with fault injection: the `k`-th user callback of this operation panics
(`none` = no fault). A dropped container accepts no more operations. -/
def step (k : Option Nat) (op : Op) (s : St) : Ret × St :=
  if s.v.h.alive then
    let s := { s with mem := { s.mem with budget := k } }
    let (r, s) := if s.v.h.thin then tStep op s else iStep op s
    (r, { s with mem := { s.mem with budget := none } })
  else (.na, s)

/-- a history: operations, each with an optional injected fault -/
def run : List (Option Nat × Op) → St → St
  | [], s => s
  | (k, op) :: h, s => run h (step k op s).2

/-- `InlineVec::<_, cap>::new()` -/
def initInline (cap : Nat) : St := { v := iNew cap }

/-- `ThinVec::<T, P>::new()` with `size_of::<T>() = esz` -/
def initThin (esz : Nat) (tracked : Bool) : St := tNewQuiet esz tracked {}

end HipVerif.Slots
