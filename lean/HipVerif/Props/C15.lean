/-
C15 — Containers stay sound when user code panics mid-operation (InlineVec, ThinVec), on the L0
slot model. A fault `some k` makes the `k`-th user callback of the operation (`Clone::clone`,
`Drop::drop`, `Default::default`, `Iterator::next`, the `resize_with` generator) panic; unwinding
Fault points: every user call inventoried in `Model/SlotsUserCalls.lean` — `Clone::clone`,
`Drop::drop` (also of rejected values, guards and partially built vectors), the `pop_if` predicate,
the `resize_with` generator, `IntoIterator::into_iter`, `Iterator::size_hint`, `Iterator::next`
and the destructor of the caller's iterator, `P::default()` and `P::drop` of the ThinVec prefix.
Unwinding runs the modelled guards (`SliceGuard::drop`, the drop of by-value arguments and of partially
built local vectors) and leaves `Drain`'s tail behind. The theorems hold for EVERY `k`: they are
proved by induction over the loops of the operations (Lemmas/Slots*.lean), not by enumeration.
The multi-piece string construction clause of C15 is outside this file (string family).
-/
import HipVerif.Lemmas.SlotsStep
import HipVerif.Model.SlotsUserCalls
namespace HipVerif.Props.C15
open HipVerif.Slots

/-- For every operation, every state satisfying the ownership invariant and every fault position
`k`: after the run — normal return or unwinding — the ownership invariant still holds (nothing
was or will be dropped twice, nothing uninitialised was dropped or read, no write beyond the
capacity) and the container's length covers only initialised slots. Only leaks are possible. -/
theorem panic_safe {s : St} (h : Own s) (k : Nat) (op : Op) :
    Own (step (some k) op s).2 ∧ LenCoversInit (step (some k) op s).2 :=
  ⟨step_own (some k) op h, (step_own (some k) op h).lenCovers⟩

/-- The same without a fault (the operation's own assertion panics included). -/
theorem normal_safe {s : St} (h : Own s) (op : Op) :
    Own (step none op s).2 ∧ LenCoversInit (step none op s).2 :=
  ⟨step_own none op h, (step_own none op h).lenCovers⟩

/-- After a panicking operation the container can still be used and dropped: any further history
(with further faults) keeps the invariant, so no later operation — including the final drop —
double-drops, drops uninitialised memory or writes out of bounds. -/
theorem usable_after {s : St} (h : Own s) (k : Nat) (op : Op) (hist : List (Option Nat × Op)) :
    Own (run hist (step (some k) op s).2) ∧ LenCoversInit (run hist (step (some k) op s).2) ∧
      ∀ e ∈ (run hist (step (some k) op s).2).mem.trace, e.bad = false :=
  have h1 := run_own hist _ (step_own (some k) op h)
  ⟨h1, h1.lenCovers, h1.nobad⟩

/-- The operations named in the property (resize, extend_from_within, extend, insert, truncate,
a drain's drop — after any script of pulls `next`/`next_back`/`nth`/`nth_back` and any way of
consuming the drain: `last`, `count`, `fold`, `rfold`, plain drop, `mem::forget` —, clone /
from_slice_clone) on both vector kinds, for every fault position: the
vector's length never covers an uninitialised slot afterwards. -/
theorem len_covers_init_named {s : St} (h : Own s) (k : Nat) (n a b : Nat)
    (script : List IStep) (fin : IFin) :
    LenCoversInit (step (some k) (.resize n) s).2 ∧
    LenCoversInit (step (some k) (.extWithin a b) s).2 ∧
    LenCoversInit (step (some k) (.extIter a n) s).2 ∧
    LenCoversInit (step (some k) (.extSlice n) s).2 ∧
    LenCoversInit (step (some k) (.insert a) s).2 ∧
    LenCoversInit (step (some k) (.truncate n) s).2 ∧
    LenCoversInit (step (some k) (.drain a b script fin) s).2 ∧
    LenCoversInit (step (some k) .clone s).2 :=
  ⟨(panic_safe h k _).2, (panic_safe h k _).2, (panic_safe h k _).2, (panic_safe h k _).2,
    (panic_safe h k _).2, (panic_safe h k _).2, (panic_safe h k _).2, (panic_safe h k _).2⟩

/-- Even across faults every id is the subject of at most one drop-or-return event. -/
theorem at_most_once_after_faults {s : St} (h : Own s) (hist : List (Option Nat × Op)) (a : Nat) :
    ((run hist s).mem.trace.filterMap Ev.outId).count a ≤ 1 := by
  obtain ⟨_, _, _, _, _, ha⟩ := run_own hist s h
  rw [ha.trout]
  exact List.nodup_iff_count.mp ha.outnd a

/-! ### Non-vacuity: the fault really fires mid-loop, and the state is non-trivial -/

/-- `ThinVec::resize(4, v)` on a 1-element vector, second clone panics: one clone stored, the
value and nothing else dropped by the unwinding, `len = 2` -/
example :
    let s := run [(none, .push)] (initThin 8 true)
    (step (some 1) (.resize 4) s).1 = .panic ∧ (step (some 1) (.resize 4) s).2.v.len = 2 ∧
      (step (some 1) (.resize 4) s).2.mem.trace.take 2 = [.drop 2, .clone 2 3] := by decide

example : Own (step (some 1) (.resize 4) (run [(none, .push)] (initThin 8 true))).2 :=
  (panic_safe (run_own _ _ (own_initThin 8 true (by decide))) 1 _).1

/-- `extend_from_slice` on a ThinVec, third clone panics: the `SliceGuard` drops the two clones
already written, the length is unchanged -/
example :
    let s := run [(none, .push)] (initThin 8 false)
    (step (some 2) (.extSlice 3) s).1 = .panic ∧ (step (some 2) (.extSlice 3) s).2.v.len = 1 := by
  decide

/-- a destructor panicking inside `Drain::drop`: the rest of the range is still dropped, the tail
is not moved back (leaked), the vector keeps the head only -/
example :
    let s := run [(none, .push), (none, .push), (none, .push), (none, .push)] (initInline 4)
    (step (some 0) (.drain 1 3 [] .drop) s).1 = .panic ∧
      (step (some 0) (.drain 1 3 [] .drop) s).2.v.len = 1 ∧
      (step (some 0) (.drain 1 3 [] .drop) s).2.mem.trace.take 2 = [.drop 2, .drop 1] := by decide

/-! ### The iterator's provided methods (std defaults over `next` / `next_back`) -/

/-- `drain(0..3).nth(1)` whose first skipped item's destructor panics: the cursor has already
passed that item, so `Drain::drop` (run by the unwinding) drops the other two exactly once and
moves the tail back.  (An `nth` override that drops the skipped items in place before advancing
the cursor — seeded mutation C15r3-m2 — drops the first one twice here.) -/
example :
    let s := run [(none, .push), (none, .push), (none, .push), (none, .push)] (initInline 4)
    (step (some 0) (.drain 0 3 [.nth 1] .drop) s).1 = .panic ∧
      (step (some 0) (.drain 0 3 [.nth 1] .drop) s).2.v.len = 1 ∧
      (step (some 0) (.drain 0 3 [.nth 1] .drop) s).2.v.get 0 = .init 3 ∧
      (step (some 0) (.drain 0 3 [.nth 1] .drop) s).2.mem.trace.take 3 =
        [.drop 2, .drop 1, .drop 0] := by decide

/-- `drain(0..3).fold(..)` whose closure panics at its second call: the first item was kept by the
closure, the second — moved out already — is dropped by the unwinding, the third by `Drain::drop`.
(A `fold` override that advances the range only at the end — C15r3-m1 — drops the second twice.) -/
example :
    let s := run [(none, .push), (none, .push), (none, .push), (none, .push)] (initInline 4)
    (step (some 1) (.drain 0 3 [] .fold) s).1 = .panic ∧
      (step (some 1) (.drain 0 3 [] .fold) s).2.v.len = 1 ∧
      (step (some 1) (.drain 0 3 [] .fold) s).2.mem.trace.take 3 =
        [.drop 2, .drop 1, .ret 0] := by decide

/-- `into_iter().last()` whose first accumulator's destructor panics: the new accumulator is
leaked (not dropped twice), `IntoIter::drop` releases the rest; `rfold` runs from the back -/
example :
    let s := run [(none, .push), (none, .push), (none, .push)] (initInline 3)
    (step (some 0) (.intoIter [] .last) s).1 = .panic ∧
      (step (some 0) (.intoIter [] .last) s).2.mem.trace.take 2 = [.drop 2, .drop 0] ∧
      (step none (.intoIter [.nthBack 0] .last) s).2.mem.trace.take 3 =
        [.ret 1, .drop 0, .ret 2] ∧
      (step (some 1) (.intoIter [] .rfold) s).2.mem.trace.take 3 =
        [.drop 0, .drop 1, .ret 2] ∧
      (step none (.intoIter [.front] .count) s).2.mem.trace.take 3 =
        [.drop 2, .drop 1, .ret 0] := by decide

example : Own (step (some 0) (.intoIter [] .last)
    (run [(none, .push), (none, .push), (none, .push)] (initInline 3))).2 :=
  (panic_safe (run_own _ _ (own_initInline 3)) 0 _).1

/-- two more operations and the final drop after a fault: nothing is dropped twice -/
example :
    let s := run [(none, .push), (none, .push), (some 0, .clone), (none, .push), (none, .truncate 1),
      (none, .dropVec)] (initInline 3)
    ∀ e ∈ s.mem.trace, e.bad = false := by decide

/-! ### The new fault points: closures and the caller's iterator -/

/-- a panicking `pop_if` predicate: nothing has been moved yet, the vector is unchanged and no
destructor runs (the seeded mutation C15-m4 reads the element out before the call and breaks
exactly this) -/
example :
    let s := run [(none, .push), (none, .push)] (initInline 3)
    (step (some 0) (.popIf true) s).1 = .panic ∧ (step (some 0) (.popIf true) s).2.v.len = 2 ∧
      (step (some 0) (.popIf true) s).2.mem.trace = s.mem.trace ∧
      (step none (.popIf true) s).1 = .some 1 ∧ (step none (.popIf false) s).1 = .none := by decide

/-- `ThinVec::from_iter` whose third `next` panics: the two items already stored in the new vector,
its prefix and its buffer are released by the unwinding; the operand is untouched -/
example :
    let s := run [(none, .push)] (initThin 8 true)
    (step (some 5) (.fromIter 1 3) s).1 = .panic ∧
      (step (some 5) (.fromIter 1 3) s).2.mem.bufs = s.mem.bufs ∧
      (step (some 5) (.fromIter 1 3) s).2.mem.trace.take 4 = [.freeBuf 1, .drop 2, .drop 4, .drop 3]
    := by decide

/-- a panicking `size_hint` / `into_iter` of the caller's iterator: nothing happened yet -/
example :
    let s := run [(none, .push)] (initThin 8 true)
    (step (some 0) (.extIter 1 2) s).1 = .panic ∧ (step (some 1) (.extIter 1 2) s).1 = .panic ∧
      (step (some 1) (.extIter 1 2) s).2.v.len = 1 ∧
      (step (some 1) (.extIter 1 2) s).2.mem.trace = s.mem.trace := by decide

/-! ### Coverage of the user-call sites

`Gen/PubFns` has no parameter types; the check is per public function of the vector modules
(see `Model/SlotsUserCalls.lean`). -/

open HipVerif.Slots.UserCalls in
#guard allClassified

open HipVerif.Slots.UserCalls in
#guard noStale

/-- the model operation in which the closure / caller's iterator of a public function runs -/
def closureOp : String → Option Op
  | "<vecs::inline::InlineVec<T, CAP, SHIFT, TAG> as Extend<T>>::extend" => some (.extIter 0 0)
  | "vecs::inline::InlineVec::pop_if" => some (.popIf true)
  | "vecs::inline::InlineVec::resize_with" => some (.resizeWith 0)
  | _ => none

open HipVerif.Slots.UserCalls in
#guard closureSites.all fun f => (closureOp f).isSome

end HipVerif.Props.C15
