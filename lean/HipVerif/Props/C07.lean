/-
C07 — Representation contract: borrow/inline/heap choice, zero-copy, no-alloc, niche.
Statements and proofs: Lemmas/CoreExtraA.lean, Lemmas/CoreStep.lean (`norm_step`), Lemmas/Tags.lean.
-/
import HipVerif.Audit.Reexport
import HipVerif.Lemmas.CoreExtraA
import HipVerif.Lemmas.CoreRun
import HipVerif.Lemmas.Tags

namespace HipVerif.Props.C07
open HipVerif.Core

/-- **Lineage invariant.** In every reachable state, a value that does not descend from an explicit
`with_capacity` request is normalised (inline, borrowed, or longer than the inline capacity):
normalisation is re-established by slice, truncate, pop, mutate-guard drop, shrink_to, … -/
theorem untainted_norm (cfg : Cfg) (srcs : List (List UInt8)) (n : Nat) (ops : List Op) :
    NormOk cfg (run cfg (init srcs n) ops).1 := by
  apply norm_run cfg ops _ (wf_init cfg srcs n)
  intro h hd hg
  have : getH (init srcs n) h = none := by
    simp only [getH, init]
    by_cases hl : h < n
    · simp [hl]
    · have : (List.replicate n (none : Option Handle))[h]? = none :=
        List.getElem?_eq_none (by simpa using Nat.le_of_not_lt hl)
      simp [this]
  rw [this] at hg; cases hg

/-- one step of it -/
theorem norm_preserved (cfg : Cfg) (s : State) (op : Op) (w : Wf cfg s) (n : NormOk cfg s) :
    NormOk cfg (step cfg s op).1 := norm_step cfg s op w n

/-- An owned value of at most `inline_capacity()` bytes that does not descend from `with_capacity`
is stored inline (hence an empty value from new/default/clear is never heap-backed). -/
reexport HipVerif.Core.untainted_small_owned_inline as untainted_small_owned_inline

/-- `new`, `inline`, `try_inline` and small `from(&[u8])` allocate nothing. -/
reexport HipVerif.Core.new_no_alloc as new_no_alloc
reexport HipVerif.Core.inline_no_alloc as inline_no_alloc
reexport HipVerif.Core.fromSlice_small_no_alloc as from_slice_small_no_alloc

/-- Borrowing constructors never copy or allocate and expose the caller's exact memory. -/
reexport HipVerif.Core.borrowed_zero_copy as borrowed_zero_copy

/-- Cloning a heap-backed Arc/Rc value below the ceiling allocates nothing and the clone points into
the same buffer at the same offset; the count goes up by one. -/
reexport HipVerif.Core.clone_shares as clone_shares

/-- Slicing it to more than the inline capacity allocates nothing and points into the same buffer at
the right offset. -/
reexport HipVerif.Core.slice_shares as slice_shares
reexport HipVerif.Core.adopt_shares as adopt_shares

/-- `From<Vec<u8>>` of a long vector takes the caller's buffer: only the box is allocated. -/
reexport HipVerif.Core.fromVec_reuses_buffer as from_vec_reuses_buffer

/-- `into_vec` of a sole owner at offset 0 hands back the very buffer: nothing is copied, only the
box is freed. -/
reexport HipVerif.Core.intoVec_returns_buffer as into_vec_returns_buffer

/-- `capacity() >= len()` always. -/
reexport HipVerif.Core.capacity_ge_len as capacity_ge_len

/-- A `with_capacity(n)` value accepts bytes up to its capacity without its data moving. -/
reexport HipVerif.Core.push_within_capacity_stable as push_within_capacity_stable

/-- **Niche.** The first byte of every representation is non-zero and carries a distinct tag
(constants and encodings GENERATED from src/bytes/raw.rs and src/vecs/inline.rs): this is what
gives `Option<Hip*>` the size of `Hip*`. -/
theorem tag_nonzero :
    (∀ len, len ≤ Gen.Consts.inlineCapacity →
      Tags.inlineByte len ≠ 0 ∧ Tags.tagOf (Tags.inlineByte len) = Gen.Consts.tagInline) ∧
    (Tags.borrowedByte ≠ 0 ∧ Tags.tagOf Tags.borrowedByte = Gen.Consts.tagBorrowed) ∧
    (∀ addr, addr % 4 = 0 → Tags.allocatedWord addr % 256 ≠ 0 ∧
      Tags.tagOf (Tags.allocatedWord addr % 256) = Gen.Consts.tagAllocated) ∧
    Gen.Consts.tagInline ≠ Gen.Consts.tagBorrowed ∧ Gen.Consts.tagInline ≠ Gen.Consts.tagAllocated ∧
    Gen.Consts.tagBorrowed ≠ Gen.Consts.tagAllocated :=
  ⟨fun len h => ⟨(Tags.inline_byte_ok len h).2.1, (Tags.inline_byte_ok len h).2.2.1⟩,
   Tags.borrowed_byte_ok, Tags.allocated_word_ok,
   Tags.tags_distinct_nonzero.2.2.2.1, Tags.tags_distinct_nonzero.2.2.2.2.1,
   Tags.tags_distinct_nonzero.2.2.2.2.2.1⟩

/-- the inline capacity the model uses is the one the source defines (23 on 64-bit) -/
theorem inline_capacity_is_23 : Gen.Consts.inlineCapacity = 23 ∧ Gen.Consts.sizeOfBorrowed = 24 := by
  decide

/-! Non-vacuity: `with_capacity(100)`, `clear`, `push` is a tainted, non-normalised heap value (the
documented exception), while the same history from `from_slice` ends inline. -/

private def c : Cfg := { backend := .arc, ceil := 9, debug := true, icap := 23 }

example : (getH (run c (init [] 2) [.withCapacity 0 100, .clear 0, .pushSlice 0 [1, 2]]).1 0).map
    (fun h => (isHeap h, h.tainted)) = some (true, true) := by decide

example : (getH (run c (init [] 2) [.fromSlice 0 (List.replicate 30 1), .clear 0]).1 0).map
    (fun h => (isInline h, h.tainted)) = some (true, false) := by decide

end HipVerif.Props.C07
