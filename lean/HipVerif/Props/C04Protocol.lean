/-
C04 (and C02) — source-order protocol of the functions that juggle a heap descriptor.

`Gen.Protocol.fns` is REGENERATED from src/bytes/raw.rs, src/bytes/raw/allocated.rs and
src/bytes.rs: for every control-flow path of `make_unique`, `take_vec`, `Drop`, `explicit_clone`,
`slice_unchecked`, `try_into_vec`, `as_mut_slice`, `spare_capacity_mut`, `push_slice(_unchecked)`,
`shrink_to`, `truncate` it lists, in source order, the uniqueness tests, payload reads and writes,
count operations, releases of the share and moves of the descriptor.  The release/acquire model of
`Model/Conc.lean` (theorems of `Props/C04.lean`) quantifies over thread programs built from
`read`, `clone`, `mutate`-after-a-successful-uniqueness-test, `unwrap` and `drop`: a function is
such a program exactly when each of its paths is LEGAL — no access to the payload or the count
after the share has been released, no write before a uniqueness test.
-/
import HipVerif.Gen.Protocol

namespace HipVerif.Props.C04
open HipVerif.ProtocolTy

/-- Every path of every descriptor-juggling function is a legal share-holder program: the bytes
are copied BEFORE the share is released (`make_unique`, `take_vec`, `shrink_to`, `truncate`,
`push_slice`), writes come only after a uniqueness test, nothing touches the buffer after the
release. -/
theorem protocol_legal : ∀ f ∈ Gen.Protocol.fns, legal f = true := by decide

/-- the table is not empty and covers the copy-on-write path -/
theorem protocol_covers_make_unique :
    (Gen.Protocol.fns.any fun f => f.fn_ == "HipByt::make_unique [Tag::Allocated]" &&
      f.paths.any (fun p => p.contains .read && p.contains .release)) = true := by decide

/-! Non-vacuity: releasing the share before copying the bytes (the order a careless edit of
`make_unique` produces — it still compiles because the descriptor is `Copy`) is rejected. -/

example : legalFrom false false false [.testUnique, .moveOut, .release, .read, .read, .assignSelf] = false := by
  decide

example : legalFrom false false false [.testUnique, .moveOut, .read, .read, .release, .assignSelf] = true := by
  decide

/-- a write without a uniqueness test is rejected, unless the function assumes uniqueness -/
example : legalFrom false false false [.write] = false ∧ legalFrom false true false [.write] = true := by decide

end HipVerif.Props.C04
