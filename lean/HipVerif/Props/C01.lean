/-
C01 — Content always equals the std model across all operation histories.

`Core.step` (Model/Core.lean) mirrors the code of `HipByt` (and, through the repr(transparent)
wrappers, `HipStr`/`HipOsStr`/`HipPath`) branch by branch; `Spec.Std.step` (Spec/Std.lean) is the
std-side specification on plain byte lists; `abs` reads every handle back.  The tie of both to
the real crate and to real std is the `coredrive` correspondence run.
-/
import HipVerif.Lemmas.CoreRun
import HipVerif.Lemmas.CoreExtraA
import HipVerif.Audit.Reexport
import HipVerif.Gen.FmtDelegates
import HipVerif.Lemmas.CoreStrRefine

namespace HipVerif.Props.C01
open HipVerif.Core HipVerif.Spec.Std

/-- The initial state (any caller memory, any number of empty slots) satisfies the invariant. -/
theorem init_wf (cfg : Cfg) (srcs : List (List UInt8)) (n : Nat) : Wf cfg (init srcs n) :=
  wf_init cfg srcs n

/-- One step: for every backend, every ceiling, debug assertions on or off, every operation on a
well-formed state yields exactly the contents and the returned value the std-side specification
yields (the specification being told only the representation-dependent answers: whether mutable
access / ownership of the buffer was granted). -/
theorem step_refines (cfg : Cfg) (s : State) (op : Op) (w : Wf cfg s) (hok : OpOk s op) :
    Spec.Std.step cfg.icap s.srcs (abs s) op (retFlag (step cfg s op).2.ret) =
      (abs (step cfg s op).1, eraseRet (step cfg s op).2.ret) :=
  refines cfg s op w hok

/-- Every finite history, from the initial state: at the end every live value reads back what
the same history yields on the std owned type, and every returned item along the way was equal. -/
theorem run_refines (cfg : Cfg) (srcs : List (List UInt8)) (n : Nat) (ops : List Op)
    (hok : AllOk cfg (init srcs n) ops) :
    specRun cfg.icap srcs (abs (init srcs n))
        (ops.zip ((run cfg (init srcs n) ops).2.map (fun o => retFlag o.ret))) =
      (abs (run cfg (init srcs n) ops).1, (run cfg (init srcs n) ops).2.map (fun o => eraseRet o.ret)) :=
  Core.run_refines cfg ops (init srcs n) (wf_init cfg srcs n) hok

/-- …and from any reachable (well-formed) state. -/
theorem run_refines_from (cfg : Cfg) (s : State) (w : Wf cfg s) (ops : List Op) (hok : AllOk cfg s ops) :
    specRun cfg.icap s.srcs (abs s) (ops.zip ((run cfg s ops).2.map (fun o => retFlag o.ret))) =
      (abs (run cfg s ops).1, (run cfg s ops).2.map (fun o => eraseRet o.ret)) :=
  Core.run_refines cfg ops s w hok

/-- An operation panics exactly where the specification (std's counterpart or the documented
precondition) does. -/
theorem panic_iff (cfg : Cfg) (s : State) (op : Op) (w : Wf cfg s) (hok : OpOk s op) :
    (step cfg s op).2.ret = .panic ↔
      (Spec.Std.step cfg.icap s.srcs (abs s) op (retFlag (step cfg s op).2.ret)).2 = .panic := by
  rw [refines cfg s op w hok]
  simp only
  cases (step cfg s op).2.ret <;> simp [eraseRet]

/-- Operations behave IDENTICALLY with debug assertions on and off: from a well-formed state no
debug assertion of the model (normalisation of slice/truncate results, validity of the heap
descriptor) can fire. -/
reexport HipVerif.Core.debug_irrelevant as debug_irrelevant

/-- `Display`/`Debug` text: every formatting impl of a Hip type (REGENERATED table) is a pure
delegation to the same trait's impl of the std view of the value (`[u8]` for HipByt, `str` for HipStr,
`OsStr` for HipOsStr, `Path` for HipPath) — so text equality with the std owned type is content
equality, which `run_refines` gives. -/
theorem fmt_delegates_ok :
    ∀ r ∈ Gen.FmtDelegates.table,
      (r.ty = "HipByt" → r.accessor = "as_slice") ∧ (r.ty = "HipStr" → r.accessor = "as_str") ∧
      (r.ty = "HipOsStr" → r.accessor = "as_os_str") ∧ (r.ty = "HipPath" → r.accessor = "as_path") := by
  decide

/-- …and each type has the impls std's owned type has (Debug for all four, Display for HipStr). -/
theorem fmt_coverage :
    (Gen.FmtDelegates.table.map fun r => (r.ty, r.trait_)) =
      [("HipByt", "Debug"), ("HipStr", "Debug"), ("HipStr", "Display"), ("HipOsStr", "Debug"), ("HipPath", "Debug")] := by
  decide

/-- The invariant holds in every reachable state. -/
theorem reachable_wf (cfg : Cfg) (srcs : List (List UInt8)) (n : Nat) (ops : List Op) :
    Wf cfg (run cfg (init srcs n) ops).1 :=
  wf_run cfg ops _ (wf_init cfg srcs n)

/-- Nothing ever writes through a borrow: caller-owned memory is untouched by every history. -/
theorem borrowed_memory_untouched (cfg : Cfg) (s : State) (ops : List Op) :
    (run cfg s ops).1.srcs = s.srcs :=
  srcs_run cfg ops s

/-! Non-vacuity: a concrete history with sharing, an offset view, an in-place append and a
conversion back to `Vec` satisfies the side conditions and runs without `bad-op`. -/

private def demoCfg : Cfg := { backend := .arc, ceil := 5, debug := true, icap := 23 }
private def demoOps : List Op :=
  [.fromSlice 0 (List.replicate 30 7), .clone 0 1, .slice 0 2 (.included 2) (.excluded 28),
   .pushSlice 1 [1, 2, 3], .drop 0, .intoVec 1]

example : AllOk demoCfg (init [] 4) demoOps := by
  simp [demoOps, AllOk, OpOk, HipVerif.Spec.Range.Bound.fits, HipVerif.RangeTy.U]
  decide

example : ((run demoCfg (init [] 4) demoOps).2.map (fun o => o.ret)).all (· != .badOp) = true := by
  decide

/-! ### The `HipStr` layer refines `String` (Spec/Str.lean, Lemmas/CoreStrRefine.lean) -/

/-- One `HipStr` call: for every call a Rust program can make (`StrOk`: range bounds are `usize`s and lengths at most
`isize::MAX`) on a well-formed state holding only valid UTF-8, the API layer — the code's boundary / `from_utf8` checks
followed by the byte-level operation on the shared / offset / inline / borrowed representation — yields EXACTLY the pool
contents and the returned item `String`/`str` yield (`Spec.Str.step`): the popped scalar's bytes, the `SliceError`
payload and classification, `valid_up_to`, and a panic in the same cases. -/
reexport HipVerif.Str.strStep_refines as str_step_refines

/-- Every finite history of `HipStr` calls from the initial state: at the end every value reads back what the same
calls yield on `String`s, and every returned item along the way was equal. The side condition `AllStrOk` is about
argument TYPES only (`&str` data valid, `char`s scalar, bounds `usize`), never about char boundaries. -/
reexport HipVerif.Str.strRun_refines_init as str_run_refines

/-- …and from any well-formed state holding valid UTF-8. -/
reexport HipVerif.Str.strRun_refines as str_run_refines_from

/-- A `HipStr` call panics — in the layer's own checks or in the byte-level operation under it — exactly where the
`String` specification of that call panics. -/
reexport HipVerif.Str.str_panic_iff as str_panic_iff

/-- non-vacuity: a 10-call history (ill-formed `from_utf8`, off-boundary `try_slice`/`truncate`, `pop`, `push`, `slice`,
`clone`) satisfies the side conditions, and model and specification compute the same explicit result -/
reexport HipVerif.Str.Example.ops_ok as str_example_ok
reexport HipVerif.Str.Example.model_result as str_example_model
reexport HipVerif.Str.Example.spec_result as str_example_spec

end HipVerif.Props.C01
