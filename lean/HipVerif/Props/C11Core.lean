/-
C11 — adoption half: every piece an inherited `str` method yields is obtained by `adopt`
(`slice_ref_unchecked` of a window that std guarantees to lie inside the haystack).  These
theorems say what adoption does, for every reachable sharing situation; `Props/C11.lean`
(generated wiring table) says that every wrapper does exactly that with std's own results.
-/
import HipVerif.Lemmas.CoreRun
import HipVerif.Lemmas.SpecFrame
import HipVerif.Lemmas.CoreOpsA2

namespace HipVerif.Props.C11
open HipVerif.Core HipVerif.Spec.Std

/-- An adopted piece reads exactly the window of the haystack, whatever the haystack's
representation (inline, borrowed, shared heap at an offset, Unique / ceiling-saturated). -/
theorem adopt_content (cfg : Cfg) (s : State) (h d off len : Nat) (hd : Handle) (w : Wf cfg s)
    (hg : getH s h = some hd) (hfree : slotFree s d = true) (hin : off + len ≤ (view s hd).length) :
    sget (abs (step cfg s (.adopt h d off len)).1) d = some (((view s hd).drop off).take len) := by
  have href := refines cfg s (.adopt h d off len) w trivial
  have hs : sget (abs s) h = some (view s hd) := by rw [sget_abs, hg]; rfl
  have hf : sfree (abs s) d = true := by rw [sfree_abs]; exact hfree
  simp only [Spec.Std.step, hs, hf, hin, decide_true, Bool.and_self, if_true] at href
  have := congrArg Prod.fst href
  simp only at this
  rw [← this]
  have hl : d < (abs s).length := by
    rw [abs_length]; exact (slotFree_iff.mp hfree).1
  simp [sget, hl]

/-- Adoption does not disturb any other value — in particular not the haystack. -/
theorem adopt_frame (cfg : Cfg) (s : State) (h d off len k : Nat) (w : Wf cfg s) (hk : k ≠ d) :
    sget (abs (step cfg s (.adopt h d off len)).1) k = sget (abs s) k := by
  have href := refines cfg s (.adopt h d off len) w trivial
  have := spec_frame cfg.icap s.srcs (abs s) (.adopt h d off len)
    (retFlag (step cfg s (.adopt h d off len)).2.ret) k (by simp [writes, hk])
  rw [href] at this
  exact this

/-- A piece is self-sufficient: whatever is later done to the source (mutation, conversion, drop)
— any operation that does not write the piece's own slot — the piece still reads the same bytes. -/
theorem piece_independent (cfg : Cfg) (s : State) (op : Op) (k : Nat) (w : Wf cfg s) (hok : OpOk s op)
    (hk : k ∉ writes op) : sget (abs (step cfg s op).1) k = sget (abs s) k := by
  have := spec_frame cfg.icap s.srcs (abs s) op (retFlag (step cfg s op).2.ret) k hk
  rw [refines cfg s op w hok] at this
  exact this

/-- later adoptions into other slots do not touch a piece already adopted -/
theorem adopts_frame (cfg : Cfg) (h d : Nat) :
    ∀ (ops : List (Nat × Nat × Nat)) (t : State), Wf cfg t → d ∉ ops.map (·.1) →
      sget (abs (run cfg t (ops.map fun w => Op.adopt h w.1 w.2.1 w.2.2)).1) d = sget (abs t) d := by
  intro ops
  induction ops with
  | nil => intro t _ _; rfl
  | cons o ops ih =>
    intro t wt hno
    simp only [List.map_cons, run_cons]
    have hne : d ≠ o.1 := fun he => hno (by simp [he])
    rw [ih _ (wf_step cfg t _ wt) (fun hm => hno (List.mem_cons_of_mem _ hm))]
    exact adopt_frame cfg t h o.1 o.2.1 o.2.2 d wt hne

/-- A whole iterator's worth of pieces: adopting a list of in-range windows `(slot, off, len)` one
after the other into distinct free slots yields, slot by slot, exactly those windows of the
haystack (forward, backward or mixed iteration order is just another list). -/
theorem iter_items (cfg : Cfg) (h : Nat) :
    ∀ (ws : List (Nat × Nat × Nat)) (s : State) (v : List UInt8), Wf cfg s → sget (abs s) h = some v →
      (∀ w ∈ ws, w.1 ≠ h ∧ w.2.1 + w.2.2 ≤ v.length) →
      (ws.map (·.1)).Nodup → (∀ w ∈ ws, sfree (abs s) w.1 = true) →
      ∀ w ∈ ws, sget (abs (run cfg s (ws.map fun w => Op.adopt h w.1 w.2.1 w.2.2)).1) w.1 =
        some ((v.drop w.2.1).take w.2.2) := by
  intro ws
  induction ws with
  | nil => intro s v _ _ _ _ _ w hw; cases hw
  | cons w0 ws ih =>
    intro s v wf hsrc hin hnd hfree w hw
    obtain ⟨d, off, len⟩ := w0
    simp only [List.map_cons, run_cons]
    have hw0 := hin (d, off, len) (List.mem_cons_self ..)
    have hf0 := hfree (d, off, len) (List.mem_cons_self ..)
    have hnd' := List.nodup_cons.mp hnd
    have wf1 : Wf cfg (step cfg s (.adopt h d off len)).1 := wf_step cfg s _ wf
    -- what the first adoption did, read off the specification
    have href := refines cfg s (.adopt h d off len) wf trivial
    simp only [Spec.Std.step, hsrc, hf0, hw0.2, decide_true, Bool.and_self, if_true] at href
    have habs : abs (step cfg s (.adopt h d off len)).1 = (abs s).set d (some ((v.drop off).take len)) :=
      (congrArg Prod.fst href).symm
    have hdl : d < (abs s).length := by
      unfold sfree at hf0; simp only [Bool.and_eq_true, decide_eq_true_eq] at hf0; exact hf0.1
    rcases List.mem_cons.mp hw with rfl | hw'
    · -- the first piece: adopted now, untouched by the later adoptions
      rw [adopts_frame cfg h d ws _ wf1 hnd'.1, habs]
      simp [sget, hdl]
    · have hne : w.1 ≠ d := fun he => hnd'.1 (by rw [← he]; exact List.mem_map_of_mem (f := (·.1)) hw')
      exact ih _ v wf1
        (by rw [habs, Str.sget_set_other _ _ _ _ hw0.1]; exact hsrc)
        (fun w hw => hin w (List.mem_cons_of_mem _ hw))
        hnd'.2
        (by
          intro w hw
          have hne : d ≠ w.1 := fun he => hnd'.1 (by rw [he]; exact List.mem_map_of_mem (f := (·.1)) hw)
          have hfw := hfree w (List.mem_cons_of_mem _ hw)
          unfold sfree at hfw ⊢
          rw [habs, Str.sget_set_other _ _ _ _ hne]
          simpa using hfw)
        w hw'

end HipVerif.Props.C11
