/-
C14 — Container element lifecycle and buffer bounds (InlineVec, ThinVec), on the L0 slot model
(`HipVerif/Model/Slots*.lean`, tied to /repo/src/vecs by the `slotdrive` differential).

`Own s` (Lemmas/Slots.lean): the ids held in slots `[0, len)` of the live container and its live
prefix value are pairwise distinct, were all created (`< next`), none of them has been dropped or
handed to the caller (`out`); `out` has no duplicates and is exactly the list of ids of the
drop/return events of the trace; the monitor has recorded no violation; a live ThinVec owns a
live buffer and its capacity is a fixed point of the capacity rounding. Every other id ever
created is therefore either out (dropped/returned, once) or leaked.
-/
import HipVerif.Lemmas.SlotsStep
namespace HipVerif.Props.C14
open HipVerif.Slots

/-- Every InlineVec/ThinVec operation of the model (push … drain, into_iter, split_off, the
`from_mut_vector` conversions, container drop), with a user-callback panic injected at any point or
not at all, keeps the ownership invariant: after the call (normal return or unwinding) every
element the container or nobody else claims is owned exactly once. -/
theorem own_step {s : St} (k : Option Nat) (op : Op) (h : Own s) : Own (step k op s).2 :=
  step_own k op h

/-- The ownership invariant holds after every finite history of operations and injected faults. -/
theorem own_run {s : St} (hist : List (Option Nat × Op)) (h : Own s) : Own (run hist s) :=
  run_own hist s h

/-- No reachable trace contains a monitor violation: no id is dropped or returned twice, no slot
is dropped or read while uninitialised, no write lands beyond the capacity, no buffer is freed
twice — whatever the history, the faults, the leaked iterators. -/
theorem no_violation {s : St} (h : Own s) (hist : List (Option Nat × Op)) :
    ∀ e ∈ (run hist s).mem.trace, e.bad = false :=
  (own_run hist h).nobad

/-- `InlineVec::<_, cap>::new()` followed by any history never violates the element lifecycle. -/
theorem inline_no_violation (cap : Nat) (hist : List (Option Nat × Op)) :
    ∀ e ∈ (run hist (initInline cap)).mem.trace, e.bad = false :=
  no_violation (own_initInline cap) hist

/-- `ThinVec::<T, P>::new()` (any non-zero element size, marker or drop-tracked prefix) followed by
any history never violates the element lifecycle. -/
theorem thin_no_violation (esz : Nat) (tracked : Bool) (hpos : 0 < esz)
    (hist : List (Option Nat × Op)) :
    ∀ e ∈ (run hist (initThin esz tracked)).mem.trace, e.bad = false :=
  no_violation (own_initThin esz tracked hpos) hist

/-- No element is ever dropped (or handed back) twice. -/
theorem never_double_drop {s : St} (h : Own s) (hist : List (Option Nat × Op)) (a : Nat) :
    Ev.doubleDrop a ∉ (run hist s).mem.trace :=
  fun hm => by simpa [Ev.bad] using no_violation h hist _ hm

/-- No never-initialised slot is ever dropped. -/
theorem never_drop_uninit {s : St} (h : Own s) (hist : List (Option Nat × Op)) :
    Ev.dropUninit ∉ (run hist s).mem.trace :=
  fun hm => by simpa [Ev.bad] using no_violation h hist _ hm

/-- No never-initialised slot (or dead element) is ever cloned from or moved out. -/
theorem never_read_uninit {s : St} (h : Own s) (hist : List (Option Nat × Op)) :
    Ev.readUninit ∉ (run hist s).mem.trace :=
  fun hm => by simpa [Ev.bad] using no_violation h hist _ hm

/-- ThinVec (and InlineVec) never write an element beyond the allocated capacity — in particular
`extend_from_within` on a full ThinVec reserves first. -/
theorem writes_in_cap {s : St} (h : Own s) (hist : List (Option Nat × Op)) :
    Ev.oob ∉ (run hist s).mem.trace :=
  fun hm => by simpa [Ev.bad] using no_violation h hist _ hm

/-- No buffer is ever freed twice. -/
theorem never_double_free {s : St} (h : Own s) (hist : List (Option Nat × Op)) (b : Nat) :
    Ev.doubleFree b ∉ (run hist s).mem.trace :=
  fun hm => by simpa [Ev.bad] using no_violation h hist _ hm

/-- With leaks and faults allowed: in every reachable trace every id is the subject of at most one
drop-or-return event. -/
theorem at_most_once {s : St} (h : Own s) (hist : List (Option Nat × Op)) (a : Nat) :
    ((run hist s).mem.trace.filterMap Ev.outId).count a ≤ 1 := by
  obtain ⟨_, _, _, _, _, ha⟩ := own_run hist h
  rw [ha.trout]
  exact List.nodup_iff_count.mp ha.outnd a

/-- After the final container drop (no fault injected, no destructor panic) every id that the
container still owned — elements and the drop-tracked prefix value — has been dropped, and by
`at_most_once` exactly once. -/
theorem drop_completes {s : St} (hal : s.v.h.alive = true)
    (hr : (step none .dropVec s).1 = .unit) :
    (∀ a, .init a ∈ s.v.range 0 s.v.len → a ∈ (step none .dropVec s).2.mem.out) ∧
    (s.v.h.thin = true → s.v.h.tracked = true → ∀ p, s.v.h.pref = .init p →
      p ∈ (step none .dropVec s).2.mem.out) ∧
    (s.v.h.thin = true → s.mem.bufs.Nodup → s.v.h.buf ∉ (step none .dropVec s).2.mem.bufs) := by
  unfold step at hr ⊢
  simp only [hal, if_true] at hr ⊢
  by_cases ht : s.v.h.thin = true
  · simp only [ht, if_true, tStep, liftB, boolRet] at hr ⊢
    have hp : (tDrop { s with mem := { s.mem with budget := none } }).1 = false := by
      cases hq : (tDrop { s with mem := { s.mem with budget := none } }).1
      · rfl
      · rw [hq] at hr; simp at hr
    unfold tDrop at hp ⊢
    obtain ⟨c1, c2, c3⟩ := tDropVec_complete (o := s.v)
      (s := { s with mem := { s.mem with budget := none } }) hp
    exact ⟨c1, fun _ htr => c2 htr, fun _ hnd => c3 hnd⟩
  · simp only [ht, Bool.false_eq_true, if_false, iStep, liftB, boolRet] at hr ⊢
    have hp : (iDrop { s with mem := { s.mem with budget := none } }).1 = false := by
      cases hq : (iDrop { s with mem := { s.mem with budget := none } }).1
      · rfl
      · rw [hq] at hr; simp at hr
    refine ⟨fun a ha => iDrop_complete hp ha, fun h => h.elim, fun h => h.elim⟩

/--
Full statement (kept for the record):
  `exactly_once : Own s₀ → (no leak op, no fault, no panic in hist) → the last op of hist is the
   container drop → ∀ a < (run hist s₀).mem.next, count a (out events of the trace) = 1`.
Proved here: everything the container owns at the time of the final drop (elements and prefix) is
dropped exactly once by it, the buffer is released, and nothing was dropped or returned twice
before. Missing: the no-leak invariant along fault-free, leak-free histories ("every id created is
still owned or already out"), which needs a second pass over every operation's normal-return
path; the implementation side of that clause is checked by `slotdrive` (leak check after the final
drop of every fault-free leak-free history).
(Since round 3 the missing part is proved: see `no_leak_step`, `no_leak_run` and `exactly_once`
below; this theorem is kept unchanged.)
-/
theorem exactly_once_partial {s : St} (h : Own s) (hal : s.v.h.alive = true)
    (hr : (step none .dropVec s).1 = .unit) (a : Nat)
    (ha : .init a ∈ s.v.range 0 s.v.len ∨
      (s.v.h.thin = true ∧ s.v.h.tracked = true ∧ s.v.h.pref = .init a)) :
    ((step none .dropVec s).2.mem.trace.filterMap Ev.outId).count a = 1 := by
  obtain ⟨c1, c2, -⟩ := drop_completes hal hr
  have hmem : a ∈ (step none .dropVec s).2.mem.out := by
    rcases ha with ha | ⟨h1, h2, h3⟩
    · exact c1 a ha
    · exact c2 h1 h2 a h3
  obtain ⟨_, _, _, _, _, hacc⟩ := own_step none .dropVec h
  rw [hacc.trout]
  rw [hacc.outnd.count, if_pos hmem]

/-- The no-leak invariant `OwnF` (ownership invariant + "no fault armed, every id created so far
is held by the container — slot below `len` or live prefix — or already dropped / handed to the
caller") is preserved by every operation that does not leak by design (everything except a
`mem::forget`-ed `Drain`/`IntoIter`) when no fault is injected — including the paths on which the
operation's own assertion panics. In the model no fault-free path leaks. -/
theorem no_leak_step {s : St} (op : Op) (h : OwnF s) (hleak : op.leaks = false) :
    OwnF (step none op s).2 :=
  step_ownF op h hleak

/-- The no-leak invariant holds after every fault-free, leak-free history. -/
theorem no_leak_run {s : St} (hist : List (Option Nat × Op)) (h : OwnF s) (hc : CleanHist hist) :
    OwnF (run hist s) :=
  run_ownF hist s h hc

/-- **exactly_once.** Along a history with no leak operation and no injected fault, after the final
container drop every id ever created — element values made by the caller, clones, generated and
iterated values, and every prefix value (also those of the temporary vectors of `clone`,
`split_off` and of the `from_mut_vector` conversions) — has been dropped exactly once or handed
to the caller exactly once: the numbers of its `drop` and `ret` events add up to 1. -/
theorem exactly_once {s₀ : St} (h0 : OwnF s₀) (hist : List (Option Nat × Op))
    (hc : CleanHist hist) (hal : (run hist s₀).v.h.alive = true) (a : Nat)
    (ha : a < (step none .dropVec (run hist s₀)).2.mem.next) :
    (step none .dropVec (run hist s₀)).2.mem.trace.count (.drop a) +
      (step none .dropVec (run hist s₀)).2.mem.trace.count (.ret a) = 1 := by
  rw [← count_outId]
  exact (all_out_after_drop (no_leak_run hist h0 hc) hal).1 a ha

/-- The same, phrased on the trace alone: every id that some event of the final trace created
(`mk a`: a value made by the caller, a generator, an iterator or `P::default()`; `clone _ a`) has
exactly one drop-or-return event. In particular every prefix value ever created is accounted for
exactly once. -/
theorem every_created_once {s₀ : St} (h0 : OwnF s₀) (hist : List (Option Nat × Op))
    (hc : CleanHist hist) (hal : (run hist s₀).v.h.alive = true) (e : Ev) (a : Nat)
    (he : e ∈ (step none .dropVec (run hist s₀)).2.mem.trace) (hn : e.newId = some a) :
    (step none .dropVec (run hist s₀)).2.mem.trace.count (.drop a) +
      (step none .dropVec (run hist s₀)).2.mem.trace.count (.ret a) = 1 :=
  exactly_once h0 hist hc hal a
    ((all_out_after_drop (no_leak_run hist h0 hc) hal).2 e he a hn)

/-- `exactly_once` from `InlineVec::<_, cap>::new()`. -/
theorem inline_exactly_once (cap : Nat) (hist : List (Option Nat × Op)) (hc : CleanHist hist)
    (hal : (run hist (initInline cap)).v.h.alive = true) (a : Nat)
    (ha : a < (step none .dropVec (run hist (initInline cap))).2.mem.next) :
    (step none .dropVec (run hist (initInline cap))).2.mem.trace.count (.drop a) +
      (step none .dropVec (run hist (initInline cap))).2.mem.trace.count (.ret a) = 1 :=
  exactly_once (ownF_initInline cap) hist hc hal a ha

/-- `exactly_once` from `ThinVec::<T, P>::new()`, marker or drop-tracked prefix: the initial prefix
value (id 0 when tracked) and every later one are dropped exactly once. -/
theorem thin_exactly_once (esz : Nat) (tracked : Bool) (hpos : 0 < esz)
    (hist : List (Option Nat × Op)) (hc : CleanHist hist)
    (hal : (run hist (initThin esz tracked)).v.h.alive = true) (a : Nat)
    (ha : a < (step none .dropVec (run hist (initThin esz tracked))).2.mem.next) :
    (step none .dropVec (run hist (initThin esz tracked))).2.mem.trace.count (.drop a) +
      (step none .dropVec (run hist (initThin esz tracked))).2.mem.trace.count (.ret a) = 1 :=
  exactly_once (ownF_initThin esz tracked hpos) hist hc hal a ha

/-- The default prefix value of a ThinVec is written into fresh memory without any drop (the
construction trace is exactly "allocate, create the value") and, when the vector is dropped without
a destructor panic, it is dropped exactly once. -/
theorem prefix_once {s : St} (h : Own s) (hal : s.v.h.alive = true) (ht : s.v.h.thin = true)
    (htr : s.v.h.tracked = true) (hr : (step none .dropVec s).1 = .unit) :
    ∃ p, s.v.h.pref = .init p ∧
      ((step none .dropVec s).2.mem.trace.filterMap Ev.outId).count p = 1 := by
  obtain ⟨_, _, _, _, hh, _⟩ := h
  obtain ⟨p, hp⟩ := hh.1 ht htr hal
  exact ⟨p, hp, exactly_once_partial ⟨_, _, ‹_›, ‹_›, hh, ‹_›⟩ hal hr p (Or.inr ⟨ht, htr, hp⟩)⟩

/-- A live ThinVec owns a live buffer; the final drop (without destructor panic) releases it, and
no buffer is ever released twice (`never_double_free`): the buffer is freed exactly once. -/
theorem buffer_freed_once {s : St} (h : Own s) (hal : s.v.h.alive = true) (ht : s.v.h.thin = true)
    (hr : (step none .dropVec s).1 = .unit) :
    s.v.h.buf ∈ s.mem.bufs ∧ s.v.h.buf ∉ (step none .dropVec s).2.mem.bufs := by
  obtain ⟨_, _, _, _, _, hacc⟩ := h
  refine ⟨hacc.blive _ (by simp [bufL, ht, hal]), ?_⟩
  exact (drop_completes hal hr).2.2 ht hacc.bufsnd

/-! ### Non-vacuity -/

/-- a reachable InlineVec state with elements, after an injected fault -/
example : Own (run [(none, .push), (none, .push), (some 1, .resize 3)] (initInline 3)) :=
  own_run _ (own_initInline 3)
example : (run [(none, .push), (none, .push), (some 1, .resize 3)] (initInline 3)).v.len = 3 := by
  decide
example : (step (some 1) (.resize 3) (run [(none, .push), (none, .push)] (initInline 3))).1
    = .panic := by decide

/-- construction of a ThinVec with a drop-tracked prefix: allocate, create the prefix; no drop -/
example : (initThin 8 true).mem.trace = [.mk 0, .allocBuf 0] := by decide
example : (initThin 8 true).v.h.pref = .init 0 := by decide

/-- `extend_from_within(..)` on a full ThinVec (len = cap = 4): reserves, 8 elements, no `oob` -/
example :
    let s := run [(none, .push), (none, .push), (none, .push), (none, .push), (none, .extWithin 0 4)]
      (initThin 8 true)
    s.v.len = 8 ∧ s.v.cap = 8 ∧ Ev.oob ∉ s.mem.trace := by decide

/-- the hypotheses of `exactly_once_partial` / `prefix_once` / `buffer_freed_once` are satisfiable -/
example :
    let s := run [(none, .push), (none, .push)] (initThin 8 true)
    s.v.h.alive = true ∧ s.v.h.thin = true ∧ s.v.h.tracked = true ∧
      (step none .dropVec s).1 = .unit ∧ (step none .dropVec s).2.mem.bufs = [] := by decide

/-- `exactly_once` is not vacuous: a fault-free leak-free history with clones, a conversion (two
prefix values dropped on the way, a third created), a split and a drain; 11 ids were created and
every one of them has exactly one drop/return event after the final drop -/
example :
    let hist : List (Option Nat × Op) :=
      [(none, .push), (none, .push), (none, .extWithin 0 2), (none, .roundtrip), (none, .splitOff 3),
       (none, .clone), (none, .drain 0 2 [.back] .drop), (none, .pop)]
    CleanHist hist ∧ (run hist (initThin 8 true)).v.h.alive = true ∧
      (step none .dropVec (run hist (initThin 8 true))).2.mem.next = 11 ∧
      (List.range 11).all (fun a =>
        (step none .dropVec (run hist (initThin 8 true))).2.mem.trace.count (.drop a) +
          (step none .dropVec (run hist (initThin 8 true))).2.mem.trace.count (.ret a) == 1) := by
  intro hist
  decide

/-- `exactly_once` covers the iterator's provided methods: pulls by `nth` / `nth_back` (skipped
items are dropped), then `count`, `fold`, `last` or `rfold` instead of a plain drop — 8 ids, each
with exactly one drop/return event -/
example :
    let hist : List (Option Nat × Op) :=
      [(none, .push), (none, .push), (none, .push), (none, .push),
       (none, .drain 0 2 [.nth 1] .count), (none, .push), (none, .drain 1 3 [] .fold),
       (none, .push), (none, .push), (none, .intoIter [.nthBack 1] .last), (none, .push)]
    CleanHist hist ∧ (run hist (initInline 4)).v.h.alive = true ∧
      (step none .dropVec (run hist (initInline 4))).2.mem.next = 8 ∧
      (List.range 8).all (fun a =>
        (step none .dropVec (run hist (initInline 4))).2.mem.trace.count (.drop a) +
          (step none .dropVec (run hist (initInline 4))).2.mem.trace.count (.ret a) == 1) := by
  intro hist
  decide

end HipVerif.Props.C14
