/-
C05 — Only soundly shareable values are Send/Sync.

Decided over `Gen/AutoTraits.lean` (struct fields and `unsafe impl Send/Sync` of the real
source, regenerated on every run) by the resolution procedure `Model.AutoTrait.holds`.
The base facts of `holds` are checked against rustc's own verdicts by
`harness/src/bin/probedrive.rs`.  When a theorem here breaks, `tables_driver` command
`rows_c05` lists the falsifying rows with their `file:line`.
-/
import HipVerif.Model.AutoTraitRows

namespace HipVerif.Props.C05
open HipVerif.Model.AutoTrait
open HipVerif.Gen.AutoTraits (table)

/-- **C05 main table.** For every public type that carries a backend (byte/string/OS-string/path
    handles, their `mutate` guards, the slice/UTF-8 errors, the split iterator wrapper) and every
    backend: the type is `Send` iff it is `Sync` iff the backend is not `Rc`. So an `Rc`-backed
    value can be neither moved to nor shared with another thread, while `Arc`-backed and
    `Unique` values can. -/
theorem send_sync_table :
    ∀ T ∈ pubTypes, ∀ b ∈ backends,
      holds fuel table .send (T.2 b.ty) = (b != .rc) ∧
      holds fuel table .sync (T.2 b.ty) = (b != .rc) := by
  have h : (pubTypes.all fun T => backends.all fun b => rowOk T b) = true := by decide +kernel
  intro T hT b hb
  have := (List.all_eq_true.mp ((List.all_eq_true.mp h) T hT)) b hb
  simpa [rowOk] using this

/-- The backends themselves: the atomic counter and the unit backend are `Send + Sync`; the
    non-atomic counter (`Cell<usize>`) is `Send` but not `Sync`, which is what the `B: Sync`
    requirement of every impl keys on. -/
theorem backend_facts :
    holds fuel table .send BackendK.arc.ty = true ∧ holds fuel table .sync BackendK.arc.ty = true ∧
    holds fuel table .send BackendK.unique.ty = true ∧ holds fuel table .sync BackendK.unique.ty = true ∧
    holds fuel table .send BackendK.rc.ty = true ∧ holds fuel table .sync BackendK.rc.ty = false := by
  decide +kernel

/-- The verdicts do not depend on the borrow lifetime: every explicit `Send`/`Sync` impl in the
    crate is generic over the lifetime arguments of its self type (`'_` or an unconstrained
    parameter, no lifetime where-clause); the structural rule never looks at lifetimes (they
    are erased from the term language). -/
theorem lifetime_free : ∀ i ∈ table.impls, i.lifetimeGeneric = true := by
  have h : (table.impls.all implLifetimeFree) = true := by decide +kernel
  intro i hi
  exact (List.all_eq_true.mp h) i hi

/-- No explicit impl is negative, and the only other where-clauses on them are the
    well-formedness bounds of the target type, so `holds` loses nothing by ignoring them. -/
theorem impl_bounds_benign :
    ∀ i ∈ table.impls, i.negative = false ∧ ∀ b ∈ i.otherBounds, b ∈ benignBounds := by
  have h : (table.impls.all implBoundsBenign) = true := by decide +kernel
  intro i hi
  have hi' := (List.all_eq_true.mp h) i hi
  simp only [implBoundsBenign, Bool.and_eq_true, Bool.not_eq_true', List.all_eq_true] at hi'
  refine ⟨hi'.1, fun b hb => ?_⟩
  simpa using hi'.2 b hb

/-- **No two threads can touch a non-atomic share count.** Take any type `U` that occurs in the
    data of an `Rc`-backed public type (fields, pointers, markers, guards' references …). If a
    `Cell` counter is reachable from `U` then `U` is not `Sync`, and unless `U` holds the counter
    by value (`Rc`, `Inner<_, Rc>` — moving those moves the only access path) `U` is not `Send`
    either. -/
theorem rc_count_single_thread :
    ∀ U ∈ rcReachable, mentionsCell fuel table U = true →
      holds fuel table .sync U = false ∧
      (ownsCell fuel table U = false → holds fuel table .send U = false) := by
  have h : (rcReachable.all cellRowOk) = true := by decide +kernel
  intro U hU hm
  have := (List.all_eq_true.mp h) U hU
  simp only [cellRowOk, hm, Bool.not_true, Bool.false_or, Bool.and_eq_true, Bool.not_eq_true',
    Bool.or_eq_true] at this
  refine ⟨this.1, fun ho => ?_⟩
  rcases this.2 with h1 | h1
  · simp [ho] at h1
  · exact h1

/-! ### Non-vacuity -/

/-- The table is inhabited: 12 public type constructors × 3 backends. -/
example : pubTypes.length = 12 ∧ backends.length = 3 := by decide

/-- The quantifier of `rc_count_single_thread` is not vacuous: counters ARE reachable. -/
example : (rcReachable.filter (mentionsCell fuel table)).length > 20 := by decide +kernel

/-- `Inner<Vec<u8>, Rc>` is the by-value owner the exemption is for: `Send`, not `Sync`. -/
example :
    let u := Ty.named "smart::Inner" [.std "alloc::vec::Vec" [.prim "u8"], BackendK.rc.ty]
    ownsCell fuel table u = true ∧ holds fuel table .send u = true ∧
      holds fuel table .sync u = false := by decide +kernel

/-- The explicit impls matter: WITHOUT them (`impls := []`) `HipByt<Arc>` would be neither
    `Send` nor `Sync` (raw pointers in `Pivot`), i.e. the structural rule is really replaced. -/
example :
    holds fuel ⟨table.defs, []⟩ .send (.named "bytes::raw::HipByt" [BackendK.arc.ty]) = false := by
  decide +kernel

/-- The defect fixed in /repo (D3) is visible to the model: with `Send for HipByt` requiring
    only `B: Send`, `HipByt<Rc>: Send` would hold. -/
example :
    let weak : ImplFact :=
      ⟨.send, "bytes::raw::HipByt", false, [(.param 0, .send)], ["backend::Backend"], true, "mutant"⟩
    holds fuel ⟨table.defs, weak :: table.impls.filter (fun i => !(i.target == "bytes::raw::HipByt" && i.tr == .send))⟩
      .send (.named "bytes::raw::HipByt" [BackendK.rc.ty]) = true := by
  decide +kernel

end HipVerif.Props.C05
