/-
C08 at the level of the values: `try_slice` / `slice` of the Core state machine against std's
checked indexing, for EVERY well-formed state (any representation, backend, ceiling), every
combination of bounds whose numbers fit a `usize`, every length.

`Props/C08` proves that the range arithmetic generated from the source (`Gen.Ranges`) computes
`stdGet`; this file carries the statement through the operations that use it: the content
returned, the error reported, "never panics", "slice panics exactly when try_slice errs", and the
frame (a rejected or accepted range leaves every other value alone).  The Core model is
hand-written and tied to the crate by `coredrive`; `Gen.Ranges` is what it calls for the bounds.
-/
import HipVerif.Lemmas.CoreOpsA2
import HipVerif.Lemmas.CoreStr

namespace HipVerif.Props.C08
open HipVerif.Core HipVerif.Spec.Std HipVerif.RangeTy HipVerif.Spec.Range

private theorem opok_of {cfg : Cfg} {s : State} {h : Nat} {v : List UInt8} (w : Wf cfg s)
    (hg : sget (abs s) h = some v) (hl : v.length ≤ isizeMax) :
    ∀ hd, getH s h = some hd → hlen hd ≤ isizeMax := by
  intro hd hgh
  rw [sget_abs, hgh] at hg
  have hv : view s hd = v := by simpa using hg
  have := A.view_length (w.handles h hd hgh)
  rw [← this, hv]; exact hl

/-- `try_slice` is total and is std's `get`: it answers `Ok` exactly when `get` of the same pair
of bounds succeeds, the destination then holds exactly `v[a..b]`; otherwise it reports the error
naming the first failing bound and no value changes.  It never panics. -/
theorem try_slice_spec (cfg : Cfg) (s : State) (h d : Nat) (sb eb : Bound) (v : List UInt8) (w : Wf cfg s)
    (hg : sget (abs s) h = some v) (hf : slotFree s d = true)
    (hs : Bound.fits sb) (he : Bound.fits eb) (hl : v.length ≤ isizeMax) :
    (abs (step cfg s (.trySlice h d sb eb)).1, eraseRet (step cfg s (.trySlice h d sb eb)).2.ret) =
      match stdGet sb eb v.length with
      | some (a, b) => ((abs s).set d (some ((v.drop a).take (b - a))), .bool true)
      | none => (abs s, sliceErrOf sb eb v.length) := by
  rw [← ref_op_trySlice h d sb eb w ⟨hs, he, opok_of w hg hl⟩]
  simp only [Spec.Std.step, hg, sfree_abs, hf, if_true]
  cases stdGet sb eb v.length with
  | none => rfl
  | some ab => cases ab; rfl

/-- `slice` is std's indexing: the same sub-range when `get` succeeds, a panic otherwise. -/
theorem slice_spec (cfg : Cfg) (s : State) (h d : Nat) (sb eb : Bound) (v : List UInt8) (w : Wf cfg s)
    (hg : sget (abs s) h = some v) (hf : slotFree s d = true)
    (hs : Bound.fits sb) (he : Bound.fits eb) (hl : v.length ≤ isizeMax) :
    (abs (step cfg s (.slice h d sb eb)).1, eraseRet (step cfg s (.slice h d sb eb)).2.ret) =
      match stdGet sb eb v.length with
      | some (a, b) => ((abs s).set d (some ((v.drop a).take (b - a))), .unit)
      | none => (abs s, .panic) := by
  rw [← ref_op_slice h d sb eb w ⟨hs, he, opok_of w hg hl⟩]
  simp only [Spec.Std.step, hg, sfree_abs, hf, if_true]
  cases stdGet sb eb v.length with
  | none => rfl
  | some ab => cases ab; rfl

private theorem eraseRet_eq_panic (r : Ret) : eraseRet r = .panic ↔ r = .panic := by
  cases r <;> simp [eraseRet]

private theorem eraseRet_eq_true (r : Ret) : eraseRet r = .bool true ↔ r = .bool true := by
  cases r <;> simp [eraseRet]

private theorem sliceErrOf_ne_true (sb eb : Bound) (len : Nat) : sliceErrOf sb eb len ≠ .bool true := by
  unfold sliceErrOf; simp only; split
  · intro h; cases h
  · split <;> intro h <;> cases h

/-- `try_slice` never panics, whatever the bounds (`..=usize::MAX`, `(Excluded(usize::MAX), ..)`
included: `Bound.fits` only says the numbers are `usize` values). -/
theorem try_slice_never_panics (cfg : Cfg) (s : State) (h d : Nat) (sb eb : Bound) (v : List UInt8) (w : Wf cfg s)
    (hg : sget (abs s) h = some v) (hf : slotFree s d = true)
    (hs : Bound.fits sb) (he : Bound.fits eb) (hl : v.length ≤ isizeMax) :
    (step cfg s (.trySlice h d sb eb)).2.ret ≠ .panic := by
  have := congrArg Prod.snd (try_slice_spec cfg s h d sb eb v w hg hf hs he hl)
  simp only at this
  intro hp
  rw [hp] at this
  cases hget : stdGet sb eb v.length with
  | some ab => rw [hget] at this; cases this
  | none =>
    rw [hget] at this
    simp only [eraseRet] at this
    unfold sliceErrOf at this
    simp only at this
    split at this
    · cases this
    · split at this <;> cases this

/-- `slice` panics exactly when `try_slice` errs (and both exactly when std's `get` fails). -/
theorem slice_panics_iff_try_slice_errs (cfg : Cfg) (s : State) (h d : Nat) (sb eb : Bound) (v : List UInt8)
    (w : Wf cfg s) (hg : sget (abs s) h = some v) (hf : slotFree s d = true)
    (hs : Bound.fits sb) (he : Bound.fits eb) (hl : v.length ≤ isizeMax) :
    ((step cfg s (.slice h d sb eb)).2.ret = .panic ↔ (step cfg s (.trySlice h d sb eb)).2.ret ≠ .bool true) ∧
    ((step cfg s (.slice h d sb eb)).2.ret = .panic ↔ stdGet sb eb v.length = none) := by
  have h1 := congrArg Prod.snd (slice_spec cfg s h d sb eb v w hg hf hs he hl)
  have h2 := congrArg Prod.snd (try_slice_spec cfg s h d sb eb v w hg hf hs he hl)
  simp only at h1 h2
  have e1 : (step cfg s (.slice h d sb eb)).2.ret = .panic ↔
      eraseRet (step cfg s (.slice h d sb eb)).2.ret = .panic := (eraseRet_eq_panic _).symm
  have e2 : (step cfg s (.trySlice h d sb eb)).2.ret ≠ .bool true ↔
      eraseRet (step cfg s (.trySlice h d sb eb)).2.ret ≠ .bool true := not_congr (eraseRet_eq_true _).symm
  rw [e1, e2, h1, h2]
  cases hget : stdGet sb eb v.length with
  | some ab => simp
  | none => simp [sliceErrOf_ne_true]

/-- An accepted range yields exactly the bytes std yields, and the range is the one asked for:
`a`/`b` are the mathematical start and one-past-the-end of the bounds (no wrap-around). -/
theorem try_slice_ok_content (cfg : Cfg) (s : State) (h d : Nat) (sb eb : Bound) (v : List UInt8) (w : Wf cfg s)
    (hg : sget (abs s) h = some v) (hf : slotFree s d = true)
    (hs : Bound.fits sb) (he : Bound.fits eb) (hl : v.length ≤ isizeMax)
    (hok : (step cfg s (.trySlice h d sb eb)).2.ret = .bool true) :
    startIdx sb ≤ endIdx v.length eb ∧ endIdx v.length eb ≤ v.length ∧
    sget (abs (step cfg s (.trySlice h d sb eb)).1) d =
      some ((v.drop (startIdx sb)).take (endIdx v.length eb - startIdx sb)) := by
  have hsp := try_slice_spec cfg s h d sb eb v w hg hf hs he hl
  have hl' : d < (abs s).length := by
    have := hf; rw [← sfree_abs] at this
    simp only [sfree, Bool.and_eq_true, decide_eq_true_eq] at this
    exact this.1
  by_cases hc : startIdx sb ≤ endIdx v.length eb ∧ endIdx v.length eb ≤ v.length
  · have hget : stdGet sb eb v.length = some (startIdx sb, endIdx v.length eb) := by
      unfold stdGet; simp only [hc, and_self, if_true]
    rw [hget] at hsp
    have h1 := congrArg Prod.fst hsp
    simp only at h1
    rw [h1]
    exact ⟨hc.1, hc.2, HipVerif.Str.sget_set_same _ _ _ hl'⟩
  · exfalso
    have hget : stdGet sb eb v.length = none := by
      unfold stdGet; simp only [hc, if_false]
    rw [hget] at hsp
    have h2 := congrArg Prod.snd hsp
    simp only at h2
    rw [hok] at h2
    exact sliceErrOf_ne_true sb eb v.length h2.symm

/-- Every other value (the source included) reads the same bytes after `try_slice`, accepted or not. -/
theorem try_slice_frame (cfg : Cfg) (s : State) (h d k : Nat) (sb eb : Bound) (v : List UInt8) (w : Wf cfg s)
    (hg : sget (abs s) h = some v) (hf : slotFree s d = true)
    (hs : Bound.fits sb) (he : Bound.fits eb) (hl : v.length ≤ isizeMax) (hk : k ≠ d) :
    sget (abs (step cfg s (.trySlice h d sb eb)).1) k = sget (abs s) k := by
  have := congrArg Prod.fst (try_slice_spec cfg s h d sb eb v w hg hf hs he hl)
  simp only at this
  rw [this]
  cases stdGet sb eb v.length with
  | none => rfl
  | some ab => exact HipVerif.Str.sget_set_other _ _ _ _ (Ne.symm hk)

/-- `inside relNeg rel plen len`: a probe slice of `plen` bytes starting `rel` bytes after
(`relNeg = false`) or before (`relNeg = true`) the first byte of a value of `len` bytes lies
address-wise inside the value. -/
def inside (relNeg : Bool) (rel plen len : Nat) : Bool :=
  (!relNeg || rel == 0) && decide (rel + plen ≤ len)

private theorem opok_ref {cfg : Cfg} {s : State} {h rel : Nat} {v : List UInt8} (w : Wf cfg s)
    (hg : sget (abs s) h = some v) (hl : v.length ≤ isizeMax) (ha : rel + 1 + v.length < U) :
    ∀ hd, getH s h = some hd → hlen hd ≤ isizeMax ∧ rel + 1 + hlen hd < U := by
  intro hd hgh
  rw [sget_abs, hgh] at hg
  have hv : view s hd = v := by simpa using hg
  have := A.view_length (w.handles h hd hgh)
  rw [← this, hv]; exact ⟨hl, ha⟩

/-- `try_slice_ref` accepts EXACTLY the probes lying address-wise inside the value — adjacent-before,
adjacent-after, straddling and foreign probes are refused, an empty probe at either end is accepted —
and returns exactly that sub-range; a refusal changes no value.  (Hypotheses: the probe and the value
are Rust slices — at most `isize::MAX` long, not wrapping the address space.) -/
theorem try_slice_ref_spec (cfg : Cfg) (s : State) (h d : Nat) (relNeg : Bool) (rel plen : Nat) (v : List UInt8)
    (w : Wf cfg s) (hg : sget (abs s) h = some v) (hf : slotFree s d = true)
    (hp : plen ≤ isizeMax) (ha : 2 * rel + 1 + plen < U) (hl : v.length ≤ isizeMax) (hb : rel + 1 + v.length < U) :
    (abs (step cfg s (.trySliceRef h d relNeg rel plen)).1,
        eraseRet (step cfg s (.trySliceRef h d relNeg rel plen)).2.ret) =
      if inside relNeg rel plen v.length then ((abs s).set d (some ((v.drop rel).take plen)), .bool true)
      else (abs s, .bool false) := by
  rw [← ref_op_trySliceRef h d relNeg rel plen w ⟨hp, ha, opok_ref w hg hl hb⟩]
  simp only [Spec.Std.step, hg, sfree_abs, hf, if_true, inside]
  by_cases hc : ((!relNeg || rel == 0) && decide (rel + plen ≤ v.length)) = true
  · simp only [hc, if_true]
  · simp only [hc]

/-- `slice_ref` returns the same sub-range and panics exactly when `try_slice_ref` refuses. -/
theorem slice_ref_spec (cfg : Cfg) (s : State) (h d : Nat) (relNeg : Bool) (rel plen : Nat) (v : List UInt8)
    (w : Wf cfg s) (hg : sget (abs s) h = some v) (hf : slotFree s d = true)
    (hp : plen ≤ isizeMax) (ha : 2 * rel + 1 + plen < U) (hl : v.length ≤ isizeMax) (hb : rel + 1 + v.length < U) :
    (abs (step cfg s (.sliceRef h d relNeg rel plen)).1,
        eraseRet (step cfg s (.sliceRef h d relNeg rel plen)).2.ret) =
      if inside relNeg rel plen v.length then ((abs s).set d (some ((v.drop rel).take plen)), .unit)
      else (abs s, .panic) := by
  rw [← ref_op_sliceRef h d relNeg rel plen w ⟨hp, ha, opok_ref w hg hl hb⟩]
  simp only [Spec.Std.step, hg, sfree_abs, hf, if_true, inside]
  by_cases hc : ((!relNeg || rel == 0) && decide (rel + plen ≤ v.length)) = true
  · simp only [hc, if_true]
  · simp only [hc]

/-- the boundary probes the property names, on a 5-byte value -/
example : inside false 5 0 5 = true ∧ inside false 0 0 5 = true ∧   -- empty at either end: accepted
    inside false 5 1 5 = false ∧                                    -- adjacent after
    inside true 1 1 5 = false ∧                                     -- adjacent before
    inside true 1 3 5 = false ∧ inside false 3 3 5 = false ∧        -- straddling either end
    inside false 1 3 5 = true := by decide

/-! Non-vacuity: the boundary cases the property names.  On a 5-byte value `..=usize::MAX` and
`(Excluded(usize::MAX), ..)` are rejected (not `Ok(empty)` / `Ok(whole)`), `1..=3` is accepted. -/

example : stdGet .unbounded (.included (U - 1)) 5 = none := by simp [stdGet, startIdx, endIdx, U]
example : stdGet (.excluded (U - 1)) .unbounded 5 = none := by simp [stdGet, startIdx, endIdx, U]
example : stdGet (.included 1) (.included 3) 5 = some (1, 4) := by simp [stdGet, startIdx, endIdx]
example : Bound.fits (.included (U - 1)) ∧ Bound.fits (.excluded (U - 1)) := by simp [Bound.fits, U]

end HipVerif.Props.C08
