/-
C06 (signature part) — valid encodings by construction: which public functions can make a
HipStr / HipOsStr / HipPath, and from what.

Decided over `Gen/Doors.lean` (every callable function whose return type mentions one of the
three types, with the class of each input type; regenerated from /repo/src on every run).
The reviewed inputs (`lossyFns`, `uncheckedDoors`) and the row predicates are in
`Model/Doors.lean`. rustc is the oracle for the classification: `probedrive --only c06`
compiles programs that try to make a HipStr / HipOsStr / HipPath from raw bytes with the
infallible conversion traits (must be rejected) and their twins through `from_utf8`.
When a theorem breaks, `tables_driver` command `rows_c06` lists the falsifying rows.
-/
import HipVerif.Model.Doors

namespace HipVerif.Props.C06
open HipVerif.Model.Doors
open HipVerif.Gen.Doors (doors)

/- Evaluated (not kernel-checked) sanity check of the generated numeric keys. -/
#guard doorKeysOk

/-- **No safe unchecked door into `HipStr`.** Every SAFE callable function whose result contains
    a `HipStr` and that receives anything that is not UTF-8 by its type (`&[u8]`, `Vec<u8>`,
    `HipByt`, `BStr`, `&[u16]`, an OS string or path, a deserializer/reader, or any input the
    translator does not recognise) either returns `Result`/`Option` or is one of the lossy
    constructors — so it cannot hand back its input unexamined; the only infallible
    bytes → `HipStr` function is an `unsafe fn` (see `unchecked_doors_listed`). -/
theorem str_doors_checked :
    ∀ d ∈ doors, d.producesStr = true → d.isUnsafe = false →
      (∀ c ∈ d.inputs, c = .strLike ∨ c = .scalar) ∨ d.fallible = true ∨
        d.simpleKey ∈ lossyFns := by
  have h : (doors.all strDoorOk) = true := by decide +kernel
  intro d hd hp hu
  have := (List.all_eq_true.mp h) d hd
  simp only [strDoorOk, hp, hu, Bool.not_true, Bool.false_or, Bool.or_eq_true, List.all_eq_true,
    strInputOk, beq_iff_eq, List.contains_eq_mem, decide_eq_true_eq] at this
  rcases this with (h1 | h1) | h1
  · exact Or.inl h1
  · exact Or.inr (Or.inl h1)
  · exact Or.inr (Or.inr h1)

/-- **OS strings and paths are made from typed data only.** Every SAFE callable function whose
    result contains a `HipOsStr` or `HipPath` takes only str-like inputs (every `str` is a valid
    `OsStr`), os-like inputs, or content-free ones — a deserializer only with a fallible result;
    never raw bytes. So a safely obtained `HipOsStr`/`HipPath` exposes only bytes that came from
    valid `OsStr` data. -/
theorem os_doors_typed :
    ∀ d ∈ doors, (d.producesOs = true ∨ d.producesPath = true) → d.isUnsafe = false →
      ∀ c ∈ d.inputs, c = .strLike ∨ c = .osLike ∨ c = .scalar ∨
        (c = .decoder ∧ d.fallible = true) := by
  have h : (doors.all osDoorOk) = true := by decide +kernel
  intro d hd hp hu c hc
  have := (List.all_eq_true.mp h) d hd
  have hp' : (d.producesOs || d.producesPath) = true := by
    rcases hp with h1 | h1 <;> simp [h1]
  simp only [osDoorOk, hp', hu, Bool.not_true, Bool.false_or, List.all_eq_true, Bool.or_eq_true,
    Bool.and_eq_true, beq_iff_eq] at this
  rcases this c hc with ((h1 | h1) | h1) | h1
  · exact Or.inl h1
  · exact Or.inr (Or.inl h1)
  · exact Or.inr (Or.inr (Or.inl h1))
  · exact Or.inr (Or.inr (Or.inr h1))

/-- **The unsafe doors are exactly the reviewed ones**: the unsafe functions that make a `HipStr`
    from non-UTF-8-typed input (or an OS string/path from raw bytes) are `from_utf8_unchecked`
    and nothing else; a new one breaks this theorem and `rows_c06` names it. -/
theorem unchecked_doors_listed : unreviewedDoors = [] ∧ staleDoors = [] := by
  decide +kernel

/-! ### Non-vacuity -/

/-- The table is inhabited, and each theorem's hypothesis is met by real rows. -/
example : doors.length > 100 ∧
    (doors.filter fun d => d.producesStr && !d.isUnsafe && !d.inputs.all strInputOk).length ≥ 10 ∧
    (doors.filter fun d => (d.producesOs || d.producesPath) && !d.isUnsafe).length ≥ 30 ∧
    (doors.filter isUncheckedDoor).length = 1 := by decide +kernel

/-- What the predicates reject: a safe infallible `From<HipByt> for HipStr`, and a safe
    `From<&[u8]> for HipOsStr`. -/
example :
    strDoorOk ⟨"<string::HipStr<'_, B> as From<HipByt<'_, B>>>::from", 1, key% "from", false,
      true, false, false, [.bytesLike], false, "", "x"⟩ = false ∧
    osDoorOk ⟨"<os_string::HipOsStr<'_, B> as From<&[u8]>>::from", 1, key% "from", false,
      false, true, false, [.bytesLike], false, "", "x"⟩ = false ∧
    osDoorOk ⟨"<os_string::HipOsStr<'_, B> as TryFrom<&[u8]>>::try_from", 1, key% "try_from", false,
      false, true, false, [.bytesLike], true, "", "x"⟩ = false := by decide

end HipVerif.Props.C06
