/-
C17 — the crate's SURFACE is pinned: every trait impl (written, derived, macro-generated) and
every provided method it overrides, every `unsafe impl`, the unsafe-hygiene of the exported
macros, and the compile-time guards of the const parameters.

`Gen/PubFns` lists what can be CALLED; a check only fires if some theorem quantifies over the
row. These theorems make a NEW impl, a NEW override of a provided trait method (`ne`, `nth`,
`fold`, `clone_from`, `deserialize_in_place`, `visit_seq` …), a new `unsafe impl`, a macro arm
that expands a caller expression inside `unsafe`, or a weakened const-parameter guard a named
proof break, with `tables_driver` command `rows_c17s` pointing at the `file:line`.
Decided over `Gen/Surface.lean` (regenerated from /repo/src on every run); reviewed inputs and
row predicates in `Model/Surface.lean`.
-/
import HipVerif.Model.Surface

namespace HipVerif.Props.C17
open HipVerif.Model.Surface
open HipVerif.Gen.Surface (impls implChunks unsafeImpls exportedMacros constGuards)

/- Evaluated (not kernel-checked) sanity check of the generated numeric keys. -/
#guard surfaceKeysOk

private theorem all_impl_chunks {p : ImplRow → Bool} (h : (implChunks.all fun c => c.all p) = true) :
    ∀ r ∈ impls, p r = true := by
  intro r hr
  obtain ⟨c, hc, hrc⟩ := List.mem_flatten.mp hr
  exact (List.all_eq_true.mp ((List.all_eq_true.mp h) c hc)) r hrc

/-- **No unreviewed override.** Every method defined by any trait impl of the crate (written or
    in a macro arm) is either REQUIRED by its trait or on the reviewed list of overrides, each
    of which names the differential that drives it; and no reviewed override is stale. So
    overriding `PartialEq::ne`, `Iterator::nth`/`fold`, `Clone::clone_from`,
    `Deserialize::deserialize_in_place`, or adding a `visit_seq` to a visitor, breaks this
    theorem until the new method is reviewed and driven. -/
theorem no_unreviewed_overrides :
    (∀ r ∈ impls, ∀ m ∈ r.methods, ∃ req, required r.traitKey = some req ∧
      (m.1 ∈ req ∨ ∃ e ∈ reviewedOverrides, e.1 = r.tyKey ∧ e.2.1 = r.traitKey ∧ e.2.2.1 = m.1)) ∧
    staleOverrides = [] := by
  have h : (implChunks.all fun c => c.all overridesOk) = true := by decide +kernel
  refine ⟨fun r hr m hm => ?_, by decide +kernel⟩
  have hr' := all_impl_chunks h r hr
  unfold overridesOk at hr'
  have hne : r.methods.isEmpty = false := by
    cases hms : r.methods with
    | nil => simp [hms] at hm
    | cons _ _ => rfl
  rw [hne, Bool.false_or] at hr'
  cases hreq : required r.traitKey with
  | none => simp [hreq] at hr'
  | some req =>
    refine ⟨req, rfl, ?_⟩
    simp only [hreq, List.all_eq_true, Bool.or_eq_true, List.contains_eq_mem, decide_eq_true_eq,
      List.any_eq_true, Bool.and_eq_true, beq_iff_eq] at hr'
    rcases hr' m hm with h1 | ⟨e, he, h2⟩
    · exact Or.inl h1
    · exact Or.inr ⟨e, he, h2.1.1, h2.1.2, h2.2⟩

/-- **Every impl pair is reviewed.** Every (self type, trait) pair that has an impl — written,
    derived, or in a macro arm; macro invocations are pinned per file by their entry count — is
    on the reviewed list with exactly the number of impls the source has, its trait is assigned
    to the property that covers it (C12 comparison views, C16 codecs, C11 wiring, C01 core
    operations, C13–C15 vectors, C05 auto traits …), there is no negative impl, and no reviewed
    pair is stale. A new `impl Extend<u8> for HipByt` or `#[derive(Clone)]` on an iterator
    breaks this theorem. -/
theorem impl_pairs_reviewed :
    (∀ r ∈ impls, r.kind ≠ .negative ∧
      (∃ e ∈ implCounts, e.1 = r.tyKey ∧ e.2.1 = r.traitKey ∧ countOf r.tyKey r.traitKey = e.2.2) ∧
      (∃ e ∈ traitCover, e.1 = r.traitKey)) ∧
    miscountedPairs = [] := by
  have h : (implChunks.all fun c => c.all pairReviewed) = true := by decide +kernel
  have hm : miscountedPairs = [] := by decide +kernel
  refine ⟨fun r hr => ?_, hm⟩
  have hr' := all_impl_chunks h r hr
  simp only [pairReviewed, Bool.and_eq_true, bne_iff_ne, ne_eq, List.any_eq_true, beq_iff_eq] at hr'
  obtain ⟨⟨h1, e, he, h2, h3⟩, e', he', h4⟩ := hr'
  refine ⟨h1, ⟨e, he, h2, h3, ?_⟩, e', he', h4⟩
  -- the count: `e` is not in `miscountedPairs`
  have : e ∉ miscountedPairs := by rw [hm]; exact List.not_mem_nil
  simp only [miscountedPairs, List.mem_filter, he, true_and, bne_iff_ne, ne_eq, Decidable.not_not] at this
  rw [← h2, ← h3]; exact this

/-- **`unsafe impl Send/Sync` bound every parameter they expose.** The `unsafe impl`s of the
    crate are exactly the reviewed ones (all `Send`/`Sync`, none specialised), and each bounds
    EVERY type parameter that occurs in a field type of its target — by value, behind a raw
    pointer / `NonNull` / `PhantomData`, or as an argument of the heap header type — by the
    trait it implements. (`unsafe impl<T: Send, P> Send for ThinVec<T, P>` would break both
    halves: it is new, and `P`, stored in the heap header, is unbounded.) -/
theorem unsafe_auto_impls_bound_all_params :
    (∀ u ∈ unsafeImpls, (u.traitKey = key% "Send" ∨ u.traitKey = key% "Sync") ∧
      ∃ ps, u.fieldParams = some ps ∧ ∀ p ∈ ps, (p, u.traitKey) ∈ u.bounds) ∧
    unreviewedUnsafeImpls = [] ∧ staleUnsafeImpls = [] := by
  have h : (unsafeImpls.all unsafeImplOk) = true := by decide +kernel
  refine ⟨fun u hu => ?_, by decide +kernel, by decide +kernel⟩
  have hu' := (List.all_eq_true.mp h) u hu
  simp only [unsafeImplOk, Bool.and_eq_true, Bool.or_eq_true, beq_iff_eq] at hu'
  refine ⟨hu'.1, ?_⟩
  cases hfp : u.fieldParams with
  | none => simp [hfp] at hu'
  | some ps =>
    refine ⟨ps, rfl, fun p hp => ?_⟩
    have := hu'.2
    simp only [hfp, List.all_eq_true, List.contains_eq_mem, decide_eq_true_eq] at this
    exact this p hp

/-- **Exported macros keep caller code out of `unsafe`.** No arm of a `#[macro_export]` macro
    (`thin_vec!`, `inline_vec!`) expands a caller-supplied expression / token tree / block /
    statement inside an `unsafe { }` block of its own (no exemption is needed: no arm contains
    an `unsafe` block at all), so a client under `#![forbid(unsafe_code)]` cannot smuggle an
    unsafe operation through a macro argument. -/
theorem macro_unsafe_hygiene :
    ∀ m ∈ exportedMacros, m.inUnsafe = [] ∨ (m.nameKey, m.arm) ∈ macroUnsafeExempt := by
  have h : (exportedMacros.all macroArmOk) = true := by decide +kernel
  intro m hm
  have := (List.all_eq_true.mp h) m hm
  simpa [macroArmOk, List.isEmpty_iff] using this

/-- **The compile-time guards are exactly the expected ones** — same owner, same context, same
    condition text (so `TAG < (1 << SHIFT)` weakened to `<=` is a break), none missing, none new. -/
theorem const_param_guards_exact : unexpectedGuards = [] ∧ missingGuards = [] := by
  decide +kernel

private theorem pack_table :
    ((List.range 8).all fun s => (List.range (2 ^ s)).all fun t =>
      (List.range (255 >>> s + 1)).all fun l => s == 0 || t == 0 || packOk s t l) = true := by
  decide +kernel

/-- **Why the guards are what they are.** With `0 < SHIFT < 8`, `0 < TAG < 2^SHIFT` and
    `len ≤ 255 >> SHIFT` — exactly the asserts of `TaggedU8::new` — the byte
    `(len << SHIFT) | TAG` fits in a `u8`, is non-zero (`NonZeroU8::new_unchecked` is sound),
    gives back `len` by `>> SHIFT` and `TAG` by masking: length and tag do not overlap. -/
theorem tag_len_disjoint (SHIFT TAG len : Nat)
    (hs0 : 0 < SHIFT) (hs : SHIFT < 8) (ht0 : 0 < TAG) (ht : TAG < 2 ^ SHIFT)
    (hl : len ≤ 255 >>> SHIFT) :
    pack SHIFT TAG len >>> SHIFT = len ∧ pack SHIFT TAG len &&& (2 ^ SHIFT - 1) = TAG ∧
      pack SHIFT TAG len < 256 ∧ 0 < pack SHIFT TAG len := by
  have h := pack_table
  have h1 := (List.all_eq_true.mp h) SHIFT (List.mem_range.mpr hs)
  have h2 := (List.all_eq_true.mp h1) TAG (List.mem_range.mpr ht)
  have h3 := (List.all_eq_true.mp h2) len (List.mem_range.mpr (by omega))
  have hs' : (SHIFT == 0) = false := by simp; omega
  have ht' : (TAG == 0) = false := by simp; omega
  simp only [hs', ht', Bool.false_or, packOk, Bool.and_eq_true, beq_iff_eq, decide_eq_true_eq] at h3
  exact ⟨h3.1.1.1, h3.1.1.2, h3.1.2, h3.2⟩

/-! ### Non-vacuity -/

/-- The tables are inhabited: > 300 impl rows of every kind, 27 reviewed overrides, 255 pinned
    pairs, 6 unsafe impls, 10 exported macro arms, 23 guards. -/
example :
    impls.length > 300 ∧ (impls.filter fun r => r.kind == .derived).length > 40 ∧
    (impls.filter fun r => r.kind == .macroArm).length ≥ 15 ∧
    (impls.filter fun r => r.kind == .macroCall).length ≥ 20 ∧
    reviewedOverrides.length = 27 ∧ implCounts.length = 255 ∧ unsafeImpls.length = 6 ∧
    exportedMacros.length = 10 ∧ constGuards.length = 23 := by decide +kernel

/-- Seeded shapes, all rejected: `PartialEq::ne` overridden; a `nth` on an iterator; a new pair;
    `unsafe impl<T: Send, P> Send for ThinVec<T, P>` (fields mention both parameters);
    the variant with `P: Send` on the `Sync` impl; a macro arm with `$e` inside `unsafe`. -/
example :
    overridesOk ⟨.written, key% "path::HipPath", "path::HipPath", key% "PartialEq", "PartialEq<HipPath<'_, B1>>",
      [(key% "eq", "eq"), (key% "ne", "ne")], 1, false, "x"⟩ = false ∧
    overridesOk ⟨.written, key% "vecs::inline::IntoIter", "", key% "Iterator", "Iterator",
      [(key% "next", "next"), (key% "size_hint", "size_hint"), (key% "nth", "nth")], 1, false, "x"⟩ = false ∧
    pairReviewed ⟨.written, key% "bytes::raw::HipByt", "", key% "Extend", "Extend<u8>",
      [(key% "extend", "extend")], 1, false, "x"⟩ = false ∧
    pairReviewed ⟨.derived, key% "vecs::inline::IntoIter", "", key% "Clone", "Clone", [], 1, false, "x"⟩ = false ∧
    unsafeImplOk ⟨key% "vecs::thin::ThinVec", "", key% "Send", 2, [(0, key% "Send")], some [0, 1], "", "x"⟩ = false ∧
    unsafeImplOk ⟨key% "vecs::thin::ThinVec", "", key% "Sync", 2, [(0, key% "Sync"), (1, key% "Send")],
      some [0, 1], "", "x"⟩ = false ∧
    macroArmOk ⟨key% "thin_vec", "thin_vec", 2, true, [("e", "expr")], ["e"], "x"⟩ = false := by
  decide +kernel

/-- The strictness matters: with `TAG = 2^SHIFT` (what `<=` would admit) the tag collides with
    the lowest length bit — `len = 1`, `SHIFT = 1`, `TAG = 2` reads back as length 1 … and so
    does `len = 0`. -/
example : pack 1 2 0 >>> 1 = 1 ∧ pack 1 2 1 >>> 1 = 1 ∧ pack 1 2 0 &&& (2 ^ 1 - 1) ≠ 2 := by decide

end HipVerif.Props.C17
