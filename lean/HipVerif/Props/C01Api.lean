/-
C01 (coverage part) — every fn of the byte string and of its representation layer is an
operation of the Core model, a helper reached through one, monitored, or reviewed.

Decided over `Gen/BytApi.lean` (regenerated on every run from /repo/src — every inherent fn of
`HipByt`, `Union`, `Allocated`, `TaggedSmart`, `Borrowed`, `Smart`, the free fns of `bytes` and
`bytes::raw`, the lifecycle/conversion trait impls of `HipByt`, with the call graph's
reachability from the public entry points — and from `harness/src/bin/coredrive.rs` — the
operation names it dispatches on, the methods `impl Subject for HipByt` calls). The reviewed map
`bytApiCoverage` and the predicates are in `Model/BytApi.lean`.
This is the gate that a new `HipByt::split_off` with a zero-copy `Allocated::split_off_unchecked`
(not in the model's alphabet, not called by the differential) cannot pass silently.
-/
import HipVerif.Model.BytApi

namespace HipVerif.Props.C01
open HipVerif.Model.BytApi
open HipVerif.Gen.BytApi (bytFns driveOps bytCalls driveCalls)

/- Evaluated (not kernel-checked) sanity check of the generated numeric keys. -/
#guard bytApiKeysOk

/-- **Every fn of the byte-string family is covered.** Each fn — safe or unsafe, public or
    private — of `HipByt`, its union, the three representations and the counted pointer has
    exactly one entry in the reviewed map, and the entry is backed by the generated facts:
    `coreOp ops` — a public entry point, every `op` is an operation of the Core model (`opKey`)
    that coredrive dispatches on, and `impl Subject for HipByt` calls a method of the fn's name;
    `viaOp eps` — every named entry point is itself driven or monitored and reaches the helper in
    the generated call graph; `monitoredBy` — coredrive calls a method of that name; or it is on
    the reviewed not-driven list (with the reason). No entry is stale or duplicated, and the Core
    model's vocabulary is contained in coredrive's dispatch. -/
theorem byt_api_covered :
    (∀ f ∈ bytFns, ∃ c, coverOf f.key = some c) ∧
    (∀ e ∈ bytApiCoverage, entryOk e = true) ∧
    staleEntries = [] ∧ opsDispatched = true := by
  have h1 : (bytFns.all fnCovered) = true := by decide +kernel
  have h2 : (bytApiCoverage.all entryOk) = true := by decide +kernel
  refine ⟨?_, ?_, by decide +kernel, by decide +kernel⟩
  · intro f hf
    have := (List.all_eq_true.mp h1) f hf
    simpa [fnCovered, Option.isSome_iff_exists] using this
  · intro e he
    exact (List.all_eq_true.mp h2) e he

/-- **The Core model's operations are complete w.r.t. the map**: every operation of `Core.Op` has
    a protocol name in `modelOpKeys` (so the statements above speak about all 34 of them), and
    every one of them is the image of at least one fn of the crate. -/
theorem core_ops_complete :
    (∀ op : HipVerif.Core.Op, opKey op ∈ modelOpKeys) ∧ opsImplemented = true := by
  refine ⟨fun op => ?_, by decide +kernel⟩
  cases op <;> simp [opKey, modelOpKeys]

/-! ### Non-vacuity -/

/-- The tables are inhabited; the listings are empty on the current tree. -/
example : bytFns.length = 135 ∧ modelOpKeys.length = 34 ∧ driveOps.length ≥ 41 ∧
    (bytApiCoverage.filter fun e => match e.2 with | .coreOp _ => true | _ => false).length ≥ 30 ∧
    uncoveredFns.length = 0 ∧ badEntries = [] := by decide +kernel

/-- What the predicates reject: a fn without an entry (`HipByt::split_off`); an entry naming an
    operation the model does not have; a `coreOp` on a method coredrive's `Subject for HipByt`
    never calls; a `viaOp` through an entry point that does not reach the helper. -/
example :
    fnCovered ⟨"bytes::raw::HipByt::split_off", key% "bytes::raw::HipByt::split_off", "split_off",
      key% "split_off", "bytes::raw::HipByt", .pub, false, [], "x"⟩ = false ∧
    entryOk (key% "bytes::raw::HipByt::truncate", .coreOp [key% "no_such_op"]) = false ∧
    entryOk (key% "bytes::raw::HipByt::as_borrowed", .coreOp [key% "into_borrowed"]) = false ∧
    entryOk (key% "bytes::raw::allocated::Allocated::shrink_to", .viaOp [key% "bytes::raw::HipByt::new"]) = false ∧
    entryOk (key% "bytes::raw::allocated::Allocated::shrink_to", .viaOp [key% "bytes::raw::HipByt::shrink_to"]) = true := by
  decide +kernel

end HipVerif.Props.C01
