import HipVerif.Lemmas.Conc
import HipVerif.Gen.Atomics

/-!
# C04 — atomically shared buffers are race-free under every thread schedule

The theorems below are about the model `Model/Conc.lean` instantiated with the protocol
description `Gen.Atomics.proto` that the translator regenerates from `impl Kind for Arc` in
`/repo/src/smart.rs`.  They hold for every ceiling `ceil`, every number of threads, every
initial distribution `hs` of handles (`1 ≤ hs.sum ≤ ceil + 1`), every schedule, every choice
of (stale) message read by a relaxed `load`, every spurious CAS failure and every program,
including programs in which a handle is used BY REFERENCE from other threads
(`Label.borrow`/`unborrow`: scoped threads or `Arc<HipStr>` sharing `&handle`; the borrowers may
`read`/`clone`/`count`, the lender keeps the handle until the references are back).

The first block are the NAMED side conditions on the generated description, proved by
`decide`: these are the obligations that a weakened source breaks by name
(`decr_is_release`: `Release → Relaxed` in `decr`; `decr_overflow_has_acquire_fence` /
`is_unique_has_acquire_fence`: a removed fence; `incr_is_rmw` / `decr_is_rmw`: an update
rewritten as load + store; `incr_bound_le_ceil`: a changed loop bound; `is_unique_shape`:
`is_unique` no longer tests the value read against `0`).
-/

namespace HipVerif.Props.C04
open HipVerif.Model HipVerif.Model.Conc
open HipVerif.Gen

/-- The model instantiated with the generated protocol description. -/
def cfg (ceil : Nat) : Cfg := { ceil := ceil, proto := Atomics.proto }

/-! ## Named side conditions on `Gen.Atomics` -/

/-- `Arc::one` creates the counter at `0`: the count stores `shares - 1` (the initial states of
the model are built accordingly). -/
theorem one_is_zero : Atomics.one = 0 := by decide

/-- `Arc::decr` is one atomic `fetch_sub(1, _)` followed by a test of the old value against `0`
(`Overflow` when it was `0`); in particular the decrement is a read-modify-write. -/
theorem decr_is_rmw : decrShape Atomics.proto = true := by decide

/-- The `fetch_sub` of `Arc::decr` has release semantics: the accesses of the dropping thread
are published to whoever frees or mutates later. -/
theorem decr_is_release : decrIsRelease Atomics.proto = true := by decide

/-- The `Overflow` branch of `Arc::decr` acquires (fence) before the caller frees the box. -/
theorem decr_overflow_has_acquire_fence : decrAcquires Atomics.proto = true := by decide

/-- After the `fetch_sub` of `Arc::decr` nothing touches the counter any more (only fences and
the returned value), in any build profile: once its share is given back, the block may be
freed by another thread, so even a `debug_assert!` reading the count would be a use after free. -/
theorem no_counter_access_after_release : decrNoAccessAfterRelease Atomics.proto = true := by decide

/-- No `debug_assert!` of the counter methods accesses the counter (the debug and release
builds run the same protocol); when this breaks the right-hand side lists the sites. -/
theorem no_debug_only_accesses : Atomics.debugOnlyAccesses = [] := by decide

/-- `Arc::incr` is a relaxed load followed by a compare-exchange loop: the increment is a
read-modify-write, never a load + store. -/
theorem incr_is_rmw : incrShape Atomics.proto = true := by decide

/-- The loop bound of `Arc::incr` keeps the stored count at most `ceil` (`usize::MAX - 1`). -/
theorem incr_bound_le_ceil (ceil : Nat) : incrBoundOk ceil Atomics.proto = true := by
  simp [incrBoundOk, Atomics.proto, Atomics.incr, Bound.eval]

/-- `Arc::is_unique` loads the count and answers `true` exactly when it read `0`. -/
theorem is_unique_shape : uniqShape Atomics.proto = true := by decide

/-- The `true` branch of `Arc::is_unique` acquires (fence) before the caller mutates or takes. -/
theorem is_unique_has_acquire_fence : uniqAcquires Atomics.proto = true := by decide

/-- `Arc::get` is a single load (plus one). -/
theorem get_is_load : getShape Atomics.proto = true := by decide

/-- No counter method contains a plain `store`: every modification of the count is an RMW. -/
theorem no_plain_store :
    noPlainStore Atomics.decr = true ∧ noPlainStore Atomics.incr = true ∧
    readOnly Atomics.isUnique = true ∧ readOnly Atomics.get = true := by decide

/-- The source sites of plain stores to the count, per method: none.  (When this breaks, the
left-hand side evaluates to the offending `file:line`s; `conc_driver`'s `obligations` command
prints them as `plain_store_sites=…`.) -/
theorem plain_store_sites :
    Atomics.rowSites.map (fun p => (p.1, storeSites
      (match p.1 with
        | "decr" => Atomics.decr | "incr" => Atomics.incr
        | "isUnique" => Atomics.isUnique | _ => Atomics.get) p.2)) =
    [("decr", []), ("incr", []), ("get", []), ("isUnique", [])] := by decide

/-- The generated description satisfies every side condition, for every ceiling. -/
theorem gen_ok (ceil : Nat) : ProtoOk (cfg ceil) :=
  { decr_is_rmw := decr_is_rmw
    decr_is_release := decr_is_release
    decr_overflow_has_acquire_fence := decr_overflow_has_acquire_fence
    incr_is_rmw := incr_is_rmw
    incr_bound_le_ceil := incr_bound_le_ceil ceil
    is_unique_shape := is_unique_shape
    is_unique_has_acquire_fence := is_unique_has_acquire_fence
    get_is_load := get_is_load }

/-! ## Counting -/

/-- While at least one `Smart<_, Arc>` handle to a buffer exists (in any thread, including
handles in the middle of `clone`/`drop`), the last value written to the atomic count is the
number of handles minus one, and it never exceeds the ceiling. -/
theorem count_tracks {ceil : Nat} {hs : List Nat} {s : State} (hr : Reachable (cfg ceil) hs s)
    (h1 : 1 ≤ total s) : s.last.val + 1 = total s ∧ s.last.val ≤ ceil :=
  count_tracks_of (gen_ok ceil).shapeOk hr h1

/-- `J`: a thread that holds a handle which is not lent out can never read a stale `0` from the
count: every message it is still allowed to read, except the last one, is `≥ 1`.  (Needs
`incr_is_rmw`: a non-atomic increment leaves a stale `0` readable.) -/
theorem J {ceil : Nat} {hs : List Nat} {s : State} (hr : Reachable (cfg ceil) hs s)
    {t : Nat} {th : Thread} (ht : s.thr[t]? = some th) (ho : 1 ≤ owned th)
    (hnp : pinned s t = false)
    {i : Nat} {m : Msg} (hi : s.hist[i]? = some m) (hc : th.coh ≤ i) : 1 ≤ m.val :=
  J_of (gen_ok ceil).shapeOk hr ht ho hnp hi hc

/-- `J` for a lent handle: a stale `0` is out of reach of the lender itself or of one of the
borrowers, whose coherence index is joined into the lender's when the reference comes back. -/
theorem J_lent {ceil : Nat} {hs : List Nat} {s : State} (hr : Reachable (cfg ceil) hs s)
    {i : Nat} {m : Msg} (hi : s.hist[i]? = some m) (hz : m.val = 0)
    {t : Nat} {th : Thread} (ht : s.thr[t]? = some th) (ho : 1 ≤ owned th) :
    i < th.coh ∨ ∃ (w : Nat) (wh : Thread), s.thr[w]? = some wh ∧ t ∈ wh.refs ∧ i < wh.coh :=
  J_lent_of (gen_ok ceil).shapeOk hr hi hz ht ho

/-- A shared reference to a handle never dangles: while it is out its lender still holds a
handle and the buffer has not been freed. -/
theorem lent_alive {ceil : Nat} {hs : List Nat} {s : State} (hr : Reachable (cfg ceil) hs s)
    {w : Nat} {wh : Thread} (hw : s.thr[w]? = some wh) {u : Nat} (hu : u ∈ wh.refs) :
    (∃ uh, s.thr[u]? = some uh ∧ 1 ≤ uh.handles) ∧ s.freed = 0 :=
  lent_alive_of (gen_ok ceil).shapeOk hr hw hu

/-- When `is_unique` is about to return `true` to `as_mut`/`try_unwrap` (even after a relaxed,
possibly stale load), exactly one handle to the buffer exists: the caller's, and no shared
reference to any handle is out. -/
theorem unique_sound {ceil : Nat} {hs : List Nat} {s : State} (hr : Reachable (cfg ceil) hs s)
    {t : Nat} {th : Thread} (ht : s.thr[t]? = some th)
    {k : Kont} {code : List AStep} {old : Nat} (hpc : th.pc = some ⟨k, code, old⟩)
    (hk : k = .mutate ∨ k = .unwrap) (hret : localRet code = some (.bool true)) :
    total s = 1 ∧ th.handles = 1 ∧ s.freed = 0 ∧
      (∀ (u : Nat) uh, u ≠ t → s.thr[u]? = some uh → owned uh = 0) ∧
      (∀ (u : Nat) uh, s.thr[u]? = some uh → uh.refs = []) :=
  unique_sound_of (gen_ok ceil).shapeOk hr ht hpc hk hret

/-- The box is freed at most once (no double free), under every schedule. -/
theorem freed_once {ceil : Nat} {hs : List Nat} {s : State} (hr : Reachable (cfg ceil) hs s) :
    s.freed ≤ 1 :=
  freed_once_of (gen_ok ceil).shapeOk hr

/-- When every handle has been dropped (or unwrapped) and no method is in flight, the box has
been freed (no leak). -/
theorem all_dropped_freed {ceil : Nat} {hs : List Nat} {s : State}
    (hr : Reachable (cfg ceil) hs s) (h0 : total s = 0)
    (hidle : ∀ (t : Nat) th, s.thr[t]? = some th → th.pc = none) : s.freed = 1 :=
  all_dropped_freed_of (gen_ok ceil).shapeOk hr h0 hidle

/-! ## Happens-before -/

/-- `K`: the payload accesses of a thread that no longer holds a handle or a reference are covered by the
release view of the count's last message (it gave its handles up through `drop`, a release
RMW, and every later modification is an RMW that continues the release sequence), or are
known to a thread that still holds a handle (it gave its last handle away with `send`, or
gave a reference back to its lender). -/
theorem K {ceil : Nat} {hs : List Nat} {s : State} (hr : Reachable (cfg ceil) hs s)
    (hf : s.freed = 0) {u : Nat} {uh : Thread} (hu : s.thr[u]? = some uh) (ho : owned uh = 0)
    (hrf : uh.refs = []) (hx : excl uh = false) :
    vat s.acc u ≤ vat s.last.rel u ∨
    ∃ (t : Nat) (th : Thread), s.thr[t]? = some th ∧ 1 ≤ owned th ∧ vat s.acc u ≤ vat th.view u :=
  K_of (gen_ok ceil) hr hf hu ho hrf hx

/-- No data race on the payload: every read through a handle or a borrowed reference, every write granted by
`as_mut`, every deep copy and the final free are ordered by happens-before with every
conflicting access, under every schedule and every stale-read choice. -/
theorem race_free {ceil : Nat} {hs : List Nat} {s : State} (hr : Reachable (cfg ceil) hs s) :
    s.race = false :=
  race_free_of (gen_ok ceil) hr

/-- Neither the payload nor the count (same box) is ever accessed, nor the box freed again,
after the free; and once freed no thread holds or is acquiring a handle. -/
theorem no_access_after_free {ceil : Nat} {hs : List Nat} {s : State}
    (hr : Reachable (cfg ceil) hs s) :
    s.uaf = false ∧
      (s.freed = 1 → ∀ (t : Nat) th, s.thr[t]? = some th → owned th = 0 ∧ excl th = false) :=
  no_access_after_free_of (gen_ok ceil) hr

/-- A read through a handle or a borrowed reference returns the current content of the payload, and every write ever
made to it (by a former unique owner) happens-before that read. -/
theorem reads_see_last_write {ceil : Nat} {hs : List Nat} {s s' : State}
    (hr : Reachable (cfg ceil) hs s) {t : Nat} (hstep : step (cfg ceil) s (.start t .read) = some s') :
    ∃ th th', s.thr[t]? = some th ∧ s'.thr[t]? = some th' ∧ th'.res = th.res ++ [s.pval] ∧
      (∀ u : Nat, vat s.wr u ≤ vat th.view u) ∧ s'.race = false :=
  reads_see_last_write_of (gen_ok ceil) hr hstep

/-! ## Non-vacuity -/

/-- Two threads with one handle each: thread 0 reads and drops, thread 1 then finds itself
unique (having read the LAST message), writes, and drops: the box is freed once, no race. -/
def schedA : List Label :=
  [.start 0 .read, .start 0 .drop, .micro 0 0, .micro 0 0,
   .start 1 .mutate, .micro 1 1, .micro 1 0, .micro 1 0,
   .start 1 .drop, .micro 1 0, .micro 1 0, .micro 1 0]

example : (run (cfg 10) (init [1, 1]) schedA).map
    (fun s => (s.freed, s.pval, s.race, s.uaf, total s)) = some (1, 1, false, false, 0) := by
  decide

/-- The hypotheses of `unique_sound` are satisfiable: after the load of `is_unique` read `0`. -/
example : ∃ s th code old, Reachable (cfg 10) [1, 1] s ∧ s.thr[1]? = some th ∧
    th.pc = some ⟨.mutate, code, old⟩ ∧ localRet code = some (.bool true) :=
  ⟨_, _, _, _, ⟨by decide, by decide, schedA.take 6, rfl⟩, rfl, rfl, rfl⟩

/-- Stale reads are really in the model: thread 1 may load the initial message (index 0, value
`1`) although thread 0 has already decremented the count, and is then refused the mutation. -/
example : (run (cfg 10) (init [1, 1])
    [.start 0 .drop, .micro 0 0, .micro 0 0, .start 1 .mutate, .micro 1 0, .micro 1 0]).map
    (fun s => (s.last.val, s.thr.map (·.res))) = some (0, [[0], [0]]) := by
  decide

/-- The race flag is not vacuous: with `decr` weakened to `Relaxed` the same schedule as
`schedA` ends with a race between thread 0's read and thread 1's write. -/
example : (run { ceil := 10, proto := { Atomics.proto with decr :=
      [.rmwSub 1 .relaxed, .branch .eq (.lit 0) [.fence .acquire] .overflow [] .done] } }
    (init [1, 1]) schedA).map (·.race) = some true := by
  decide

/-- By-reference use: thread 0 lends its only handle to threads 1 and 2, which both clone through
the reference (the second clone reads the count STALE and its CAS fails once), thread 1 drops its
clone, the references come back, thread 0 is refused the mutation (two handles), drops, and
thread 2's drop frees: three handles were counted, one free, no race. -/
def schedRef : List Label :=
  [.borrow 1 0, .borrow 2 0,
   .start 1 .clone, .micro 1 0, .micro 1 0, .micro 1 0,
   .start 2 .clone, .micro 2 0, .micro 2 2, .micro 2 0, .micro 2 0,
   .start 1 .drop, .micro 1 0, .micro 1 0,
   .unborrow 1 0, .unborrow 2 0,
   .start 0 .mutate, .micro 0 3, .micro 0 0,
   .start 0 .drop, .micro 0 0, .micro 0 0,
   .start 2 .drop, .micro 2 0, .micro 2 0, .micro 2 0]

example : (run (cfg 10) (init [1, 0, 0]) schedRef).map
    (fun s => (s.freed, s.race, s.uaf, total s, s.thr.map (·.res))) =
    some (1, false, false, 0, [[0, 0], [0, 0], [0, 1]]) := by
  decide

/-- While the references are out the lender cannot drop (the step is not enabled). -/
example : run (cfg 10) (init [1, 0]) [.borrow 1 0, .start 0 .drop] = none := by decide

/-- Reachable states exist for every admissible initial distribution. -/
example : Reachable (cfg 10) [2, 0, 1] (init [2, 0, 1]) := ⟨by decide, by decide, [], rfl⟩

end HipVerif.Props.C04
