/-
C06 — HipStr is always well-formed UTF-8.

Validity is preserved at the level of the std-side specification (plain byte lists,
`Str.spec_valid_step`) and transported to the representation model by the refinement theorem:
whatever sharing, offsets, stale tails or copies the representation goes through, what a handle
reads back is what the specification says, hence well-formed.  `Gen.StrGuards` (REGENERATED from
src/string.rs, src/string/convert.rs, src/os_string.rs) records that the checks the `HipStr` API
is supposed to perform are present in the source, in order.
-/
import HipVerif.Gen.StrGuards
import HipVerif.Lemmas.CoreRun
import HipVerif.Lemmas.CoreStr
import HipVerif.Lemmas.CoreStrStep
import HipVerif.Audit.Reexport
import HipVerif.Props.C10

namespace HipVerif.Props.C06
open HipVerif.Core HipVerif.Spec.Std HipVerif.Str HipVerif.Utf8

/-- Every validity guard of the `HipStr` API is present in the source: `truncate` ASSERTS (not
debug-asserts) the boundary before truncating, `try_slice` checks both ends before slicing, `slice`
panics exactly when `try_slice` errs, `from_utf8`/`TryFrom` validate before the unchecked
constructor and hand the bytes back on error, `pop` truncates at the last char's start, `push`
appends `encode_utf8`, OsStr→str conversions validate first. -/
theorem str_guards_present : ∀ g ∈ Gen.StrGuards.guards, g.found = true := by decide

/-- One step of the REPRESENTATION model keeps every value well-formed, for every legitimate
`HipStr` call (`StrSafe`: arguments typed `&str`/`char`, cuts at char boundaries — what the guards
above establish). -/
theorem utf8_step (cfg : Cfg) (s : State) (op : Op) (w : Wf cfg s) (hok : OpOk s op)
    (hv : AllValid (abs s)) (hs : StrSafe s.srcs (abs s) op) : AllValid (abs (step cfg s op).1) := by
  have h := spec_valid_step cfg.icap s.srcs (abs s) op (retFlag (step cfg s op).2.ret) hv hs
  rw [refines cfg s op w hok] at h
  exact h

/-- legitimate `HipStr` histories -/
def AllStrSafe (cfg : Cfg) (s : State) : List Op → Prop
  | [] => True
  | op :: ops => StrSafe s.srcs (abs s) op ∧ AllStrSafe cfg (step cfg s op).1 ops

/-- Through ANY sequence of legitimate operations every `HipStr` stays well-formed UTF-8. -/
theorem utf8_inv (cfg : Cfg) (ops : List Op) :
    ∀ s, Wf cfg s → AllOk cfg s ops → AllStrSafe cfg s ops → AllValid (abs s) →
      AllValid (abs (run cfg s ops).1) := by
  induction ops with
  | nil => intro s _ _ _ hv; exact hv
  | cons op ops ih =>
    intro s w hok hss hv
    rw [run_cons]
    exact ih _ (wf_step cfg s op w) hok.2 hss.2 (utf8_step cfg s op w hok.1 hv hss.1)

/-- `HipStr::push(char)`: appending the encoding of a scalar value is a legitimate operation. -/
theorem push_char_safe (srcs : List (List UInt8)) (p : SPool) (h c : Nat) (hc : isScalar c = true) :
    StrSafe srcs p (.pushSlice h (encode c)) := valid_encode hc

/-- `HipStr::pop`: truncating at the start of the last scalar is a legitimate operation (the
boundary assertion inside `truncate` cannot fire), and what is removed is exactly one scalar. -/
theorem pop_char_safe (srcs : List (List UInt8)) (p : SPool) (h : Nat) (v : List UInt8)
    (hg : sget p h = some v) (hv : valid v = true) (hne : v ≠ []) :
    StrSafe srcs p (.truncate h (lastCharStart v)) ∧
      ∃ c, isScalar c = true ∧ v.drop (lastCharStart v) = encode c := by
  obtain ⟨hb, _, _, hc⟩ := lastCharStart_spec hv hne
  refine ⟨?_, hc⟩
  intro v' hg' _
  rw [hg] at hg'; cases hg'
  exact hb

/-- `truncate` off a char boundary, `try_slice`/`slice` with an end inside a code point, and
`from_utf8` of ill-formed bytes are REJECTED and leave the state unchanged. -/
theorem reject_unchanged (cfg : Cfg) (s : State) :
    (∀ h n hd, getH s h = some hd → n ≤ (view s hd).length → isBoundary (view s hd) n = false →
      strStep cfg s (.truncate h n) = (s, .panic)) ∧
    (∀ d bs, valid bs = false → strStep cfg s (.fromUtf8 d bs) = (s, .utf8Err (validUpTo bs))) ∧
    (∀ h d sb eb hd a b, getH s h = some hd →
      Gen.Ranges.simplifyRangeMono sb eb (view s hd).length = .ok (a, b) →
      (isBoundary (view s hd) a = false → strStep cfg s (.trySlice h d sb eb) = (s, .sliceErr (.startNotBoundary a b))) ∧
      (isBoundary (view s hd) a = true → isBoundary (view s hd) b = false →
        strStep cfg s (.trySlice h d sb eb) = (s, .sliceErr (.endNotBoundary a b))) ∧
      ((isBoundary (view s hd) a && isBoundary (view s hd) b) = false →
        strStep cfg s (.slice h d sb eb) = (s, .panic))) := by
  refine ⟨?_, ?_, ?_⟩
  · intro h n hd hg hn hb
    simp [strStep, hg, hn, hb]
  · intro d bs hv
    simp [strStep, hv]
  · intro h d sb eb hd a b hg hr
    refine ⟨?_, ?_, ?_⟩
    · intro ha; simp [strStep, hg, hr, ha]
    · intro ha hb; simp [strStep, hg, hr, ha, hb]
    · intro hab; simp [strStep, hg, hr, hab]

/-- `HipStr::concat` with ANY iterator / `AsRef<str>` misbehaviour: whatever value is returned is
well-formed UTF-8 (the pieces are `&str`s, hence valid; the value is exactly the concatenation of
the pieces actually copied — `C10.concat_adversarial` — never uninitialised bytes). -/
theorem concat_str_valid (icap : Nat) (ps₁ ps₂ : List (List UInt8)) (bs : List (Option UInt8)) (hp : Bool)
    (hv : ∀ p ∈ ps₂, valid p = true)
    (h : Concat.concat Gen.Concat.concat icap ps₁ ps₂ = .value bs hp) :
    ∃ v, bs = v.map some ∧ valid v = true := by
  by_cases h0 : Concat.total ps₁ = 0
  · rw [(HipVerif.Props.C10.concat_adversarial icap ps₁ ps₂).1 h0] at h
    cases h; exact ⟨[], rfl, rfl⟩
  · rcases (HipVerif.Props.C10.concat_adversarial icap ps₁ ps₂).2 h0 with hpanic | ⟨hval, _⟩
    · rw [hpanic] at h; cases h
    · rw [hval] at h; cases h
      exact ⟨ps₂.flatten, rfl, valid_flatten hv⟩

/-- the same for `HipStr::join` (the separator is a `&str` too) -/
theorem join_str_valid (icap : Nat) (ps₁ ps₂ : List (List UInt8)) (sep : List UInt8)
    (bs : List (Option UInt8)) (hp : Bool)
    (hv : ∀ p ∈ ps₂, valid p = true) (hsep : valid sep = true)
    (h : Concat.join Gen.Concat.join icap ps₁ ps₂ sep = .value bs hp) :
    ∃ v, bs = v.map some ∧ valid v = true := by
  by_cases h0 : ps₁ = []
  · rw [(HipVerif.Props.C10.join_adversarial icap ps₁ ps₂ sep).1 h0] at h
    cases h; exact ⟨[], rfl, rfl⟩
  · rcases (HipVerif.Props.C10.join_adversarial icap ps₁ ps₂ sep).2 h0 with hpanic | ⟨hval, _⟩
    · rw [hpanic] at h; cases h
    · rw [hval] at h; cases h
      exact ⟨Concat.specJoin ps₂ sep, rfl, valid_intercalate hsep hv⟩

/-! Non-vacuity. -/

example : valid [0xC3, 0xA9] = true ∧ isBoundary [0xC3, 0xA9] 1 = false := by decide

example : AllValid [some [0xC3, 0xA9], none] := by
  intro h v hg
  match h, hg with
  | 0, hg => simp [sget] at hg; subst hg; decide
  | 1, hg => simp [sget] at hg
  | (n + 2), hg => simp [sget] at hg

/-! ### The `HipStr` layer itself (`strStep`: the checks `HipStr` adds on top of `HipByt`)
Lemmas/CoreStrStep.lean.  Here the only hypothesis on arguments is their TYPE (`StrArgsOk`:
`&str`/`char` arguments are well-formed); the cuts are checked by the layer's own guards. -/

/-- the representation invariant survives every `HipStr` call -/
reexport HipVerif.Str.strStep_wf as str_step_wf
/-- **every `HipStr` call keeps every value well-formed UTF-8** — `push(char)`, `pop`, `truncate`,
`try_slice`, `slice`, `from_utf8` rely on their own checks only -/
reexport HipVerif.Str.strStep_valid as str_step_valid
/-- a call the layer rejects (panic, slice error, UTF-8 error) leaves the state untouched -/
reexport HipVerif.Str.strStep_reject_unchanged as str_reject_unchanged
/-- through any history of `HipStr` calls from the initial state -/
reexport HipVerif.Str.strRun_init_valid as str_run_valid
reexport HipVerif.Str.strRun_valid as str_run_valid_from
/-- agreement with `String`/`str`: what each accepted call does, and exactly which calls are accepted -/
reexport HipVerif.Str.strStep_truncate_spec as str_truncate_spec
reexport HipVerif.Str.strStep_popChar_spec as str_pop_spec
/-- `pop`'s internal boundary re-check can never fire on a well-formed value -/
reexport HipVerif.Str.strStep_popChar_no_panic as str_pop_no_panic
reexport HipVerif.Str.strStep_pushChar_spec as str_push_char_spec
reexport HipVerif.Str.strStep_pushStr_spec as str_push_str_spec
reexport HipVerif.Str.strStep_trySlice_spec as str_try_slice_spec
/-- `try_slice` accepts exactly the in-bounds ranges whose two ends are char boundaries -/
reexport HipVerif.Str.strStep_trySlice_accepted_iff as str_try_slice_accepted_iff
reexport HipVerif.Str.strStep_slice_spec as str_slice_spec
reexport HipVerif.Str.strStep_fromUtf8_spec as str_from_utf8_spec
/-- `from_utf8` accepts exactly the well-formed byte strings -/
reexport HipVerif.Str.strStep_fromUtf8_accepted_iff as str_from_utf8_accepted_iff

end HipVerif.Props.C06
