/-
The crate's SURFACE gate (Props/C17Surface.lean, decided over `Gen/Surface.lean`, regenerated from
/repo/src on every run), restated under the properties whose models it protects.

Every model in this project covers the functions and trait-impl methods that existed when it was
written. A NEW trait impl, an OVERRIDE of a provided trait method (`PartialEq::ne`,
`Iterator::nth`/`fold`, `Deserialize::deserialize_in_place`, a serde `visit_*`), a new
`unsafe impl Send/Sync`, an exported macro that expands caller expressions inside `unsafe`, or a
weakened compile-time guard of a const parameter is code NO model has seen: these theorems turn it
into a named proof break (with file:line through `tables_driver rows_c17s`) under the property it
endangers, instead of silence.
-/
import HipVerif.Audit.Reexport
import HipVerif.Props.C17Surface

namespace HipVerif.Props.C01
/-- every `impl Trait for Type` of the crate is pinned (type, trait, count) and assigned to the
model/differential that covers it: a new impl on a string-family type (e.g. `Extend<u8> for HipByt`)
is outside the refinement theorem until reviewed -/
reexport HipVerif.Props.C17.impl_pairs_reviewed as trait_impls_pinned
end HipVerif.Props.C01

namespace HipVerif.Props.C05
/-- every `unsafe impl` of the crate (for ANY type, the vectors included) is `Send` or `Sync`, is on
the reviewed list, and bounds EVERY type parameter occurring in a field of its target by the trait it
implements -/
reexport HipVerif.Props.C17.unsafe_auto_impls_bound_all_params as unsafe_auto_impls_bound_all_params
end HipVerif.Props.C05

namespace HipVerif.Props.C06
/-- no serde visitor or other impl of a string-family type defines a method outside the reviewed
set (a `visit_seq` that builds a `HipStr` without validation would be one) -/
reexport HipVerif.Props.C17.no_unreviewed_overrides as no_unreviewed_overrides
end HipVerif.Props.C06

namespace HipVerif.Props.C12
/-- no comparison/hash impl overrides a provided method (`ne`, `lt`, `le`, `gt`, `ge`, `max`, …):
the coherence theorems speak about `eq`/`partial_cmp`/`cmp`/`hash` only -/
reexport HipVerif.Props.C17.no_unreviewed_overrides as no_unreviewed_overrides
/-- the set of comparison, hash and `Borrow` impls is exactly the reviewed one -/
reexport HipVerif.Props.C17.impl_pairs_reviewed as trait_impls_pinned
end HipVerif.Props.C12

namespace HipVerif.Props.C13
/-- the compile-time guards of `InlineVec`'s const parameters are exactly the expected ones
(strictness of each comparison included) … -/
reexport HipVerif.Props.C17.const_param_guards_exact as const_param_guards_exact
/-- … and they are what the tagged-length byte needs: tag and length do not overlap -/
reexport HipVerif.Props.C17.tag_len_disjoint as tag_len_disjoint
end HipVerif.Props.C13

namespace HipVerif.Props.C14
/-- the containers' iterators define only the methods the slot model follows (`next`, `next_back`,
`size_hint`, `len`, `Drop`): an overridden `nth`/`fold`/… or a new `Clone` impl is a proof break -/
reexport HipVerif.Props.C17.no_unreviewed_overrides as no_unreviewed_overrides
reexport HipVerif.Props.C17.impl_pairs_reviewed as trait_impls_pinned
end HipVerif.Props.C14

namespace HipVerif.Props.C15
reexport HipVerif.Props.C17.no_unreviewed_overrides as no_unreviewed_overrides
reexport HipVerif.Props.C17.impl_pairs_reviewed as trait_impls_pinned
end HipVerif.Props.C15

namespace HipVerif.Props.C16
/-- no `Deserialize`/`Serialize`/`Visitor`/borsh impl defines a method outside the modelled set
(`deserialize_in_place`, an extra `visit_*`) -/
reexport HipVerif.Props.C17.no_unreviewed_overrides as no_unreviewed_overrides
reexport HipVerif.Props.C17.impl_pairs_reviewed as trait_impls_pinned
end HipVerif.Props.C16
