/-
C13 (arithmetic part) — the list model's unbounded `len + n ≤ cap` is what the code checks.

`Model/Vecs.lean` computes on unbounded naturals; the code computes on `usize` (`U = 2^64`).
`capOk_wrapping` / `capOk_checked` (Model/Vecs.lean) are the two ways the code can write the
check; `Gen/CapAsserts.lean` (regenerated from /repo/src/vecs/inline.rs on every run) records
which way each assert is written and where its operand comes from. A source can really have
`usize::MAX` elements (`vec![(); usize::MAX]`): with the wrapping shape `append` accepted it
(defect fixed in /repo by "InlineVec capacity asserts cannot wrap"); `vecdrive` drives such
sources (`append vec *18446744073709551615`).
When `capacity_asserts_cannot_wrap` breaks, `HipVerif.Model.CapAsserts.wrappingSites` names the
sites with file:line.
-/
import HipVerif.Lemmas.Vecs
import HipVerif.Model.CapAsserts

namespace HipVerif.Props.C13
open HipVerif.Vecs
open HipVerif.Model.CapAsserts
open HipVerif.Gen.CapAsserts (capAsserts)

/-- **The fixed check is the model's check for every `n`** — no bound on the source's length is
    needed: `n <= CAP - len` ⇔ `len + n ≤ CAP` whenever `len ≤ CAP`. -/
theorem checked_is_faithful (len n cap : Nat) (h : len ≤ cap) :
    capOk_checked len n cap ↔ len + n ≤ cap :=
  capOk_checked_iff len n cap h

/-- **The wrapping check is not**: a 7-slot vector holding 2 elements accepts `usize::MAX` more
    (`2 + (2^64 − 1)` wraps to 1). This is the defect found in `InlineVec::append`. -/
theorem wrapping_is_unfaithful : ¬ (∀ n, capOk_wrapping 2 n 7 → 2 + n ≤ 7) :=
  capOk_wrapping_unfaithful

example : capOk_wrapping 2 (2 ^ 64 - 1) 7 ∧ ¬ capOk_checked 2 (2 ^ 64 - 1) 7 := by decide

/-- **No capacity assert of `InlineVec` can wrap on caller-controlled input**: every assert whose
    operand is the length of a foreign slice / boxed slice / generic vector, or a number supplied
    by the caller, compares without adding first (`n <= CAP - len` or `x <= CAP`). The asserts
    that do add first (`extend_from_array`, `extend_from_within*`) add a quantity bounded by
    `CAP` or by `self.len()`. -/
theorem capacity_asserts_cannot_wrap :
    ∀ a ∈ capAsserts, a.src.callerControlled = true → a.shape ≠ .wrappingSum := by
  have h : (capAsserts.all assertOk) = true := by decide +kernel
  intro a ha hc hs
  have := (List.all_eq_true.mp h) a ha
  simp [assertOk, hc, hs] at this

/-- **Every capacity assert equals the model's check on all `usize` inputs**: for each assert of
    the table, any `len ≤ CAP ≤ 255` and any operand value its provenance allows (any `usize` for
    foreign lengths and caller numbers), the condition as the code evaluates it holds exactly when
    the list model's unbounded comparison does (`len + n ≤ CAP`; for a `direct` check, `n ≤ CAP`). -/
theorem capacity_asserts_faithful :
    ∀ a ∈ capAsserts, ∀ len n cap, len ≤ cap → cap ≤ 255 → a.src.bound len n cap →
      (a.shape.holds len n cap ↔ if a.shape = .direct then n ≤ cap else len + n ≤ cap) := by
  intro a ha len n cap hl hc hb
  have hw := capacity_asserts_cannot_wrap a ha
  cases hs : a.shape with
  | direct => simp [AssertShape.holds]
  | checkedSub => simp [AssertShape.holds, capOk_checked_iff len n cap hl]
  | wrappingSum =>
    have hsmall : len + n < U := by
      cases hsrc : a.src with
      | foreignUnbounded => exact absurd hs (hw (by simp [hsrc, OperandSrc.callerControlled]))
      | scalar => exact absurd hs (hw (by simp [hsrc, OperandSrc.callerControlled]))
      | foreignInline => simp [hsrc, OperandSrc.bound] at hb; simp only [U]; omega
      | constArray => simp [hsrc, OperandSrc.bound] at hb; simp only [U]; omega
      | selfRange => simp [hsrc, OperandSrc.bound] at hb; simp only [U]; omega
    simp [AssertShape.holds, capOk_wrapping_iff len n cap hsmall]

/-- **Counted payloads are ordinary steps**: what the driver answers for `append <kind> *n`,
    `ext_slice *n`, `ext_copy *n`, `ext_iter h *n`, `from iter h *n` (`stepRep`, which never
    builds the `n`-element list when the request is rejected) is `step` on the operation whose
    payload is `n` copies of the value — so sources of `usize::MAX` elements are compared with the
    same model as every other source. -/
theorem counted_payloads_are_steps (s : IV α) (hw : s.xs.length ≤ s.cap) (t : TV α)
    (sh : RepShape) (n : Nat) (v : α) :
    s.stepRep sh n v = s.step (sh.toOp (List.replicate n v)) ∧
    ((∀ k, sh ≠ .fromIter k) → t.stepRep sh n v = t.step (sh.toOp (List.replicate n v))) :=
  ⟨IV.stepRep_eq s hw sh n v, fun h => TV.stepRep_eq t sh n v h⟩

example : (⟨7, [0, 0]⟩ : IV Nat).stepRep .append (2 ^ 64 - 1) 0 = (.panic .capacity, ⟨7, [0, 0]⟩) := by
  decide

/-! ### Non-vacuity -/

/-- The table is inhabited; it contains caller-controlled checks (all of the safe shapes),
    bounded wrapping sums, and nothing to list. -/
example : capAsserts.length ≥ 12 ∧
    (capAsserts.filter fun a => a.src.callerControlled).length ≥ 6 ∧
    (capAsserts.filter fun a => a.shape == .checkedSub).length ≥ 3 ∧
    (capAsserts.filter fun a => a.shape == .wrappingSum).length ≥ 2 ∧
    wrappingSites = [] := by decide +kernel

/-- What the predicate rejects: the old `append` (`assert!(len + other_len <= CAP)` with
    `other_len` the length of a generic vector). -/
example : assertOk ⟨"append", "src/vecs/inline.rs:481", false, .wrappingSum, .foreignUnbounded,
    "other_len", "len + other_len <= CAP"⟩ = false := by decide

end HipVerif.Props.C13
