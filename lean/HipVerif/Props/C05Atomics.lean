/-
C05 (premise) — why it is sound for the `Arc` backend to be `Sync`.

The Send/Sync table of Props/C05.lean says that Arc-backed values may be shared between threads.
That is sound only if every update of the share count that a thread can perform through a shared
reference is ONE atomic read-modify-write, and every read an atomic load. These are facts about the
source of `impl Kind for Arc` (src/smart.rs), regenerated on every run into `Gen/Atomics.lean`;
they are restated here so that a change which keeps the Send/Sync table intact but makes the
counter update non-atomic (a load followed by a plain store) breaks C05 by name as well as C04.
The consequences for executions (no lost increment, freed exactly once, race freedom — also for a
handle used by reference from several threads) are the theorems of Props/C04.lean; the concrete
schedules come from loomdrive.
-/
import HipVerif.Audit.Reexport
import HipVerif.Props.C04

namespace HipVerif.Props.C05

/-- `Arc::incr` is a compare-exchange loop: the increment is one atomic read-modify-write. -/
reexport HipVerif.Props.C04.incr_is_rmw as arc_incr_is_rmw
/-- `Arc::decr` is one `fetch_sub`. -/
reexport HipVerif.Props.C04.decr_is_rmw as arc_decr_is_rmw
/-- no counter method stores to the count other than through a read-modify-write; `is_unique` and
`get` only load -/
reexport HipVerif.Props.C04.no_plain_store as arc_no_plain_store
/-- a handle that several threads use through a shared reference (what `Sync` permits) stays alive
and is counted once; no increment is lost -/
reexport HipVerif.Props.C04.lent_alive as shared_reference_keeps_alive

end HipVerif.Props.C05
