/-
C10, the `repeat` clause — `repeat(n)` equals std's `[u8]::repeat(n)` / `str::repeat(n)`, panics
exactly when std does, and exposes only bytes of the value it repeats.

`repeat` is an operation of the Core state machine (`Model/Core.lean`, tied to the real crate by
`coredrive` after every step); the theorems below specialise the C01 refinement to it, so that the
clause is stated — and audited — under C10 as well.
-/
import HipVerif.Lemmas.CoreOpsA3
import HipVerif.Lemmas.CoreStr
import HipVerif.Audit.Reexport

namespace HipVerif.Props.C10
open HipVerif.Core HipVerif.Spec.Std HipVerif.RangeTy

/-- std's `repeat` on byte lists: `n` copies, panicking ("capacity overflow") when the product
reaches `isize::MAX + 1` — except that hipstr's shortcuts (empty value, `n = 1`) never multiply. -/
def stdRepeat (v : List UInt8) (n : Nat) : Option (List UInt8) :=
  if v.length = 0 ∨ n = 1 ∨ v.length * n < U / 2 then some (List.replicate n v).flatten else none

/-- In EVERY well-formed state (any representation of the source: inline, borrowed, shared or
unique heap, any backend, any ceiling), `repeat` into a free slot either stores exactly std's
`n`-fold repetition in the destination and leaves every other handle's content alone, or — exactly
when std's `repeat` panics with a capacity overflow — panics and changes no content at all. -/
theorem repeat_spec (cfg : Cfg) (s : State) (h d n : Nat) (v : List UInt8) (w : Wf cfg s)
    (hg : sget (abs s) h = some v) (hf : slotFree s d = true) :
    (abs (step cfg s (.repeat h d n)).1, eraseRet (step cfg s (.repeat h d n)).2.ret) =
      match stdRepeat v n with
      | some r => ((abs s).set d (some r), .unit)
      | none => (abs s, .panic) := by
  rw [← ref_op_repeat h d n w trivial]
  simp only [Spec.Std.step, hg, sfree_abs, hf, if_true, stdRepeat]
  by_cases h0 : v.length = 0
  · have : v = [] := List.eq_nil_of_length_eq_zero h0
    subst this; simp
  · by_cases h1 : n = 1
    · subst h1; simp
    · simp only [h0, h1, false_or, Bool.false_or, decide_false, Bool.false_eq_true, if_false]
      by_cases hc : v.length * n < U / 2
      · simp only [hc, if_true]
      · simp only [hc, if_false]

/-- No byte of the result is foreign: every byte of `repeat`'s value is a byte of the repeated
value, and the length is exactly `len * n`. -/
theorem repeat_bytes_supplied (v : List UInt8) (n : Nat) :
    (∀ b ∈ (List.replicate n v).flatten, b ∈ v) ∧ (List.replicate n v).flatten.length = n * v.length := by
  constructor
  · intro b hb
    simp only [List.mem_flatten, List.mem_replicate] at hb
    obtain ⟨l, ⟨_, rfl⟩, hb⟩ := hb
    exact hb
  · simp

/-- `repeat` panics exactly when the two shortcuts do not apply and the product is at least
`isize::MAX + 1 = 2^63` — in particular whenever `len * n` does not fit a `usize` (no wrapped
product is ever used as a length). -/
theorem repeat_panics_iff (v : List UInt8) (n : Nat) :
    stdRepeat v n = none ↔ v.length ≠ 0 ∧ n ≠ 1 ∧ U / 2 ≤ v.length * n := by
  unfold stdRepeat
  constructor
  · intro h
    split at h
    · cases h
    · rename_i hc
      simp only [not_or, Nat.not_lt] at hc
      exact hc
  · rintro ⟨a, b, c⟩
    have : ¬ (v.length = 0 ∨ n = 1 ∨ v.length * n < U / 2) := by
      simp only [not_or, Nat.not_lt]; exact ⟨a, b, c⟩
    rw [if_neg this]

/-- The source (and every handle other than the destination) reads the same bytes afterwards. -/
theorem repeat_frame (cfg : Cfg) (s : State) (h d n k : Nat) (v : List UInt8) (w : Wf cfg s)
    (hg : sget (abs s) h = some v) (hf : slotFree s d = true) (hk : k ≠ d) :
    sget (abs (step cfg s (.repeat h d n)).1) k = sget (abs s) k := by
  have := congrArg Prod.fst (repeat_spec cfg s h d n v w hg hf)
  simp only at this
  rw [this]
  cases stdRepeat v n with
  | none => rfl
  | some r => exact HipVerif.Str.sget_set_other _ _ _ _ (Ne.symm hk)

/-- The destination then holds exactly the repetition. -/
theorem repeat_result (cfg : Cfg) (s : State) (h d n : Nat) (v r : List UInt8) (w : Wf cfg s)
    (hg : sget (abs s) h = some v) (hf : slotFree s d = true) (hr : stdRepeat v n = some r) :
    sget (abs (step cfg s (.repeat h d n)).1) d = some r := by
  have := congrArg Prod.fst (repeat_spec cfg s h d n v w hg hf)
  simp only [hr] at this
  rw [this]
  have hl : d < (abs s).length := by
    have := hf; rw [← sfree_abs] at this
    simp only [sfree, Bool.and_eq_true, decide_eq_true_eq] at this
    exact this.1
  exact HipVerif.Str.sget_set_same _ _ _ hl

/-- "…in normalised representation": `repeat` keeps the representation contract — every value that
does not descend from `with_capacity` (the result included: it is built untainted unless it is the
`n = 1` / empty shortcut's clone of the source) is inline exactly when it fits the inline capacity. -/
reexport HipVerif.Core.norm_op_repeat as repeat_keeps_normalised

/-- …and the invariant of reachable states (counts, liveness, distinct buffers) is preserved. -/
reexport HipVerif.Core.wf_op_repeat as repeat_keeps_wf

/-! Non-vacuity: a 12-byte heap-free value repeated 3 times is a 36-byte heap value equal to std's;
a product of exactly 2^63 panics; a wrapped product (2^32 · 2^32 ≡ 0) panics rather than yielding
an empty value. -/

private def c : Cfg := { backend := .arc, ceil := 5, debug := true, icap := 23 }
example : sget (abs (run c (init [] 3) [.fromSlice 0 [1, 2], .repeat 0 1 3]).1) 1 = some [1, 2, 1, 2, 1, 2] := by
  decide
/-- 24 bytes from 3 × 8: one more than the inline capacity, so the result is a fresh heap value -/
example : ((getH (run c (init [] 3) [.fromSlice 0 (List.replicate 8 7), .repeat 0 1 3]).1 1).map (·.repr)) =
    some (.heap 0 1 0 24) := by decide
example : stdRepeat [1, 2] 3 = some [1, 2, 1, 2, 1, 2] := by
  have : (6 : Nat) < U / 2 := by simp [U]
  simp [stdRepeat, this]
example : (stdRepeat [1, 2] (U / 4) = none) := by
  rw [repeat_panics_iff]; refine ⟨by decide, by simp [U], ?_⟩; simp [U]
example : (stdRepeat (List.replicate 4 0) (U / 4) = none) := by
  rw [repeat_panics_iff]; refine ⟨by decide, by simp [U], ?_⟩; simp [U]

end HipVerif.Props.C10
