/-
C03 — Heap discipline: views lie in live memory, blocks are freed exactly once.
Statements and proofs: Lemmas/CoreExtraB.lean (frame calculus and event audit over all 34
operations), Lemmas/CoreStep.lean.  What the model cannot exhibit (real undefined behaviour,
std's own Vec/Box allocation) is monitored on the implementation by coredrive's tracking allocator.
-/
import HipVerif.Audit.Reexport
import HipVerif.Lemmas.CoreExtraB
import HipVerif.Lemmas.CoreRun
import HipVerif.Lemmas.CoreBalanceB

namespace HipVerif.Props.C03
open HipVerif.Core

/-- **View in live block.** In every reachable state every handle is valid: an inline value fits
the inline buffer, a borrowed value lies inside its source, a heap view lies inside the buffer of a
LIVE owner and its data pointer is in that very buffer (`Allocated::is_valid`). -/
theorem view_in_live_block (cfg : Cfg) (srcs : List (List UInt8)) (n : Nat) (ops : List Op)
    (h : Nat) (hd : Handle) (hg : getH (run cfg (init srcs n) ops).1 h = some hd) :
    HandleOk cfg (run cfg (init srcs n) ops).1 hd :=
  (wf_run cfg ops _ (wf_init cfg srcs n)).handles h hd hg

/-- A box is freed only by the step that releases its LAST share (count 0, or the `Unique`
backend), and is dead afterwards. -/
reexport HipVerif.Core.freeInner_sound as free_only_last

/-- One step frees a given box at most once. -/
reexport HipVerif.Core.freeInner_once_per_step as free_once_per_step

/-- A freed box stays freed, boxes are never forgotten, and a live box was live before. -/
reexport HipVerif.Core.dead_stays_dead as dead_stays_dead
reexport HipVerif.Core.inners_only_grow as inners_only_grow

/-- **No double free**: over any history a box is freed at most once, and never if it was already
freed. -/
reexport HipVerif.Core.no_double_free as no_double_free

/-- Every buffer free is justified: the freed buffer is not the buffer of any inner that is live
after the step (it belonged to a box that died in this step, or to a temporary `Vec` whose contents
were copied inline). -/
reexport HipVerif.Core.freeBuf_justified as free_buf_justified

/-- **No leak**: once every value has been dropped or converted away, every box has been freed. -/
reexport HipVerif.Core.all_dropped_all_freed as all_dropped_all_freed

/-- Nothing is written outside a buffer's capacity (for buffers owned by a live inner after the
step). -/
reexport HipVerif.Core.writes_within_cap_inner as writes_within_cap_partial

/-- A step changes the bytes of an existing buffer only if the value doing it is the buffer's sole
owner and a target of the operation. -/
reexport HipVerif.Core.write_only_own_inner as write_only_own_inner

/-- buffers of live owners are pairwise distinct and the owner Vec never exceeds its capacity, in
every reachable state -/
theorem buffers_distinct_and_bounded (cfg : Cfg) (srcs : List (List UInt8)) (n : Nat) (ops : List Op) :
    let s := (run cfg (init srcs n) ops).1
    (∀ i j x y, getI s i = some x → getI s j = some y → i ≠ j → x.live = true → y.live = true →
      x.buf ≠ y.buf) ∧
    (∀ i x, getI s i = some x → x.live = true → x.data.length ≤ x.cap) :=
  let w := wf_run cfg ops _ (wf_init cfg srcs n)
  ⟨w.bufDistinct, w.datacap⟩

/-! ### The buffer ledger over whole histories (Lemmas/CoreBalanceB.lean)

`Ledger` replays the allocation events of a history: `allocBuf`/`importBuf`/the new side of
`growBuf` make a buffer enter, `freeBuf`/`exportBuf`/the old side of `growBuf` make it leave.
`EvGood` is the check each event must pass against the ledger so far, and it is strict: enters only
of never-seen ids with a positive capacity, `freeBuf`/`exportBuf`/the old side of `growBuf` only of a
buffer that is in, a `write b lo hi` only into a buffer that is in with `hi` at most the capacity it
entered with. (A capacity-0 `Vec` owns no allocation: the model emits no event for it.) -/

/-- The ledger invariant holds initially … -/
reexport HipVerif.Core.ledger_init as ledger_init
/-- … is preserved by every operation … -/
reexport HipVerif.Core.ledger_step as ledger_step
/-- … hence by every history. -/
reexport HipVerif.Core.ledger_run as ledger_run

/-- **Buffers balance over every history**: every event is accepted by the ledger; a buffer enters
at most once and leaves at most once; it leaves only after it entered; what is in the ledger at the end is exactly the buffers of the live boxes, each
owned by one box. -/
reexport HipVerif.Core.buffers_balanced as buffers_balanced

/-- **No buffer leak**: when every value is gone, every buffer that entered has left. -/
reexport HipVerif.Core.no_buffer_leak as no_buffer_leak
reexport HipVerif.Core.all_buffers_released as all_buffers_released

/-- **Writes stay within the block's requested size**, for EVERY write event of every history —
including the temporary Vecs of `to_vec` and the copy-out of `take_vec` — the bound being the
capacity with which that very buffer entered. (Supersedes `writes_within_cap_partial`.) -/
reexport HipVerif.Core.writes_within_cap as writes_within_cap

/-- **No write after free**: once a buffer left (freed, exported, reallocated away) no later event
of the history writes to it. -/
reexport HipVerif.Core.no_write_after_leave as no_write_after_leave

/-- prefix-closed balance: on every PREFIX of every history, for every buffer,
#leaves ≤ #enters ≤ 1 -/
reexport HipVerif.Core.enter_leave_pairing as enter_leave_pairing

/-- the buffer of every live box (capacity > 0) in the final state entered exactly once, with that
capacity, and never left -/
reexport HipVerif.Core.live_box_buffer_entered as live_box_buffer_entered

end HipVerif.Props.C03
