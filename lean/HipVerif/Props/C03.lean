/-
C03 — Heap discipline: views lie in live memory, blocks are freed exactly once.
Statements and proofs: Lemmas/CoreExtraB.lean (frame calculus and event audit over all 34
operations), Lemmas/CoreStep.lean.  What the model cannot exhibit (real undefined behaviour,
std's own Vec/Box allocation) is monitored on the implementation by coredrive's tracking allocator.
-/
import HipVerif.Audit.Reexport
import HipVerif.Lemmas.CoreExtraB
import HipVerif.Lemmas.CoreRun

namespace HipVerif.Props.C03
open HipVerif.Core

/-- **View in live block.** In every reachable state every handle is valid: an inline value fits
the inline buffer, a borrowed value lies inside its source, a heap view lies inside the buffer of a
LIVE owner and its data pointer is in that very buffer (`Allocated::is_valid`). -/
theorem view_in_live_block (cfg : Cfg) (srcs : List (List UInt8)) (n : Nat) (ops : List Op)
    (h : Nat) (hd : Handle) (hg : getH (run cfg (init srcs n) ops).1 h = some hd) :
    HandleOk cfg (run cfg (init srcs n) ops).1 hd :=
  (wf_run cfg ops _ (wf_init cfg srcs n)).handles h hd hg

/-- A box is freed only by the step that releases its LAST share (count 0, or the `Unique`
backend), and is dead afterwards. -/
reexport HipVerif.Core.freeInner_sound as free_only_last

/-- One step frees a given box at most once. -/
reexport HipVerif.Core.freeInner_once_per_step as free_once_per_step

/-- A freed box stays freed, boxes are never forgotten, and a live box was live before. -/
reexport HipVerif.Core.dead_stays_dead as dead_stays_dead
reexport HipVerif.Core.inners_only_grow as inners_only_grow

/-- **No double free**: over any history a box is freed at most once, and never if it was already
freed. -/
reexport HipVerif.Core.no_double_free as no_double_free

/-- Every buffer free is justified: the freed buffer is not the buffer of any inner that is live
after the step (it belonged to a box that died in this step, or to a temporary `Vec` whose contents
were copied inline). -/
reexport HipVerif.Core.freeBuf_justified as free_buf_justified

/-- **No leak**: once every value has been dropped or converted away, every box has been freed. -/
reexport HipVerif.Core.all_dropped_all_freed as all_dropped_all_freed

/-- Nothing is written outside a buffer's capacity (for buffers owned by a live inner after the
step). -/
reexport HipVerif.Core.writes_within_cap_inner as writes_within_cap_partial

/-- A step changes the bytes of an existing buffer only if the value doing it is the buffer's sole
owner and a target of the operation. -/
reexport HipVerif.Core.write_only_own_inner as write_only_own_inner

/-- buffers of live owners are pairwise distinct and the owner Vec never exceeds its capacity, in
every reachable state -/
theorem buffers_distinct_and_bounded (cfg : Cfg) (srcs : List (List UInt8)) (n : Nat) (ops : List Op) :
    let s := (run cfg (init srcs n) ops).1
    (∀ i j x y, getI s i = some x → getI s j = some y → i ≠ j → x.live = true → y.live = true →
      x.buf ≠ y.buf) ∧
    (∀ i x, getI s i = some x → x.live = true → x.data.length ≤ x.cap) :=
  let w := wf_run cfg ops _ (wf_init cfg srcs n)
  ⟨w.bufDistinct, w.datacap⟩

end HipVerif.Props.C03
