import HipVerif.Lemmas.Views

/-!
# C12 — Eq/Ord/Hash/Borrow are mutually coherent and match the std views

Two layers.

* **Which view each impl goes through** (hipstr's choice): `Gen.CmpImpls.table` / `borrows`, regenerated
  from the source by `harness/src/extract/cmpimpls.rs`, record what every impl body literally says.
  `impl_view_ok` checks every row against the view std uses for the corresponding std pair;
  `impl_*_matches_std` turn that into statements about the values the impls return.
* **Laws of each view** (std's behaviour, modelled in `Model/Views.lean`, validated against the real
  std by `harness/src/bin/cmpdrive.rs`): `eq_iff_cmp`, `eq_hash`, `eq_symm`, `cmp_swap`, `cmp_trans`,
  `cmp_congr`, for every byte string.

Known findings (genuine defects whose only repair removes a public impl): `Borrow<OsStr> for HipPath`
(D7) and `Borrow<BStr> for HipStr` (D8). `borrow_coherent` is therefore false as stated; it is kept as
a comment, proved as `borrow_coherent_partial` over all other rows, and refuted for exactly those two
rows with concrete witnesses (`borrow_osstr_hippath_incoherent`, `borrow_bstr_hipstr_incoherent`) that
`cmpdrive` replays on the implementation.
-/

namespace HipVerif.Props.C12

open HipVerif.Views
open HipVerif.Gen.CmpImpls (table borrows)

/-! ## The table -/

/-- Every comparison / hash impl of the crate (all `symmetric_eq!`/`symmetric_ord!` rows in both
    operand orders, and the hand-written Hip×Hip impls, which are generic over both backends) has a
    body of the expected shape and compares through the view std uses for the corresponding std pair;
    swapped `PartialOrd` rows (and only those) reverse the helper's result. -/
theorem impl_view_ok : ∀ e ∈ table, rowOk genEnv e = true := by
  decide +kernel

/-- Every `PartialEq` impl returns exactly what std's `==` returns on the corresponding std views
    (`samePtr` = outcome of the `ptr::eq` shortcut of `HipPath == HipPath`; equal fat pointers mean
    equal bytes). -/
theorem impl_eq_matches_std (e : CmpRow) (he : e ∈ table) (htr : e.trait = .partialEq)
    (samePtr : Bool) (x y : List UInt8) (hptr : samePtr = true → x = y) :
    ∃ w, expectedView e = some w ∧ evalEq genEnv e samePtr x y = some (eqV w x y) :=
  rowOk_eq_sound genEnv e htr (impl_view_ok e he) samePtr x y hptr

/-- Every `PartialOrd` / `Ord` impl returns exactly what std's `partial_cmp` / `cmp` returns on the
    corresponding std views, in both operand orders. -/
theorem impl_cmp_matches_std (e : CmpRow) (he : e ∈ table)
    (htr : e.trait = .partialOrd ∨ e.trait = .ord) (x y : List UInt8) :
    ∃ w, expectedView e = some w ∧ evalCmp genEnv e x y = some (cmpV w x y) :=
  rowOk_cmp_sound genEnv e htr (impl_view_ok e he) x y

/-- Every `Hash` impl feeds the hasher the byte stream its std counterpart feeds
    (`HipStr` like `str`, `HipPath` like `Path`, …). -/
theorem impl_hash_matches_std (e : CmpRow) (he : e ∈ table) (htr : e.trait = .hash) (x : List UInt8) :
    ∃ v, viewOf genEnv FUEL e = some v ∧
      hashStreamV v x = hashStreamV (hashViewOf e.lhs.target) x :=
  rowOk_hash_sound genEnv e htr (impl_view_ok e he) x

/-- The hypotheses above are inhabited: the table has `PartialEq` rows with the swapped argument
    order, `PartialOrd` rows that reverse, `Ord` and `Hash` rows, and a row with a pointer shortcut. -/
example :
    (∃ e ∈ table, e.trait = .partialEq ∧ ∃ n t1 t2 o hl ml, e.body = .helper n t1 t2 o .other .self false hl ml) ∧
    (∃ e ∈ table, e.trait = .partialOrd ∧ ∃ n t1 t2 o hl ml, e.body = .helper n t1 t2 o .other .self true hl ml) ∧
    (∃ e ∈ table, e.trait = .ord) ∧ (∃ e ∈ table, e.trait = .hash) ∧
    (∃ e ∈ table, ∃ a o, e.body = .viaAccessor .ptrEqEncodedBytes a o) := by
  refine ⟨⟨table.find? (fun e => match e.trait, e.body with
              | .partialEq, .helper _ _ _ _ .other .self false _ _ => true | _, _ => false) |>.get!,
            by decide +kernel, by decide +kernel, ?_⟩,
          ⟨table.find? (fun e => match e.trait, e.body with
              | .partialOrd, .helper _ _ _ _ .other .self true _ _ => true | _, _ => false) |>.get!,
            by decide +kernel, by decide +kernel, ?_⟩,
          ⟨table.find? (·.trait = .ord) |>.get!, by decide +kernel, by decide +kernel⟩,
          ⟨table.find? (·.trait = .hash) |>.get!, by decide +kernel, by decide +kernel⟩,
          ⟨table.find? (fun e => match e.body with | .viaAccessor .ptrEqEncodedBytes _ _ => true | _ => false) |>.get!,
            by decide +kernel, ?_⟩⟩
  · exact ⟨_, _, _, _, _, _, rfl⟩
  · exact ⟨_, _, _, _, _, _, rfl⟩
  · exact ⟨_, _, rfl⟩

/-! ## Laws of the views (every byte string) -/

/-- `a == b` iff `a.cmp(b) == Equal`, in every view (`PartialEq` and `PartialOrd`/`Ord` agree). -/
theorem eq_iff_cmp (v : View) (x y : List UInt8) : eqV v x y = true ↔ cmpV v x y = .eq :=
  eqV_iff_cmpV v x y

/-- Equal values feed equal streams to the hasher, in every view (`k1 == k2 → hash(k1) == hash(k2)`);
    for `Path` both are functions of `components`. -/
theorem eq_hash (v : View) (x y : List UInt8) : eqV v x y = true → hashStreamV v x = hashStreamV v y :=
  eqV_hash v x y

/-- `==` is symmetric in every view: the two operand orders generated by `symmetric_eq!` agree. -/
theorem eq_symm (v : View) (x y : List UInt8) : eqV v x y = eqV v y x :=
  eqV_symm v x y

/-- `b.cmp(a) == a.cmp(b).reverse()`: what `symmetric_ord!`'s `.map(Ordering::reverse)` relies on. -/
theorem cmp_swap (v : View) (x y : List UInt8) : cmpV v y x = (cmpV v x y).swap :=
  cmpV_swap v x y

/-- `<` is transitive in every view (BTreeMap's requirement). -/
theorem cmp_trans (v : View) (x y z : List UInt8) :
    cmpV v x y = .lt → cmpV v y z = .lt → cmpV v x z = .lt :=
  cmpV_trans v x y z

/-- Values that are `==` are interchangeable in `cmp` (in particular `"a/"` and `"a"` as paths). -/
theorem cmp_congr (v : View) (x x' y : List UInt8) : eqV v x x' = true → cmpV v x y = cmpV v x' y :=
  cmpV_congr v x x' y

/-- Non-vacuity of `cmp_trans` / `cmp_congr` on the path view. -/
example : cmpV .path [97] [97, 47, 97] = .lt ∧ cmpV .path [97, 47, 97] [98] = .lt ∧
    eqV .path [97, 47] [97] = true := by decide

/-- For each of the four Hip types: `==`, `partial_cmp`, `cmp` go through views that compare alike,
    and equal values hash equally (`Eq`/`Ord`/`Hash` of the type itself are mutually coherent). -/
theorem hip_eq_ord_hash_coherent (h : HipTy) :
    ∃ ve vp vo vh,
      genEnv.ownerView .partialEq h = some ve ∧ genEnv.ownerView .partialOrd h = some vp ∧
      genEnv.ownerView .ord h = some vo ∧ genEnv.ownerView .hash h = some vh ∧
      ∀ x y, (eqV ve x y = true ↔ cmpV vo x y = .eq) ∧ cmpV vp x y = cmpV vo x y ∧
        (eqV ve x y = true → hashStreamV vh x = hashStreamV vh y) := by
  cases h
  · exact ⟨.bytes, .bytes, .bytes, .bytes, by decide +kernel, by decide +kernel, by decide +kernel,
      by decide +kernel, fun x y => ⟨eqV_iff_cmpV _ x y, rfl, eqV_hash _ x y⟩⟩
  · exact ⟨.bytes, .str, .str, .str, by decide +kernel, by decide +kernel, by decide +kernel,
      by decide +kernel, fun x y => ⟨eqV_iff_cmpV .str x y, rfl, eqV_hash .str x y⟩⟩
  · exact ⟨.bytes, .osstr, .osstr, .osstr, by decide +kernel, by decide +kernel, by decide +kernel,
      by decide +kernel, fun x y => ⟨eqV_iff_cmpV .osstr x y, rfl, eqV_hash .osstr x y⟩⟩
  · exact ⟨.path, .path, .path, .path, by decide +kernel, by decide +kernel, by decide +kernel,
      by decide +kernel, fun x y => ⟨eqV_iff_cmpV _ x y, rfl, eqV_hash _ x y⟩⟩

/-! ## `inherent_eq` -/

/-- `HipByt::inherent_eq` (length test, pointer shortcut, `memcmp`) — statements as recorded from the
    source — is byte equality, provided two windows with the same address and length hold the same
    bytes (they are the same memory). -/
theorem inherent_eq_ok (a b : Window)
    (hmem : a.ptr = b.ptr → a.bytes.length = b.bytes.length → a.bytes = b.bytes) :
    runInherentEq HipVerif.Gen.CmpImpls.inherentEq a b = some (eqV .bytes a.bytes b.bytes) := by
  simp only [HipVerif.Gen.CmpImpls.inherentEq, runInherentEq, eqV]
  by_cases hl : a.bytes.length = b.bytes.length
  · by_cases hp : a.ptr = b.ptr
    · simp [hp, hmem hp hl]
    · simp only [hl, hp, ne_eq, not_true_eq_false, if_false]
      congr 1
      rw [Bool.eq_iff_iff, memcmpIsZero_iff, decide_eq_true_iff]
  · have : a.bytes ≠ b.bytes := fun e => hl (by rw [e])
    simp [hl, this]

/-- The hypothesis of `inherent_eq_ok` is satisfiable in the three interesting situations: same
    window, same address but shorter (a sub-slice: lengths differ), different addresses. -/
example : ∃ a b c d : Window,
    (a.ptr = b.ptr → a.bytes.length = b.bytes.length → a.bytes = b.bytes) ∧ a.ptr = b.ptr ∧ a.bytes = b.bytes ∧
    (a.ptr = c.ptr → a.bytes.length = c.bytes.length → a.bytes = c.bytes) ∧ a.ptr = c.ptr ∧ a.bytes ≠ c.bytes ∧
    (a.ptr = d.ptr → a.bytes.length = d.bytes.length → a.bytes = d.bytes) ∧ a.ptr ≠ d.ptr ∧ a.bytes = d.bytes :=
  ⟨⟨16, [1, 2]⟩, ⟨16, [1, 2]⟩, ⟨16, [1]⟩, ⟨64, [1, 2]⟩, by decide⟩

/-! ## Borrow -/

/-
FULL STATEMENT (false today because of the two known findings D7 and D8):

theorem borrow_coherent : ∀ b ∈ borrows, borrowOk genEnv b = true

i.e. for every `impl Borrow<T> for Hip*`, with `ve`/`vo`/`vh` the views of the owner's `==`/`cmp`/`hash`
and `tv` the view of `T`:  ∀ x y, eqV ve x y = eqV tv x y ∧ cmpV vo x y = cmpV tv x y ∧
hashStreamV vh x = hashStreamV (hashViewOf T) x   (the contract of `core::borrow::Borrow`, which
`HashMap::get` / `BTreeMap::get` rely on).
-/

/-- `borrow_coherent` for every `Borrow` impl except exactly the two known findings
    (`Borrow<OsStr> for HipPath`, `Borrow<BStr> for HipStr`): the borrowed form compares, orders and
    hashes exactly like the owner, so map lookups through it find the entry.
    Missing for the full statement: those two rows, for which the statement is false (below). -/
theorem borrow_coherent_partial :
    ∀ b ∈ borrows, b.isKnownFinding = false →
      ∃ ve vo vh tv,
        genEnv.ownerView .partialEq b.owner = some ve ∧ genEnv.ownerView .ord b.owner = some vo ∧
        genEnv.ownerView .hash b.owner = some vh ∧ stdView b.target b.target = some tv ∧
        ∀ x y, eqV ve x y = eqV tv x y ∧ cmpV vo x y = cmpV tv x y ∧
          hashStreamV vh x = hashStreamV (hashViewOf b.target) x := by
  have h : ∀ b ∈ borrows, b.isKnownFinding = false → borrowOk genEnv b = true := by decide +kernel
  exact fun b hb hk => borrowOk_sound genEnv b (h b hb hk)

/-- The exclusion is exactly two rows, and there are rows left. -/
theorem borrow_known_findings_exact :
    (borrows.filter (·.isKnownFinding)).length = 2 ∧ (borrows.filter (!·.isKnownFinding)).length = 5 := by
  decide +kernel

/-- D7: `impl Borrow<OsStr> for HipPath` exists and breaks the `Borrow` contract: `HipPath` compares
    and hashes as `Path`, `OsStr` bytewise. Witnesses: `HipPath("a/") == HipPath("a")` but
    `OsStr("a/") != OsStr("a")` (and `cmp` says `Equal` vs `Greater`); `HipPath("abc")` and
    `OsStr("abc")` feed different streams to the hasher, so `HashMap<HipPath,_>::get(OsStr)` misses. -/
theorem borrow_osstr_hippath_incoherent :
    (∃ b ∈ borrows, b.owner = .path ∧ b.target = .osStr ∧ borrowOk genEnv b = false) ∧
    genEnv.ownerView .partialEq .path = some .path ∧ genEnv.ownerView .hash .path = some .path ∧
    stdView .osStr .osStr = some .osstr ∧
    eqV .path d7EqWitness.1 d7EqWitness.2 = true ∧ eqV .osstr d7EqWitness.1 d7EqWitness.2 = false ∧
    cmpV .path d7EqWitness.1 d7EqWitness.2 = .eq ∧ cmpV .osstr d7EqWitness.1 d7EqWitness.2 = .gt ∧
    hashStreamV .path d7HashWitness ≠ hashStreamV (hashViewOf .osStr) d7HashWitness := by
  decide +kernel

/-- D8: `impl Borrow<BStr> for HipStr` (feature `bstr`) exists and breaks the `Borrow` contract on
    `Hash` only: `HipStr("abc")` hashes as `str` (`61 62 63 ff`), `BStr("abc")` as `[u8]`
    (`03 00 00 00 00 00 00 00 61 62 63`), so `HashMap<HipStr,_>::get(BStr)` misses; `==`/`cmp` agree. -/
theorem borrow_bstr_hipstr_incoherent :
    (∃ b ∈ borrows, b.owner = .str ∧ b.target = .bstr ∧ borrowOk genEnv b = false) ∧
    genEnv.ownerView .hash .str = some .str ∧
    hashStreamV .str d8HashWitness = [97, 98, 99, 255] ∧
    hashStreamV (hashViewOf .bstr) d8HashWitness = [3, 0, 0, 0, 0, 0, 0, 0, 97, 98, 99] ∧
    (∀ x y, eqV .str x y = eqV .bytes x y ∧ cmpV .str x y = cmpV .bytes x y) := by
  refine ⟨by decide +kernel, by decide +kernel, by decide +kernel, by decide +kernel, fun _ _ => ⟨rfl, rfl⟩⟩

/-! ## Non-vacuity -/

/-- The path view really differs from the byte views — on equality (`"a/"` vs `"a"`), order
    (`"a//b"` vs `"a/b"`) and hash stream (`"abc"`) — and `str` hashes differently from `[u8]`, so
    `impl_view_ok` / `borrowOk` distinguish a `Path` comparison from an `OsStr` one. -/
theorem views_differ :
    (∃ x y, eqV .path x y ≠ eqV .bytes x y) ∧ (∃ x y, cmpV .path x y ≠ cmpV .osstr x y) ∧
    (∃ x, hashStreamV .path x ≠ hashStreamV .osstr x) ∧ (∃ x, hashStreamV .str x ≠ hashStreamV .bytes x) :=
  ⟨⟨[97, 47], [97], by decide⟩, ⟨[97, 47, 47, 98], [97, 47, 98], by decide⟩,
   ⟨[97, 98, 99], by decide⟩, ⟨[97, 98, 99], by decide⟩⟩

/-- `rowOk` is falsifiable: the pre-fix `os_str_eq(impl AsRef<OsStr>, impl AsRef<OsStr>)` row for
    `OsStr == HipPath` (defect D6) and a `symmetric_ord!` row without the `reverse` are rejected. -/
example :
    rowOk genEnv ⟨.partialEq, .std .osStr false, .hip .path,
      .helper "os_str_eq" .osStr .osStr .eqeq .self .other false "" "", "std", ""⟩ = false ∧
    rowOk genEnv ⟨.partialOrd, .hip .byt, .std .vec false,
      .helper "cmp_slice" .slice .slice .partialCmp .other .self false "" "", "", ""⟩ = false := by
  decide +kernel

/-! ## The path view is what std's loop computes; `components` is canonical -/

/-- The statement-by-statement transcription of std's `<Path as Hash>::hash` byte loop
    (`pathHashLoop`: separators skipped, `.` after a separator skipped, `chunk_bits` folded and written
    last) feeds the hasher exactly the stream `hashStreamV .path` defines on `components`, for every
    byte string. So `eq_hash` for the path view speaks about the loop std actually runs. -/
theorem path_hash_loop_eq (bs : List UInt8) : pathHashLoop bs = hashStreamV .path bs :=
  pathHashLoop_eq bs

/-- `Path`s that are `==` feed std's hash loop the same stream (`Eq`/`Hash` coherence of `Path`,
    hence of `HipPath`, for the real algorithm). -/
theorem eq_hash_path_loop (x y : List UInt8) (h : eqV .path x y = true) :
    pathHashLoop x = pathHashLoop y := by
  rw [pathHashLoop_eq, pathHashLoop_eq]
  exact eqV_hash .path x y h

/-- Path equality is equality of `components` (and so is `cmp = Equal`). -/
theorem path_eq_iff_components (x y : List UInt8) :
    (eqV .path x y = true ↔ components x = components y) ∧
    (cmpV .path x y = .eq ↔ components x = components y) :=
  ⟨by simp [eqV], by rw [← eqV_iff_cmpV]; simp [eqV]⟩

/-- Trailing-separator law: for a non-empty path, `x/` has the components of `x`
    (so `HipPath("a/") == HipPath("a")`, same `cmp`, same hash). -/
theorem components_trailing_sep (x : List UInt8) (hx : x ≠ []) :
    components (x ++ [SEP]) = components x :=
  components_trailing_sep' x hx

/-- The hypothesis is needed and satisfiable: `""` has no components while `"/"` is `[RootDir]`;
    `"a/"` and `"a"` agree. -/
example : components ([] ++ [SEP]) ≠ components [] ∧ components ([97] ++ [SEP]) = components [97] := by
  decide

/-- A trailing `/.` is ignored for a non-empty path. -/
theorem components_trailing_dot (x : List UInt8) (hx : x ≠ []) :
    components (x ++ [SEP, DOT]) = components x :=
  components_trailing_dot' x hx

/-- An interior `.` is ignored: `x/./y` has the components of `x/y` (any `x`, `y`, including empty). -/
theorem components_interior_dot (x y : List UInt8) :
    components (x ++ SEP :: DOT :: SEP :: y) = components (x ++ SEP :: y) :=
  components_interior_dot' x y

/-- Repeated separators are ignored: `x//y` has the components of `x/y`. -/
theorem components_repeated_sep (x y : List UInt8) :
    components (x ++ SEP :: SEP :: y) = components (x ++ SEP :: y) :=
  components_repeated_sep' x y

/-- But a *leading* `.` is kept (`CurDir`), and `..` is never resolved: canonical ≠ normalised. -/
example : components [DOT, SEP, 97] ≠ components [97] ∧
    components [97, SEP, DOT, DOT, SEP, 98] ≠ components [98] := by decide

/-! ## Map lookups through `Borrow` -/

/-- For every `Borrow` row accepted by `borrowOk` — owner views `ve` (`==`), `vo` (`cmp`), `vh`
    (`hash`), target views `tv = stdView target target`, `hashViewOf target` — and every stored key
    `k` and query `q` (as byte strings):
    * if the owner considers them equal (`k == q`), then `q.borrow()` feeds the hasher the stream
      `k` fed when it was inserted (same hash under any `Hasher`, so the probe reaches `k`'s bucket)
      and `q.borrow() == k.borrow()`: `HashMap<Owner,_>::get(q.borrow())` finds the entry;
    * a hit through the borrowed form is a hit for the owner (no false positives);
    * the borrowed form orders `q` against `k` exactly like the owner, so `BTreeMap::get` walks the
      same path. -/
theorem borrow_lookup_finds : ∀ b ∈ borrows, borrowOk genEnv b = true →
    ∃ ve vo vh tv,
      genEnv.ownerView .partialEq b.owner = some ve ∧ genEnv.ownerView .ord b.owner = some vo ∧
      genEnv.ownerView .hash b.owner = some vh ∧ stdView b.target b.target = some tv ∧
      ∀ k q,
        (eqV ve k q = true →
          hashStreamV (hashViewOf b.target) q = hashStreamV vh k ∧ eqV tv q k = true) ∧
        (eqV tv q k = true → eqV ve k q = true) ∧
        cmpV tv q k = cmpV vo q k := by
  intro b _ hok
  obtain ⟨ve, vo, vh, tv, h1, h2, h3, h4, hall⟩ := borrowOk_sound genEnv b hok
  obtain ⟨ve', _, _, vh', g1, _, _, g4, gall⟩ := hip_eq_ord_hash_coherent b.owner
  have e1 : ve' = ve := Option.some.inj (g1.symm.trans h1)
  have e4 : vh' = vh := Option.some.inj (g4.symm.trans h3)
  subst e1 e4
  refine ⟨ve', vo, vh', tv, h1, h2, h3, h4, fun k q => ⟨fun hkq => ⟨?_, ?_⟩, fun hqk => ?_, ?_⟩⟩
  · rw [← (hall q q).2.2, ← (gall k q).2.2 hkq]
  · rw [← (hall q k).1, eqV_symm]; exact hkq
  · rw [(hall k q).1, eqV_symm]; exact hqk
  · exact ((hall q k).2.1).symm

/-
FULL STATEMENT (false because of D7 / D8):
theorem borrow_lookup_finds_all : ∀ b ∈ borrows, <conclusion of borrow_lookup_finds>
-/

/-- `borrow_lookup_finds` instantiated for the five coherent rows (`Borrow<[u8]>`/`Borrow<BStr>`
    for `HipByt`, `Borrow<str> for HipStr`, `Borrow<OsStr> for HipOsStr`, `Borrow<Path> for HipPath`):
    `HashMap`/`BTreeMap` lookups through them find exactly the owner's entries.
    Missing for the full statement: the two known-finding rows, where lookups miss (D7, D8). -/
theorem borrow_lookup_finds_partial : ∀ b ∈ borrows, b.isKnownFinding = false →
    ∃ ve vo vh tv,
      genEnv.ownerView .partialEq b.owner = some ve ∧ genEnv.ownerView .ord b.owner = some vo ∧
      genEnv.ownerView .hash b.owner = some vh ∧ stdView b.target b.target = some tv ∧
      ∀ k q,
        (eqV ve k q = true →
          hashStreamV (hashViewOf b.target) q = hashStreamV vh k ∧ eqV tv q k = true) ∧
        (eqV tv q k = true → eqV ve k q = true) ∧
        cmpV tv q k = cmpV vo q k := by
  have h : ∀ b ∈ borrows, b.isKnownFinding = false → borrowOk genEnv b = true := by decide +kernel
  exact fun b hb hk => borrow_lookup_finds b hb (h b hb hk)

/-- The five rows, by name, and a non-trivial instance of the hypothesis `k == q`: for
    `Borrow<Path> for HipPath`, `k = "a/"`, `q = "a"` are equal keys with different bytes. -/
example :
    (borrows.filter (!·.isKnownFinding)).map (fun b => (b.owner, b.target)) =
      [(.byt, .bstr), (.byt, .slice), (.os, .osStr), (.path, .path), (.str, .str)] ∧
    eqV .path [97, 47] [97] = true ∧ ([97, 47] : List UInt8) ≠ [97] := by
  decide +kernel

end HipVerif.Props.C12
