/-
C13 (coverage part) — every safe public function of the vector family is driven, monitored or
reviewed.

Decided over `Gen/VecApi.lean` (regenerated on every run from /repo/src — the rows of the
public-function table under `vecs::`, `common::drain::`, `common::traits::` — and from
`harness/src/bin/vecdrive.rs` — the operation names it dispatches on, the methods it calls).
The reviewed map `vecApiCoverage` and the predicates are in `Model/VecApi.lean`.
This is the gate that a function like `InlineVec::const_append` (missed in round 2: not in the
model's alphabet, not called by the differential) can no longer slip through silently.
-/
import HipVerif.Model.VecApi

namespace HipVerif.Props.C13
open HipVerif.Model.VecApi
open HipVerif.Gen.VecApi (vecFns driveOps driveCalls)

/- Evaluated (not kernel-checked) sanity check of the generated numeric keys. -/
#guard vecApiKeysOk

/-- **Every safe function of the vector family is covered.** Each safe callable function under
    `vecs::` (InlineVec, ThinVec, IntoIter, InsertError), `common::drain::` and
    `common::traits::` has exactly one entry in the reviewed map, and the entry is backed by the
    generated facts: `drivenAs op` — `op` is an operation of the list model (`opKey`), `vecdrive`
    dispatches on that name and calls a method of the function's name; `monitoredBy` — `vecdrive`
    calls a method of that name (in a per-step monitor); `indirect via` — `vecdrive` calls `via`;
    or it is on the reviewed not-driven list. No entry is stale or duplicated, and the list model
    and `vecdrive` have the same operation vocabulary. -/
theorem vec_api_covered :
    (∀ f ∈ vecFns, f.isUnsafe = false → ∃ c, coverOf f.key = some c) ∧
    (∀ e ∈ vecApiCoverage, entryOk e = true) ∧
    staleEntries = [] ∧ opsAgree = true := by
  have h1 : (vecFns.all fnCovered) = true := by decide +kernel
  have h2 : (vecApiCoverage.all entryOk) = true := by decide +kernel
  refine ⟨?_, ?_, by decide +kernel, by decide +kernel⟩
  · intro f hf hu
    have := (List.all_eq_true.mp h1) f hf
    simp only [fnCovered, hu, Bool.false_or, Option.isSome_iff_exists] at this
    exact this
  · intro e he
    exact (List.all_eq_true.mp h2) e he

/-- Every operation of the list model has a protocol name in `modelOpKeys` (so `opsAgree` really
    speaks about all of `Vecs.Op`). -/
theorem op_keys_complete (op : HipVerif.Vecs.Op α) : opKey op ∈ modelOpKeys := by
  cases op <;> simp [opKey, modelOpKeys]

/-! ### Non-vacuity -/

/-- The tables are inhabited; the listings are empty on the current tree. -/
example : vecFns.length > 100 ∧ (vecFns.filter (!·.isUnsafe)).length > 90 ∧ driveOps.length = 33 ∧
    uncoveredFns = [] ∧ badEntries = [] := by decide +kernel

/-- What the predicates reject: a safe function without an entry; an entry naming an operation the
    model does not have; one naming a method `vecdrive` never calls. -/
example :
    fnCovered ⟨"vecs::inline::InlineVec::const_append_v2", key% "vecs::inline::InlineVec::const_append_v2",
      "const_append_v2", key% "const_append_v2", false, "x"⟩ = false ∧
    entryOk (key% "vecs::inline::InlineVec::const_append", .drivenAs (key% "no_such_op")) = false ∧
    entryOk (key% "<vecs::inline::InlineVec<T, CAP, SHIFT, TAG> as Ord>::cmp",
      .monitoredBy "nothing calls cmp") = false ∧
    entryOk (key% "vecs::inline::InlineVec::const_append", .drivenAs (key% "const_append")) = true := by
  decide +kernel

end HipVerif.Props.C13
