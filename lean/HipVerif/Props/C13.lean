/-
  Props/C13.lean — "InlineVec and ThinVec behave exactly like Vec within their capacity rules".

  Objects: the L1 models `IV` / `TV` of `Model/Vecs.lean` (tied to /repo/src/vecs/{inline,thin}.rs
  by the three-way differential `harness/src/bin/vecdrive.rs`), the std specification
  `Spec/Vec.lean` lifted to the same operation alphabet (`specStep`, `specRun` in
  `Lemmas/Vecs.lean`).  Everything is for an arbitrary element type `α`, an arbitrary capacity /
  arbitrary type parameters, and arbitrary operation histories.

  Vocabulary:
  * `needs xs op`   — how many elements the vector must be able to hold for `op` (0 if `op` does
                      not grow the vector or `Vec` rejects it);
  * `appended op`   — the items `op` appends;
  * `Op.forIV/forTV`— the operation exists on that vector kind (`Op.constAppend cap2 other` =
                      `InlineVec::const_append` from an `InlineVec<_, cap2>`; `Op.spareWrite` =
                      `spare_capacity_mut` + `set_len`);
  * `Op.InRange`    — slice arguments have a `usize` length;
  * a ThinVec "capacity overflow" panic (`PanicClass.overflow`: `len + additional` overflows
    `usize` or the layout exceeds `isize::MAX`) is not part of the list specification (lists are
    unbounded); `tv_overflow_iff` characterises exactly when `reserve` raises it.
-/
import HipVerif.Lemmas.Vecs

namespace HipVerif.Props.C13

open HipVerif.Vecs
open HipVerif.Spec.Vec (Bnd Side)

/-! ## Refinement -/

/-- **InlineVec refines Vec.** From any state with `len ≤ CAP`, for any history whose operations
    exist on `InlineVec` and never need more than `CAP` elements, the model returns exactly what
    `Vec` returns at every step — including `Vec`'s own index/range panics, with the same class —
    and ends with the same elements in the same order. -/
theorem iv_refines (s : IV α) (hw : s.xs.length ≤ s.cap) (ops : List (Op α))
    (h : IVFits s.cap s.xs ops) :
    (s.run ops).1 = (specRun s.xs ops).1 ∧ (s.run ops).2 = ⟨s.cap, (specRun s.xs ops).2⟩ := by
  induction ops generalizing s with
  | nil => cases s; simp [IV.run, specRun]
  | cons op rest ih =>
    obtain ⟨h1, h2, h3⟩ := h
    have hstep := IV.step_spec s op hw h1 h2
    have hwf := IV.step_wf s op hw
    have := ih (s.step op).2 (by rw [hwf.1]; exact hwf.2)
      (by rw [hstep]; exact h3)
    simp only [IV.run, specRun]
    rw [hstep] at this ⊢
    simp only at this ⊢
    exact ⟨by rw [this.1], this.2⟩

example : IVFits 2 ([] : List Nat) [.push 1, .tryPush 2, .swapRemove 0, .insert 5 9, .pop] := by
  simp [IVFits, Op.forIV, needs, specStep, S.push, S.swapRemove]

example : ((IV.new 2 : IV Nat).run [.push 1, .tryPush 2, .swapRemove 0, .insert 5 9, .pop]) =
    ([.ok .unit, .ok .unit, .ok (.elem 1), .panic .index, .ok (.opt (some 2))], ⟨2, []⟩) := by
  decide

/-- **ThinVec refines Vec.** From any well-formed state, for any history of `ThinVec`
    operations that does not hit a capacity overflow, the model returns exactly what `Vec`
    returns at every step (panics included) and ends with the same elements in the same order. -/
theorem tv_refines (s : TV α) (hw : s.Wf) (ops : List (Op α)) (h : TVQuiet s ops) :
    (s.run ops).1 = (specRun s.xs ops).1 ∧ (s.run ops).2.xs = (specRun s.xs ops).2 := by
  induction ops generalizing s with
  | nil => simp [TV.run, specRun]
  | cons op rest ih =>
    obtain ⟨h1, h2, h3, h4⟩ := h
    have sim := TV.step_sim s hw op h1 h2
    rcases sim.res with ⟨e, _⟩ | ⟨e1, e2⟩
    · exact absurd e h3
    · have := ih (s.step op).2 sim.wf h4
      simp only [TV.run, specRun]
      rw [e2] at this
      exact ⟨by rw [e1, this.1], this.2⟩

example : TVQuiet tv0 [.push 1, .extendFromSlice [2, 3, 4, 5], .remove 9, .shrinkToFit] := by
  refine ⟨rfl, trivial, by decide, rfl, trivial, by decide, rfl, trivial, by decide, rfl, trivial,
    by decide, trivial⟩

example : (tv0.run [.push 1, .extendFromSlice [2, 3, 4, 5], .remove 9, .shrinkToFit]) =
    ([.ok .unit, .ok .unit, .panic .index, .ok .unit], ⟨5, [1, 2, 3, 4, 5], 8, 8, 8, 8⟩) := by
  decide

/-! ## Panics -/

/-- **InlineVec panics exactly where Vec panics, plus where the fixed capacity would be
    exceeded** (the `try_` variants never panic). Holds in every state reachable from `new()`. -/
theorem panics_iff_iv {cap : Nat} (s : IV α) (hr : IVReach cap s) (op : Op α)
    (hs : op.forIV = true) :
    (s.step op).1.isPanic = true ↔
      specPanics s.xs op ∨ (op.isTry = false ∧ s.cap < needs s.xs op) := by
  have hw := hr.wf.2
  by_cases hn : needs s.xs op ≤ s.cap
  · rw [IV.step_spec s op hw hs hn]
    simp only [specPanics]
    constructor
    · intro h; exact .inl h
    · rintro (h | ⟨_, h⟩)
      · exact h
      · omega
  · have hn' : s.cap < needs s.xs op := by omega
    have he := IV.step_exceed s op hw hs hn'
    obtain ⟨v, hv⟩ := spec_ok_of_needs s.xs op (by omega)
    have hsp : ¬ specPanics s.xs op := by simp [specPanics, hv, Outcome.isPanic]
    by_cases ht : op.isTry = true
    · obtain ⟨w, _, h⟩ := he.1 ht
      rw [h]; simp [Outcome.isPanic, hsp, ht]
    · have ht' : op.isTry = false := by simpa using ht
      rw [(he.2 ht').1]; simp [Outcome.isPanic, ht', hn']

example : IVReach 1 ((IV.new 1 : IV Nat).run [.push 7]).2 := ⟨_, rfl⟩

example : (((IV.new 1 : IV Nat).run [.push 7]).2.step (.push 8)).1.isPanic = true := by decide

/-- `Vec` never raises a capacity-overflow, capacity or unreachable panic: its panics are the
    index / range ones. -/
theorem spec_panic_classes (xs : List α) (op : Op α) (c : PanicClass)
    (h : (specStep xs op).1 = .panic c) : c = .index ∨ c = .range :=
  (spec_panic xs op c h).1

/-- **ThinVec panics exactly where Vec panics**, or with a capacity overflow. Holds in every state
    reachable from `new()`. -/
theorem panics_iff_tv {p : TVParams} (s : TV α) (hr : TVReach p s) (op : Op α)
    (hs : op.forTV = true) (hi : op.InRange) :
    (s.step op).1.isPanic = true ↔
      specPanics s.xs op ∨ (s.step op).1 = .panic .overflow := by
  have sim := TV.step_sim s hr.wf.1 op hs hi
  rcases sim.res with ⟨e, _⟩ | ⟨e1, _⟩
  · simp [e, Outcome.isPanic]
  · constructor
    · intro h; left; rw [e1] at h; exact h
    · rintro (h | h)
      · rw [e1]; exact h
      · rw [h]; rfl

example : TVReach ⟨8, 8, 8, 8⟩ tv0 ∧ specPanics tv0.xs (.remove 0 : Op Nat) ∧
    (tv0.step (.remove 0)).1.isPanic = true :=
  ⟨⟨⟨⟨3, by decide, rfl⟩, ⟨3, by decide, rfl⟩⟩, tv0, [], by decide, by simp, rfl⟩, by unfold specPanics; decide, by decide⟩

example : (specStep ([] : List Nat) (.remove 0)).1 = .panic .index := by decide

/-- **When `ThinVec::reserve` overflows**: exactly when `len + additional` overflows `usize`, or
    the bytes needed for `max(len + additional, 2 * cap)` elements after the header exceed
    `isize::MAX + 1 - align` (the `Layout` limit) — the same kind of request on which `Vec`
    panics with "capacity overflow". -/
theorem tv_overflow_iff (s : TV α) (hw : s.Wf) (k : Nat) :
    (s.reserve k).1 = .panic .overflow ↔
      s.cap - s.xs.length < k ∧
        (usizeMax < s.xs.length + k ∨
         2 ^ 63 - layoutAlign s.params <
           dataOffset s.params + s.szT * max (s.xs.length + k) (s.cap * 2)) := by
  obtain ⟨L, hc⟩ := hw.cur
  obtain ⟨_, _, hle, _⟩ := layoutAlign_ok s.params hw.ok
  unfold TV.reserve
  by_cases hb : k > s.cap - s.xs.length
  · simp only [hb, if_true, true_and]
    unfold checkedAdd
    by_cases ho : s.xs.length + k ≤ usizeMax
    · have ho' : ¬ usizeMax < s.xs.length + k := by omega
      simp only [ho, if_true, ho', false_or]
      unfold TV.setCapacity
      rw [hc]
      cases hl : layout s.params (max (s.xs.length + k) (s.cap * 2)) with
      | none =>
        simp only [true_iff]
        apply Nat.lt_of_not_le
        intro hcon
        have : s.params.szT * max (s.xs.length + k) (s.cap * 2) ≤ 2 ^ 63 - s.params.alT := by
          have e : s.params.szT = s.szT := rfl
          rw [e]; omega
        rw [layout_of this hcon] at hl
        simp at hl
      | some r =>
        obtain ⟨nl, o, rc⟩ := r
        have h3 := (layout_some hl).2.2.1
        have h2 := (layout_some hl).2.1
        have e : s.params.szT = s.szT := rfl
        rw [h2, e] at h3
        have : ¬ (2 ^ 63 - layoutAlign s.params <
            dataOffset s.params + s.szT * max (s.xs.length + k) (s.cap * 2)) := by omega
        simp only [this, iff_false]
        by_cases hq : L = nl <;> simp [hq]
    · have ho' : usizeMax < s.xs.length + k := by omega
      simp [ho, ho']
  · simp [hb]

example : (tv0.reserve (2 ^ 64 - 1)).1 = .panic .overflow := by decide

/-- **Panics, both vector kinds**: in every reachable state the model panics iff `Vec` panics, or —
    InlineVec — the fixed capacity would be exceeded by a non-`try_` operation, or — ThinVec — the
    request overflows the address space (`tv_overflow_iff`). -/
theorem panics_iff :
    (∀ (α : Type) (cap : Nat) (s : IV α), IVReach cap s → ∀ op : Op α, op.forIV = true →
      ((s.step op).1.isPanic = true ↔
        specPanics s.xs op ∨ (op.isTry = false ∧ s.cap < needs s.xs op))) ∧
    (∀ (α : Type) (p : TVParams) (s : TV α), TVReach p s → ∀ op : Op α, op.forTV = true →
      op.InRange →
      ((s.step op).1.isPanic = true ↔ specPanics s.xs op ∨ (s.step op).1 = .panic .overflow)) :=
  ⟨fun _ _ s hr op hs => panics_iff_iv s hr op hs,
   fun _ _ s hr op hs hi => panics_iff_tv s hr op hs hi⟩

/-! ## `try_` variants -/

/-- **`try_push` on a full InlineVec** hands the value back (`Err(value)`, reason `Full`) and
    leaves the vector unchanged. -/
theorem try_returns_push {cap : Nat} (s : IV α) (_hr : IVReach cap s) (v : α)
    (hfull : s.xs.length = s.cap) :
    s.step (.tryPush v) = (.err .full (.elem v), s) := by
  simp [IV.step, IV.tryPush, hfull]

/-- **`try_insert`**: an index beyond the length is reported as `OutOfBounds` *even when the
    vector is also full* (the code tests the index first); a valid index on a full vector is
    reported as `Full`; both hand the value back and leave the vector unchanged. -/
theorem try_returns_insert {cap : Nat} (s : IV α) (_hr : IVReach cap s) (i : Nat) (v : α) :
    (s.xs.length < i → s.step (.tryInsert i v) = (.err .outOfBounds (.elem v), s)) ∧
    (i ≤ s.xs.length → s.xs.length = s.cap →
      s.step (.tryInsert i v) = (.err .full (.elem v), s)) := by
  refine ⟨fun h => ?_, fun h1 h2 => ?_⟩
  · simp [IV.step, IV.tryInsert, h]
  · have : ¬ s.xs.length < i := by omega
    simp [IV.step, IV.tryInsert, h2, h2 ▸ this]

/-- **`try_` variants, general form**: whenever the capacity does not suffice for a `try_`
    operation that `Vec` would accept, the rejected value comes back with reason `Full` and the
    state is unchanged; when it suffices they behave like `Vec`. -/
theorem try_returns {cap : Nat} (s : IV α) (hr : IVReach cap s) (op : Op α) (ht : op.isTry = true) :
    (s.cap < needs s.xs op → ∃ v, appended op = [v] ∧ s.step op = (.err .full (.elem v), s)) ∧
    (needs s.xs op ≤ s.cap →
      s.step op = ((specStep s.xs op).1, ⟨s.cap, (specStep s.xs op).2⟩)) := by
  have hs : op.forIV = true := by cases op <;> simp [Op.isTry] at ht <;> rfl
  exact ⟨fun h => (IV.step_exceed s op hr.wf.2 hs h).1 ht, fun h => IV.step_spec s op hr.wf.2 hs h⟩

example : ((IV.new 1 : IV Nat).run [.push 7]).2.step (.tryInsert 5 9)
    = (.err .outOfBounds (.elem 9), ⟨1, [7]⟩) := by decide

example : ((IV.new 1 : IV Nat).run [.push 7]).2.step (.tryInsert 0 9)
    = (.err .full (.elem 9), ⟨1, [7]⟩) := by decide

/-! ## State after a panic -/

/-- **After any panic an InlineVec holds its previous elements followed by a prefix of the items
    that were being appended** (nothing at all for index/range panics and for the operations that
    check the capacity up front; what fitted for `Extend::extend`), and `CAP` is unchanged. -/
theorem after_panic_prefix_iv {cap : Nat} (s : IV α) (hr : IVReach cap s) (op : Op α)
    (hs : op.forIV = true) (hp : (s.step op).1.isPanic = true) :
    ∃ pre, pre <+: appended op ∧ (s.step op).2 = ⟨s.cap, s.xs ++ pre⟩ := by
  have hw := hr.wf.2
  by_cases hn : needs s.xs op ≤ s.cap
  · rw [IV.step_spec s op hw hs hn] at hp ⊢
    cases ho : (specStep s.xs op).1 with
    | panic c =>
      exact ⟨[], List.nil_prefix, by simp [(spec_panic s.xs op c ho).2]⟩
    | ok v => simp [ho, Outcome.isPanic] at hp
    | err r v => simp [ho, Outcome.isPanic] at hp
  · have he := IV.step_exceed s op hw hs (by omega)
    by_cases ht : op.isTry = true
    · obtain ⟨w, _, h⟩ := he.1 ht
      rw [h] at hp; simp [Outcome.isPanic] at hp
    · obtain ⟨_, pre, h1, h2, _⟩ := he.2 (by simpa using ht)
      exact ⟨pre, h1, h2⟩

example : (((IV.new 2 : IV Nat).run [.push 7]).2.step (.extend 0 [1, 2, 3]))
    = (.panic .capacity, ⟨2, [7] ++ [1]⟩) := by decide

/-- **After any panic a ThinVec holds its previous elements followed by a prefix of the items that
    were being appended** (a non-empty prefix only when an iterator outgrows its size hint and the
    next `reserve(1)` overflows). -/
theorem after_panic_prefix_tv {p : TVParams} (s : TV α) (hr : TVReach p s) (op : Op α)
    (hs : op.forTV = true) (hi : op.InRange) (hp : (s.step op).1.isPanic = true) :
    ∃ pre, pre <+: appended op ∧ (s.step op).2.xs = s.xs ++ pre := by
  have sim := TV.step_sim s hr.wf.1 op hs hi
  rcases sim.res with ⟨_, pre, h1, h2⟩ | ⟨e1, e2⟩
  · exact ⟨pre, h1, h2⟩
  · cases ho : (specStep s.xs op).1 with
    | panic c => exact ⟨[], List.nil_prefix, by simp [e2, (spec_panic s.xs op c ho).2]⟩
    | ok v => rw [e1, ho] at hp; simp [Outcome.isPanic] at hp
    | err r v => rw [e1, ho] at hp; simp [Outcome.isPanic] at hp

/-- **State after a panic, both vector kinds.** -/
theorem after_panic_prefix :
    (∀ (α : Type) (cap : Nat) (s : IV α), IVReach cap s → ∀ op : Op α, op.forIV = true →
      (s.step op).1.isPanic = true →
      ∃ pre, pre <+: appended op ∧ (s.step op).2 = ⟨s.cap, s.xs ++ pre⟩) ∧
    (∀ (α : Type) (p : TVParams) (s : TV α), TVReach p s → ∀ op : Op α, op.forTV = true →
      op.InRange → (s.step op).1.isPanic = true →
      ∃ pre, pre <+: appended op ∧ (s.step op).2.xs = s.xs ++ pre) :=
  ⟨fun _ _ s hr op hs hp => after_panic_prefix_iv s hr op hs hp,
   fun _ _ s hr op hs hi hp => after_panic_prefix_tv s hr op hs hi hp⟩

example : (tv0.step (.drain (.incl 3) .unb [] .drop)).1.isPanic = true ∧
    (tv0.step (.drain (.incl 3) .unb [] .drop)).2.xs = tv0.xs ++ [] := by decide

/-- The "cannot happen" branches of the model (slot reads guaranteed by the type invariant,
    `unwrap_unchecked` of the current layout) are never taken. -/
theorem never_unreachable_iv {cap : Nat} (s : IV α) (hr : IVReach cap s) (op : Op α)
    (hs : op.forIV = true) : (s.step op).1 ≠ .panic .unreachable := by
  have hw := hr.wf.2
  by_cases hn : needs s.xs op ≤ s.cap
  · rw [IV.step_spec s op hw hs hn]
    intro h
    have := (spec_panic s.xs op _ h).1
    simp at this
  · have he := IV.step_exceed s op hw hs (by omega)
    by_cases ht : op.isTry = true
    · obtain ⟨w, _, h⟩ := he.1 ht
      rw [h]; simp
    · rw [(he.2 (by simpa using ht)).1]; simp

theorem never_unreachable_tv {p : TVParams} (s : TV α) (hr : TVReach p s) (op : Op α)
    (hs : op.forTV = true) (hi : op.InRange) : (s.step op).1 ≠ .panic .unreachable := by
  have sim := TV.step_sim s hr.wf.1 op hs hi
  rcases sim.res with ⟨e, _⟩ | ⟨e1, _⟩
  · rw [e]; simp
  · rw [e1]; intro h
    have := (spec_panic s.xs op _ h).1
    simp at this

/-! ## Cross-capacity append and in-place filling -/

/-- **`const_append` between inline vectors of different capacities** behaves like `Vec::append`
    under the capacity of the *destination* only: in every reachable state, if
    `len + other_len ≤ CAP` the destination gets the source's elements after its own and the
    source is left empty; otherwise it panics (class `capacity`) and BOTH vectors are untouched.
    The source's capacity `CAP2` has no influence, and the result on the destination is that of
    `append`. (The general theorems `iv_refines`, `panics_iff`, `after_panic_prefix`, `iv_cap`
    cover `Op.constAppend` like every other operation.) -/
theorem const_append_both {cap : Nat} (s : IV α) (_hr : IVReach cap s) (cap2 : Nat) (other : List α) :
    (s.xs.length + other.length ≤ s.cap →
      s.constAppend cap2 other = (.ok (.items []), ⟨s.cap, s.xs ++ other⟩, [])) ∧
    (s.cap < s.xs.length + other.length →
      s.constAppend cap2 other = (.panic .capacity, s, other)) ∧
    (∀ cap2', s.constAppend cap2' other = s.constAppend cap2 other) ∧
    ((s.constAppend cap2 other).1, (s.constAppend cap2 other).2.1) = s.append other := by
  refine ⟨fun h => ?_, fun h => ?_, fun _ => rfl, ?_⟩
  · simp [IV.constAppend, h]
  · have : ¬ s.xs.length + other.length ≤ s.cap := by omega
    simp [IV.constAppend, this]
  · by_cases h : s.xs.length + other.length ≤ s.cap <;> simp [IV.constAppend, IV.append, h]

/-- The two directions of a capacity mix-up: a 3-slot vector holding 2 elements cannot take 2
    more from a 7-slot one (panic, both unchanged); a 7-slot vector holding 3 takes 2 from a
    3-slot one. -/
example :
    (⟨3, [1, 2]⟩ : IV Nat).constAppend 7 [8, 9] = (.panic .capacity, ⟨3, [1, 2]⟩, [8, 9]) ∧
    (⟨7, [1, 2, 3]⟩ : IV Nat).constAppend 3 [8, 9] = (.ok (.items []), ⟨7, [1, 2, 3, 8, 9]⟩, []) ∧
    IVReach 3 ((IV.new 3 : IV Nat).run [.push 1, .push 2]).2 := ⟨by decide, by decide, _, rfl⟩

example : specStep [1, 2] (.constAppend 7 [8, 9] : Op Nat) = (.ok (.items []), [1, 2, 8, 9]) ∧
    needs [1, 2] (.constAppend 7 [8, 9] : Op Nat) = 4 := by decide

/-- **Filling spare capacity in place** (`spare_capacity_mut` + `set_len`): on an InlineVec it
    succeeds exactly when the values fit in `CAP - len` slots (else: caller-side capacity panic,
    nothing written); on a ThinVec, after `reserve(n)`, it appends the values and — when they
    already fitted — leaves the capacity as it was (no reallocation). -/
theorem spare_write {cap : Nat} {p : TVParams} (s : IV α) (_hr : IVReach cap s) (t : TV α)
    (ht : TVReach p t) (vals : List α) :
    (s.xs.length + vals.length ≤ s.cap →
      s.step (.spareWrite vals) = (.ok .unit, ⟨s.cap, s.xs ++ vals⟩)) ∧
    (s.cap < s.xs.length + vals.length → s.step (.spareWrite vals) = (.panic .capacity, s)) ∧
    (t.xs.length + vals.length ≤ t.cap →
      t.step (.spareWrite vals) = (.ok .unit, { t with xs := t.xs ++ vals })) := by
  refine ⟨fun h => ?_, fun h => ?_, fun h => ?_⟩
  · simp [IV.step, IV.spareWrite, IV.extendFromSlice, h]
  · have : ¬ s.xs.length + vals.length ≤ s.cap := by omega
    simp [IV.step, IV.spareWrite, IV.extendFromSlice, this]
  · have hl := ht.wf.1.len
    have : ¬ vals.length > t.cap - t.xs.length := by omega
    simp [TV.step, TV.spareWrite, TV.extendFromSlice, TV.afterReserve, TV.reserve, this]

example : tv0.step (.spareWrite [5, 6, 7]) = (.ok .unit, ⟨4, [5, 6, 7], 8, 8, 8, 8⟩) := by decide

/-! ## Capacity -/

/-- **ThinVec capacity**: in every reachable state `len ≤ capacity`; a `reserve(k)` /
    `reserve_exact(k)` that returns leaves `capacity ≥ len + k` without touching the elements
    (also right after `shrink_to_fit`, which is just another reachable state); `with_capacity(n)`
    gives `capacity ≥ n` (`usize::MAX` for zero-sized elements); `shrink_to*` never goes below
    the length. -/
theorem tv_cap {p : TVParams} (s : TV α) (hr : TVReach p s) :
    s.xs.length ≤ s.cap ∧
    (∀ k s', s.reserve k = (.ok .unit, s') → s.xs.length + k ≤ s'.cap ∧ s'.xs = s.xs) ∧
    (∀ k s', s.reserveExact k = (.ok .unit, s') → s.xs.length + k ≤ s'.cap ∧ s'.xs = s.xs) ∧
    (∀ n t, (TV.withCapacity p n : Option (TV α)) = some t →
      t.xs = [] ∧ (p.szT ≠ 0 → n ≤ t.cap) ∧ (p.szT = 0 → t.cap = usizeMax)) ∧
    (∀ n, (s.shrinkTo n).2.xs = s.xs ∧ s.xs.length ≤ (s.shrinkTo n).2.cap) ∧
    ((s.shrinkToFit).2.xs = s.xs ∧ s.xs.length ≤ (s.shrinkToFit).2.cap) := by
  have hw := hr.wf.1
  refine ⟨hw.len, ?_, ?_, ?_, ?_, ?_⟩
  · intro k s' h
    rcases TV.reserve_spec s hw k with h0 | ⟨c, h1, h2, _⟩
    · rw [h0] at h; simp at h
    · rw [h1] at h; simp at h; subst h; exact ⟨h2, rfl⟩
  · intro k s' h
    rcases TV.reserveExact_spec s hw k with h0 | ⟨c, h1, h2, _⟩
    · rw [h0] at h; simp at h
    · rw [h1] at h; simp at h; subst h; exact ⟨h2, rfl⟩
  · intro n t h
    rcases TV.withCapacity_spec (α := α) p hr.1 n with h0 | ⟨t', h1, _, h3, _, h5, h6⟩
    · rw [h0] at h; simp at h
    · rw [h1] at h; simp at h; subst h; exact ⟨h3, h5, h6⟩
  · intro n
    have sim := TV.step_sim s hw (.shrinkTo n) rfl trivial
    simp only [TV.step] at sim
    rcases sim.res with ⟨_, pre, h1, h2⟩ | ⟨_, e2⟩
    · simp [appended] at h1; subst h1
      have := sim.wf.len
      simp at h2; rw [h2] at this; exact ⟨h2, this⟩
    · have := sim.wf.len
      simp [specStep, S.keep] at e2; rw [e2] at this; exact ⟨e2, this⟩
  · have sim := TV.step_sim s hw .shrinkToFit rfl trivial
    simp only [TV.step] at sim
    rcases sim.res with ⟨_, pre, h1, h2⟩ | ⟨_, e2⟩
    · simp [appended] at h1; subst h1
      have := sim.wf.len
      simp at h2; rw [h2] at this; exact ⟨h2, this⟩
    · have := sim.wf.len
      simp [specStep, S.keep] at e2; rw [e2] at this; exact ⟨e2, this⟩

example : TVReach ⟨8, 8, 8, 8⟩ tv0 :=
  ⟨⟨⟨3, by decide, rfl⟩, ⟨3, by decide, rfl⟩⟩, tv0, [], by decide, by simp, rfl⟩

example : tv0.reserve 5 = (.ok .unit, ⟨8, [], 8, 8, 8, 8⟩) := by decide

/-- **InlineVec capacity**: `CAP` never changes and `len ≤ CAP` in every reachable state. -/
theorem iv_cap {cap : Nat} (s : IV α) (hr : IVReach cap s) : s.cap = cap ∧ s.xs.length ≤ cap := by
  have := hr.wf
  exact ⟨this.1, by rw [← this.1]; exact this.2⟩

/-! ## Layout arithmetic -/

/-- **`layout` is idempotent on the rounded capacity**: recomputing the layout from the capacity
    that `layout(n)` returned gives the same layout, offset and capacity. This is why
    `current_layout()` (computed from `header.cap`) is the layout the block was allocated with, so
    `realloc` / `dealloc` receive the right one; it holds for every element size and alignment
    (power of two) and every prefix size and alignment, zero-sized elements included. -/
theorem layout_idem (p : TVParams) (hp : p.Ok) (n : Nat) (L : Layout) (off c : Nat)
    (h : layout p n = some (L, off, c)) : layout p c = some (L, off, c) :=
  layout_idem' hp h

example : layout ⟨16, 8, 8, 8⟩ 3 = some (⟨72, 8⟩, 24, 3) ∧ (⟨16, 8, 8, 8⟩ : TVParams).Ok :=
  ⟨by decide, ⟨3, by decide, rfl⟩, ⟨3, by decide, rfl⟩⟩

example : layout ⟨1, 1, 8, 8⟩ 33 = some (⟨64, 8⟩, 24, 40) ∧ layout ⟨1, 1, 8, 8⟩ 40 = some (⟨64, 8⟩, 24, 40) := by
  decide

/-- Sizes that are not the alignment, odd sizes included (the element types `b3` 3/1, `h3` 6/2,
    `w3` 12/4, `q3` 24/8, `a20` 32/16 of the differential): the hypotheses of `layout_idem` /
    `data_fits` are met by them, and the capacity really is the FLOOR of `(size − offset) / szT`
    with `szT` the element SIZE — 10 three-byte elements in the 32 bytes after a 24-byte header,
    not 11 (`div_ceil`) and not 32 (division by the alignment): either would contradict
    `data_fits` (`24 + 11 * 3 > 56`). -/
example :
    layout ⟨3, 1, 8, 8⟩ 10 = some (⟨56, 8⟩, 24, 10) ∧ layout ⟨6, 2, 8, 8⟩ 5 = some (⟨56, 8⟩, 24, 5) ∧
    layout ⟨12, 4, 8, 8⟩ 2 = some (⟨48, 8⟩, 24, 2) ∧ layout ⟨24, 8, 8, 8⟩ 1 = some (⟨48, 8⟩, 24, 1) ∧
    layout ⟨32, 16, 8, 8⟩ 1 = some (⟨64, 16⟩, 32, 1) ∧ layout ⟨3, 1, 16, 16⟩ 10 = some (⟨64, 16⟩, 32, 10) ∧
    (⟨3, 1, 8, 8⟩ : TVParams).Ok ∧ ¬ (24 + 11 * 3 ≤ 56) := by
  refine ⟨by decide, by decide, by decide, by decide, by decide, by decide,
    ⟨⟨0, by decide, rfl⟩, ⟨3, by decide, rfl⟩⟩, by decide⟩

/-- **The elements fit in the allocation and are aligned** (non-zero-sized `T`):
    `offset + capacity * size_of::<T>() ≤ layout.size`, `offset % align_of::<T>() = 0`, the
    rounded capacity is at least the requested one, and the allocation stays within
    `isize::MAX`. -/
theorem data_fits (p : TVParams) (hp : p.Ok) (n : Nat) (L : Layout) (off c : Nat)
    (h : layout p n = some (L, off, c)) (hz : p.szT ≠ 0) :
    off + c * p.szT ≤ L.size ∧ off % p.alT = 0 ∧ n ≤ c ∧ L.size + L.align ≤ 2 ^ 63 := by
  have h1 := layout_fits hp h hz
  have h2 := layout_ge_nz hp h hz
  have h3 := layout_size_le hp h
  have h4 : L.align = layoutAlign p := by rw [(layout_some h).2.2.2.1]
  exact ⟨h1.1, h1.2, h2.1, by rw [h4]; exact h3.2⟩

example : layout ⟨64, 64, 8, 8⟩ 1 = some (⟨128, 64⟩, 64, 1) := by decide

/-- **Zero-sized elements**: the capacity is `usize::MAX` whatever was asked, the allocation is
    the padded header only, and the offset is still aligned. -/
theorem data_fits_zst (p : TVParams) (_hp : p.Ok) (n : Nat) (L : Layout) (off c : Nat)
    (h : layout p n = some (L, off, c)) (hz : p.szT = 0) :
    c = usizeMax ∧ L.size = roundUp (dataOffset p) (layoutAlign p) ∧ off % p.alT = 0 := by
  have h1 := layout_zst h hz
  refine ⟨h1.1, h1.2, ?_⟩
  rw [(layout_some h).2.1]; exact roundUp_mod _ _

example : layout ⟨0, 1, 8, 8⟩ 5 = some (⟨24, 8⟩, 24, 2 ^ 64 - 1) := by decide

end HipVerif.Props.C13
