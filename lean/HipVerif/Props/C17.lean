/-
C17 — Safe API is sound: unchecked entry points are unsafe, borrows cannot escape.

Decided over `Gen/PubFns.lean` (every function a client crate can call, with its lifetime
skeleton, and every lifetime-manufacturing site; regenerated from /repo/src on every run).
The hand-written, REVIEWED inputs are the four lists of `Model/PubFns.lean` (`borrowViewFns`,
`mayAliasBorrow`, `neverBorrowed`, `reviewedSites`), next to the Bool row predicates.  rustc is the oracle for the rest: `probedrive` compiles,
for every row that must be `unsafe`, a client program calling it without `unsafe` (must be
rejected, E0133) and a corpus of borrow-escape programs with must-compile twins.
When a theorem breaks, `tables_driver` command `rows_c17` lists the falsifying rows/sites.
-/
import HipVerif.Model.PubFns

namespace HipVerif.Props.C17
open HipVerif.Model.PubFns
open HipVerif.Gen.PubFns (pubFns chunks sites)

/- Evaluated (not kernel-checked) sanity check: every generated numeric key is the key of the
   string printed next to it. -/
#guard generatedKeysOk

/-! ### Theorems -/

private theorem all_chunks {p : FnSig → Bool} (h : (chunks.all fun c => c.all p) = true) :
    ∀ f ∈ pubFns, p f = true := by
  intro f hf
  obtain ⟨c, hc, hfc⟩ := List.mem_flatten.mp hf
  exact (List.all_eq_true.mp ((List.all_eq_true.mp h) c hc)) f hfc

/-- **Every unchecked entry point is unsafe.** Of all functions a client can call (inherent
    methods of public types, public trait methods, trait impls, free functions, macro-generated
    methods), any whose name ends in `_unchecked` or whose documentation has a `# Safety`
    section is declared `unsafe fn`: safe code cannot reach a primitive that trusts its caller. -/
theorem unchecked_is_unsafe :
    ∀ f ∈ pubFns, (f.nameUnchecked = true ∨ f.hasSafetyDoc = true) → f.isUnsafe = true := by
  have h : (chunks.all fun c => c.all uncheckedOk) = true := by decide +kernel
  intro f hf hu
  have := all_chunks h f hf
  simp only [uncheckedOk, Bool.or_eq_true, Bool.not_eq_true'] at this
  rcases this with h1 | h1
  · rcases hu with h2 | h2 <;> simp [h2] at h1
  · exact h1

/-- **A safe function may not be a mere forwarder to an unsafe one.** Every callable function
    whose body does nothing but pass its own (non-`self`) parameters, unvalidated, to a single
    callee in unsafe context is itself declared `unsafe fn` — so an `unsafe` keyword dropped from
    a forwarding trait method, impl or macro arm (`MutVector::set_len`) breaks this theorem even
    though the name has no `_unchecked` suffix and no `# Safety` section. -/
theorem forwarders_are_unsafe :
    ∀ f ∈ pubFns, f.forwardsToUnsafe.isSome = true → f.isUnsafe = true := by
  have h : (chunks.all fun c => c.all forwarderOk) = true := by decide +kernel
  intro f hf hu
  have := all_chunks h f hf
  simp only [forwarderOk, Bool.or_eq_true] at this
  rcases this with h1 | h1
  · cases hfo : f.forwardsToUnsafe <;> simp [hfo] at hu h1
  · exact h1

/-- **Bitwise copies require `T: Copy`.** Every callable fn (safe or unsafe) of the vector types
    that announces a bitwise copy by its name (`copy`, `…_copy…` under `vecs::`) or whose body
    duplicates element bits from a source that stays alive (`&self` / `&[T]`) into owned elements
    with a raw-copy primitive — directly or through the same-type / free crate fns it calls — has
    the bound `T: Copy` in force (on the fn or on its impl block) for its element type. So
    `InlineVec::<String, N>::from_slice_copy(&[s])` cannot compile in client code: duplicating
    the bits of a non-`Copy` value would create a second owner. No exemption is needed on the
    current source (`copyExempt = []`). -/
theorem bitwise_copy_requires_copy :
    ∀ f ∈ pubFns, needsCopy f = true → f.key ∉ copyExempt →
      f.elemParam ≠ 0 ∧ (f.elemParam, key% "Copy") ∈ f.bounds := by
  have h : (chunks.all fun c => c.all bitwiseCopyOk) = true := by decide +kernel
  intro f hf hn he
  have := all_chunks h f hf
  simp only [bitwiseCopyOk, hn, Bool.not_true, Bool.false_or, Bool.or_eq_true, Bool.and_eq_true,
    bne_iff_ne, ne_eq, List.contains_eq_mem, decide_eq_true_eq] at this
  rcases this with h1 | h1
  · exact h1
  · exact absurd h1 he

/-- Translator cross-check: the `nameUnchecked` flag of every row is recomputed in Lean from
    the row's name. -/
theorem name_unchecked_consistent :
    ∀ f ∈ pubFns, f.nameUnchecked = keyEndsWith f.simpleKey (key% "_unchecked") := by
  have h : (chunks.all fun c => c.all nameFlagOk) = true := by decide +kernel
  intro f hf
  have := all_chunks h f hf
  simp only [nameFlagOk, Bool.and_eq_true, beq_iff_eq] at this
  exact this.1

/-- **Signatures do not let borrowed data escape.** For every safe callable function that
    receives anything region-carrying, each region of its result (a reference, the `'borrow` of
    a Hip value, a lifetime parameter of a guard/error/iterator) is the region of one of its
    inputs or outlived by one through a declared bound (`'de: 'a`); a returned reference is
    tied to the `&self` borrow, not to the Hip `'borrow`, except for the borrowed-view
    functions. The only exceptions are the reviewed `neverBorrowed` rows (copies), none of which
    is a may-alias operation. Rust's type soundness then gives "cannot outlive that borrow". -/
theorem region_flow :
    ∀ f ∈ pubFns, f.isUnsafe = false → f.ins ≠ [] →
      (∀ o ∈ f.outs, tied f o = true) ∨
      (f.key ∈ neverBorrowed ∧ f.simpleKey ∉ mayAliasBorrow) := by
  have h : (chunks.all fun c => c.all flowOk) = true := by decide +kernel
  intro f hf hs hi
  have := all_chunks h f hf
  simp only [flowOk, hs, Bool.false_or, Bool.or_eq_true, List.isEmpty_iff, Bool.and_eq_true,
    List.all_eq_true, List.contains_eq_mem, decide_eq_true_eq, Bool.not_eq_true',
    decide_eq_false_iff_not] at this
  rcases this with (h1 | h1) | h1
  · exact absurd h1 hi
  · exact Or.inl h1
  · exact Or.inr h1

/-- Every `X_unchecked` function has a safe sibling `X` or `try_X` on the same type (whose
    validation is what C08 `simplify_iff`/`range_of_iff`, C06 `reject_unchanged` and the
    capacity checks of C07/C13 are about). -/
theorem safe_counterpart :
    ∀ f ∈ pubFns, f.nameUnchecked = true →
      ∃ g ∈ pubFns, g.isUnsafe = false ∧ g.ownerKey = f.ownerKey ∧
        (g.simpleKey = baseKey f ∨ g.simpleKey = keyAppend (key% "try_") (baseKey f)) := by
  have h : (chunks.all fun c => c.all (counterpartOk pubFns)) = true := by decide +kernel
  intro f hf hu
  have := all_chunks h f hf
  simp only [counterpartOk, hu, Bool.not_true, Bool.false_or, List.any_eq_true, Bool.and_eq_true,
    Bool.not_eq_true', beq_iff_eq, Bool.or_eq_true] at this
  obtain ⟨g, hg, ⟨h1, h2⟩, h3⟩ := this
  exact ⟨g, hg, h1, h2, h3⟩

/-- **No unreviewed lifetime-manufacturing site.** The generated list of `transmute`,
    `from_raw_parts(_mut)`, `&*ptr`, pointer `as_ref/as_mut` and `*_extended` call sites of the
    whole compiled source equals the reviewed list (as keys kind × enclosing fn × unsafe?, with
    multiplicity). A new site — e.g. a safe `fn as_static(&self) -> &'static [u8]` built on
    `transmute` — breaks this theorem and `rows_c17` names it with its `file:line`. -/
theorem unsafe_lifetime_sites :
    unreviewedSites = [] ∧ staleSites = [] ∧ sites.length = reviewedSites.length := by
  decide +kernel

/-! ### Non-vacuity -/

/-- The table is large and the hypothesis of `unchecked_is_unsafe` is met by real rows. -/
example : pubFns.length > 400 ∧
    (pubFns.filter fun f => f.nameUnchecked || f.hasSafetyDoc).length ≥ 15 := by decide +kernel

/-- The defect fixed in /repo (D13) is what the predicate rejects: the same row, safe. -/
example : uncheckedOk ⟨"os_string::HipOsStr::slice_ref_unchecked", 0, "slice_ref_unchecked", 0, 0, .inherent,
    false, true, true, none, [], "", 0, none, false, false, [], [], [], "src/os_string.rs:661"⟩ = false := by decide

/-- `region_flow` is not vacuous: hundreds of safe rows have region-carrying inputs and outputs,
    and every may-alias name denotes at least one such row. -/
example :
    (pubFns.filter fun f => !f.isUnsafe && !f.ins.isEmpty && !f.outs.isEmpty).length > 150 ∧
    (mayAliasBorrow.all fun n => pubFns.any fun f => f.simpleKey == n && !f.outs.isEmpty) = true := by
  decide +kernel

/-- What `region_flow` rejects: `as_borrowed` handing out `'static`, and `as_str` tied to the
    Hip `'borrow` instead of `&self`. -/
example :
    flowOk ⟨"string::HipStr::as_borrowed", key% "string::HipStr::as_borrowed", "as_borrowed",
      key% "as_borrowed", key% "string::HipStr", .inherent, false, false, false, none, [], "", 0, none, false, false,
      [⟨.selfRef, .elided 0⟩, ⟨.selfHip, .named (key% "'borrow")⟩], [⟨.ref, .static⟩], [], "x"⟩ = false ∧
    flowOk ⟨"string::HipStr::as_str", key% "string::HipStr::as_str", "as_str", key% "as_str",
      key% "string::HipStr", .inherent, false, false, false, none, [], "", 0, none, false, false,
      [⟨.selfRef, .elided 0⟩, ⟨.selfHip, .named (key% "'borrow")⟩],
      [⟨.ref, .named (key% "'borrow")⟩], [], "x"⟩ = false := by
  decide

/-- The forwarder rule is exercised by real rows (all `unsafe`), and rejects the seeded defect:
    `impl MutVector for Vec<T> { fn set_len(&mut self, len) { unsafe { self.set_len(len) } } }`. -/
example : (pubFns.filter fun f => f.forwardsToUnsafe.isSome).length ≥ 2 ∧
    forwarderOk ⟨"<alloc::vec::Vec<T> as MutVector>::set_len", 0, "set_len", 0, 0, .traitImpl,
      false, false, false, some "self.set_len", [], "", 0, none, false, false, [⟨.selfRef, .elided 0⟩], [], [], "x"⟩ = false := by
  decide +kernel

/-- What the generalised reference rule rejects: `Drain<'a, V>::as_slice(&self) -> &'a [T]`
    (the region of the drain's `&'a mut V` field), while the real signature (tied to `&self`)
    passes; a by-value `self` may give the region away. -/
example :
    flowOk ⟨"common::drain::Drain::as_slice", 1, "as_slice", 2, 3, .inherent, false, false, false, none, [], "", 0, none, false, false,
      [⟨.selfRef, .elided 0⟩, ⟨.selfMut, .named 7⟩], [⟨.ref, .named 7⟩], [], "x"⟩ = false ∧
    flowOk ⟨"common::drain::Drain::as_slice", 1, "as_slice", 2, 3, .inherent, false, false, false, none, [], "", 0, none, false, false,
      [⟨.selfRef, .elided 0⟩, ⟨.selfMut, .named 7⟩], [⟨.ref, .elided 0⟩], [], "x"⟩ = true ∧
    flowOk ⟨"T::into_inner", 1, "into_inner", 2, 3, .inherent, false, false, false, none, [], "", 0, none, false, false,
      [⟨.selfMut, .named 7⟩], [⟨.ref, .named 7⟩], [], "x"⟩ = true ∧
    flowOk ⟨"T::get", 1, "get", 2, 3, .inherent, false, false, false, none, [], "", 0, none, false, false,
      [⟨.selfRef, .elided 0⟩, ⟨.selfOther, .named 7⟩], [⟨.ref, .named 7⟩], [], "x"⟩ = false := by
  decide

/-- `bitwise_copy_requires_copy` is exercised by real rows (8: both vector types, safe and unsafe,
    name and body rule), and rejects the seeded defect: the same row under `T: Clone`. -/
example :
    (pubFns.filter needsCopy).length = 8 ∧ (pubFns.filter bodyDuplicates).length = 7 ∧
    (pubFns.filter fun f => f.bounds.contains (f.elemParam, key% "Copy")).length ≥ 8 ∧
    bitwiseCopyOk ⟨"vecs::inline::InlineVec::copy", key% "vecs::inline::InlineVec::copy", "copy",
      key% "copy", key% "vecs::inline::InlineVec", .inherent, false, false, false, none,
      [(key% "T", key% "Clone")], "T: Clone", key% "T", some "copy_from_nonoverlapping", true, true,
      [⟨.selfRef, .elided 0⟩], [], [], "x"⟩ = false ∧
    bitwiseCopyOk ⟨"vecs::thin::ThinVec::from_slice", key% "vecs::thin::ThinVec::from_slice", "from_slice",
      key% "from_slice", key% "vecs::thin::ThinVec", .inherent, false, false, false, none,
      [(key% "T", key% "Clone")], "T: Clone", key% "T", some "copy_from", true, true,
      [⟨.argRef, .elided 0⟩], [], [], "x"⟩ = false := by
  decide +kernel

/-- The declared bound is what makes `borrow_deserialize<'de: 'a, 'a, …>` pass. -/
example :
    flowOk ⟨"bytes::serde::borrow_deserialize", key% "bytes::serde::borrow_deserialize",
      "borrow_deserialize", key% "borrow_deserialize", key% "bytes::serde", .free, false, false, false, none, [], "", 0, none, false, false,
      [⟨.argOther, .named (key% "'de")⟩], [⟨.hip, .named (key% "'a")⟩],
      [(.named (key% "'de"), .named (key% "'a"))], "x"⟩ = true ∧
    flowOk ⟨"bytes::serde::borrow_deserialize", key% "bytes::serde::borrow_deserialize",
      "borrow_deserialize", key% "borrow_deserialize", key% "bytes::serde", .free, false, false, false, none, [], "", 0, none, false, false,
      [⟨.argOther, .named (key% "'de")⟩], [⟨.hip, .named (key% "'a")⟩], [], "x"⟩ = false := by
  decide

/-- The reviewed exceptions are all used, and disjoint from the may-alias names. -/
example : (neverBorrowed.all fun n => pubFns.any fun f => f.key == n && !f.outs.all (tied f)) = true := by
  decide +kernel

end HipVerif.Props.C17
