/-
C06 (conversion doors) — what the functions that turn NON-UTF-8-typed content into a `HipStr`
compute: the lossy constructors always return well-formed UTF-8 and are the identity on
well-formed input; the strict ones accept exactly the well-formed inputs and hand the original
back otherwise; UTF-16 decoding (strict and lossy) yields well-formed UTF-8 and fails exactly on
an unpaired surrogate. Models: `Model/Utf8.lean` (`decodeLossy`, `valid`, `validUpTo`) and
`Model/Utf8Conv.lean`; proofs in `Lemmas/Utf8.lean`, `Lemmas/Utf8Conv.lean`.

Tie to the code: `doordrive` calls every such door of `Gen/Doors.lean` for real and compares it
with its std twin and (through the twin) with these models; the last three theorems state that
doordrive's reviewed call list covers the door table (`Model/DoorCalls.lean`).
-/
import HipVerif.Lemmas.Utf8Conv
import HipVerif.Model.DoorCalls

namespace HipVerif.Props.C06
open HipVerif.Utf8
open HipVerif.Model.Doors
open HipVerif.Gen.Doors (doors)

/-- `from_utf8_lossy` / `to_str_lossy`: whatever bytes come in (any `HipByt`, any Unix
    `OsStr`), the resulting `HipStr` holds well-formed UTF-8. -/
theorem lossy_always_valid (bs : List UInt8) : valid (toStrLossy bs) = true :=
  valid_decodeLossy bs

/-- On well-formed input the lossy constructors return the input unchanged (the case in which
    the implementation may share the source buffer). -/
theorem lossy_identity_on_valid {bs : List UInt8} (h : valid bs = true) : toStrLossy bs = bs :=
  decodeLossy_of_valid h

/-- Conversely the lossy result equals the input ONLY when the input was well-formed: sharing the
    source is justified by nothing weaker (in particular not by equal lengths, see
    `lossy_equal_length_is_not_enough`). -/
theorem lossy_identity_only_on_valid {bs : List UInt8} (h : toStrLossy bs = bs) :
    valid bs = true := by
  have := lossy_always_valid bs
  rwa [h] at this

/-- The seeded change C06-m5 in one line: an ill-formed input whose lossy image has the same
    length (a 4-byte sequence cut after 3 bytes vs. the 3-byte U+FFFD). -/
theorem lossy_equal_length_is_not_enough :
    ∃ bs : List UInt8, valid bs = false ∧ (toStrLossy bs).length = bs.length ∧ toStrLossy bs ≠ bs :=
  ⟨[0xF0, 0x9F, 0xA6], lossy_same_length_counterexample⟩

/-- `to_str` (and `OsStr::to_str`): `Some` exactly on well-formed input. -/
theorem strict_accepts_iff_valid (bs : List UInt8) :
    (toStr bs).isSome = true ↔ valid bs = true := toStr_isSome_iff bs

/-- What `to_str` returns is the input itself, and it is well-formed. -/
theorem strict_some_is_input {bs r : List UInt8} (h : toStr bs = some r) :
    r = bs ∧ valid r = true := toStr_eq_some h

/-- `into_str` (`HipOsStr`, `HipPath`): `Ok` holds the input and is well-formed; `Err` hands the
    ORIGINAL value back and happens only on ill-formed input. -/
theorem into_str_spec (bs : List UInt8) :
    (∀ r, intoStr bs = .ok r → r = bs ∧ valid r = true) ∧
    (∀ e, intoStr bs = .error e → e = bs ∧ valid bs = false) :=
  ⟨fun _ h => intoStr_ok h, fun _ h => intoStr_error h⟩

/-- `from_utf8` / `TryFrom<bytes>`: `Ok` iff well-formed; the error carries the original bytes
    and a `valid_up_to` that is a strict, well-formed, maximal prefix. -/
theorem from_utf8_spec (bs : List UInt8) :
    ((fromUtf8 bs).isOk = true ↔ valid bs = true) ∧
    (∀ r, fromUtf8 bs = .ok r → r = bs ∧ valid r = true) ∧
    (∀ k back, fromUtf8 bs = .error (k, back) →
      back = bs ∧ valid bs = false ∧ k < bs.length ∧ valid (bs.take k) = true ∧
        firstCharLen (bs.drop k) = 0) :=
  ⟨fromUtf8_isOk_iff bs, fun _ h => fromUtf8_ok h, fun _ _ h => fromUtf8_error h⟩

/-- `from_utf16`: a successful result is well-formed UTF-8. -/
theorem utf16_strict_valid {v : List UInt16} {bs : List UInt8} (h : decodeUtf16 v = some bs) :
    valid bs = true := valid_decodeUtf16 h

/-- `from_utf16_lossy`: always well-formed UTF-8. -/
theorem utf16_lossy_valid (v : List UInt16) : valid (decodeUtf16Lossy v) = true :=
  valid_decodeUtf16Lossy v

/-- `from_utf16` fails exactly when some surrogate is unpaired (a low one not preceded by a
    high one, or a high one not followed by a low one). -/
theorem utf16_strict_none_iff_unpaired (v : List UInt16) :
    decodeUtf16 v = none ↔ hasUnpairedSurrogate false v = true := decodeUtf16_none_iff v

/-- Where the strict decoder succeeds the lossy one returns the same string. -/
theorem utf16_lossy_eq_strict {v : List UInt16} {bs : List UInt8} (h : decodeUtf16 v = some bs) :
    decodeUtf16Lossy v = bs := decodeUtf16Lossy_eq_of_some h

/-! ### doordrive covers the door table -/

/- Evaluated sanity check: the reviewed lists are keys of real row names. -/
#guard (doorCalls ++ doorSkips).all fun k => doors.any fun d => d.key == k

/-- Every safe door through which non-UTF-8-typed data reaches a `HipStr`, and every safe door
    into `HipOsStr`/`HipPath`, is called by doordrive or is on its reasoned skip list. -/
theorem conv_doors_covered : uncoveredDoors = [] := by decide +kernel

/-- The lossy constructors (`lossyFns`) and the fallible bytes -> str / os -> str conversions
    are CALLED by doordrive (a skip is not accepted): a new name on the reviewed `lossyFns`
    list cannot appear without a differential. -/
theorem conv_must_doors_called : uncalledMustDoors = [] := by decide +kernel

/-- In particular every row whose simple name is on `lossyFns` is in the call table. -/
theorem conv_lossy_fns_called :
    ∀ d ∈ doors, d.isUnsafe = false → d.producesStr = true → d.simpleKey ∈ lossyFns →
      (∀ c ∈ d.inputs, c = .strLike ∨ c = .scalar) ∨ d.key ∈ doorCalls := by
  have h : (doors.all fun d =>
      d.isUnsafe || !d.producesStr || !lossyFns.contains d.simpleKey || d.inputs.all strInputOk ||
        doorCalls.contains d.key) = true := by decide +kernel
  intro d hd hu hp hl
  have := (List.all_eq_true.mp h) d hd
  simp only [hu, hp, Bool.not_true, Bool.false_or, Bool.or_eq_true, Bool.not_eq_eq_eq_not,
    List.contains_eq_mem, decide_eq_true_eq, decide_eq_false_iff_not, List.all_eq_true,
    strInputOk, beq_iff_eq] at this
  rcases this with (h1 | h1) | h1
  · exact absurd hl h1
  · exact Or.inl h1
  · exact Or.inr h1

/-- No stale entries: every reviewed call / skip names a row that needs a differential. -/
theorem conv_calls_not_stale : staleDoorCalls = [] := by decide +kernel

/-! ### Non-vacuity -/

example : (doors.filter needsDifferential).length ≥ 60 ∧ (doors.filter mustBeCalled).length ≥ 12 ∧
    doorCalls.length ≥ 60 := by decide +kernel

example : decodeUtf16 [0x61, 0xD83E, 0xDD80] = some [0x61, 0xF0, 0x9F, 0xA6, 0x80] ∧
    decodeUtf16 [0xD83E] = none ∧ hasUnpairedSurrogate false [0xDD80, 0xD83E] = true ∧
    toStr [0xC3, 0xA9] = some [0xC3, 0xA9] ∧ toStr [0xC3] = none ∧
    (match intoStr [0xF0, 0x9F, 0xA6] with | .error e => e == [0xF0, 0x9F, 0xA6] | .ok _ => false) = true ∧
    (match fromUtf8 [0x61, 0xF0, 0x9F, 0xA6] with
      | .error (k, e) => k == 1 && e == [0x61, 0xF0, 0x9F, 0xA6] | .ok _ => false) = true := by decide

end HipVerif.Props.C06
