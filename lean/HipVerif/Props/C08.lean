/-
C08 — Range and sub-slice APIs are total and agree with std indexing.

The functions below (`Gen.Ranges.*`) are REGENERATED from /repo/src on every run by the
translator; these theorems are therefore re-checked against what the code says now.
-/
import HipVerif.Gen.Ranges
import HipVerif.Spec.Range

namespace HipVerif.Props.C08
open HipVerif.RangeTy HipVerif.Gen.Ranges HipVerif.Spec.Range

/-- `simplify_range_mono` (behind every `slice`/`try_slice`) never overflows, wraps or
hits undefined behaviour, for ANY bounds and length. -/
theorem simplify_total (s e : Bound) (len : Nat) :
    simplifyRangeMono s e len ≠ .overflow ∧ simplifyRangeMono s e len ≠ .ub := by
  have hU : U = 18446744073709551616 := rfl
  cases s <;> cases e <;> simp only [simplifyRangeMono, R.pure_eq, R.bind_ok, R.pure_eq, R.bind_ok] <;> (repeat' split) <;> simp_all

/-- `try_slice` accepts a range exactly when std's checked indexing (`get`) does, with the
same half-open range — for all bound shapes, all bound values up to `usize::MAX`, all
lengths a slice can have. -/
theorem simplify_iff (s e : Bound) (len a b : Nat)
    (hs : Bound.fits s) (he : Bound.fits e) (hlen : len ≤ isizeMax) :
    simplifyRangeMono s e len = .ok (a, b) ↔ stdGet s e len = some (a, b) := by
  have hU : U = 18446744073709551616 := rfl
  cases s <;> cases e <;>
    simp only [simplifyRangeMono, R.pure_eq, R.bind_ok, stdGet, startIdx, endIdx, Bound.fits, isizeMax, satAdd] at * <;>
    grind

/-- When `try_slice` rejects a range, the error names the bound that failed, in the
documented precedence (start out of bounds, then end out of bounds, then start > end), and
reports the requested bounds (an overflowing `n + 1` is reported saturated). -/
theorem simplify_err_names (s e : Bound) (len a b : Nat) (k : SliceErrorKind)
    (hs : Bound.fits s) (he : Bound.fits e) (hlen : len ≤ isizeMax)
    (h : simplifyRangeMono s e len = .err (a, b, k)) :
    a = min (startIdx s) (U - 1) ∧ b = min (endIdx len e) (U - 1) ∧
    (k = .startOutOfBounds ↔ a > len) ∧
    (k = .endOutOfBounds ↔ (a ≤ len ∧ b > len)) ∧
    (k = .startGreaterThanEnd ↔ (a ≤ len ∧ b ≤ len ∧ a > b)) := by
  have hU : U = 18446744073709551616 := rfl
  cases s <;> cases e <;>
    simp only [simplifyRangeMono, R.pure_eq, R.bind_ok, startIdx, endIdx, Bound.fits, isizeMax, satAdd] at * <;>
    grind

/-- `try_slice` either accepts or rejects: there is no third outcome. -/
theorem simplify_ok_or_err (s e : Bound) (len : Nat) :
    (∃ r, simplifyRangeMono s e len = .ok r) ∨ (∃ x, simplifyRangeMono s e len = .err x) := by
  have hU : U = 18446744073709551616 := rfl
  cases s <;> cases e <;> simp only [simplifyRangeMono, R.pure_eq, R.bind_ok, R.pure_eq, R.bind_ok] <;> (repeat' split) <;> simp_all

/-- The vectors' range normalisation (`drain`, `try_drain`, `extend_from_within`) accepts
exactly the ranges `Vec` accepts, and never overflows. -/
theorem vec_range_iff (s e : Bound) (len a b : Nat)
    (hs : Bound.fits s) (he : Bound.fits e) (hlen : len ≤ isizeMax) :
    rangeMono s e len = .ok (a, b) ↔ vecRange s e len = some (a, b) := by
  have hU : U = 18446744073709551616 := rfl
  cases s <;> cases e <;>
    simp only [rangeMono, R.pure_eq, R.ite_bind, R.bind_ok, R.bind_err, vecRange, startIdx, endIdx, Bound.fits, isizeMax,
      ofExcept_okOr_checkedAdd] at * <;>
    grind

/-- … and it is total. -/
theorem vec_range_total (s e : Bound) (len : Nat) :
    rangeMono s e len ≠ .overflow ∧ rangeMono s e len ≠ .ub := by
  have hU : U = 18446744073709551616 := rfl
  cases s <;> cases e <;>
    simp only [rangeMono, R.pure_eq, R.ite_bind, R.bind_ok, R.bind_err, ofExcept_okOr_checkedAdd] <;> grind

/-- `try_slice_ref` accepts exactly the slices lying address-wise inside the value and
returns that sub-range; it never overflows or invokes undefined behaviour. -/
theorem range_of_iff (whole slice : Slice) (o e : Nat)
    (hw : whole.ptr + whole.len < U) (hsl : slice.ptr + slice.len < U)
    (hwl : whole.len ≤ isizeMax) (hsll : slice.len ≤ isizeMax) :
    tryRangeOf whole slice = .ok (some (o, e)) ↔
      (whole.ptr ≤ slice.ptr ∧ slice.ptr + slice.len ≤ whole.ptr + whole.len ∧
        o = slice.ptr - whole.ptr ∧ e = o + slice.len) := by
  have hU : U = 18446744073709551616 := rfl
  simp only [tryRangeOf, R.pure_eq, unwrap_tryInto_offsetFrom, uadd, R.ite_bind, R.bind_ok, R.bind_ub,
    R.bind_overflow, ptrRange, isizeMax] at *
  grind

/-- `try_slice_ref` is total: `Some` or `None`, nothing else. -/
theorem range_of_total (whole slice : Slice)
    (hw : whole.ptr + whole.len < U) (hsl : slice.ptr + slice.len < U)
    (hwl : whole.len ≤ isizeMax) (hsll : slice.len ≤ isizeMax) :
    ∃ r, tryRangeOf whole slice = .ok r := by
  have hU : U = 18446744073709551616 := rfl
  have key : tryRangeOf whole slice ≠ .overflow ∧ tryRangeOf whole slice ≠ .ub ∧
      ∀ x, tryRangeOf whole slice ≠ .err x := by
    simp only [tryRangeOf, R.pure_eq, unwrap_tryInto_offsetFrom, uadd, R.ite_bind, R.bind_ok,
      R.bind_ub, R.bind_overflow, ptrRange, isizeMax] at *
    grind
  cases h : tryRangeOf whole slice with
  | ok r => exact ⟨r, rfl⟩
  | err x => exact absurd h (key.2.2 x)
  | overflow => exact absurd h key.1
  | ub => exact absurd h key.2.1

/-! Non-vacuity: the hypotheses are met by ordinary inputs, and the boundary case the
unit tests never sample (`..=usize::MAX`) is rejected as an end-out-of-bounds error. -/

example : Bound.fits (.included (U - 1)) := by
  show U - 1 < U
  decide

example : (5 : Nat) ≤ isizeMax := by decide

example : simplifyRangeMono .unbounded (.included (U - 1)) 5 = .err (0, U - 1, .endOutOfBounds) := by
  decide

example : simplifyRangeMono (.excluded (U - 1)) .unbounded 5 = .err (U - 1, 5, .startOutOfBounds) := by
  decide

example : tryRangeOf ⟨1000, 10⟩ ⟨1003, 4⟩ = .ok (some (3, 7)) := by decide
example : tryRangeOf ⟨1000, 10⟩ ⟨1008, 4⟩ = .ok none := by decide

end HipVerif.Props.C08
