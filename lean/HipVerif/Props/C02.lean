/-
C02 — Handles are independent: no edit or drop is visible through another handle.
-/
import HipVerif.Lemmas.CoreRun
import HipVerif.Lemmas.SpecFrame
import HipVerif.Lemmas.CoreExtraB
import HipVerif.Audit.Reexport

namespace HipVerif.Props.C02
open HipVerif.Core HipVerif.Spec.Std

/-- **Frame.** Whatever is done to one value — in-place edit, push, truncate, mutate guard,
conversion into a Vec, drop — every OTHER live value (its clone, a slice of it, the value it was
sliced from…) reads back exactly the same bytes afterwards.  `writes op` are the slots the
operation creates, modifies or consumes. -/
theorem frame (cfg : Cfg) (s : State) (op : Op) (k : Nat) (w : Wf cfg s) (hok : OpOk s op)
    (hk : k ∉ writes op) : sget (abs (step cfg s op).1) k = sget (abs s) k := by
  have := spec_frame cfg.icap s.srcs (abs s) op (retFlag (step cfg s op).2.ret) k hk
  rw [refines cfg s op w hok] at this
  exact this

/-- The std buffers values borrow from are never written: not by one step, not by any history. -/
theorem borrow_untouched (cfg : Cfg) (s : State) (ops : List Op) : (run cfg s ops).1.srcs = s.srcs :=
  srcs_run cfg ops s

/-- Owned slices and clones stay fully readable after their source is dropped (or consumed by
`into_vec`, or rewritten through a `mutate` guard): a special case of `frame`, and the invariant
(the view lies in a LIVE owner's buffer) still holds for them. -/
theorem survives_source_drop (cfg : Cfg) (s : State) (h k : Nat) (w : Wf cfg s) (hk : k ≠ h) :
    sget (abs (step cfg s (.drop h)).1) k = sget (abs s) k ∧ Wf cfg (step cfg s (.drop h)).1 :=
  ⟨frame cfg s (.drop h) k w trivial (by simp [writes, hk]), wf_step cfg s _ w⟩

/-- `as_mut_slice` (and `as_mut_str`, `as_mut_ptr`) returning `Some` means the value is not borrowed
and NO other live value shares its buffer. -/
reexport HipVerif.Core.asMut_grant_sound as mut_grant_sound

/-- a refusal leaves everything unchanged -/
reexport HipVerif.Core.asMut_refused_unchanged as mut_refused_unchanged

/-- `into_vec` / `into_string` succeed exactly for the sole owner at offset 0; otherwise the value is
handed back unchanged. -/
reexport HipVerif.Core.intoVec_ok_iff as into_vec_ok_iff
reexport HipVerif.Core.intoVec_refused_unchanged as into_vec_refused_unchanged

/-- an append happens in place only when no other value shares the buffer -/
reexport HipVerif.Core.push_in_place_iff_sole as push_in_place_iff_sole

/-- a uniqueness test that answers `true` on a live buffer means exactly one handle refers to it -/
reexport HipVerif.Core.ownerUnique_sole as unique_test_sound

/-! Non-vacuity: in the history below slot 2 is an offset slice of slot 0 sharing its buffer; after
slot 0 is edited in place through `to_mut_slice` and dropped, slot 2 still reads its bytes. -/

private def cfg0 : Cfg := { backend := .rc, ceil := 9, debug := false, icap := 23 }
private def ops0 : List Op :=
  [.fromSlice 0 (List.replicate 40 1), .slice 0 2 (.included 5) (.excluded 35), .toMutWrite 0 7 9, .drop 0]

example : sget (abs (run cfg0 (init [] 3) ops0).1) 2 = some (List.replicate 30 1) := by decide

end HipVerif.Props.C02
