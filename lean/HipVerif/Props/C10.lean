/-
C10 — concat/join/repeat equal std and never expose bytes the caller did not supply.

`Gen.Concat` (which assertions guard the copy pass) is REGENERATED from src/bytes.rs on every
run; the adversarial theorems are instantiated with it, so removing an assertion from the
source breaks `concat_checks_present` / `join_checks_present` by name.
(`repeat` is an operation of the Core state machine: its agreement with std is part of the
C01 refinement.)
-/
import HipVerif.Gen.Concat
import HipVerif.Lemmas.Concat

namespace HipVerif.Props.C10
open HipVerif.Concat HipVerif.ConcatTy

/-- The source of `concat` guards every copy and checks that the copy pass filled the buffer. -/
theorem concat_checks_present :
    Gen.Concat.concat.perPiece ≥ 1 ∧ Gen.Concat.concat.finalEq = true := by decide

/-- The source of `join` guards its three copies and checks that the copy pass filled the buffer. -/
theorem join_checks_present :
    Gen.Concat.join.perPiece ≥ 3 ∧ Gen.Concat.join.finalEq = true := by decide

/-- The separator of `join`, `join_slices` and `HipStr::join` is read through `AsRef` exactly ONCE (the
length pass and the copy pass use the same slice): a separator whose `as_ref()` answers differently
on successive calls cannot make the buffer be sized with one answer and filled with another. (The
model's `join` takes the separator as a plain byte list — this is the fact that justifies it.) -/
theorem sep_evaluated_once :
    Gen.Concat.join.sepEvals = 1 ∧ Gen.Concat.joinSlices.sepEvals = 1 ∧ Gen.Concat.strJoin.sepEvals = 1 := by
  decide

private theorem capacity_ge (icap n : Nat) : n ≤ capacityFor icap n := by
  unfold capacityFor; split <;> omega

/-- Generic form: a guarded two-pass copy of chunk list `cs` into a buffer sized for `newLen`
either panics or returns exactly `cs.flatten`, and then `total cs = newLen`. -/
theorem guarded_pass (ck : Checks) (icap newLen : Nat) (cs : List (List UInt8)) (hf : ck.finalEq = true) :
    let dst := List.replicate (capacityFor icap newLen) none
    finish ck icap newLen (cs.foldl (copyChunk true newLen) (.run dst 0)) = .panic ∨
    (finish ck icap newLen (cs.foldl (copyChunk true newLen) (.run dst 0)) =
        .value (cs.flatten.map some) (decide (newLen > icap)) ∧ total cs = newLen) := by
  intro dst
  have hcap := capacity_ge icap newLen
  rcases fold_copy true newLen cs dst 0 [] (by simp) (by simp) rfl (by simp) with h | h | ⟨dst', h, hl, hb, hfin, ht⟩
  · left; rw [h.1]; rfl
  · exfalso
    have := h.2.2 rfl
    simp [dst] at this
    omega
  · rw [h]
    simp only [finish, hf, Bool.true_and, Nat.zero_add]
    by_cases heq : total cs = newLen
    · right
      refine ⟨?_, heq⟩
      simp only [heq, bne_self_eq_false, Bool.false_eq_true, if_false]
      rw [← heq]
      simp only [Nat.zero_add, List.nil_append] at ht
      rw [ht]
    · left
      simp [heq]

/-- `concat` with ANY iterator / `Clone` / `AsRef` misbehaviour (`ps₁` seen by the length pass,
`ps₂` by the copy pass): the call returns the empty value when the announced length is zero,
and otherwise either panics or returns exactly the concatenation of the pieces actually copied
— and then those pieces have exactly the announced total length. -/
theorem concat_adversarial (icap : Nat) (ps₁ ps₂ : List (List UInt8)) :
    (total ps₁ = 0 → concat Gen.Concat.concat icap ps₁ ps₂ = .value [] false) ∧
    (total ps₁ ≠ 0 →
      concat Gen.Concat.concat icap ps₁ ps₂ = .panic ∨
      (concat Gen.Concat.concat icap ps₁ ps₂ =
          .value (ps₂.flatten.map some) (decide (total ps₁ > icap)) ∧ total ps₂ = total ps₁)) := by
  constructor
  · intro h; simp [concat, h]
  · intro h
    have hck := concat_checks_present
    have hp : decide (Gen.Concat.concat.perPiece ≥ 1) = true := by simpa using hck.1
    simp only [concat, h, if_false, hp]
    exact guarded_pass _ icap (total ps₁) ps₂ hck.2

/-- No byte of a returned value is uninitialised or foreign: every exposed byte was supplied by
the caller during the copy pass. -/
theorem concat_no_uninit (icap : Nat) (ps₁ ps₂ : List (List UInt8)) (bs : List (Option UInt8)) (hp : Bool)
    (h : concat Gen.Concat.concat icap ps₁ ps₂ = .value bs hp) : ∀ b ∈ bs, b.isSome = true := by
  by_cases h0 : total ps₁ = 0
  · have := (concat_adversarial icap ps₁ ps₂).1 h0
    rw [this] at h; cases h; intro b hb; cases hb
  · rcases (concat_adversarial icap ps₁ ps₂).2 h0 with hpanic | ⟨hv, _⟩
    · rw [hpanic] at h; cases h
    · rw [hv] at h; cases h
      intro b hb
      simp only [List.mem_map] at hb
      obtain ⟨x, _, rfl⟩ := hb
      rfl

/-- `concat` never writes past its buffer. -/
theorem concat_no_oob (icap : Nat) (ps₁ ps₂ : List (List UInt8)) :
    concat Gen.Concat.concat icap ps₁ ps₂ ≠ .oob := by
  by_cases h0 : total ps₁ = 0
  · rw [(concat_adversarial icap ps₁ ps₂).1 h0]; intro h; cases h
  · rcases (concat_adversarial icap ps₁ ps₂).2 h0 with h | ⟨h, _⟩ <;> rw [h] <;> intro h' <;> cases h'

/-- With a well-behaved iterator `concat` returns what std's `[pieces].concat()` returns, in
normalised representation (heap exactly when longer than the inline capacity). -/
theorem concat_consistent (icap : Nat) (ps : List (List UInt8)) :
    concat Gen.Concat.concat icap ps ps =
      .value ((specConcat ps).map some) (decide ((specConcat ps).length > icap)) := by
  by_cases h0 : total ps = 0
  · rw [(concat_adversarial icap ps ps).1 h0]
    have hl : (specConcat ps).length = 0 := by rw [specConcat, ← total_eq_flatten_length]; exact h0
    have : specConcat ps = [] := List.eq_nil_of_length_eq_zero hl
    simp [this]
  · have hck := concat_checks_present
    have hp : decide (Gen.Concat.concat.perPiece ≥ 1) = true := by simpa using hck.1
    simp only [concat, h0, if_false, hp, specConcat]
    rcases fold_copy true (total ps) ps (List.replicate (capacityFor icap (total ps)) none) 0 []
        (by simp) (by simp) rfl (by simp) with h | h | ⟨dst', h, hl, hb, hfin, ht⟩
    · exfalso; have := h.2.2; omega
    · exfalso
      have := h.2.1
      have hc := capacity_ge icap (total ps)
      simp at this; omega
    · rw [h]
      simp only [finish, hck.2, Bool.true_and, Nat.zero_add, bne_self_eq_false, Bool.false_eq_true, if_false]
      simp only [Nat.zero_add, List.nil_append] at ht
      rw [ht, total_eq_flatten_length]
      first | rfl | congr

/-- `join` with ANY misbehaviour (different pieces, fewer or more items on the second traversal):
empty value when the first traversal saw no item; otherwise a panic, or exactly the pieces
actually copied joined by the separator, whose total length then is the announced one. -/
theorem join_adversarial (icap : Nat) (ps₁ ps₂ : List (List UInt8)) (sep : List UInt8) :
    (ps₁ = [] → join Gen.Concat.join icap ps₁ ps₂ sep = .value [] false) ∧
    (ps₁ ≠ [] →
      let newLen := (ps₁.length - 1) * sep.length + total ps₁
      join Gen.Concat.join icap ps₁ ps₂ sep = .panic ∨
      (join Gen.Concat.join icap ps₁ ps₂ sep =
          .value ((specJoin ps₂ sep).map some) (decide (newLen > icap)) ∧
        total (joinChunks sep ps₂) = newLen)) := by
  constructor
  · intro h; simp [join, h]
  · intro h newLen
    have hck := join_checks_present
    have hp : decide (Gen.Concat.join.perPiece ≥ 3) = true := by simpa using hck.1
    have hlen : ps₁.length ≠ 0 := by
      intro hl; exact h (List.eq_nil_of_length_eq_zero hl)
    have key := guarded_pass Gen.Concat.join icap newLen (joinChunks sep ps₂) hck.2
    cases ps₂ with
    | nil =>
      simp only [join, hlen, if_false, hp, specJoin]
      simpa [joinChunks, List.intercalate] using key
    | cons first rest =>
      simp only [join, hlen, if_false, hp, specJoin]
      rw [foldl_sep_piece]
      have : (rest.flatMap fun p => [sep, p]).foldl (copyChunk true newLen)
            (copyChunk true newLen (.run (List.replicate (capacityFor icap newLen) none) 0) first) =
          (joinChunks sep (first :: rest)).foldl (copyChunk true newLen)
            (.run (List.replicate (capacityFor icap newLen) none) 0) := by
        simp [joinChunks]
      rw [this, ← joinChunks_flatten]
      exact key

/-- `join` never exposes an uninitialised byte. -/
theorem join_no_uninit (icap : Nat) (ps₁ ps₂ : List (List UInt8)) (sep : List UInt8)
    (bs : List (Option UInt8)) (hp : Bool)
    (h : join Gen.Concat.join icap ps₁ ps₂ sep = .value bs hp) : ∀ b ∈ bs, b.isSome = true := by
  by_cases h0 : ps₁ = []
  · rw [(join_adversarial icap ps₁ ps₂ sep).1 h0] at h; cases h; intro b hb; cases hb
  · rcases (join_adversarial icap ps₁ ps₂ sep).2 h0 with hpanic | ⟨hv, _⟩
    · rw [hpanic] at h; cases h
    · rw [hv] at h; cases h
      intro b hb
      simp only [List.mem_map] at hb
      obtain ⟨x, _, rfl⟩ := hb
      rfl

/-- `join` never writes past its buffer. -/
theorem join_no_oob (icap : Nat) (ps₁ ps₂ : List (List UInt8)) (sep : List UInt8) :
    join Gen.Concat.join icap ps₁ ps₂ sep ≠ .oob := by
  by_cases h0 : ps₁ = []
  · rw [(join_adversarial icap ps₁ ps₂ sep).1 h0]; intro h; cases h
  · rcases (join_adversarial icap ps₁ ps₂ sep).2 h0 with h | ⟨h, _⟩ <;> rw [h] <;> intro h' <;> cases h'

/-- With a well-behaved iterator `join` returns what std's `[pieces].join(sep)` returns, in
normalised representation. -/
theorem join_consistent (icap : Nat) (ps : List (List UInt8)) (sep : List UInt8) :
    join Gen.Concat.join icap ps ps sep =
      .value ((specJoin ps sep).map some) (decide ((specJoin ps sep).length > icap)) := by
  by_cases h0 : ps = []
  · subst h0; simp [join, specJoin, List.intercalate]
  · have hl : (specJoin ps sep).length = (ps.length - 1) * sep.length + total ps := by
      rw [specJoin, ← joinChunks_flatten, ← total_eq_flatten_length, total_joinChunks sep ps h0]
    rcases (join_adversarial icap ps ps sep).2 h0 with hpanic | ⟨hv, _⟩
    · -- a consistent traversal cannot panic: the chunks add up to the announced length
      exfalso
      have hck := join_checks_present
      have hp : decide (Gen.Concat.join.perPiece ≥ 3) = true := by simpa using hck.1
      have hlen : ps.length ≠ 0 := fun hl' => h0 (List.eq_nil_of_length_eq_zero hl')
      have hnl := total_joinChunks sep ps h0
      rcases fold_copy true ((ps.length - 1) * sep.length + total ps) (joinChunks sep ps)
          (List.replicate (capacityFor icap ((ps.length - 1) * sep.length + total ps)) none) 0 []
          (by simp) (by simp) rfl (by simp) with h | h | ⟨dst', h, hl', hb, hfin, ht⟩
      · have := h.2.2; omega
      · have := h.2.1
        have hc := capacity_ge icap ((ps.length - 1) * sep.length + total ps)
        simp at this; omega
      · simp only [join, hlen, if_false, hp] at hpanic
        cases ps with
        | nil => exact h0 rfl
        | cons first rest =>
          simp only [] at hpanic
          rw [foldl_sep_piece] at hpanic
          have e : (rest.flatMap fun p => [sep, p]).foldl
                (copyChunk true ((List.length (first :: rest) - 1) * sep.length + total (first :: rest)))
                (copyChunk true ((List.length (first :: rest) - 1) * sep.length + total (first :: rest))
                  (.run (List.replicate (capacityFor icap
                    ((List.length (first :: rest) - 1) * sep.length + total (first :: rest))) none) 0) first) =
              (joinChunks sep (first :: rest)).foldl
                (copyChunk true ((List.length (first :: rest) - 1) * sep.length + total (first :: rest)))
                (.run (List.replicate (capacityFor icap
                  ((List.length (first :: rest) - 1) * sep.length + total (first :: rest))) none) 0) := by
            simp [joinChunks]
          rw [e, h] at hpanic
          simp [finish, hck.2, hnl] at hpanic
    · rw [hv, hl]

/-! Non-vacuity: the adversarial theorems are about real misbehaviour.  A second pass that is
SHORTER than announced (the case that used to expose uninitialised memory) now panics; a longer
one panics; one with the same total but different content returns the second-pass bytes. -/

example : concat Gen.Concat.concat 23 [[1, 2]] [[1]] = .panic := by decide
example : concat Gen.Concat.concat 23 [[1]] [[1, 2]] = .panic := by decide
example : concat Gen.Concat.concat 23 [[1, 2]] [[7], [8]] = .value [some 7, some 8] false := by decide
example : join Gen.Concat.join 23 [[1], [2]] [[1]] [9] = .panic := by decide
example : join Gen.Concat.join 23 [[1], [2]] [] [9] = .panic := by decide
example : join Gen.Concat.join 23 [[1], [2]] [[5], [6]] [9] = .value [some 5, some 9, some 6] false := by decide
/-- without the final check the shorter second pass WOULD expose an uninitialised byte -/
example : concat { perPiece := 1, finalEq := false, loc := "" } 23 [[1, 2]] [[1]] = .value [some 1, none] false := by
  decide

end HipVerif.Props.C10
