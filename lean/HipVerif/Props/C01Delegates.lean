/-
C01 / C06 tie — "four types, one state machine": `HipStr`, `HipOsStr` and `HipPath` are
`HipByt` plus guards.

Decided over `Gen/Delegates.lean` (what the body of every wrapper fn does with the wrapped
value, and the wrapper fns the Core differential calls; regenerated from /repo/src on every
run). The reviewed inputs (`renamed`, `renamedRow`, `preserving`, `reviewed`) and the Bool row
predicates are in `Model/Delegates.lean`. These theorems justify modelling the three wrappers as
the `HipByt` state machine of §6.0 with the `strStep` guards on top: every wrapper fn either
calls the same-named `HipByt` fn with its arguments unchanged, or checks first, or is a reviewed
composition covered by another table. When a theorem breaks, `tables_driver` command
`rows_c01d` lists the falsifying rows with `file:line`.
-/
import HipVerif.Model.Delegates

namespace HipVerif.Props.C01
open HipVerif.Model.Delegates
open HipVerif.Gen.Delegates (rows driven)

/- Evaluated (not kernel-checked) sanity check of the generated numeric keys. -/
#guard delegateKeysOk

/-- **Pure delegates delegate to the right fn, arguments untouched.** Every wrapper fn whose body
    is a single call on the wrapped value calls the fn of the wrapped type with the SAME name —
    or the one listed in the reviewed renaming (`push_str → push_slice`, `as_str → as_slice`,
    `into_string → into_vec`, …) — and hands it every parameter exactly once, unchanged and in
    order (modulo `as_bytes()`-style re-typing of a typed argument). So its byte-level behaviour
    IS that `HipByt` fn's. -/
theorem delegates_named_ok :
    ∀ r ∈ rows, r.shape = .delegate →
      r.argsUnchanged = true ∧ ∃ t, r.targets = [t] ∧ t.1 = expectedTarget r := by
  have h : (rows.all delegateOk) = true := by decide +kernel
  intro r hr hs
  have := (List.all_eq_true.mp h) r hr
  simp only [delegateOk, hs, bne_self_eq_false, Bool.false_or, Bool.and_eq_true] at this
  refine ⟨this.1, ?_⟩
  have h2 := this.2
  match hts : r.targets with
  | [t] => exact ⟨t, rfl, by simpa [hts] using h2⟩
  | [] => simp [hts] at h2
  | _ :: _ :: _ => simp [hts] at h2

/-- **Bytes are only (re)typed, or mutated in place, after a valid-by-construction delegate or a
    guard.** Every SAFE wrapper fn that applies the tuple constructor, uses an unchecked
    re-typing constructor (`from_utf8_unchecked`, `from_encoded_bytes_unchecked`, `transmute`),
    or takes `&mut self`, is `guarded` (checks first), or is a pure delegate to a
    validity-preserving fn of the wrapped type with typed arguments only (never raw bytes, never
    a byte index: the slice/truncate family is not in `preserving`), or is a reviewed
    composition. -/
theorem retyping_only_after_delegate_or_guard :
    ∀ r ∈ rows, touchesValidity r = true → r.isUnsafe = false →
      r.shape = .guarded ∨
      (r.shape = .delegate ∧ (∃ t, r.targets = [t] ∧ t.1 ∈ preserving) ∧
        ∀ c ∈ r.argClasses, classTyped r.wrapper c = true) ∨
      ((r.shape = .composed ∨ r.shape = .other) ∧ ∃ e ∈ reviewed, e.1 = r.key) := by
  have h : (rows.all retypeOk) = true := by decide +kernel
  intro r hr ht hu
  have := (List.all_eq_true.mp h) r hr
  simp only [retypeOk, ht, hu, Bool.not_true, Bool.false_or, Bool.or_eq_true, Bool.and_eq_true,
    beq_iff_eq, List.all_eq_true, List.any_eq_true] at this
  rcases this with (h1 | h1) | h1
  · exact Or.inl h1
  · refine Or.inr (Or.inl ⟨h1.1.1, ?_, h1.2⟩)
    have h2 := h1.1.2
    match hts : r.targets with
    | [t] => exact ⟨t, rfl, by simpa [hts] using h2⟩
    | [] => simp [hts] at h2
    | _ :: _ :: _ => simp [hts] at h2
  · exact Or.inr (Or.inr h1)

/-- **No unreviewed shape.** Every wrapper fn that is neither a pure delegate nor guarded is in
    the reviewed list (with the model that covers it), and every reviewed entry still exists as
    such a row — a new or changed composition breaks this theorem and `rows_c01d` names it. -/
theorem no_unreviewed_shapes :
    (∀ r ∈ rows, r.shape = .composed ∨ r.shape = .other → ∃ e ∈ reviewed, e.1 = r.key) ∧
    staleReviewed = [] := by
  have h : (rows.all shapeReviewed) = true := by decide +kernel
  refine ⟨fun r hr hs => ?_, by decide +kernel⟩
  have := (List.all_eq_true.mp h) r hr
  simp only [shapeReviewed, Bool.or_eq_true, beq_iff_eq, List.any_eq_true] at this
  rcases this with (h1 | h1) | h1
  · rcases hs with h2 | h2 <;> simp [h1] at h2
  · rcases hs with h2 | h2 <;> simp [h1] at h2
  · exact h1

/-- **The differential drives tabulated fns.** Every wrapper fn that the Core differential
    (`harness/src/bin/coredrive.rs`) calls on `HipStr` / `HipOsStr` / `HipPath` is a row of the
    table, so what it exercises is what these theorems classify. -/
theorem wrappers_covered :
    ∀ d ∈ driven, ∃ r ∈ rows, r.wrapper = d.1 ∧ r.simpleKey = d.2.1 := by
  have h : (driven.all fun d => rows.any fun r => r.wrapper == d.1 && r.simpleKey == d.2.1) = true := by
    decide +kernel
  intro d hd
  have := (List.all_eq_true.mp h) d hd
  simpa using this

/-! ### Non-vacuity -/

/-- The table is inhabited in every shape, for every wrapper; the differential drives ≥ 40 fns. -/
example :
    (rows.filter fun r => r.shape == .delegate).length ≥ 100 ∧
    (rows.filter fun r => r.shape == .guarded).length ≥ 8 ∧
    (rows.filter fun r => r.shape == .composed || r.shape == .other).length = reviewed.length ∧
    (rows.filter fun r => touchesValidity r && !r.isUnsafe).length ≥ 80 ∧
    driven.length ≥ 40 := by decide +kernel

/-- Seeded shapes, all rejected:
    * a `truncate` that delegates without the char-boundary guard (in-place cut at a byte index);
    * a safe `slice` wrapper that calls `self.0.slice_unchecked` and wraps the result;
    * a delegate that swaps two arguments / drops one (`argsUnchanged = false`);
    * `push_str` delegating to the wrong fn;
    * a safe constructor wrapping raw bytes (`Self(HipByt::from(bytes))` with a `&[u8]` parameter). -/
example :
    retypeOk ⟨.str, "string::HipStr::truncate", key% "string::HipStr::truncate", key% "truncate", .pub,
      false, .delegate, [(key% "truncate", "truncate")], [], [], [], true, true, false, [], [.scalar], "x"⟩ = false ∧
    retypeOk ⟨.str, "string::HipStr::slice", key% "string::HipStr::slice", key% "slice", .pub,
      false, .delegate, [(key% "slice_unchecked", "slice_unchecked")], [], [], [], true, false, true, [],
      [.scalar], "x"⟩ = false ∧
    delegateOk ⟨.str, "string::HipStr::join_slices", key% "string::HipStr::join_slices", key% "join_slices", .pub,
      false, .delegate, [(key% "join_slices", "join_slices")], [], [], [], false, false, true, [],
      [.strLike, .strLike], "x"⟩ = false ∧
    delegateOk ⟨.str, "string::HipStr::push_str", key% "string::HipStr::push_str", key% "push_str", .pub,
      false, .delegate, [(key% "push", "push")], [], [], [], true, true, false, [], [.strLike], "x"⟩ = false ∧
    retypeOk ⟨.str, "string::HipStr::from_bytes", key% "string::HipStr::from_bytes", key% "from_bytes", .pub,
      false, .delegate, [(key% "from", "from")], [], [], [], true, false, true, [], [.bytesLike], "x"⟩ = false ∧
    shapeReviewed ⟨.str, "string::HipStr::frobnicate", key% "string::HipStr::frobnicate", key% "frobnicate", .pub,
      false, .other, [], [], [], [], false, false, false, [], [], "x"⟩ = false := by
  decide

/-- … while the real `truncate` (guarded) and `push_str` (typed argument, preserving target) pass. -/
example :
    (rows.any fun r => r.key == key% "string::HipStr::truncate" && r.shape == .guarded &&
      r.guards == [.charBoundary]) = true ∧
    (rows.any fun r => r.key == key% "string::HipStr::push_str" && r.shape == .delegate &&
      expectedTarget r == key% "push_slice" && r.argClasses == [.strLike]) = true := by
  decide +kernel

end HipVerif.Props.C01
