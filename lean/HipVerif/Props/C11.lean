import HipVerif.Gen.Wiring

/-!
# C11 — inherited `str` API yields the same pieces as std, each an independent value

std's algorithms are *called*, not re-implemented: what hipstr adds is **wiring** (which std method
each `HipStr` wrapper calls, on what, with which arguments) and **adoption** (each `&str` result
becomes an owned sub-slice of `self`). This file holds the wiring half, proved over
`Gen.Wiring.tables`, which `harness/src/extract/wiring.rs` regenerates from `src/string.rs` and
`src/string/pattern.rs` on every run. The item-by-item tie to the real std is
`harness/src/bin/patdrive.rs`.

-- PLACEHOLDER (orchestrator): the adoption theorems `adopt_content`, `adopt_borrowed_iff`,
-- `adopt_independent` and `iter_items` — about the `adopt` operation of `Model/Core.lean`, i.e. about
-- `slice_ref_unchecked` of a window std guarantees to lie inside the haystack — live in
-- `Props/C11Core.lean`, written by the orchestrator. They are deliberately NOT stated here.
-- `wiring_ok` below is what lets them speak about every inherited method at once: each `&str`
-- component std returns for `m` on `self.as_str()` reaches `self.slice_ref_unchecked` unchanged, and
-- `HipStr::slice_ref_unchecked` hands its bytes to `HipByt::slice_ref_unchecked` of `self.0`.
-/

namespace HipVerif.Props.C11

open HipVerif.Wiring
open HipVerif.Gen.Wiring (tables table)

/-- Every row read from the source is wired correctly (`Model/WiringTy.lean`, `rowOk`):

  * each `HipStr` wrapper named `m` reaches std's method of the SAME name `m` on `self.as_str()` —
    directly, or through `pattern.m([n,] self.as_str())` where the `impl_pat!` arm implementing the
    declaring pattern trait is `fn m(self, [n,] haystack) { haystack.m([n,] self) }` — with the pattern
    and the count passed through unchanged and std's own iterator type as declared item source;
  * every `&str` component of the result is adopted from `self` by `slice_ref_unchecked`
    (`IterWrapper::new(self, …)` for iterators, whose `Adopt` impl for the item type is checked too;
    `self.slice_ref_unchecked(component)` in result order for `trim*`, `strip_*`, `split_once`);
    the index component of `match_indices`/`rmatch_indices` items is passed unchanged;
  * every `impl_pat!` arm method calls the same-named `str` method on its haystack parameter, and the
    arms chain `base ← reverse ← double_ended` so that each pattern trait gets exactly one body per method;
  * allocating methods: `to_lowercase`/`to_uppercase` are `Self::from(self.as_str().m())`,
    `from_utf16*` are `String::m(v)` converted by `into`; `to_ascii_*case`/`repeat` delegate to the
    same-named `HipByt` method on `self.0`;
  * `HipStr::slice_ref_unchecked` passes `slice.as_bytes()` to `self.0.slice_ref_unchecked`. -/
theorem wiring_ok : ∀ r ∈ table, rowOk tables r = true := by
  decide +kernel

/-- `IterWrapper` forwards one to one: `next` is `self.inner.next()` and `next_back` (available only
    when the std iterator is double-ended) is `self.inner.next_back()`, every item being adopted from
    `self.source`, which `IterWrapper::new(source, inner)` stores as given. Hence a `HipStr` iterator
    yields std's items in std's order in forward, backward and mixed iteration. -/
theorem iter_forwarding_ok : forwardingOk tables = true := by
  decide +kernel

/-- Every method DEFINED in an `impl Iterator / DoubleEndedIterator / FusedIterator / ExactSizeIterator
    for IterWrapper` block (not only `next`/`next_back`: any override such as `nth`, `nth_back`, `last`,
    `size_hint`, `count`) forwards to the SAME-named method of the inner std iterator with its arguments
    unchanged, and adopts each yielded `&str` from `self.source`. Stated per row so that a falsified
    instance names the method and its `file:line`. -/
theorem iter_methods_forward_same_name : ∀ f ∈ tables.forwards, fwdOk f = true := by
  decide +kernel

/-- The table has exactly one wrapper row for every method named in the property (`split`, `rsplit`,
    `splitn`, `rsplitn`, `split_terminator`, `split_inclusive`, `split_once`, `matches`,
    `match_indices`, `trim*`, `strip_*`, `lines`, `split_whitespace`, the case conversions, `repeat`,
    `from_utf16*`, and their reverse variants), and an `impl_pat!` invocation of the required level for
    every pattern type of the property's quantifier — so a deleted or renamed wrapper, or a pattern
    type that lost its impl, is noticed rather than silently dropping out of `wiring_ok`. -/
theorem coverage : coverageOk tables = true := by
  decide +kernel

/-- Spelled-out consequence of `wiring_ok` + `coverage` for one method: the row of `rsplitn` exists and
    says `pattern.rsplitn(n, self.as_str())` adopted through `IterWrapper::new(self, …)`, and the
    `ReversePattern` arm body of `rsplitn` is `haystack.rsplitn(n, self)`. -/
theorem rsplitn_wired :
    (∃ r ∈ tables.wrappers, r.name = "rsplitn" ∧ r.callee = "rsplitn" ∧ r.recv = .selfAsStr ∧
        r.patArg = .unchanged ∧ r.countArg = .unchanged ∧ r.adopt = .iterWrapper .selfRef) ∧
    (∃ a ∈ tables.arms, a.trait = "ReversePattern" ∧ a.method = "rsplitn" ∧ a.callee = "rsplitn" ∧
        a.recv = .haystack ∧ a.patArg = .unchanged ∧ a.countArg = .unchanged) := by
  decide +kernel

/-! ## Non-vacuity: the predicates reject wrong wiring -/

/-- The table is not empty and has rows of every kind. -/
example : 55 ≤ table.length ∧ 31 ≤ tables.wrappers.length ∧ 18 ≤ tables.arms.length ∧
    2 ≤ tables.adopts.length ∧ 2 ≤ tables.forwards.length ∧ 7 ≤ tables.invocations.length := by
  decide +kernel

/-- `rsplitn` wired to `splitn` (wrapper level): rejected. -/
example :
    rowOk tables (.wrapper ⟨"rsplitn", .patTrait "ReversePattern", "splitn", .selfAsStr, .unchanged, .unchanged,
      .iter, .iterWrapper .selfRef, [], .iterAssoc "SplitN", "mutant"⟩) = false := by
  decide +kernel

/-- `rsplitn` wired to `splitn` (inside the macro arm): rejected. -/
example :
    rowOk tables (.arm ⟨"reverse", "ReversePattern", "rsplitn", "splitn", .haystack, .unchanged, .unchanged,
      "RSplitN", "core::str::SplitN<Self>", "mutant"⟩) = false := by
  decide +kernel

/-- `trim_end` calling `trim`: rejected. -/
example :
    rowOk tables (.wrapper ⟨"trim_end", .direct, "trim", .selfAsStr, .absent, .absent, .single,
      .sliceRef .selfRef, [0], .self, "mutant"⟩) = false := by
  decide +kernel

/-- `match_indices` items with an altered index (`self.0 + 1`): the `Adopt` row is rejected. -/
example :
    rowOk tables (.adopt ⟨"(usize,&str)", [.other "self . 0 + 1", .adoptStr .sourceParam (some 1)], "mutant"⟩) = false := by
  decide +kernel

/-- `split_once` with swapped halves, a count that is modified, a haystack that is not `self.as_str()`,
    adoption from another value: all rejected. -/
example :
    rowOk tables (.wrapper ⟨"split_once", .patTrait "Pattern", "split_once", .selfAsStr, .unchanged, .absent,
      .optionPair, .sliceRef .selfRef, [1, 0], .optPair, "mutant"⟩) = false ∧
    rowOk tables (.wrapper ⟨"splitn", .patTrait "Pattern", "splitn", .selfAsStr, .unchanged, .other "n + 1",
      .iter, .iterWrapper .selfRef, [], .iterAssoc "SplitN", "mutant"⟩) = false ∧
    rowOk tables (.wrapper ⟨"trim", .direct, "trim", .other "other . as_str ()", .absent, .absent, .single,
      .sliceRef .selfRef, [0], .self, "mutant"⟩) = false ∧
    rowOk tables (.wrapper ⟨"trim", .direct, "trim", .selfAsStr, .absent, .absent, .single,
      .sliceRef (.other "other"), [0], .self, "mutant"⟩) = false := by
  decide +kernel

/-- `next_back` forwarded to `next`, `nth_back` forwarded to `nth` (seeded change C11-m5), `nth` with a
    modified argument, `last` without adoption, an override the table does not know (`fold`): rejected;
    a correct `nth` / `nth_back` / `size_hint` override: accepted. -/
example :
    fwdOk ⟨"DoubleEndedIterator", "next_back", "next", .selfInner, .absent, .adoptFrom .selfSourceField,
      ["Iterator", "DoubleEndedIterator"], true, "mutant"⟩ = false ∧
    fwdOk ⟨"DoubleEndedIterator", "nth_back", "nth", .selfInner, .unchanged, .adoptFrom .selfSourceField,
      ["Iterator", "DoubleEndedIterator"], true, "mutant"⟩ = false ∧
    fwdOk ⟨"Iterator", "nth", "nth", .selfInner, .other "n + 1", .adoptFrom .selfSourceField,
      ["Iterator"], true, "mutant"⟩ = false ∧
    fwdOk ⟨"Iterator", "last", "last", .selfInner, .absent, .none, ["Iterator"], true, "mutant"⟩ = false ∧
    fwdOk ⟨"Iterator", "fold", "fold", .selfInner, .unchanged, .none, ["Iterator"], true, "mutant"⟩ = false ∧
    fwdOk ⟨"Iterator", "nth", "nth", .selfInner, .unchanged, .adoptFrom .selfSourceField,
      ["Iterator"], true, "ok"⟩ = true ∧
    fwdOk ⟨"DoubleEndedIterator", "nth_back", "nth_back", .selfInner, .unchanged, .adoptFrom .selfSourceField,
      ["Iterator", "DoubleEndedIterator"], true, "ok"⟩ = true ∧
    fwdOk ⟨"Iterator", "size_hint", "size_hint", .selfInner, .absent, .none, ["Iterator"], true, "ok"⟩ = true := by
  decide +kernel

/-- Coverage fails when a wrapper disappears. -/
example :
    coverageOk { tables with wrappers := tables.wrappers.filter (·.name != "lines") } = false := by
  decide +kernel

end HipVerif.Props.C11
