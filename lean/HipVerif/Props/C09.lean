/-
C09 — Share-count ceiling and non-sharing backend fall back to valid private copies.

`cfg.ceil` (the largest stored count an increment may produce) is a PARAMETER of the model, so
everything below holds for the real ceiling (`realCfg`, constants generated from src/smart.rs)
without 2^64 clones.  Statements and proofs: Lemmas/CoreExtraA.lean, Lemmas/CoreStep.lean.
-/
import HipVerif.Audit.Reexport
import HipVerif.Lemmas.CoreExtraA
import HipVerif.Lemmas.CoreRun
import HipVerif.Props.C02

namespace HipVerif.Props.C09
open HipVerif.Core

/-- `clone` of a heap value whose count cannot be incremented (backend `Unique`, or count at the
ceiling): the clone is a handle on a FRESH inner holding a private copy of exactly the view, at
offset 0 of its own buffer; the source's count does not move and the source is unchanged. -/
reexport HipVerif.Core.clone_overflow as clone_overflow

/-- `slice` to more than the inline capacity in the same situation: the slice owns a fresh buffer
holding exactly the requested window and its data pointer lies in ITS OWN buffer at offset 0
(the statement the original `slice_unchecked` violated: it kept the source's data pointer). -/
reexport HipVerif.Core.slice_overflow as slice_overflow

/-- the same for adoption (`slice_ref`, `split`, `trim`, … are built on it) -/
reexport HipVerif.Core.adopt_overflow as adopt_overflow

/-- The stored count never exceeds the ceiling (clause `ceil` of the invariant), hence never wraps:
`count + 1` (the number of shares) fits a `usize`. -/
reexport HipVerif.Core.count_never_wraps as count_never_wraps

/-- …instantiated with the constants read from `Arc::incr` / `Rc::incr` in the source. -/
reexport HipVerif.Core.count_never_wraps_real as count_never_wraps_real

/-- the generated increment bounds leave room: ceiling + 1 < 2^64 for the three backends -/
reexport HipVerif.Core.realCfg_ceil_lt as real_ceiling_lt

/-- The `Unique` backend never shares: every live buffer has exactly one handle. -/
reexport HipVerif.Core.unique_never_shares as unique_never_shares

/-- The private copy outlives the original: after the source is dropped the copy reads the same
bytes and the invariant (its view lies in a live buffer) still holds; the original is released
normally (`wf_step` for `drop`). -/
theorem outlives (cfg : Cfg) (s : State) (h k : Nat) (w : Wf cfg s) (hk : k ≠ h) :
    Spec.Std.sget (abs (step cfg s (.drop h)).1) k = Spec.Std.sget (abs s) k ∧
      Wf cfg (step cfg s (.drop h)).1 :=
  HipVerif.Props.C02.survives_source_drop cfg s h k w hk

/-! Non-vacuity: on the `Unique` backend, and on `Rc` with the count at a ceiling of 1, a 30-byte
slice of a 40-byte value is a fresh heap value at offset 0 that survives the source. -/

private def uq : Cfg := { backend := .unique, ceil := 0, debug := true, icap := 23 }
private def rc1 : Cfg := { backend := .rc, ceil := 1, debug := true, icap := 23 }
private def ops : List Op :=
  [.fromSlice 0 (List.replicate 40 1), .clone 0 1, .slice 0 2 (.included 5) (.excluded 35), .drop 0]

example : (getH (run uq (init [] 3) ops).1 2).map (·.repr) = some (.heap 2 3 0 30) := by decide
example : (getH (run rc1 (init [] 3) ops).1 2).map (·.repr) = some (.heap 1 2 0 30) := by decide
example : Spec.Std.sget (abs (run rc1 (init [] 3) ops).1) 2 = some (List.replicate 30 1) := by decide

end HipVerif.Props.C09
