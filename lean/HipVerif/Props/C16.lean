/-
  C16 — Serialisation round-trips and never yields invalid values (features serde, borsh, bstr).

  The theorems are about the generated table `Gen/Visitors.lean` (regenerated from the crate's
  source on every run) as interpreted by `Model/Codec.lean`.  They hold for ALL inputs (byte
  strings, tokens) and for any UTF-8 predicate `valid` (instantiate with `HipVerif.Utf8.valid`).
  The `*_table_ok` theorems are `decide` checks of the Bool row predicates; the driver command
  `rows` lists the falsifying rows (`file:line`) when one of them breaks.

  Not covered here (trusted, exercised by `serdrive`): how serde_json / serde_test / borsh's
  `&[u8]` reader turn text or bytes into visitor calls and `Read` calls; std's `OsString`
  implementation (a parameter `osDe`).
-/
import HipVerif.Lemmas.Codec
import HipVerif.Model.Utf8

namespace HipVerif.Props.C16
open HipVerif.Codec HipVerif.Gen.Visitors
open HipVerif.Spec.Codec (Token SerOut collect leBytes fromLe)

/-! ## Table obligations (re-checked on every regeneration) -/

/-- The borsh readers have the safe shape: `u32` prefix, per-byte loop, up-front reservation
`min(len, c)` with `c ≤ 4096` for `HipByt`; `HipStr` reads a `HipByt` then validates. -/
theorem borsh_de_table_ok :
    borshDeRows.all (borshDeRowOk capLimit) = true ∧
    (borshShape borshDeRows .byt).isSome = true ∧ (borshShape borshDeRows .str).isSome = true := by
  decide

/-- The shape part of `borsh_de_table_ok`, which the reader lemmas are stated with. -/
theorem borsh_shape_ok : borshDeRows.all (borshShapeRowOk capLimit) = true :=
  all_shape_of_all_ok borsh_de_table_ok.1

/-- Every use of the `reader`/`writer` parameter in the four borsh impls is exact — handed on to
another borsh impl (`u32`/`u8::deserialize_reader`, `[u8]::serialize`, which use
`read_exact`/`write_all`) or a `read_exact`/`write_all` call — never a raw `read`/`write` whose
short count could be mistaken for the end of the data or dropped; and no body contains an
`unsafe` block.  (So a reader delivering the stream in pieces, or a writer accepting it in
pieces, sees exactly what `Vec<u8>`/`String` see.) -/
theorem borsh_io_exact :
    (∀ r ∈ borshDeRows, r.io.all IoCall.exact = true ∧ r.usesUnsafe = false ∧ r.shape ≠ .other) ∧
    (∀ r ∈ borshSerRows, r.io.all IoCall.exact = true ∧ r.usesUnsafe = false ∧ r.shape ≠ .other) := by
  decide

/-- No `impl Deserialize` overrides `deserialize_in_place` and there is no visitor outside the
four modelled ones: deserialising in place is serde's default `*place = T::deserialize(d)?`, so
it leaves exactly what a fresh `deserialize` returns (never a stale tail of the old value). -/
theorem in_place_default :
    (∀ r ∈ deRows, r.overridesInPlace = false) ∧ auxVisitors = [] := by decide

/-- Every `borrow_deserialize` (`HipByt`, `HipStr`, and `HipPath` through `HipStr`'s) asks the
format for the BORROWABLE form — `deserialize_bytes` / `deserialize_str` — never for
`deserialize_byte_buf` / `deserialize_string`: with a format that honours the hint (bincode-like)
the latter would hand out a fresh buffer and the "borrowing" constructor would copy. -/
theorem borrow_entry_points_ask_borrowed :
    entryHint deRows .byt .borrowing = some .bytes ∧
    entryHint deRows .str .borrowing = some .str ∧
    entryHint deRows .path .borrowing = some .str := by decide

/-- The owned `Deserialize` impls ask for a form of their own family (`deserialize_bytes` or
`_byte_buf` for `HipByt`; `deserialize_str` or `_string` for `HipStr`, and `HipPath` through it);
`HipOsStr` leaves the choice to std's `OsString`. -/
theorem owned_entry_points_hint :
    (entryHint deRows .byt .owned = some .bytes ∨ entryHint deRows .byt .owned = some .byteBuf) ∧
    (entryHint deRows .str .owned = some .str ∨ entryHint deRows .str .owned = some .string) ∧
    (entryHint deRows .path .owned = some .str ∨ entryHint deRows .path .owned = some .string) ∧
    entryHint deRows .os .owned = none := by decide

/-- Every `visit_*` of a visitor that produces a `HipStr` receives a Rust string type, or
validates (`from_utf8`) before constructing, or is an unconditional error; none collects a
sequence of bytes. -/
theorem str_visitors_validate :
    ∀ v ∈ visitors, v.kind = .str → ∀ r ∈ v.methods,
      (r.method.isStr = true ∨ r.body.validates = true ∨ r.body = .error) ∧ r.method ≠ .seq := by
  decide

/-- Both `BorshSerialize` impls write the slice `[u8]` encoding. -/
theorem borsh_ser_table_ok :
    borshSerRows.all borshSerRowOk = true ∧ borshSerRows.map (·.kind) = [.byt, .str] := by decide

/-- Every `impl Visitor` passes the row predicate (borrow only in `visit_borrowed_*` of a
borrowed visitor, `HipStr` visitors validate bytes, `visit_seq` capped by 4096, every method
std's visitors answer is answered, borrowed visitors borrow when offered). -/
theorem visitor_table_ok : visitors.all (visitorOk capLimit) = true := by decide

/-- The four visitors exist, and the owned and borrowed visitor of each type answer every
method with the same shape. -/
theorem pair_table_ok :
    ∃ bo bb so sb,
      findVisitor visitors .bytOwned = some bo ∧ findVisitor visitors .bytBorrowed = some bb ∧
      findVisitor visitors .strOwned = some so ∧ findVisitor visitors .strBorrowed = some sb ∧
      pairOk bo bb = true ∧ pairOk so sb = true :=
  ⟨_, _, _, _, rfl, rfl, rfl, rfl, by decide, by decide⟩

/-- Every `Deserialize` impl / `borrow_deserialize` uses the right visitor with the right hint
or delegates (`HipOsStr` → std `OsString`, `HipPath` → `HipStr`), and all seven are present. -/
theorem de_table_ok :
    deRows.all (deRowOk visitors deRows) = true ∧ deTableComplete deRows = true := by decide

/-- Every `Serialize` impl makes the call its std counterpart makes (`serialize_bytes` for
`HipByt`). -/
theorem ser_table_ok : serRows.all serRowOk = true ∧ serTableComplete serRows = true := by decide

/-- bstr conversions into `HipStr` are fallible and validate; only `&BStr` is borrowed. -/
theorem bstr_table_ok : bstrRows.all bstrRowOk = true := by decide

/-- The whole report the driver prints under `rows` is clean. -/
theorem table_ok : tableOk = true := by decide

/-! ## borsh -/

private theorem byt_shape : ∃ sh, borshShape borshDeRows .byt = some sh :=
  Option.isSome_iff_exists.mp borsh_de_table_ok.2.1

/-- Writing a value and reading it back (with anything after it) returns the value and leaves
the rest unread: `HipByt::deserialize_reader` inverts `HipByt::serialize`. -/
theorem borsh_roundtrip (b r : List UInt8) (h : b.length < 2 ^ 32) :
    (de (ser b ++ r)).result = .ok (b, r) := by
  obtain ⟨sh, hsh⟩ := byt_shape
  unfold de
  rw [borshDe_byt _ borsh_shape_ok hsh]
  exact deShape_roundtrip (bytShape_ok borsh_shape_ok hsh) b r h

/-- Same for `HipStr` (whose content is well-formed UTF-8). -/
theorem borsh_str_roundtrip (valid : List UInt8 → Bool) (s r : List UInt8) (h : s.length < 2 ^ 32)
    (hv : valid s = true) : (deStr valid (ser s ++ r)).result = .ok (s, r) := by
  obtain ⟨sh, hsh⟩ := byt_shape
  exact borshDe_str_of_ok valid borsh_shape_ok hsh borsh_de_table_ok.2.2 _ _ _ hv
    (deShape_roundtrip (bytShape_ok borsh_shape_ok hsh) s r h)

/-- `HipByt`/`HipStr` write exactly borsh's `Vec<u8>`/`[u8]`/`str` encoding (u32 LE length then
the bytes), so each side reads what the other writes. -/
theorem borsh_like_std (b : List UInt8) :
    Spec.Codec.borshVecU8 b = if serFits b then some (ser b) else none := by
  simp [Spec.Codec.borshVecU8, serFits, ser]

/-- What std's `Vec<u8>`/`String` writes is read back as the same bytes. -/
theorem borsh_reads_std (b e r : List UInt8) (h : Spec.Codec.borshVecU8 b = some e) :
    (de (e ++ r)).result = .ok (b, r) := by
  unfold Spec.Codec.borshVecU8 at h
  split at h
  · rename_i hl
    simp at h; subst h
    exact borsh_roundtrip b r hl
  · cases h

/-- The reader is total and its only failure is `eof`: no panic, overflow or abort outcome
exists on this path (truncated input, oversized prefixes included). -/
theorem borsh_total (input : List UInt8) :
    (∃ x, (de input).result = .ok x) ∨ (de input).result = .error .eof := by
  cases h : (de input).result with
  | ok x => exact .inl ⟨x, rfl⟩
  | error e =>
    have := borshDe_err (fun _ => true) borsh_shape_ok .byt borsh_de_table_ok.2.1
      borsh_de_table_ok.2.1 input e h
    rcases this with rfl | ⟨hk, _⟩
    · exact .inr rfl
    · cases hk

/-- The `HipStr` reader is total; it fails with `eof` or `InvalidData` only. -/
theorem borsh_str_total (valid : List UInt8 → Bool) (input : List UInt8) :
    (∃ x, (deStr valid input).result = .ok x) ∨ (deStr valid input).result = .error .eof ∨
      (deStr valid input).result = .error .invalidData := by
  cases h : (deStr valid input).result with
  | ok x => exact .inl ⟨x, rfl⟩
  | error e =>
    have := borshDe_err valid borsh_shape_ok .str borsh_de_table_ok.2.1
      borsh_de_table_ok.2.2 input e h
    rcases this with rfl | ⟨_, rfl⟩
    · exact .inr (.inl rfl)
    · exact .inr (.inr rfl)

/-- A `HipStr` read from arbitrary bytes is always well-formed UTF-8. -/
theorem borsh_str_valid (valid : List UInt8 → Bool) (input s rest : List UInt8)
    (h : (deStr valid input).result = .ok (s, rest)) : valid s = true := by
  obtain ⟨sh, hsh⟩ := byt_shape
  exact (borshDe_str_ok valid borsh_shape_ok hsh borsh_de_table_ok.2.2 input s rest h).1

/-- The reader accepts nothing but encodings: an accepted input is the encoding of the value
returned followed by the unread rest (so the value is never longer than the input). -/
theorem borsh_de_inverse (input c rest : List UInt8) (h : (de input).result = .ok (c, rest)) :
    input = ser c ++ rest := by
  obtain ⟨sh, hsh⟩ := byt_shape
  unfold de at h
  rw [borshDe_byt _ borsh_shape_ok hsh] at h
  exact deShape_inv (bytShape_ok borsh_shape_ok hsh) input c rest h

/-- No single allocation request of the reader exceeds `4096 + 2 × (bytes supplied)`: a length
prefix alone cannot make it reserve gigabytes. -/
theorem borsh_alloc_bound (input : List UInt8) :
    (de input).maxRequest ≤ 4096 + 2 * input.length :=
  borshDe_bound (limit := 4096) (fun _ => true)
    (all_shape_of_all_ok (by decide : borshDeRows.all (borshDeRowOk 4096) = true)) .byt input

/-- Same bound for the `HipStr` reader. -/
theorem borsh_str_alloc_bound (valid : List UInt8 → Bool) (input : List UInt8) :
    (deStr valid input).maxRequest ≤ 4096 + 2 * input.length :=
  borshDe_bound (limit := 4096) valid
    (all_shape_of_all_ok (by decide : borshDeRows.all (borshDeRowOk 4096) = true)) .str input

/-! ## serde visitors -/

private theorem vok {v : VisitorRow} (hv : v ∈ visitors) : visitorOk capLimit v = true :=
  List.all_eq_true.mp visitor_table_ok v hv

/-- Whatever a visitor returns has exactly the content of the token it was given; a `HipStr`
is well-formed UTF-8; and the value borrows only if the deserializer handed out `'de` data to a
borrowed visitor. -/
theorem visit_sound (valid : List UInt8 → Bool) (v : VisitorRow) (hv : v ∈ visitors) (t : Token)
    (ht : t.wf valid = true) (c : List UInt8) (br : Bool)
    (h : visit valid v t = .ok (c, br)) :
    t.content = some c ∧ (v.kind = .str → valid c = true) ∧
      (br = true → t.isBorrowed = true ∧ v.borrowsDe = true) :=
  visit_sound_of_ok valid
    (List.all_eq_true.mp (by decide : visitors.all (visitorOk 4096) = true) v hv) t ht c br h

/-- `borrow_deserialize` borrows whenever the format hands out borrowed data (and, for `HipStr`,
the data is UTF-8). -/
theorem borrow_when_offered (valid : List UInt8 → Bool) (v : VisitorRow) (hv : v ∈ visitors)
    (hb : v.borrowsDe = true) (t : Token) (hbt : t.isBorrowed = true) (ht : t.wf valid = true)
    (p : List UInt8) (hc : t.content = some p) (hp : v.kind = .str → valid p = true) :
    visit valid v t = .ok (p, true) :=
  borrow_when_offered_of_ok valid (vok hv) hb t hbt ht p hc hp

/-- On every token the owned and the borrowed visitor of a type produce the same content or
the same error. -/
theorem owned_eq_borrowed (valid : List UInt8 → Bool) (vo vb : VisitorRow)
    (h : (findVisitor visitors .bytOwned = some vo ∧ findVisitor visitors .bytBorrowed = some vb) ∨
         (findVisitor visitors .strOwned = some vo ∧ findVisitor visitors .strBorrowed = some vb))
    (t : Token) : (visit valid vo t).map Prod.fst = (visit valid vb t).map Prod.fst := by
  obtain ⟨bo, bb, so, sb, h1, h2, h3, h4, hp1, hp2⟩ := pair_table_ok
  rcases h with ⟨ha, hb⟩ | ⟨ha, hb⟩
  · rw [h1] at ha; rw [h2] at hb
    cases ha; cases hb
    exact owned_eq_borrowed_of_ok valid hp1 t
  · rw [h3] at ha; rw [h4] at hb
    cases ha; cases hb
    exact owned_eq_borrowed_of_ok valid hp2 t

/-- Every visitor call std's `String` (and `PathBuf`) visitor accepts — `visit_str`,
`visit_borrowed_str`, `visit_string`, `visit_char`, and UTF-8 `visit_bytes`,
`visit_borrowed_bytes`, `visit_byte_buf` — is accepted by both `HipStr` visitors, with the same
content; every call std's `Vec<u8>` visitor accepts (`visit_seq` of `u8`) is accepted by both
`HipByt` visitors, with the same content. -/
theorem accepts_std_tokens (valid : List UInt8 → Bool) (v : VisitorRow) (hv : v ∈ visitors)
    (t : Token) (ht : t.wf valid = true) (c : List UInt8) :
    (v.kind = .str → Spec.Codec.stringDe valid t = some c → ∃ br, visit valid v t = .ok (c, br)) ∧
    (v.kind = .byt → Spec.Codec.vecU8De t = some c → visit valid v t = .ok (c, false)) :=
  ⟨fun hk h => accepts_string_of_ok valid (vok hv) hk t ht c h,
   fun hk h => accepts_vec_of_ok valid (vok hv) hk t c h⟩

/-- The sequence path of both `HipByt` visitors reserves `min(size_hint, 4096)` up front
(`0` without a hint), whatever the hint claims. -/
theorem seq_cap (v : VisitorRow) (hv : v ∈ visitors) (hk : v.kind = .byt) (hint : Option Nat)
    (xs : List (Option UInt8)) :
    visitReserve v (.seq hint xs) = some (min (hint.getD 0) 4096) := by
  have h : ∀ v ∈ visitors, v.kind = .byt → seqCapOf v = some (some 4096) := by decide
  simp [visitReserve, h v hv hk]

/-- Every capacity request on the sequence path is at most `max(4096, 2 n + 6)` for `n`
elements actually delivered. -/
theorem seq_alloc_bound (hint : Option Nat) (n : Nat) :
    maxOf (seqRequests (min (hint.getD 0) 4096) n) ≤ max 4096 (2 * n + 6) := by
  have := seqRequests_bound (min (hint.getD 0) 4096) n
  omega

/-! ## serde entry points -/

/-- `HipPath`'s `Deserialize` and `borrow_deserialize` are `HipStr`'s (then a free `From`). -/
theorem path_delegates (valid : List UInt8 → Bool) (osDe : Token → Except Err (List UInt8))
    (e : Entry) (t : Token) :
    deserialize valid osDe .path e t = deserialize valid osDe .str e t := by
  cases e <;> rfl

/-- `HipOsStr`'s `Deserialize` is std's `OsString` implementation (then a free `From`). -/
theorem os_delegates (valid : List UInt8 → Bool) (osDe : Token → Except Err (List UInt8))
    (t : Token) : deserialize valid osDe .os .owned t = (osDe t).map (·, false) := rfl

/-- Each `HipByt`/`HipStr`/`HipPath` entry point is one call of the matching visitor of the
table. -/
theorem entry_is_visit (valid : List UInt8 → Bool) (osDe : Token → Except Err (List UInt8))
    (k : HipKind) (hk : k ≠ .os) (e : Entry) :
    ∃ v ∈ visitors, v.kind = (if k = .byt then .byt else .str) ∧
      v.borrowsDe = (e == .borrowing) ∧
      ∀ t, deserialize valid osDe k e t = visit valid v t := by
  have mem : ∀ id v, findVisitor visitors id = some v → v ∈ visitors :=
    fun id v h => List.mem_of_find?_eq_some h
  cases k <;> cases e <;> first
    | exact absurd rfl hk
    | exact ⟨_, mem .bytOwned _ rfl, rfl, rfl, fun _ => rfl⟩
    | exact ⟨_, mem .bytBorrowed _ rfl, rfl, rfl, fun _ => rfl⟩
    | exact ⟨_, mem .strOwned _ rfl, rfl, rfl, fun _ => rfl⟩
    | exact ⟨_, mem .strBorrowed _ rfl, rfl, rfl, fun _ => rfl⟩

/-- Deserialising any single token into `HipByt`/`HipStr`/`HipPath` yields the token's content,
well-formed UTF-8 for `HipStr`/`HipPath`, borrowed only through `borrow_deserialize` from a
borrowed token. -/
theorem deserialize_sound (valid : List UInt8 → Bool) (osDe : Token → Except Err (List UInt8))
    (k : HipKind) (hk : k ≠ .os) (e : Entry) (t : Token) (ht : t.wf valid = true)
    (c : List UInt8) (br : Bool) (h : deserialize valid osDe k e t = .ok (c, br)) :
    t.content = some c ∧ (k ≠ .byt → valid c = true) ∧
      (br = true → t.isBorrowed = true ∧ e = .borrowing) := by
  obtain ⟨v, hv, hkind, hbor, heq⟩ := entry_is_visit valid osDe k hk e
  rw [heq] at h
  obtain ⟨h1, h2, h3⟩ := visit_sound valid v hv t ht c br h
  refine ⟨h1, fun hne => h2 (by simp [hkind, hne]), fun hb => ⟨(h3 hb).1, ?_⟩⟩
  have := (h3 hb).2
  rw [hbor] at this
  simpa using this

/-- `HipStr`, `HipOsStr`, `HipPath` serialise exactly like `str`, `OsStr`, `Path`; `HipByt`
uses the format's byte-string call. -/
theorem serialize_like_std (valid : List UInt8 → Bool) (c : List UInt8) :
    serialize valid .str c = some (Spec.Codec.strSer c) ∧
    serialize valid .os c = some (Spec.Codec.osStrSer c) ∧
    serialize valid .path c = some (Spec.Codec.pathSer valid c) ∧
    serialize valid .byt c = some (.bytes c) :=
  ⟨rfl, rfl, rfl, rfl⟩

/-- Serialise then deserialise (owned or borrowing entry point, whichever way the format hands
the string / byte string / sequence back) gives the same content. -/
theorem serde_roundtrip (valid : List UInt8 → Bool) (osDe : Token → Except Err (List UInt8))
    (k : HipKind) (hk : k ≠ .os) (e : Entry) (c : List UInt8) (hc : k ≠ .byt → valid c = true)
    (o : SerOut) (ho : serialize valid k c = some o) (hint : Option Nat) (t : Token)
    (ht : t ∈ presentations o hint) :
    ∃ br, deserialize valid osDe k e t = .ok (c, br) := by
  obtain ⟨v, hv, hkind, _, heq⟩ := entry_is_visit valid osDe k hk e
  rw [heq]
  have hstr : ∀ t, k ≠ .byt → t.wf valid = true → Spec.Codec.stringDe valid t = some c →
      ∃ br, visit valid v t = .ok (c, br) := fun t hne hw h =>
    accepts_string_of_ok valid (vok hv) (by simp [hkind, hne]) t hw c h
  cases k with
  | os => exact absurd rfl hk
  | byt =>
    have hkb : v.kind = .byt := by simpa using hkind
    obtain rfl : o = .bytes c := by
      have := (serialize_like_std valid c).2.2.2; rw [this] at ho; exact (Option.some.inj ho).symm
    simp only [presentations, List.mem_cons, List.not_mem_nil, or_false] at ht
    rcases ht with rfl | rfl | rfl | rfl
    · exact accepts_bytes_of_ok valid (vok hv) hkb .bytes (.inl rfl) c
    · exact accepts_bytes_of_ok valid (vok hv) hkb .borrowedBytes (.inr (.inl rfl)) c
    · exact accepts_bytes_of_ok valid (vok hv) hkb .byteBuf (.inr (.inr rfl)) c
    · exact ⟨false, accepts_vec_of_ok valid (vok hv) hkb _ c
        (by simp [Spec.Codec.vecU8De, collect_map_some])⟩
  | str =>
    have hvc := hc (by simp)
    obtain rfl : o = .str c := by
      have := (serialize_like_std valid c).1; rw [this] at ho; exact (Option.some.inj ho).symm
    simp only [presentations, List.mem_cons, List.not_mem_nil, or_false] at ht
    rcases ht with rfl | rfl | rfl <;>
      exact hstr _ (by simp) (by simpa [Token.wf] using hvc) (by simp [Spec.Codec.stringDe])
  | path =>
    have hvc := hc (by simp)
    obtain rfl : o = .str c := by
      have := (serialize_like_std valid c).2.2.1
      rw [this] at ho
      simp [Spec.Codec.pathSer, hvc] at ho
      exact ho.symm
    simp only [presentations, List.mem_cons, List.not_mem_nil, or_false] at ht
    rcases ht with rfl | rfl | rfl <;>
      exact hstr _ (by simp) (by simpa [Token.wf] using hvc) (by simp [Spec.Codec.stringDe])

/-! ## bstr -/

/-- A bstr conversion keeps the bytes; into `HipStr` it succeeds only on well-formed UTF-8;
it borrows only from a `&BStr`. -/
theorem bstr_sound (valid : List UInt8 → Bool) (r : BstrRow) (hr : r ∈ bstrRows)
    (p c : List UInt8) (br : Bool) (h : bstrConv valid r p = .ok (c, br)) :
    c = p ∧ (r.kind = .str → valid c = true) ∧
      (br = true → r.src = .bstrRef ∨ r.src = .cowBorrowed) :=
  bstr_sound_of_ok valid r (List.all_eq_true.mp bstr_table_ok r hr) p c br h

/-! ## Instances for the UTF-8 model of C06 (`HipVerif.Utf8.valid` = `core::str::from_utf8`) -/

/-- A `HipStr` read by borsh from arbitrary bytes is well-formed UTF-8 (Unicode Table 3-7). -/
theorem borsh_str_valid_utf8 (input s rest : List UInt8)
    (h : (deStr Utf8.valid input).result = .ok (s, rest)) : Utf8.valid s = true :=
  borsh_str_valid Utf8.valid input s rest h

/-- A `HipStr`/`HipPath` deserialised through serde from any single token is well-formed UTF-8
and has the token's content. -/
theorem deserialize_valid_utf8 (osDe : Token → Except Err (List UInt8)) (k : HipKind)
    (hk : k = .str ∨ k = .path) (e : Entry) (t : Token) (ht : t.wf Utf8.valid = true)
    (c : List UInt8) (br : Bool) (h : deserialize Utf8.valid osDe k e t = .ok (c, br)) :
    t.content = some c ∧ Utf8.valid c = true := by
  have hne : k ≠ .os := by rcases hk with rfl | rfl <;> simp
  have hnb : k ≠ .byt := by rcases hk with rfl | rfl <;> simp
  have := deserialize_sound Utf8.valid osDe k hne e t ht c br h
  exact ⟨this.1, this.2.1 hnb⟩

example : (deStr Utf8.valid [2, 0, 0, 0, 0xc3, 0xa9]).result = .ok ([0xc3, 0xa9], []) := by decide
example : (deStr Utf8.valid [2, 0, 0, 0, 0xc3, 0x28]).result = .error .invalidData := by decide
example : (deStr Utf8.valid [3, 0, 0, 0, 0xed, 0xa0, 0x80]).result = .error .invalidData := by decide

/-! ## Non-vacuity -/

/-- A stand-in UTF-8 predicate for the examples (ASCII only). -/
private def ascii (s : List UInt8) : Bool := s.all (· < 0x80)

private def strBorrowedRow : VisitorRow := (findVisitor visitors .strBorrowed).getD default
private def bytOwnedRow : VisitorRow := (findVisitor visitors .bytOwned).getD default

-- borsh: a real round trip, a truncated payload, the D12 witness (oversized prefix), bad UTF-8
example : (de (ser [1, 2, 3] ++ [9])).result = .ok ([1, 2, 3], [9]) := by decide
example : ser [1, 2, 3] = [3, 0, 0, 0, 1, 2, 3] := by decide
example : (de [3, 0, 0, 0, 1, 2]).result = .error .eof := by decide
example : (de [0xff, 0xff, 0xff, 0xff, 1, 2, 3]).result = .error .eof ∧
    (de [0xff, 0xff, 0xff, 0xff, 1, 2, 3]).maxRequest = 4096 := by decide
example : (de [3, 0, 0]).result = .error .eof := by decide
example : (de [0, 0, 0, 0, 7]).result = .ok ([], [7]) := by decide
example : (deStr ascii [2, 0, 0, 0, 0x61, 0xff]).result = .error .invalidData := by decide
example : (deStr ascii [2, 0, 0, 0, 0x61, 0x62]).result = .ok ([0x61, 0x62], []) := by decide
-- the table predicates are falsifiable: the pre-fix reader shape and an unvalidated visit_bytes
example : borshDeRowOk capLimit ⟨.byt, .reader 4 true .exact true .setLen, [], true, "x"⟩ = false := by decide
-- a raw `read` in an otherwise well-shaped reader, and a raw `write`, are rejected
example : borshDeRowOk capLimit
    ⟨.byt, .reader 4 true (.minLen 4096) true .fromVec, [.delegate "u32::deserialize_reader", .read], false, "x"⟩
    = false := by decide
example : borshSerRowOk ⟨.byt, .sliceU8, [.write], false, "x"⟩ = false := by decide
example : deRowOk visitors deRows ⟨.byt, .owned, .visitor .bytes .bytOwned, true, "x"⟩ = false := by decide
-- the owned hint is fine for the owned entry point and rejected for `borrow_deserialize`
example : deRowOk visitors deRows ⟨.byt, .owned, .visitor .byteBuf .bytOwned, false, "x"⟩ = true := by decide
example : deRowOk visitors deRows ⟨.byt, .borrowing, .visitor .byteBuf .bytBorrowed, false, "x"⟩ = false := by
  decide
example : deRowOk visitors deRows ⟨.str, .borrowing, .visitor .string .strBorrowed, false, "x"⟩ = false := by
  decide
example : (deShape (.reader 4 true .exact true .setLen) [0xff, 0xff, 0xff, 0xff, 1, 2, 3]).maxRequest
    = 4294967295 := by decide
example : visitorOk capLimit
    { id := .strOwned, kind := .str, name := "V", borrowsDe := false, loc := "x",
      methods := [⟨.str, .copy, "x"⟩, ⟨.bytes, .copy, "x"⟩] } = false := by decide
-- serde: hypotheses of `visit_sound` / `borrow_when_offered` are satisfiable, outcomes differ
example : strBorrowedRow ∈ visitors ∧ strBorrowedRow.borrowsDe = true := by decide
example : visit ascii strBorrowedRow (.borrowedStr [0x61]) = .ok ([0x61], true) := by decide
example : visit ascii strBorrowedRow (.str [0x61]) = .ok ([0x61], false) := by decide
example : visit ascii strBorrowedRow (.borrowedBytes [0xff]) = .error .invalidValue := by decide
example : visit ascii strBorrowedRow (.seq none []) = .error .invalidType := by decide
example : visit ascii bytOwnedRow (.borrowedBytes [0xff]) = .ok ([0xff], false) := by decide
example : visit ascii bytOwnedRow (.seq (some 1000000) [some 1, some 2]) = .ok ([1, 2], false) ∧
    visitReserve bytOwnedRow (.seq (some 1000000) [some 1, some 2]) = some 4096 := by decide
example : visit ascii bytOwnedRow (.seq none [some 1, none]) = .error .element := by decide
example : visit ascii bytOwnedRow .other = .error .invalidType := by decide
example : (Token.borrowedStr [0x61]).wf ascii = true ∧ (Token.str [0xff]).wf ascii = false := by
  decide
example : deserialize ascii (fun _ => .error .custom) .path .borrowing (.borrowedStr [0x2f])
    = .ok ([0x2f], true) := by decide
example : serialize ascii .path [0xff] = some .error ∧ serialize ascii .path [0x2f] = some (.str [0x2f])
    := by decide

end HipVerif.Props.C16
