/-
C13 (continued) — the SLOT-level model of InlineVec / ThinVec (Model/Slots*.lean, the model that
follows the Rust code statement by statement and that C14/C15 are proved about) computes what the
LIST-level model (Model/Vecs.lean) computes, hence — by `iv_refines` / `tv_refines` of C13 — what
`Vec` does.

Abstraction: `absL s` = the ids in the live slots below `len`, in order; `absIV s` / `absTV alT s`
add the capacity (and the type parameters the list model's capacity rule needs).

Operation mapping (`toIVOp`, `toTVOp`): the values a slot operation creates are the fresh ids
`next, next+1, …` of its start state, and the list operation is given exactly these ids — also
for clones (`resize`, `extend_from_slice`, `extend_from_within`: the appended ids are the fresh
clone ids; that they are clones of the right sources is what the `clone` events of the slot trace
record, it is not restated here). Without counterpart and therefore excluded:
  * fault arming (`step (some k)`), the container drop;
  * InlineVec: `reserve`/`shrink_fit` (not an InlineVec operation);
  * ThinVec: `try_push`, `try_insert`, `resize_with`, `into_iter`, `clone` (not ThinVec
    operations in the list model; the slot `clone` is `ThinVec::from(v.as_slice())` on a
    temporary), `roundtrip` on more than 16 elements (the slot model's intermediate
    `InlineVec<_, 16>`).
Leaked `Drain`s and leaked/dropped `IntoIter`s ARE covered (the list model has them); the values a
drain/into_iter yields are compared only through the final contents (the slot model hands them
out as `ret` events, not as a returned list).
ThinVec scope (`Small`): the slot model has unbounded capacities and does not model the
"capacity overflow" panics; the comparison holds while capacities and arguments stay below 2^40.
-/
import HipVerif.Lemmas.SlotsRefineRun
import HipVerif.Props.C13
namespace HipVerif.Props.C13
open HipVerif.Slots
open HipVerif.Vecs (IV TV Outcome specRun IVFits TVQuiet)

/-- One fault-free InlineVec operation of the slot model, from any state satisfying the ownership
invariant: the returned value (popped/removed id, `Ok`/`Err(value)` of the `try_` operations,
panic) is the list model's, panics happen exactly where the list model panics (index, range, and
the InlineVec capacity rule), and the contents afterwards are the list model's. -/
theorem slot_model_matches_list_iv {s : St} (op : Op) (vop : Vecs.Op Nat) (h : Own s)
    (hth : s.v.h.thin = false) (hal : s.v.h.alive = true) (hmap : toIVOp s op = some vop) :
    retMatch (step none op s).1 ((absIV s).step vop).1 ∧
    absIV (step none op s).2 = ((absIV s).step vop).2 :=
  ⟨(slots_refine_iv op vop h hth hal hmap).1, (slots_refine_iv op vop h hth hal hmap).2.1⟩

/-- The same for ThinVec, including the capacity: `capacity()` of the slot model after the step is
the list model's (growth policy `max(required, 2*cap)`, layout rounding, `MINIMAL_CAPACITY`). -/
theorem slot_model_matches_list_tv {s : St} (alT : Nat) (op : Op) (vop : Vecs.Op Nat) (h : Own s)
    (hth : s.v.h.thin = true) (hal : s.v.h.alive = true) (ha : AlignOk alT) (hsm : Small s op)
    (hmap : toTVOp s op = some vop) :
    retMatch (step none op s).1 ((absTV alT s).step vop).1 ∧
    absTV alT (step none op s).2 = ((absTV alT s).step vop).2 :=
  ⟨(slots_refine_tv alT op vop h hth hal ha hsm hmap).1,
    (slots_refine_tv alT op vop h hth hal ha hsm hmap).2.1⟩

/-- Whole fault-free InlineVec histories: returned values step by step and final contents of the
slot model are those of the list model. -/
theorem slots_run_refines_list_iv {s : St} (ops : List Op) (vops : List (Vecs.Op Nat))
    (h : Own s) (hth : s.v.h.thin = false) (hal : s.v.h.alive = true)
    (hm : ivHist s ops = some vops) :
    retsMatch (runQ ops s).1 ((absIV s).run vops).1 ∧
      absIV (runQ ops s).2 = ((absIV s).run vops).2 :=
  slots_run_refines_iv ops s vops h hth hal hm

/-- Whole fault-free ThinVec histories (within the `Small` scope). -/
theorem slots_run_refines_list_tv {s : St} (alT : Nat) (ha : AlignOk alT) (ops : List Op)
    (vops : List (Vecs.Op Nat)) (h : Own s) (hth : s.v.h.thin = true)
    (hal : s.v.h.alive = true) (hsm : SmallHist s ops) (hm : tvHist s ops = some vops) :
    retsMatch (runQ ops s).1 ((absTV alT s).run vops).1 ∧
      absTV alT (runQ ops s).2 = ((absTV alT s).run vops).2 :=
  slots_run_refines_tv alT ha ops s vops h hth hal hsm hm

/-- **The slot-level InlineVec computes `Vec`'s contents**: along a fault-free history whose
operations never need more than `CAP` elements, the ids in the live slots are what `Vec` holds. -/
theorem slot_model_matches_vec_iv {s : St} (ops : List Op) (vops : List (Vecs.Op Nat)) (h : Own s)
    (hth : s.v.h.thin = false) (hal : s.v.h.alive = true) (hm : ivHist s ops = some vops)
    (hfit : IVFits s.v.cap (absL s) vops) :
    absL (runQ ops s).2 = (specRun (absL s) vops).2 ∧
      retsMatch (runQ ops s).1 (specRun (absL s) vops).1 := by
  obtain ⟨r1, r2⟩ := slots_run_refines_iv ops s vops h hth hal hm
  have hle : (absIV s).xs.length ≤ (absIV s).cap := by
    have := h.view.len_le; simpa [absIV] using this
  obtain ⟨c1, c2⟩ := iv_refines (absIV s) hle vops hfit
  rw [c1] at r1
  rw [c2] at r2
  exact ⟨by have := congrArg IV.xs r2; simpa [absIV] using this, r1⟩

/-- **The slot-level ThinVec computes `Vec`'s contents** along fault-free histories without
capacity overflow (C13's `TVQuiet`), from a state whose list-level image is well-formed. -/
theorem slot_model_matches_vec_tv {s : St} (alT : Nat) (ha : AlignOk alT) (ops : List Op)
    (vops : List (Vecs.Op Nat)) (h : Own s) (hth : s.v.h.thin = true) (hal : s.v.h.alive = true)
    (hsm : SmallHist s ops) (hm : tvHist s ops = some vops) (hw : (absTV alT s).Wf)
    (hq : TVQuiet (absTV alT s) vops) :
    absL (runQ ops s).2 = (specRun (absL s) vops).2 ∧
      retsMatch (runQ ops s).1 (specRun (absL s) vops).1 := by
  obtain ⟨r1, r2⟩ := slots_run_refines_tv alT ha ops s vops h hth hal hsm hm
  obtain ⟨c1, c2⟩ := tv_refines (absTV alT s) hw vops hq
  rw [c1] at r1
  have := congrArg TV.xs r2
  rw [c2] at this
  exact ⟨by simpa [absTV] using this, r1⟩

/-- `len ≤ capacity()` along every fault-free history, and the ThinVec capacity of the slot model
is the list model's capacity at the end of every fault-free history in scope. -/
theorem slots_len_cap {s : St} (alT : Nat) (ha : AlignOk alT) (ops : List Op)
    (vops : List (Vecs.Op Nat)) (h : Own s) (hth : s.v.h.thin = true) (hal : s.v.h.alive = true)
    (hsm : SmallHist s ops) (hm : tvHist s ops = some vops) :
    (runQ ops s).2.v.len ≤ (runQ ops s).2.v.cap ∧
      (runQ ops s).2.v.cap = ((absTV alT s).run vops).2.cap := by
  refine ⟨slots_len_le_cap h ops, ?_⟩
  have := congrArg TV.cap (slots_run_refines_tv alT ha ops s vops h hth hal hsm hm).2
  simpa [absTV] using this

/-! ### Non-vacuity -/

/-- the initial states of the two models correspond -/
example : absIV (initInline 3) = IV.new 3 := by decide
example : absTV 8 (initThin 8 true) = HipVerif.Vecs.tv0 := by decide

/-- an InlineVec history with a capacity panic (`push` on the full vector), a shift, a swap, clones
and a drain: mapped completely, and both models end with the same ids -/
example :
    let ops : List Op := [.push, .push, .push, .push, .insert 0, .swapRemove 0, .extWithin 0 1,
      .pop, .drain 0 1 [.back] .drop, .resize 3]
    (ivHist (initInline 3) ops).isSome = true ∧
      absIV (runQ ops (initInline 3)).2 = ⟨3, [1, 7, 8]⟩ ∧
      (runQ ops (initInline 3)).1 = [.unit, .unit, .unit, .panic, .panic, .some 0, .unit, .some 5,
        .unit, .unit] := by
  intro ops
  decide

/-- a ThinVec history across the first reallocation (capacity 4 → 8), with an under-reporting
iterator and a conversion: in scope, mapped completely -/
example :
    let ops : List Op := [.push, .push, .push, .extIter 1 3, .remove 1, .shrinkFit, .roundtrip,
      .splitOff 2]
    (tvHist (initThin 8 true) ops).isSome = true ∧
      (runQ ops (initThin 8 true)).2.v.cap = 5 ∧ absL (runQ ops (initThin 8 true)).2 = [1, 3] := by
  intro ops
  decide

/-- the iterator's provided methods map to list-level pulls: `nth(1)` is two `next`s, `count` /
`fold` / `last` end with the iterator's drop -/
example :
    ivHist (initInline 4) [.push, .push, .push, .drain 0 3 [.nth 1, .nthBack 0] .count] =
        some [.push 0, .push 1, .push 2,
          .drain (.incl 0) (.excl 3) [.front, .front, .back] .drop] := rfl
example :
    absIV (runQ [.push, .push, .push, .push, .drain 0 3 [.nth 1] .fold] (initInline 4)).2
      = ⟨4, [3]⟩ := by decide

/-- the side conditions of the `Vec`-level corollaries are satisfiable -/
example : SmallHist (initThin 8 true) [.push, .push, .push, .extIter 1 3, .remove 1, .shrinkFit,
    .roundtrip, .splitOff 2] := by decide
example : ivHist (initInline 3) [.push, .insert 0, .pop] = some [.push 0, .insert 0 1, .pop] := rfl
example : IVFits 3 ([] : List Nat) [.push 0, .insert 0 1, .pop] := by
  simp [IVFits, Vecs.Op.forIV, Vecs.needs, Vecs.specStep, HipVerif.Spec.Vec.push]

end HipVerif.Props.C13
