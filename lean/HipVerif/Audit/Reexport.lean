/-
`reexport Core.foo as foo` declares, in the current namespace, the theorem `foo` with EXACTLY the
statement of `Core.foo`, proved by it.  Used by `Props/Cnn.lean` to list, as obligations of a
property, theorems whose proofs live in `Lemmas/` (the kernel re-checks the new declaration).
-/
import Lean
open Lean Elab Command

namespace HipVerif.Audit

elab (docComment)? "reexport " src:ident " as " dst:ident : command => do
  let srcName ← liftCoreM <| realizeGlobalConstNoOverloadWithInfo src
  let info ← getConstInfo srcName
  let ns ← getCurrNamespace
  let dstName := ns ++ dst.getId
  let lvls := info.levelParams.map mkLevelParam
  match info with
  | .thmInfo _ =>
    liftCoreM <| addDecl (.thmDecl {
      name := dstName, levelParams := info.levelParams, type := info.type,
      value := mkConst srcName lvls })
    liftCoreM <| addDeclarationRangesFromSyntax dstName (← getRef) dst
  | _ => throwError "reexport: {srcName} is not a theorem"

end HipVerif.Audit
