/-
Axiom audit: `#audit_ns HipVerif.Props.C08` prints one line per user-written theorem of
that namespace, read from the compiled environment (not from source text):

  AUDIT {"theorem":"HipVerif.Props.C08.simplify_iff","axioms":["propext"],"ok":true}

`ok` is true when every axiom is one of `propext`, `Classical.choice`, `Quot.sound`.
-/
import Lean
open Lean Elab Command

namespace HipVerif.Audit

def accepted : List Name := [``propext, ``Classical.choice, ``Quot.sound]

def jsonStr (s : String) : String :=
  "\"" ++ (s.replace "\\" "\\\\").replace "\"" "\\\"" ++ "\""

elab "#audit_ns " ns:ident : command => do
  let env ← getEnv
  let nsName := ns.getId
  let mut names : Array Name := #[]
  for (n, ci) in env.constants.toList do
    if nsName.isPrefixOf n && n != nsName then
      match ci with
      | .thmInfo _ =>
        if (← liftCoreM <| findDeclarationRanges? n).isSome && !n.isInternalDetail then
          names := names.push n
      | _ => pure ()
  let sorted := names.qsort (fun a b => a.toString < b.toString)
  for n in sorted do
    let axs ← liftCoreM <| collectAxioms n
    let axs := axs.qsort (fun a b => a.toString < b.toString)
    let ok := axs.all (fun a => accepted.contains a)
    let axStr := ", ".intercalate (axs.toList.map (fun a => jsonStr a.toString))
    IO.println s!"AUDIT \{\"theorem\":{jsonStr n.toString},\"axioms\":[{axStr}],\"ok\":{ok}}"
  IO.println s!"AUDIT-COUNT {sorted.size}"

end HipVerif.Audit
