/-
The std-side specification of the `HipStr` operations: what `String` / `str` do, on the same
pool of plain byte lists as `Spec.Std` (a `String`'s contents are its UTF-8 bytes).

Written from the documentation of `String::push`, `push_str`, `pop`, `truncate`, `str::get`,
`Index<Range…> for str`, `String::from_utf8` and of the crate's `SliceError`, independently of
`Str.strStep`: no representation, no byte-level state machine, and `pop` is specified through
the FORWARD decomposition of the string into scalar values (`chars`), not through the backward
scan the code performs.  A `.byte op` is `Spec.Std.step` of that operation (told, like there, the
representation-dependent answer `flag`).  Destination slots are a harness notion: a slot is
looked at only when a value is produced.
-/
import HipVerif.Model.CoreStr

namespace HipVerif.Spec.Str
open HipVerif.Utf8 HipVerif.Core HipVerif.Spec.Std HipVerif.Spec.Range HipVerif.RangeTy HipVerif.Str

/-- `str::chars()` as byte groups, with fuel: peel one scalar per unit of fuel (an ill-formed
remainder — impossible in a `str` — is kept as one group). -/
def charsFuel : Nat → List UInt8 → List (List UInt8)
  | _, [] => []
  | 0, _ :: _ => []
  | fuel + 1, s@(_ :: _) =>
    match firstCharLen s with
    | 0 => [s]
    | n => s.take n :: charsFuel fuel (s.drop n)

/-- the scalar values of a string, each as its UTF-8 encoding, in order (`str::chars()`) -/
def chars (s : List UInt8) : List (List UInt8) := charsFuel s.length s

/-- the range error `SliceError` reports when std's bound checks reject the range: the requested
bounds (an overflowing `n + 1` saturates) and the first failing check in the documented order -/
def rangeErrOf (sb eb : Bound) (len : Nat) : StrErr :=
  let a := min (startIdx sb) (U - 1)
  let b := min (endIdx len eb) (U - 1)
  if a > len then .range a b .startOutOfBounds
  else if b > len then .range a b .endOutOfBounds
  else .range a b .startGreaterThanEnd

/-- information a std value does not have is erased before results are compared -/
def eraseStrRet : StrRet → StrRet
  | .byte r => .byte (eraseRet r)
  | r => r

/-- the representation-dependent answer of a byte-level operation, for the specification -/
def strRetFlag : StrRet → Bool
  | .byte r => retFlag r
  | _ => true

def step (icap : Nat) (srcs : List (List UInt8)) (p : SPool) (sop : StrOp) (flag : Bool) : SPool × StrRet :=
  match sop with
  | .byte op => ((Spec.Std.step icap srcs p op flag).1, .byte (Spec.Std.step icap srcs p op flag).2)
  -- `String::push_str`
  | .pushStr h bs =>
    match sget p h with
    | some v => (p.set h (some (v ++ bs)), .byte .unit)
    | none => (p, .byte .badOp)
  -- `String::push`: appends the UTF-8 encoding of the char
  | .pushChar h c =>
    match sget p h with
    | some v => (p.set h (some (v ++ encode c)), .byte .unit)
    | none => (p, .byte .badOp)
  -- `String::pop`: `None` if empty, else removes the last char and returns it
  | .popChar h =>
    match sget p h with
    | some v =>
      match (chars v).getLast? with
      | none => (p, .char none)
      | some c => (p.set h (some (chars v).dropLast.flatten), .char (some c))
    | none => (p, .byte .badOp)
  -- `String::truncate`: no effect if `new_len ≥ len`; panics if not on a char boundary
  | .truncate h n =>
    match sget p h with
    | some v =>
      if n ≥ v.length then (p, .byte .unit)
      else if isBoundary v n then (p.set h (some (v.take n)), .byte .unit)
      else (p, .panic)
    | none => (p, .byte .badOp)
  -- `str::get(range)` with the crate's error classification: range errors as for bytes, then
  -- start-not-a-boundary, then end-not-a-boundary
  | .trySlice h d sb eb =>
    match sget p h with
    | some v =>
      match stdGet sb eb v.length with
      | some (a, b) =>
        if !isBoundary v a then (p, .sliceErr (.startNotBoundary a b))
        else if !isBoundary v b then (p, .sliceErr (.endNotBoundary a b))
        else if sfree p d then (p.set d (some ((v.drop a).take (b - a))), .byte (.bool true))
        else (p, .byte .badOp)
      | none => (p, .sliceErr (rangeErrOf sb eb v.length))
    | none => (p, .byte .badOp)
  -- `&s[range]`: panics where `get` returns `None`
  | .slice h d sb eb =>
    match sget p h with
    | some v =>
      match stdGet sb eb v.length with
      | some (a, b) =>
        if isBoundary v a && isBoundary v b then
          if sfree p d then (p.set d (some ((v.drop a).take (b - a))), .byte .unit)
          else (p, .byte .badOp)
        else (p, .panic)
      | none => (p, .panic)
    | none => (p, .byte .badOp)
  -- `String::from_utf8`: `Err` with `valid_up_to`, or the very bytes
  | .fromUtf8 d bs =>
    if valid bs then
      if sfree p d then (p.set d (some bs), .byte .unit) else (p, .byte .badOp)
    else (p, .utf8Err (validUpTo bs))

/-- the specification run on a history, told at each step the representation-dependent answer
the implementation gave (used by `.byte` operations only) -/
def run (icap : Nat) (srcs : List (List UInt8)) (p : SPool) : List (StrOp × Bool) → SPool × List StrRet
  | [] => (p, [])
  | (op, flag) :: rest =>
    let (p1, r) := step icap srcs p op flag
    let (p2, rs) := run icap srcs p1 rest
    (p2, r :: rs)

end HipVerif.Spec.Str
