/-
The std-side specification of the string/bytes family: a pool of plain byte lists
(`Vec<u8>` / `String` / `OsString` / `PathBuf` contents) under the same operations.
Written from the std documentation and the crate's documented preconditions, independently
of `Model/Core.lean`: no representation, no sharing, no counts, no buffers.

Three outcomes depend on the representation, which a std value does not have; for them the
specification is told what the implementation answered (`flag`) and says what must then be
true of the contents:
  * `as_mut_slice` granted or not (a refusal must leave everything unchanged),
  * `into_vec` / `into_borrowed` succeeded or handed the value back unchanged.
-/
import HipVerif.Model.Core
import HipVerif.Spec.Range

namespace HipVerif.Spec.Std
open HipVerif.Core HipVerif.RangeTy HipVerif.Spec.Range

abbrev SPool := List (Option (List UInt8))

def sget (p : SPool) (h : Nat) : Option (List UInt8) := p[h]?.getD none
def sfree (p : SPool) (d : Nat) : Bool := d < p.length && (sget p d).isNone

/-- the error `try_slice` must report: the requested bounds (an overflowing `n + 1`
saturates) and the first failing check in the documented order -/
def sliceErrOf (sb eb : Bound) (len : Nat) : Ret :=
  let a := min (startIdx sb) (U - 1)
  let b := min (endIdx len eb) (U - 1)
  if a > len then .sliceErr a b .startOutOfBounds
  else if b > len then .sliceErr a b .endOutOfBounds
  else .sliceErr a b .startGreaterThanEnd

def applyVecOp (v : List UInt8) : VecOp → List UInt8
  | .push b => v ++ [b]
  | .extend bs => v ++ bs
  | .truncate n => v.take n
  | .clear => []

/-- information a std value does not have is erased before results are compared -/
def eraseRet : Ret → Ret
  | .nat _ => .nat 0
  | r => r

def retFlag : Ret → Bool
  | .bool b => b
  | _ => true

def step (icap : Nat) (srcs : List (List UInt8)) (p : SPool) (op : Op) (flag : Bool) : SPool × Ret :=
  match op with
  | .new d => if sfree p d then (p.set d (some []), .unit) else (p, .badOp)
  | .fromSlice d bs => if sfree p d then (p.set d (some bs), .unit) else (p, .badOp)
  | .fromVec d bs cap =>
    if sfree p d && decide (bs.length ≤ cap) then (p.set d (some bs), .unit) else (p, .badOp)
  | .borrowed d src off len =>
    if sfree p d && decide (off + len ≤ (srcs[src]?.getD []).length) && decide (src < srcs.length) then
      (p.set d (some (((srcs[src]?.getD []).drop off).take len)), .unit)
    else (p, .badOp)
  | .withCapacity d _ => if sfree p d then (p.set d (some []), .unit) else (p, .badOp)
  | .inline d bs =>
    if sfree p d then (if bs.length ≤ icap then (p.set d (some bs), .unit) else (p, .panic)) else (p, .badOp)
  | .tryInline d bs =>
    if sfree p d then
      (if bs.length ≤ icap then (p.set d (some bs), .bool true) else (p, .bool false))
    else (p, .badOp)
  | .clone h d =>
    match sget p h with
    | some v => if sfree p d then (p.set d (some v), .unit) else (p, .badOp)
    | none => (p, .badOp)
  | .slice h d sb eb =>
    match sget p h with
    | some v =>
      if sfree p d then
        match stdGet sb eb v.length with
        | some (a, b) => (p.set d (some ((v.drop a).take (b - a))), .unit)
        | none => (p, .panic)
      else (p, .badOp)
    | none => (p, .badOp)
  | .trySlice h d sb eb =>
    match sget p h with
    | some v =>
      if sfree p d then
        match stdGet sb eb v.length with
        | some (a, b) => (p.set d (some ((v.drop a).take (b - a))), .bool true)
        | none => (p, sliceErrOf sb eb v.length)
      else (p, .badOp)
    | none => (p, .badOp)
  | .trySliceRef h d relNeg rel plen =>
    match sget p h with
    | some v =>
      if sfree p d then
        -- the probe lies inside the value iff it does not start before it and ends within it
        if (!relNeg || rel == 0) && decide (rel + plen ≤ v.length) then
          (p.set d (some ((v.drop rel).take plen)), .bool true)
        else (p, .bool false)
      else (p, .badOp)
    | none => (p, .badOp)
  | .sliceRef h d relNeg rel plen =>
    match sget p h with
    | some v =>
      if sfree p d then
        if (!relNeg || rel == 0) && decide (rel + plen ≤ v.length) then
          (p.set d (some ((v.drop rel).take plen)), .unit)
        else (p, .panic)
      else (p, .badOp)
    | none => (p, .badOp)
  | .adopt h d off len =>
    match sget p h with
    | some v =>
      if sfree p d && decide (off + len ≤ v.length) then (p.set d (some ((v.drop off).take len)), .unit)
      else (p, .badOp)
    | none => (p, .badOp)
  | .pushSlice h bs =>
    match sget p h with
    | some v => (p.set h (some (v ++ bs)), .unit)
    | none => (p, .badOp)
  | .pop h =>
    match sget p h with
    | some v => if v.length = 0 then (p, .optByte none) else (p.set h (some v.dropLast), .optByte v.getLast?)
    | none => (p, .badOp)
  | .truncate h n =>
    match sget p h with
    | some v => (p.set h (some (v.take n)), .unit)
    | none => (p, .badOp)
  | .clear h =>
    match sget p h with
    | some _ => (p.set h (some []), .unit)
    | none => (p, .badOp)
  | .shrinkTo h _ =>
    match sget p h with
    | some _ => (p, .unit)
    | none => (p, .badOp)
  | .shrinkToFit h =>
    match sget p h with
    | some _ => (p, .unit)
    | none => (p, .badOp)
  | .asMutWrite h i b =>
    match sget p h with
    | some v => if flag then (p.set h (some (v.set i b)), .bool true) else (p, .bool false)
    | none => (p, .badOp)
  | .toMutWrite h i b =>
    match sget p h with
    | some v => (p.set h (some (v.set i b)), .unit)
    | none => (p, .badOp)
  | .makeAsciiLower h =>
    match sget p h with
    | some v => (p.set h (some (v.map asciiLower)), .unit)
    | none => (p, .badOp)
  | .makeAsciiUpper h =>
    match sget p h with
    | some v => (p.set h (some (v.map asciiUpper)), .unit)
    | none => (p, .badOp)
  | .toAsciiLower h d =>
    match sget p h with
    | some v => if sfree p d then (p.set d (some (v.map asciiLower)), .unit) else (p, .badOp)
    | none => (p, .badOp)
  | .toAsciiUpper h d =>
    match sget p h with
    | some v => if sfree p d then (p.set d (some (v.map asciiUpper)), .unit) else (p, .badOp)
    | none => (p, .badOp)
  | .mutate h script =>
    match sget p h with
    | some v => (p.set h (some (script.foldl applyVecOp v)), .unit)
    | none => (p, .badOp)
  | .mutateLeak h _ =>
    match sget p h with
    | some _ => (p.set h (some []), .unit)
    | none => (p, .badOp)
  | .intoOwned h d =>
    match sget p h with
    | some v => if sfree p d then ((p.set h none).set d (some v), .unit) else (p, .badOp)
    | none => (p, .badOp)
  | .intoVec h =>
    match sget p h with
    | some v => if flag then (p.set h none, .bytes v) else (p, .bool false)
    | none => (p, .badOp)
  | .toVec h =>
    match sget p h with
    | some v => (p.set h none, .bytes v)
    | none => (p, .badOp)
  | .intoBorrowed h =>
    match sget p h with
    | some v => if flag then (p.set h none, .bytes v) else (p, .bool false)
    | none => (p, .badOp)
  | .repeat h d n =>
    match sget p h with
    | some v =>
      if sfree p d then
        if v.length = 0 || n = 1 then (p.set d (some v), .unit)
        -- `[u8]::repeat` panics ("capacity overflow") beyond `isize::MAX` bytes
        else if v.length * n < U / 2 then (p.set d (some (List.replicate n v).flatten), .unit)
        else (p, .panic)
      else (p, .badOp)
    | none => (p, .badOp)
  | .spareCapacity h =>
    match sget p h with
    | some _ => (p, .nat 0)
    | none => (p, .badOp)
  | .drop h =>
    match sget p h with
    | some _ => (p.set h none, .unit)
    | none => (p, .badOp)

end HipVerif.Spec.Std
