/-
  Std-side specification for property C16 (serialisation), written independently of the model:

  * serde's data model as seen by a `Visitor` (`Token`) and by a `Serializer` (`SerOut`);
  * what std's own `Deserialize` implementations accept (`String`, `Vec<u8>`, `PathBuf`) and what
    std's `Serialize` implementations emit (`str`, `OsStr` on Unix, `Path`);
  * borsh's encoding of `Vec<u8>` / `[u8]` / `str` / `String`.

  Byte strings are `List UInt8`; UTF-8 well-formedness is a parameter `valid`.
-/
import HipVerif.Model.CodecTy

namespace HipVerif.Spec.Codec
open HipVerif.Codec

/-! ## serde data model -/

/-- One call a `Deserializer` may make on a `Visitor` with string-like data.
`str/borrowedStr/string/char` carry the UTF-8 bytes of a Rust `str`/`String`/`char`
(well-formed by the type's invariant, see `Token.wf`); `seq` carries the size hint and the
elements, `none` standing for an element that does not deserialise as a `u8`; `other` is any
other entry point (`visit_bool`, `visit_i64`, `visit_map`, …). -/
inductive Token where
  | str (s : List UInt8)
  | borrowedStr (s : List UInt8)
  | string (s : List UInt8)
  | bytes (b : List UInt8)
  | borrowedBytes (b : List UInt8)
  | byteBuf (b : List UInt8)
  | seq (hint : Option Nat) (xs : List (Option UInt8))
  | char (enc : List UInt8)
  | other
  deriving DecidableEq, Repr, Inhabited

/-- All elements of a sequence are `u8`s: the collected bytes. -/
def collect : List (Option UInt8) → Option (List UInt8)
  | [] => some []
  | none :: _ => none
  | some b :: xs => (collect xs).map (b :: ·)

/-- The `visit_*` method a token calls. -/
def Token.method : Token → Option Method
  | .str _ => some .str
  | .borrowedStr _ => some .borrowedStr
  | .string _ => some .string
  | .bytes _ => some .bytes
  | .borrowedBytes _ => some .borrowedBytes
  | .byteBuf _ => some .byteBuf
  | .seq _ _ => some .seq
  | .char _ => some .char
  | .other => none

/-- The bytes a token carries (`none`: no string-like content). -/
def Token.content : Token → Option (List UInt8)
  | .str s | .borrowedStr s | .string s | .char s => some s
  | .bytes b | .borrowedBytes b | .byteBuf b => some b
  | .seq _ xs => collect xs
  | .other => none

/-- The token hands out data borrowed from the input for `'de`. -/
def Token.isBorrowed : Token → Bool
  | .borrowedStr _ | .borrowedBytes _ => true
  | _ => false

/-- The token's payload has a Rust string type (`&str`, `String`, `char`). -/
def Token.isStrTyped : Token → Bool
  | .str _ | .borrowedStr _ | .string _ | .char _ => true
  | _ => false

/-- Type invariant of the token: `str`-typed payloads are well-formed UTF-8. -/
def Token.wf (valid : List UInt8 → Bool) : Token → Bool
  | .str s | .borrowedStr s | .string s | .char s => valid s
  | _ => true

/-- What a `Serialize` implementation asks the `Serializer` to write. -/
inductive SerOut where
  /-- `serialize_bytes(b)` -/
  | bytes (b : List UInt8)
  /-- `serialize_str(s)` -/
  | str (s : List UInt8)
  /-- `serialize_newtype_variant("OsString", 0, "Unix", bytes)` (a `[u8]`, i.e. a sequence). -/
  | osUnix (b : List UInt8)
  /-- `Err(S::Error::custom(..))` -/
  | error
  deriving DecidableEq, Repr, Inhabited

/-! ## std's `Deserialize` implementations (serde_core `de/impls.rs`)

`String`: `deserializer.deserialize_string(StringVisitor)`; `StringVisitor` implements
`visit_str` (to_owned), `visit_string` (move), `visit_bytes` (`str::from_utf8`, else
`invalid_value`), `visit_byte_buf` (`String::from_utf8`, else `invalid_value`).  The trait's
defaults forward `visit_borrowed_str`/`visit_char` to `visit_str` and `visit_borrowed_bytes` to
`visit_bytes`; `visit_seq` and everything else keep the default `invalid_type` error. -/
def stringDe (valid : List UInt8 → Bool) : Token → Option (List UInt8)
  | .str s | .borrowedStr s | .string s | .char s => some s
  | .bytes b | .borrowedBytes b | .byteBuf b => if valid b then some b else none
  | .seq _ _ | .other => none

/-- `PathBuf`: `deserializer.deserialize_string(PathBufVisitor)`; `PathBufVisitor` implements
`visit_str`, `visit_string`, `visit_bytes` and `visit_byte_buf` (both through `from_utf8`):
the same acceptance as `String`. -/
def pathBufDe (valid : List UInt8 → Bool) : Token → Option (List UInt8) := stringDe valid

/-- `Vec<u8>` (`impl Deserialize for Vec<T>`): `deserializer.deserialize_seq(VecVisitor)`;
`VecVisitor` implements `visit_seq` only (capacity `size_hint::cautious`, then one
`next_element()?` per element). -/
def vecU8De : Token → Option (List UInt8)
  | .seq _ xs => collect xs
  | _ => none

/-! ## std's `Serialize` implementations (serde_core `ser/impls.rs`) -/

/-- `str`/`String`: `serializer.serialize_str(self)`. -/
def strSer (s : List UInt8) : SerOut := .str s

/-- `OsStr` on Unix: `serialize_newtype_variant("OsString", 0, "Unix", self.as_bytes())`. -/
def osStrSer (b : List UInt8) : SerOut := .osUnix b

/-- `Path`: `match self.to_str() { Some(s) => s.serialize(serializer),
None => Err(Error::custom("path contains invalid UTF-8 characters")) }`. -/
def pathSer (valid : List UInt8 → Bool) (b : List UInt8) : SerOut :=
  if valid b then .str b else .error

/-! ## borsh (borsh specification; borsh-rs `ser/mod.rs`, `de/mod.rs`) -/

/-- `k`-byte little-endian encoding of `n` (`uN::to_le_bytes`). -/
def leBytes : Nat → Nat → List UInt8
  | 0, _ => []
  | k + 1, n => UInt8.ofNat (n % 256) :: leBytes k (n / 256)

/-- Little-endian value of a byte string (`uN::from_le_bytes`). -/
def fromLe : List UInt8 → Nat
  | [] => 0
  | b :: bs => b.toNat + 256 * fromLe bs

/-- borsh encoding of a dynamically sized byte container (`Vec<u8>`, `[u8]`, and — on the UTF-8
bytes — `str`, `String`): the length as `u32` little-endian, then the bytes.  The writer fails
(`InvalidData`) when the length does not fit a `u32`. -/
def borshVecU8 (b : List UInt8) : Option (List UInt8) :=
  if b.length < 2 ^ 32 then some (leBytes 4 b.length ++ b) else none

end HipVerif.Spec.Codec
