/-
std-side specification of range indexing, on unbounded naturals.
Written from the std documentation/sources, independently of the crate.
-/
import HipVerif.Model.RangeTy

namespace HipVerif.Spec.Range
open HipVerif.RangeTy

/-- First index denoted by a start bound (mathematically, no overflow). -/
def startIdx : Bound → Nat
  | .included n => n
  | .excluded n => n + 1
  | .unbounded => 0

/-- One-past-the-last index denoted by an end bound (mathematically, no overflow). -/
def endIdx (len : Nat) : Bound → Nat
  | .included n => n + 1
  | .excluded n => n
  | .unbounded => len

/-- `<[T]>::get((start_bound, end_bound))`: `Some(start..end)` exactly when
`start ≤ end ≤ len`; std computes `n + 1` with `checked_add` and returns `None` when it
overflows — on naturals such a bound is simply larger than any `len`. -/
def stdGet (s e : Bound) (len : Nat) : Option (Nat × Nat) :=
  let a := startIdx s
  let b := endIdx len e
  if a ≤ b ∧ b ≤ len then some (a, b) else none

/-- `core::slice::range(r, ..len)` as used by `Vec::drain`, `Vec::extend_from_within`:
returns the half-open range or panics (`none`) when `start > end`, `end > len` or a bound
overflows. -/
def vecRange (s e : Bound) (len : Nat) : Option (Nat × Nat) :=
  let a := startIdx s
  let b := endIdx len e
  if a > b then none else if b > len then none else some (a, b)

/-- The value carried by a bound fits a `usize`. -/
def Bound.fits : Bound → Prop
  | .included n => n < U
  | .excluded n => n < U
  | .unbounded => True

/-- `isize::MAX`: no Rust slice is longer. -/
def isizeMax : Nat := 2 ^ 63 - 1

end HipVerif.Spec.Range
