/-
  Spec/Vec.lean — what `std::vec::Vec<T>` does, as plain functions over `List α`.

  Written from the std documentation (alloc::vec::Vec, core::slice::range), independently of
  the hipstr model in `Model/Vecs.lean`.  A documented panic is the result `none`; every
  function is total.  Capacity is not part of this specification (std only promises
  `capacity() ≥ len()` and `≥` what was reserved), so `reserve`, `shrink_to`, … are the identity
  on contents.  "Capacity overflow" (a request above `isize::MAX` bytes) is not modelled here:
  lists are unbounded; the properties treat that panic as a separate class.
-/
namespace HipVerif.Spec.Vec

/-- `core::ops::Bound<usize>`. -/
inductive Bnd where
  | incl (n : Nat)
  | excl (n : Nat)
  | unb
  deriving Repr, DecidableEq, Inhabited

/-- `usize::MAX` on the 64-bit targets the crate is checked on. -/
def usizeMax : Nat := 2 ^ 64 - 1

/-- `core::slice::range(r, ..len)`: `Included(e)` ends at `e+1`, `Excluded(s)` starts at `s+1`
    (both panic when the `+1` overflows `usize`, i.e. the bound is `usize::MAX`), `Unbounded` is `0` / `len`; panics if
    `start > end` ("slice index starts at … but ends at …") or `end > len`
    ("range end index … out of range"). -/
def range (sb eb : Bnd) (len : Nat) : Option (Nat × Nat) :=
  let start? : Option Nat :=
    match sb with
    | .incl s => some s
    | .excl s => if usizeMax ≤ s then none else some (s + 1)
    | .unb => some 0
  let end? : Option Nat :=
    match eb with
    | .incl e => if usizeMax ≤ e then none else some (e + 1)
    | .excl e => some e
    | .unb => some len
  match start?, end? with
  | some s, some e => if s ≤ e ∧ e ≤ len then some (s, e) else none
  | _, _ => none

/-- `Vec::push`: appends at the back. Never panics (short of capacity overflow). -/
def push (xs : List α) (v : α) : List α := xs ++ [v]

/-- `Vec::pop`: removes the last element and returns it, `None` if empty. -/
def pop (xs : List α) : Option α × List α := (xs.getLast?, xs.dropLast)

/-- `Vec::pop_if`: the predicate is only consulted on a non-empty vector (`b` is its answer). -/
def popIf (xs : List α) (b : Bool) : Option α × List α :=
  match xs.getLast? with
  | none => (none, xs)
  | some l => if b then (some l, xs.dropLast) else (none, xs)

/-- `Vec::insert`: panics if `index > len`; everything from `index` on moves right. -/
def insert (xs : List α) (i : Nat) (v : α) : Option (List α) :=
  if i ≤ xs.length then some (xs.insertIdx i v) else none

/-- `Vec::remove`: panics if `index >= len`; returns the element, the rest moves left. -/
def remove (xs : List α) (i : Nat) : Option (α × List α) :=
  match xs[i]? with
  | some a => some (a, xs.eraseIdx i)
  | none => none

/-- `Vec::swap_remove`: panics if `index >= len`; the removed element is replaced by the
    last element of the vector. -/
def swapRemove (xs : List α) (i : Nat) : Option (α × List α) :=
  match xs[i]?, xs.getLast? with
  | some a, some l => some (a, (xs.set i l).dropLast)
  | _, _ => none

/-- `Vec::truncate`: keeps the first `n` elements; no effect if `n ≥ len`. -/
def truncate (xs : List α) (n : Nat) : List α := xs.take n

/-- `Vec::clear`. -/
def clear (_xs : List α) : List α := []

/-- `Vec::resize`: truncates, or extends with clones of `v`. -/
def resize (xs : List α) (n : Nat) (v : α) : List α :=
  if n ≤ xs.length then xs.take n else xs ++ List.replicate (n - xs.length) v

/-- `Vec::resize_with`: truncates, or extends with the successive results `g 0, g 1, …` of
    the closure. -/
def resizeWith (xs : List α) (n : Nat) (g : Nat → α) : List α :=
  if n ≤ xs.length then xs.take n else xs ++ (List.range (n - xs.length)).map g

/-- `Vec::extend_from_slice` / `Extend::extend` / `extend_from_slice` of a `Copy` slice /
    appending an array: the items are appended in order. -/
def extend (xs items : List α) : List α := xs ++ items

/-- `Vec::extend_from_within(src)`: panics like `slice::range`; appends a copy of `xs[src]`. -/
def extendFromWithin (xs : List α) (sb eb : Bnd) : Option (List α) :=
  match range sb eb xs.length with
  | some (a, b) => some (xs ++ (xs.drop a).take (b - a))
  | none => none

/-- `Vec::append(&mut other)`: moves everything out of `other`, which is left empty.
    Result: (self, other). -/
def append (xs other : List α) : List α × List α := (xs ++ other, [])

/-- Appending one vector to another across types (`InlineVec::const_append` between two inline
    vectors of different capacities): exactly `Vec::append` — the destination gets everything, in
    order, the source is left empty. (The fixed-capacity rule — the *destination's* capacity must
    hold the total — is stated by `needs` in `Lemmas/Vecs.lean`.) Result: (self, other). -/
def constAppend (xs other : List α) : List α × List α := append xs other

/-- `Vec::reserve(n)`, then the first `n` slots of `Vec::spare_capacity_mut()` written with `vals`
    and `unsafe { set_len(len + n) }`: the values are appended in order. -/
def spareWrite (xs vals : List α) : List α := xs ++ vals

/-- `Vec::split_off(at)`: panics if `at > len`; result (self = `[0, at)`, returned = `[at, len)`). -/
def splitOff (xs : List α) (n : Nat) : Option (List α × List α) :=
  if n ≤ xs.length then some (xs.take n, xs.drop n) else none

/-- One pull on a double-ended iterator. -/
inductive Side where
  | front
  | back
  deriving Repr, DecidableEq, Inhabited

/-- What a double-ended iterator over `mid` yields for a script of `next` / `next_back`
    calls (calls answered `None` yield nothing). -/
def consume : List Side → List α → List α
  | [], _ => []
  | .front :: r, mid =>
    match mid with
    | [] => consume r []
    | x :: m => x :: consume r m
  | .back :: r, mid =>
    match mid.getLast? with
    | some l => l :: consume r mid.dropLast
    | none => consume r mid

/-- `Vec::drain(range)` driven by `script`, the iterator then being dropped (`leak = false`)
    or forgotten (`leak = true`).  Panics like `slice::range`.  Dropping removes exactly the
    range whatever was consumed; forgetting leaves the vector truncated at `range.start`
    (std sets the length there when the iterator is created — the documentation only promises
    "may have lost and leaked elements arbitrarily", the harness compares with what std does).
    Result: (items yielded, vector afterwards). -/
def drain (xs : List α) (sb eb : Bnd) (script : List Side) (leak : Bool) :
    Option (List α × List α) :=
  match range sb eb xs.length with
  | some (a, b) =>
    let ys := consume script ((xs.drop a).take (b - a))
    some (ys, if leak then xs.take a else xs.take a ++ xs.drop b)
  | none => none

/-- `Vec::into_iter` driven by `script` then dropped: the items yielded. -/
def intoIter (xs : List α) (script : List Side) : List α := consume script xs

/-- `Clone::clone`. -/
def clone (xs : List α) : List α := xs

/-- `Vec::from(…)` / `FromIterator`: exactly the source's items, in order. -/
def fromItems (items : List α) : List α := items

/-- `reserve`, `reserve_exact`, `shrink_to`, `shrink_to_fit`, `with_capacity` never change the
    contents. -/
def keep (xs : List α) : List α := xs

end HipVerif.Spec.Vec
