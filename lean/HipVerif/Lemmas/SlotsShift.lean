/-
Ownership-invariant preservation for the operations that shift slots (insert, remove,
swap_remove, append, split_off, drain, into_iter, roundtrip) and for container drop.
-/
import HipVerif.Lemmas.SlotsInline
namespace HipVerif.Slots

variable {fl : Bool}

theorem take_len_add {α} (A R : List α) (k : Nat) :
    (A ++ R).take (A.length + k) = A ++ R.take k := by
  simp [List.take_append, List.take_of_length_le]

theorem drop_len_add {α} (A R : List α) (k : Nat) : (A ++ R).drop (A.length + k) = R.drop k := by
  simp [List.drop_append]

/-- split the view at `i` -/
theorem OwnL.split_at {s loc locB} (h : OwnL fl s loc locB) {i : Nat} (hi : i ≤ s.v.len) :
    ∃ L1 L2 rest, L1.length = i ∧ s.v.len = L1.length + L2.length ∧
      s.v.slots = L1.map .init ++ L2.map .init ++ rest ∧ HdrOk s.v ∧
      Acct fl s.mem (loc ++ (prefL s.v.h ++ (L1 ++ L2))) (locB ++ bufL s.v.h) := by
  obtain ⟨L, rest, hl, hs, hp, ha⟩ := h
  refine ⟨L.take i, L.drop i, rest, by simp; omega, by simp; omega, ?_, hp, ?_⟩
  · rw [← List.map_append, List.take_append_drop]; exact hs
  · rw [List.take_append_drop]; exact ha

theorem St.copyWithin_eq {s : St} {src dst n : Nat} {X : List Slot}
    (hx : s.v.range src (src + n) = X) (hb : dst + X.length ≤ s.v.cap) :
    s.copyWithin src dst n = { s with v := s.v.writeChunk dst X } := by
  simp [St.copyWithin, St.wrChunk, hx, hb]

/-- a chunk written at `|A|` over `A ++ R`: the prefix `A` stays, the chunk follows -/
theorem writeChunk_at {A R X : List Slot} :
    ∃ Y, (A ++ R).take A.length ++ X ++ (A ++ R).drop (A.length + X.length) = A ++ X ++ Y :=
  ⟨_, by rw [List.take_left']; rfl⟩

/-- the shift of `insert`: chunk written one slot to the right, then the hole is filled -/
theorem insert_raw {A R X : List Slot} {x : Slot} (hR : R ≠ []) :
    ∃ Y, ((A ++ R).take (A.length + 1) ++ X ++ (A ++ R).drop (A.length + 1 + X.length)).set
      A.length x = A ++ x :: X ++ Y := by
  cases R with
  | nil => exact absurd rfl hR
  | cons r R =>
    refine ⟨(A ++ r :: R).drop (A.length + 1 + X.length), ?_⟩
    rw [take_len_add]
    simp only [List.take_succ_cons, List.take_zero, List.append_assoc]
    rw [List.set_append_right _ _ (Nat.le_refl _)]
    simp

theorem Vec.writeChunk_cap {v : Vec} {d : Nat} {X : List Slot} (h : d + X.length ≤ v.cap) :
    (v.writeChunk d X).cap = v.cap := by
  simp only [Vec.cap, Vec.writeChunk, List.length_append, List.length_take, List.length_drop] at h ⊢
  omega

theorem OwnL.insertCore {s x loc locB} {i : Nat} (h : OwnL fl s (x :: loc) locB)
    (hi : i ≤ s.v.len) (hc : s.v.len < s.v.cap) : OwnL fl (iInsertCore i x s) loc locB := by
  obtain ⟨L1, L2, rest, e1, e2, e3, hp, ha⟩ := h.split_at hi
  have hchunk : s.v.range i (i + (s.v.len - i)) = L2.map .init :=
    Vec.range_mid e3 (by simp [e1]) (by simp; omega)
  have hne : L2.map Slot.init ++ rest ≠ [] := by
    intro hnil
    have := congrArg List.length hnil
    simp only [Vec.cap, e3, List.length_append, List.length_map, List.length_nil] at hc this
    omega
  unfold iInsertCore
  simp only
  have hb : i + 1 + (L2.map Slot.init).length ≤ s.v.cap := by simp; omega
  rw [St.copyWithin_eq hchunk hb]
  have hcap : i < ({ s with v := s.v.writeChunk (i + 1) (L2.map .init) } : St).v.cap := by
    simp only [Vec.writeChunk_cap hb]; omega
  simp only [St.wr, if_pos hcap]
  obtain ⟨Y, hY⟩ := insert_raw (A := L1.map .init) (R := L2.map .init ++ rest)
    (X := L2.map .init) (x := .init x) hne
  refine ⟨L1 ++ x :: L2, Y, by simp [St.setLen, Vec.setLen]; omega, ?_,
    hp.of_eq rfl (by
      have := Vec.writeChunk_cap hb
      simp only [Vec.cap, St.setLen, Vec.setLen, Vec.write, List.length_set] at this ⊢
      exact this), ?_⟩
  · simp only [St.setLen, Vec.setLen, Vec.write, Vec.writeChunk, e3, List.append_assoc,
      List.length_map]
    simp only [List.length_map, e1] at hY
    simp only [List.append_assoc] at hY
    rw [hY]
    simp
  · exact ha.perm (by simp only [St.setLen, Vec.setLen, Vec.write, Vec.writeChunk]; perm_tac)


theorem iTryInsert_own {s loc locB} (i : Nat) (h : OwnL fl s loc locB) :
    OwnL fl (iTryInsert i s).2 loc locB := by
  unfold iTryInsert
  have h1 := h.mkVal
  generalize s.onMem Mem.mkVal = r at h1
  obtain ⟨x, s1⟩ := r
  simp only at h1 ⊢
  split
  · exact h1.retId
  · split
    · exact h1.retId
    · have := h1.len_le
      exact h1.insertCore (by omega) (by omega)

theorem iInsert_own {s loc locB} (i : Nat) (h : OwnL fl s loc locB) :
    OwnL fl (iInsert i s).2 loc locB := by
  unfold iInsert
  have h1 := h.mkVal
  generalize s.onMem Mem.mkVal = r at h1
  obtain ⟨x, s1⟩ := r
  simp only at h1 ⊢
  split
  · exact h1.dropId
  · have := h1.len_le
    exact h1.insertCore (by omega) (by omega)

/-- Locally owned ids `T` are copied as one chunk right behind the prefix `A` of the container and
the length is set to cover them: they now belong to the container. -/
theorem ownL_of_writeChunk {s : St} {loc locB A T : List Nat} {R : List Slot}
    (hs : s.v.slots = A.map .init ++ R) (hp : HdrOk s.v)
    (ha : Acct fl s.mem (loc ++ (prefL s.v.h ++ (A ++ T))) (locB ++ bufL s.v.h)) {d n : Nat}
    (hd : d = A.length) (hn : n = A.length + T.length) (hb : d + T.length ≤ s.v.cap) :
    OwnL fl ({ s with v := (s.v.writeChunk d (T.map .init)).setLen n }) loc locB := by
  subst hd hn
  obtain ⟨Y, hY⟩ := writeChunk_at (A := A.map .init) (R := R) (X := T.map .init)
  refine ⟨A ++ T, Y, by simp [Vec.setLen], ?_,
    hp.of_eq rfl (by
      have := Vec.writeChunk_cap (v := s.v) (d := A.length) (X := T.map .init) (by simpa using hb)
      simpa [Vec.cap, Vec.setLen] using this), ha⟩
  simp only [Vec.setLen, Vec.writeChunk, hs, List.length_map]
  simp only [List.length_map] at hY
  rw [hY]; simp

theorem iRemove_own {s loc locB} (i : Nat) (h : OwnL fl s loc locB) :
    OwnL fl (iRemove i s).2 loc locB := by
  unfold iRemove
  split
  · rename_i hi
    obtain ⟨L1, L2, rest, e1, e2, e3, hp, ha⟩ := h.split_at (Nat.le_of_lt hi)
    cases L2 with
    | nil => simp at e2; omega
    | cons a L2 =>
      have e3' : s.v.slots = L1.map Slot.init ++ .init a :: (L2.map .init ++ rest) := by
        simp [e3]
      have hget : s.v.get i = .init a := Vec.get_mid e3' (by simp [e1])
      have e3'' : s.v.slots = (L1 ++ [a]).map Slot.init ++ L2.map .init ++ rest := by simp [e3]
      have hchunk : s.v.range (i + 1) (i + 1 + (s.v.len - i - 1)) = L2.map .init :=
        Vec.range_mid e3'' (by simp [e1]) (by simp at e2 ⊢; omega)
      simp only [St.onMem_eq, hget, Mem.readMove]
      have hb : i + (L2.map Slot.init).length ≤ s.v.cap := by
        simp [Vec.cap, e3] at e2 ⊢; omega
      rw [St.copyWithin_eq hchunk hb]
      apply OwnL.retId
      exact ownL_of_writeChunk (T := L2) (A := L1) (loc := a :: loc) e3' hp
        (ha.perm (by perm_tac)) e1.symm (by simp at e2; omega) (by simpa using hb)
  · exact h

theorem eq_nil_or_snoc {α} (l : List α) : l = [] ∨ ∃ M z, l = M ++ [z] := by
  rcases List.eq_nil_or_concat l with h | ⟨M, z, h⟩
  · exact Or.inl h
  · exact Or.inr ⟨M, z, by simpa using h⟩

theorem getElem?_mid2 {α} (A B C : List α) (x y : α) {n : Nat} (hn : n = A.length + 1 + B.length) :
    (A ++ x :: (B ++ y :: C))[n]? = some y := by
  subst hn
  have : A.length + 1 + B.length - A.length = B.length + 1 := by omega
  rw [List.getElem?_append_right (by omega), this, List.getElem?_cons_succ,
    List.getElem?_append_right (Nat.le_refl _)]
  simp

theorem set_mid2 {α} (A B C : List α) (x y w : α) {n : Nat} (hn : n = A.length + 1 + B.length) :
    (A ++ x :: (B ++ y :: C)).set n w = A ++ x :: (B ++ w :: C) := by
  subst hn
  have : A.length + 1 + B.length - A.length = B.length + 1 := by omega
  rw [List.set_append_right _ _ (by omega), this, List.set_cons_succ,
    List.set_append_right _ _ (Nat.le_refl _)]
  simp

/-- result of removing the element at `i` by swapping the last one in: the ids that stay -/
theorem OwnL.split_swap {s loc locB} (h : OwnL fl s loc locB) {i : Nat} (hi : i < s.v.len) :
    ∃ (L1 : List Nat) (a : Nat) (K : List Nat) (rest : List Slot) (z : Slot),
      L1.length = i ∧ s.v.len = L1.length + 1 + K.length ∧ HdrOk s.v ∧
      s.v.get i = .init a ∧
      Acct fl s.mem (a :: loc ++ (prefL s.v.h ++ (L1 ++ K))) (locB ++ bufL s.v.h) ∧
      ((s.v.slots.set i (s.v.get (s.v.len - 1))).set (s.v.len - 1) (s.v.get i)
          = (L1 ++ K).map .init ++ .init a :: rest) ∧
      (s.v.slots.take i ++ [s.v.get (s.v.len - 1)] ++ s.v.slots.drop (i + 1)
          = (L1 ++ K).map .init ++ z :: rest) := by
  obtain ⟨L1, L2, rest, e1, e2, e3, hp, ha⟩ := h.split_at (Nat.le_of_lt hi)
  cases L2 with
  | nil => simp at e2; omega
  | cons a L2 =>
    rcases eq_nil_or_snoc L2 with rfl | ⟨M, z, rfl⟩
    · -- the removed element is the last one
      refine ⟨L1, a, [], rest, .init a, e1, by simpa using e2, hp, ?_, ?_, ?_, ?_⟩
      · exact Vec.get_mid (A := L1.map .init) (C := rest) (by simp [e3]) (by simp [e1])
      · exact ha.perm (by perm_tac)
      · have hl : s.v.len - 1 = i := by simp at e2; omega
        subst e1
        simp [hl, Vec.get, e3]
      · have hl : s.v.len - 1 = i := by simp at e2; omega
        subst e1
        simp [hl, Vec.get, e3, List.drop_append]
    · refine ⟨L1, a, z :: M, rest, .init z, e1, by simp at e2 ⊢; omega, hp, ?_, ?_, ?_, ?_⟩
      · exact Vec.get_mid (A := L1.map .init) (C := (M ++ [z]).map .init ++ rest) (by simp [e3])
          (by simp [e1])
      · exact ha.perm (by perm_tac)
      · have hl : s.v.len - 1 = L1.length + 1 + M.length := by simp at e2; omega
        subst e1
        simp [hl, Vec.get, e3, getElem?_mid2, set_mid2]
      · have hl : s.v.len - 1 = L1.length + 1 + M.length := by simp at e2; omega
        subst e1
        simp [hl, Vec.get, e3, List.drop_append, getElem?_mid2]


theorem Vec.range_one {v : Vec} {j : Nat} (hj : j < v.cap) : v.range j (j + 1) = [v.get j] := by
  simp only [Vec.range, Vec.get, show j + 1 - j = 1 by omega]
  rw [take_one_drop _ _ hj, List.getElem?_eq_getElem hj]; rfl

theorem iSwapRemove_own {s loc locB} (i : Nat) (h : OwnL fl s loc locB) :
    OwnL fl (iSwapRemove i s).2 loc locB := by
  unfold iSwapRemove
  split
  · rename_i hi
    obtain ⟨L1, a, K, rest, z, e1, e2, hp, hget, ha, hsw, -⟩ := h.split_swap hi
    simp only [St.onMem_eq]
    have hg : (({ s with v := s.v.swap i (s.v.len - 1) } : St).setLen (s.v.len - 1)).v.get
        (s.v.len - 1) = .init a := by
      show ((s.v.slots.set i (s.v.get (s.v.len - 1))).set (s.v.len - 1) (s.v.get i))[s.v.len - 1]?.getD
        Slot.uninit = _
      rw [hsw, List.getElem?_append_right (by simp; omega)]
      simp [show s.v.len - 1 - (L1.length + K.length) = 0 by omega]
    rw [hg]
    simp only [Mem.readMove]
    apply OwnL.retId
    exact ⟨L1 ++ K, .init a :: rest, by simp [St.setLen, Vec.setLen]; omega,
      by simp only [St.setLen, Vec.setLen, Vec.swap, hsw],
      hp.of_eq rfl (by simp [St.setLen, Vec.setLen, Vec.swap, Vec.cap]), ha⟩
  · exact h

theorem tSwapRemove_own {s loc locB} (i : Nat) (h : OwnL fl s loc locB) :
    OwnL fl (tSwapRemove i s).2 loc locB := by
  unfold tSwapRemove
  split
  · rename_i hi
    obtain ⟨L1, a, K, rest, z, e1, e2, hp, hget, ha, -, hcp⟩ := h.split_swap hi
    have hle := h.len_le
    simp only [St.onMem_eq, hget, Mem.readMove]
    have hr : s.v.range (s.v.len - 1) (s.v.len - 1 + 1) = [s.v.get (s.v.len - 1)] :=
      Vec.range_one (by omega)
    rw [St.copyWithin_eq hr (by simp; omega)]
    apply OwnL.retId
    exact ⟨L1 ++ K, z :: rest, by simp [St.setLen, Vec.setLen]; omega,
      by simpa [St.setLen, Vec.setLen, Vec.writeChunk] using hcp,
      hp.of_eq rfl (by
        have := Vec.writeChunk_cap (v := s.v) (d := i) (X := [s.v.get (s.v.len - 1)])
          (by simp; omega)
        simpa [St.setLen, Vec.setLen, Vec.cap] using this), ha⟩
  · exact h


theorem OwnL.perm {s loc loc' locB} (h : OwnL fl s loc locB) (hp : loc'.Perm loc) :
    OwnL fl s loc' locB := by
  obtain ⟨L, rest, e1, e2, e3, e4⟩ := h
  exact ⟨L, rest, e1, e2, e3, e4.perm (List.Perm.append_right _ hp)⟩

theorem map_init_inj : ∀ {L L' : List Nat}, L.map Slot.init = L'.map Slot.init → L = L'
  | [], [], _ => rfl
  | [], _ :: _, h => by simp at h
  | _ :: _, [], h => by simp at h
  | a :: L, b :: L', h => by
    simp only [List.map_cons, List.cons.injEq, Slot.init.injEq] at h
    rw [h.1, map_init_inj h.2]

/-- three-way split of the view at `a ≤ b ≤ len` -/
theorem OwnL.split3 {s loc locB} (h : OwnL fl s loc locB) {a b : Nat} (hab : a ≤ b)
    (hb : b ≤ s.v.len) :
    ∃ L1 M T rest, L1.length = a ∧ M.length = b - a ∧ s.v.len = b + T.length ∧
      s.v.slots = L1.map .init ++ M.map .init ++ (T.map .init ++ rest) ∧ HdrOk s.v ∧
      Acct fl s.mem (M ++ (T ++ loc) ++ (prefL s.v.h ++ L1)) (locB ++ bufL s.v.h) := by
  obtain ⟨Lb, T, rest, e1, e2, e3, hp, ha⟩ := h.split_at hb
  refine ⟨Lb.take a, Lb.drop a, T, rest, by simp; omega, by simp; omega, by omega, ?_, hp, ?_⟩
  · rw [← List.map_append, List.take_append_drop, e3, List.append_assoc]
  · refine ha.perm ?_
    have : Lb = Lb.take a ++ Lb.drop a := (List.take_append_drop a Lb).symm
    generalize Lb.take a = X at this ⊢
    generalize Lb.drop a = Y at this ⊢
    subst this
    perm_tac

/-- `Drain::drop`: the unread ids `M'` are dropped (all of them, whatever panics), then the tail
`T` (owned by the drain) is moved back behind the kept prefix `L1`; after a panic the tail leaks. -/
theorem drainDrop_own {s : St} {loc locB L1 M' T : List Nat} {G rest : List Slot} {c : Cur}
    {ts tl : Nat} (hs : s.v.slots = L1.map .init ++ G ++ (T.map .init ++ rest))
    (hlen : s.v.len = L1.length) (hr : s.v.range c.lo c.hi = M'.map .init)
    (hts : ts = L1.length + G.length) (htl : tl = T.length) (hp : HdrOk s.v)
    (ha : Acct fl s.mem (M' ++ (T ++ loc) ++ (prefL s.v.h ++ L1)) (locB ++ bufL s.v.h)) :
    OwnL fl (drainDrop c ts tl s).2 loc locB := by
  have h0 : OwnL fl s (M' ++ (T ++ loc)) locB :=
    ⟨L1, G ++ (T.map .init ++ rest), hlen, by simp [hs], hp, ha⟩
  unfold drainDrop
  rw [hr]
  have h1 : OwnL fl (s.onMem (Mem.dropSlice (M'.map .init))).2 (T ++ loc) locB := h0.dropSlice
  have hv : (s.onMem (Mem.dropSlice (M'.map .init))).2.v = s.v := rfl
  have hp0 : fl = true → (s.onMem (Mem.dropSlice (M'.map .init))).1 = false :=
    fun hf => (Mem.dropSlice_of_none _ _ (h0.budget_none hf)).1
  generalize s.onMem (Mem.dropSlice (M'.map .init)) = r2 at h1 hv hp0 ⊢
  obtain ⟨p, s2⟩ := r2
  simp only at h1 hv hp0 ⊢
  split
  · rename_i hpt
    exact h1.leak (fun hf => by rw [hp0 hf] at hpt; cases hpt)
  · have hs2 : s2.v.slots = (L1.map Slot.init ++ G) ++ T.map .init ++ rest := by
      rw [hv, hs]; simp
    have hchunk : s2.v.range ts (ts + tl) = T.map .init :=
      Vec.range_mid hs2 (by simp [hts]) (by simp [hts, htl])
    have hb : s2.v.len + (T.map Slot.init).length ≤ s2.v.cap := by
      rw [hv]; simp [Vec.cap, hs, hlen]; omega
    rw [St.copyWithin_eq hchunk hb]
    obtain ⟨L, rest', e1, e2, e3, e4⟩ := h1
    have hs2' : s2.v.slots = L1.map Slot.init ++ (G ++ (T.map .init ++ rest)) := by
      rw [hv, hs]; simp
    refine ownL_of_writeChunk (A := L1) (T := T) (s := s2) hs2' e3 ?_ (by rw [hv, hlen])
      (by rw [hv, hlen, htl]) (by simpa using hb)
    have hL : L = L1 := by
      have h5 : L.map Slot.init = (L1.map Slot.init) := by
        have := congrArg (List.take L1.length) (e2.symm.trans hs2')
        rw [hv, hlen] at e1
        simpa [List.take_append, ← e1] using this
      exact map_init_inj h5
    subst hL
    exact e4.perm (by perm_tac)

theorem Acct.weakenB {m l B B'} (h : Acct fl m l B) (hn : B'.Nodup) (hs : ∀ b ∈ B', b ∈ B) :
    Acct fl m l B' :=
  { h with bnodup := hn, blive := fun b hb => h.blive b (hs b hb) }

/-- the container ceases to exist; whatever it still owned is leaked (under the no-leak flag: it
must own nothing any more) -/
theorem OwnL.kill {s loc locB} (h : OwnL fl s loc locB)
    (hk : fl = true → s.v.len = 0 ∧ prefL s.v.h = []) :
    OwnL fl { s with v := { s.v with len := 0, h := { s.v.h with alive := false } } } loc locB := by
  obtain ⟨L, rest, e1, e2, e3, e4⟩ := h
  refine ⟨[], s.v.slots, rfl, by simp, ?_, ?_⟩
  · exact ⟨fun _ _ h => by simp at h, fun _ h => by simp at h⟩
  · have h1 : Acct fl s.mem (loc ++ []) (locB ++ bufL s.v.h) :=
      e4.weaken (by simpa using (List.nodup_append.mp e4.nodup).1)
        (fun a ha => by simp at ha; exact List.mem_append_left _ ha)
        (fun hf a ha => by
          obtain ⟨k1, k2⟩ := hk hf
          have hL : L = [] := List.eq_nil_of_length_eq_zero (by omega)
          simpa [k2, hL] using ha)
    have : prefL { s.v.h with alive := false } = [] := by simp [prefL]
    have hb : bufL { s.v.h with alive := false } = [] := by simp [bufL]
    simp only [this, hb, List.append_nil] at h1 ⊢
    exact h1.weakenB (List.nodup_append.mp e4.bnodup).1 (fun b hb => List.mem_append_left _ hb)

/-- the whole view becomes locally owned (`set_len(0)`, or the container is consumed) -/
theorem OwnL.take_all {s loc locB} (h : OwnL fl s loc locB) :
    ∃ (L : List Nat), s.v.range 0 s.v.len = L.map .init ∧ OwnL fl (s.setLen 0) (L ++ loc) locB := by
  obtain ⟨tl, e1, -, e3⟩ := h.setLen_take (n := 0) (Nat.zero_le _)
  exact ⟨tl, e1, e3⟩

theorem prefL_of_not_thin {h : Hdr} (ht : h.thin = false) : prefL h = [] := by
  simp [prefL, ht]

theorem iDrop_own {s loc locB} (h : OwnL fl s loc locB) (hth : fl = true → s.v.h.thin = false) :
    OwnL fl (iDrop s).2 loc locB := by
  unfold iDrop
  obtain ⟨L, e1, e2⟩ := h.take_all
  rw [e1]
  have h1 := e2.dropLoop.kill (fun hf => ⟨rfl, prefL_of_not_thin (hth hf)⟩)
  exact h1

/-- the container is replaced by a fresh empty InlineVec; whatever it owned is leaked -/
theorem OwnL.renew {s loc locB} (c : Nat) (h : OwnL fl s loc locB)
    (hk : fl = true → s.v.len = 0 ∧ prefL s.v.h = []) :
    OwnL fl { s with v := iNew c } loc locB := by
  have := h.kill hk
  obtain ⟨L, rest, e1, e2, e3, e4⟩ := this
  have hL : L = [] := List.eq_nil_of_length_eq_zero (by simpa using e1.symm)
  subst hL
  refine ⟨[], uninits c, rfl, by simp [iNew], ?_, ?_⟩
  · exact ⟨fun h => by simp [iNew] at h, fun h => by simp [iNew] at h⟩
  · have hp : prefL (iNew c).h = [] := by simp [prefL, iNew]
    have hb : bufL (iNew c).h = [] := by simp [bufL, iNew]
    have hp' : prefL { s.v.h with alive := false } = [] := by simp [prefL]
    have hb' : bufL { s.v.h with alive := false } = [] := by simp [bufL]
    simp only [hp', hb', hp, hb] at e4 ⊢
    exact e4.weaken (by simpa using (List.nodup_append.mp e4.nodup).1)
        (fun a ha => by simp at ha; exact List.mem_append_left _ ha)
        (fun _ a ha => by simpa using ha)

/-- a local vector whose first `len` slots hold the ids `acc` -/
def LocalVec (o : Vec) (acc : List Nat) : Prop :=
  o.len = acc.length ∧ ∃ rest, o.slots = acc.map .init ++ rest

theorem LocalVec.range {o acc} (h : LocalVec o acc) : o.range 0 o.len = acc.map .init := by
  obtain ⟨e1, rest, e2⟩ := h
  exact Vec.range_mid (A := []) (B := acc.map .init) (C := rest) (by simp [e2]) rfl (by simp [e1])

theorem LocalVec.store {o acc b} (h : LocalVec o acc) (hc : o.len < o.cap) :
    LocalVec (o.store b) (acc ++ [b]) := by
  obtain ⟨e1, rest, e2⟩ := h
  cases rest with
  | nil => simp [Vec.cap, e2, e1] at hc
  | cons r rest =>
    refine ⟨by simp [Vec.store, Vec.setLen, Vec.write, e1], rest, ?_⟩
    have := Vec.write_mid (x := .init b) e2 (i := o.len) (by simp [e1])
    simp [Vec.store, Vec.setLen, this]

theorem cloneIntoLocal_own {loc locB} : ∀ (M : List Nat) (o : Vec) (acc : List Nat) (s : St),
    OwnL fl s (acc ++ loc) locB → LocalVec o acc → o.len + M.length ≤ o.cap →
    (∀ a ∈ M, a ∉ s.mem.out) →
    ∃ acc', LocalVec (cloneIntoLocal (M.map .init) o s).2.1 acc' ∧
      OwnL fl (cloneIntoLocal (M.map .init) o s).2.2 (acc' ++ loc) locB
  | [], o, acc, s, h, ho, _, _ => ⟨acc, ho, h⟩
  | a :: as, o, acc, s, h, ho, hc, hm => by
    simp only [List.map_cons, cloneIntoLocal]
    have h1 := h.cloneSlot (x := .init a) rfl (hm a (List.mem_cons_self ..))
    rcases hr : s.onMem (Mem.cloneSlot (.init a)) with ⟨_ | b, s'⟩ <;> rw [hr] at h1 <;>
      simp only at h1 ⊢
    · exact ⟨acc, ho, h1.1⟩
    · have hc' : o.len < o.cap := by simp at hc; omega
      have h2 : OwnL fl (s'.chk (decide (o.len < o.cap))) ((acc ++ [b]) ++ loc) locB := by
        simp only [St.chk, hc', decide_true, if_true]
        exact h1.1.perm (by perm_tac)
      refine cloneIntoLocal_own as _ (acc ++ [b]) _ h2 (ho.store hc') ?_ ?_
      · simp [Vec.store, Vec.setLen, Vec.write, Vec.cap] at hc ⊢; omega
      · intro c hcm
        simp only [St.chk, hc', decide_true, if_true]
        rw [h1.2.2]
        exact hm c (List.mem_cons_of_mem _ hcm)

theorem LocalVec.iNew (c : Nat) : LocalVec (iNew c) [] := ⟨rfl, uninits c, by simp [HipVerif.Slots.iNew]⟩

theorem iClone_own {s loc locB} (h : OwnL fl s loc locB) : OwnL fl (iClone s).2 loc locB := by
  unfold iClone
  obtain ⟨M, e1, e2, e3⟩ := h.range_live (Nat.zero_le _) (Nat.le_refl s.v.len)
  have hle := h.len_le
  obtain ⟨acc', f1, f2⟩ := cloneIntoLocal_own M (HipVerif.Slots.iNew s.v.cap) [] s h (LocalVec.iNew _)
    (by simp [HipVerif.Slots.iNew, Vec.cap, uninits] at hle ⊢; omega) e3
  rw [e1]
  dsimp only
  generalize cloneIntoLocal (M.map .init) (HipVerif.Slots.iNew s.v.cap) s = r at f1 f2 ⊢
  obtain ⟨p, o, s1⟩ := r
  simp only at f1 f2 ⊢
  rw [f1.range]
  exact f2.dropLoop

theorem markDropSlots_nil (m : Mem) : Mem.markDropSlots [] m = m := rfl

theorem iAppend_own {s loc locB} (n : Nat) (h : OwnL fl s loc locB) :
    OwnL fl (iAppend n s).2 loc locB := by
  unfold iAppend
  obtain ⟨hl, hv, ho⟩ := mkVals_own n s h
  generalize mkVals n s = r at hl hv ho ⊢
  obtain ⟨ids, s1⟩ := r
  simp only at hl hv ho ⊢
  have hr : ∀ (c : Nat), ({ slots := ids.map Slot.init ++ uninits c, len := n } : Vec).range 0 n
      = ids.map .init := fun c =>
    Vec.range_mid (A := []) (B := ids.map .init) (C := uninits c) (by simp) rfl (by simp [hl])
  split
  · rename_i hfit
    simp only [hr]
    have hr0 : ∀ (v : Vec), v.range 0 0 = [] := fun v => by simp [Vec.range]
    simp only [Vec.setLen, hr0]
    obtain ⟨L, rest, e1, e2, e3, e4⟩ := ho
    have hb : s1.v.len + (ids.map Slot.init).length ≤ s1.v.cap := by simpa [hl] using hfit
    simp only [St.wrChunk, if_pos hb]
    have := ownL_of_writeChunk (s := s1) (A := L) (T := ids) (loc := loc) (locB := locB)
      (d := s1.v.len) (n := s1.v.len + n) e2 e3 (e4.perm (by perm_tac)) e1 (by rw [e1, hl])
      (by simpa using hb)
    exact this
  · simp only [hr]
    exact ho.markDropSlots

/-- a chunk of ids bitwise-copied to the front of a local vector -/
theorem LocalVec.writeChunk0 (o : Vec) (T : List Nat) {n : Nat} (hn : n = T.length) :
    LocalVec ((o.writeChunk 0 (T.map .init)).setLen n) T := by
  refine ⟨by simp [Vec.setLen, hn], o.slots.drop (0 + (T.map Slot.init).length), ?_⟩
  simp [Vec.setLen, Vec.writeChunk]

theorem iSplitOff_own {s loc locB} (at_ : Nat) (h : OwnL fl s loc locB) :
    OwnL fl (iSplitOff at_ s).2 loc locB := by
  unfold iSplitOff
  split
  · rename_i hat
    obtain ⟨tl, e1, e2, e3⟩ := h.setLen_take hat
    have hle := h.len_le
    dsimp only
    have hchk : decide (s.v.len - at_ ≤ (HipVerif.Slots.iNew s.v.cap).cap) = true := by
      simp [HipVerif.Slots.iNew, Vec.cap, uninits] at hle ⊢; omega
    simp only [St.chk, hchk, if_true]
    have hr : (s.setLen at_).v.range at_ s.v.len = tl.map .init := e1
    rw [hr]
    have hl := LocalVec.writeChunk0 (HipVerif.Slots.iNew s.v.cap) tl (n := s.v.len - at_) e2.symm
    rw [hl.range]
    exact e3.dropLoop
  · exact h

theorem roundCap_ge (esz n : Nat) : n ≤ roundCap esz n := by
  unfold roundCap
  split
  · exact Nat.le_refl _
  · rename_i h
    rw [Nat.le_div_iff_mul_le (Nat.pos_of_ne_zero h)]
    simp only [hdr]
    generalize n * esz = y
    omega

theorem Vec.range_zero_zero (v : Vec) : v.range 0 0 = [] := by simp [Vec.range]


/-- the push loop of `from_iter` on a local vector holding `acc` -/
theorem pushLoopLocal_own {loc locB} : ∀ (k : Nat) (o : Vec) (acc : List Nat) (s : St),
    OwnL fl s (acc ++ loc) locB → LocalVec o acc →
    ∃ acc', LocalVec (pushLoopLocal k o s).2.1 acc' ∧
      OwnL fl (pushLoopLocal k o s).2.2 (acc' ++ loc) locB
  | 0, o, acc, s, h, ho => by
    simp only [pushLoopLocal]
    exact ⟨acc, ho, h.tick⟩
  | k + 1, o, acc, s, h, ho => by
    unfold pushLoopLocal
    have h1 := h.genVal
    rcases hr : s.onMem Mem.genVal with ⟨_ | a, s'⟩ <;> rw [hr] at h1 <;> simp only at h1 ⊢
    · exact ⟨acc, ho, h1.1⟩
    · split
      · rename_i hc
        exact pushLoopLocal_own k _ (acc ++ [a]) s' (h1.1.perm (by perm_tac)) (ho.store hc)
      · exact ⟨acc, ho, h1.1.dropId⟩

theorem iFromIter_own {s loc locB} (hint k : Nat) (h : OwnL fl s loc locB) :
    OwnL fl (iFromIter hint k s).2 loc locB := by
  unfold iFromIter
  have h1 := h.tick
  generalize s.onMem Mem.tick = r at h1
  obtain ⟨p0, s1⟩ := r
  simp only at h1 ⊢
  split
  · exact h1
  · have h2 := h1.tick
    generalize s1.onMem Mem.tick = r at h2
    obtain ⟨p1, s2⟩ := r
    simp only at h2 ⊢
    split
    · exact h2.tick
    · split
      · obtain ⟨acc', f1, f2⟩ := pushLoopLocal_own (loc := loc) k (HipVerif.Slots.iNew s2.v.cap) [] s2
          h2 (LocalVec.iNew _)
        generalize pushLoopLocal k (HipVerif.Slots.iNew s2.v.cap) s2 = r at f1 f2
        obtain ⟨p, o, s3⟩ := r
        simp only at f1 f2 ⊢
        have h3 := f2.tick
        generalize s3.onMem Mem.tick = r at h3
        obtain ⟨q, s4⟩ := r
        simp only at h3 ⊢
        rw [f1.range]
        by_cases hpq : (p || q) = true
        · rw [if_pos hpq]; exact h3.dropSlice
        · rw [if_neg hpq]; exact h3.dropLoop
      · exact h2.tick

end HipVerif.Slots
