/-
The frame calculus of `CoreFrameB.lean` applied to every operation: `step_eff`.
-/
import HipVerif.Lemmas.CoreFrameB

namespace HipVerif.Core
open HipVerif.Spec.Std

variable {cfg : Cfg} {s : State}

theorem step_eff_fromVec (d : Nat) (bs : List UInt8) (cap : Nat) :
    StepEff cfg s (step cfg s (.fromVec d bs cap)) [d] := by
  simp only [step]
  split
  · refine stepEff_quiet ?_ (by simp; intro _; rfl)
    exact (frame_of_getI (s := s) (s' := { s with nextBuf := s.nextBuf + 1 }) (fun _ => rfl)).trans
      (frame_fromVecRepr _ _ _ _ _)
  · exact stepEff_refl

theorem step_eff_drop (w : Wf cfg s) (h : Nat) : StepEff cfg s (step cfg s (.drop h)) [h] := by
  simp only [step]
  cases hg : getH s h with
  | none => exact stepEff_refl
  | some hd =>
    exact stepEff_of_eff ((eff_dropRepr (handleOk_live (w.handles h hd hg))).of_getI_right (fun _ => rfl))

theorem step_eff_trunc (w : Wf cfg s) (h n : Nat) :
    StepEff cfg s (step cfg s (.truncate h n)) [h] ∧ StepEff cfg s (step cfg s (.clear h)) [h] ∧
    StepEff cfg s (step cfg s (.pop h)) [h] := by
  simp only [step]
  cases hg : getH s h with
  | none => exact ⟨stepEff_refl, stepEff_refl, stepEff_refl⟩
  | some hd =>
    refine ⟨⟨[], eff_truncateOp w hg _ _, fun _ h => by cases h⟩,
      ⟨[], eff_truncateOp w hg _ _, fun _ h => by cases h⟩, ?_⟩
    simp only
    split
    · exact stepEff_refl
    · exact ⟨[], eff_truncateOp w hg _ _, fun _ h => by cases h⟩

theorem step_eff_shrink (w : Wf cfg s) (h n : Nat) :
    StepEff cfg s (step cfg s (.shrinkTo h n)) [h] ∧ StepEff cfg s (step cfg s (.shrinkToFit h)) [h] := by
  simp only [step]
  cases hg : getH s h with
  | none => exact ⟨stepEff_refl, stepEff_refl⟩
  | some hd =>
    exact ⟨⟨[], eff_shrinkToOp w hg _, fun _ h => by cases h⟩, ⟨[], eff_shrinkToOp w hg _, fun _ h => by cases h⟩⟩

theorem wsOk_owner (w : Wf cfg s) {h : Nat} {hd : Handle} (hg : getH s h = some hd) {tg : List Nat}
    (htg : h ∈ tg) {o pb off len : Nat} (hr : hd.repr = .heap o pb off len)
    (hu : ownerUnique cfg s o = true) : WsOk s tg [o] := by
  intro o' ho' _
  simp only [List.mem_singleton] at ho'; subst ho'
  refine ⟨ownerUnique_sole w hg hr hu, h, htg, ?_⟩
  rw [hg]; cases hd; simp_all [pointsTo]

theorem wsOk_nil {tg : List Nat} : WsOk s tg [] := fun _ h => by cases h

theorem step_eff_asMutWrite (w : Wf cfg s) (h i : Nat) (b : UInt8) :
    StepEff cfg s (step cfg s (.asMutWrite h i b)) [h] := by
  simp only [step]
  cases hg : getH s h with
  | none => exact stepEff_refl
  | some hd =>
    have hlive := handleOk_live (w.handles h hd hg)
    simp only
    cases hr : hd.repr with
    | inline bs =>
      simp only [if_true]
      split
      · exact stepEff_quiet (frame_refl s) rfl
      · exact stepEff_refl
    | borrowed a b' c => exact stepEff_refl
    | heap o pb off len =>
      simp only
      by_cases hu : ownerUnique cfg s o = true
      · simp only [hu, if_true]
        split
        · refine stepEff_write (ws := [o]) ?_ (by simp) (wsOk_owner w hg (List.mem_singleton.mpr rfl) hr hu)
          exact frame_writeView (r := .heap o pb off len) _
            (by intro o' pb' off' len' he; cases he; exact hlive o pb off len hr)
        · exact stepEff_refl
      · simp only [hu]; exact stepEff_refl

theorem step_eff_spareCapacity (w : Wf cfg s) (h : Nat) :
    StepEff cfg s (step cfg s (.spareCapacity h)) [h] := by
  simp only [step]
  cases hg : getH s h with
  | none => exact stepEff_refl
  | some hd =>
    have hlive := handleOk_live (w.handles h hd hg)
    simp only
    cases hr : hd.repr with
    | inline bs => exact stepEff_refl
    | borrowed a b' c => exact stepEff_refl
    | heap o pb off len =>
      simp only
      obtain ⟨x, hx, hl⟩ := hlive o pb off len hr
      simp only [hx]
      by_cases hu : ownerUnique cfg s o = true
      · simp only [hu, if_true]
        exact stepEff_write (ws := [o]) (frame_setI hx hl hl) rfl
          (wsOk_owner w hg (List.mem_singleton.mpr rfl) hr hu)
      · simp only [hu]; exact stepEff_refl

theorem step_eff_pushSlice (w : Wf cfg s) (h : Nat) (bs : List UInt8) :
    StepEff cfg s (step cfg s (.pushSlice h bs)) [h] := by
  simp only [step]
  cases hg : getH s h with
  | none => exact stepEff_refl
  | some hd =>
    have hlive := handleOk_live (w.handles h hd hg)
    simp only
    -- the re-inlining / re-allocating path
    have hre : StepEff cfg s (pushRealloc cfg s h hd bs) [h] := by
      unfold pushRealloc
      rw [dropIf_eq]
      split
      · exact stepEff_of_eff ((eff_dropRepr hlive).of_getI_right (fun _ => rfl))
      · exact stepEff_of_eff ((eff_newHeap_drop _ _ hlive).of_getI_right (fun _ => rfl))
    unfold pushRealloc at hre
    cases hr : hd.repr with
    | inline b0 => simp only; rw [hr] at hre; exact hre
    | borrowed a b c => simp only; rw [hr] at hre; exact hre
    | heap o pb off len =>
      simp only
      rw [hr] at hre
      obtain ⟨x, hx, hl⟩ := hlive o pb off len hr
      simp only [hx]
      by_cases hu : ownerUnique cfg s o = true
      · simp only [hu, if_true]
        have hws := wsOk_owner w hg (List.mem_singleton.mpr rfl) hr hu
        by_cases hfit : (x.data.take (off + len) ++ bs).length ≤ x.cap
        · simp only [hfit, if_true]
          refine stepEff_write (ws := [o]) (frame_setI hx hl hl) ?_ hws
          split <;> rfl
        · simp only [hfit, if_false]
          refine stepEff_write (ws := [o]) ?_ ?_ hws
          · exact frame_setI (s := { s with nextBuf := s.nextBuf + 1 }) hx hl hl
          · split <;> rfl
      · simp only [hu]; exact hre

theorem stepEff_unique_write (w : Wf cfg s) {h : Nat} {hd : Handle} (hg : getH s h = some hd)
    (f : List UInt8 → List UInt8) (v : Option Handle) (ret : Ret) :
    StepEff cfg s (ok (setH (writeView (makeUnique cfg s hd).1 (makeUnique cfg s hd).2.1 f).1 h v) ret
      ((makeUnique cfg s hd).2.2 ++ (writeView (makeUnique cfg s hd).1 (makeUnique cfg s hd).2.1 f).2.2)) [h] := by
  have hlive := handleOk_live (w.handles h hd hg)
  have f1 := frame_makeUnique (cfg := cfg) hlive
  have f2 := frame_writeView (s := (makeUnique cfg s hd).1) (r := (makeUnique cfg s hd).2.1) f
    (makeUnique_live hlive)
  have f3 := f1.trans f2
  simp only [List.nil_append] at f3
  refine stepEff_write (ws := ownerOf (makeUnique cfg s hd).2.1) f3 (by simp) ?_
  intro o ho hlt
  cases hr1 : (makeUnique cfg s hd).2.1 with
  | inline bs => rw [hr1] at ho; cases ho
  | borrowed a b c => rw [hr1] at ho; cases ho
  | heap o' pb off len =>
    rw [hr1] at ho
    simp only [ownerOf, List.mem_singleton] at ho; subst ho
    obtain ⟨hu, pb', off', len', hr⟩ := makeUnique_owner o pb off len hr1 hlt
    exact wsOk_owner w hg (List.mem_singleton.mpr rfl) hr hu o (List.mem_singleton.mpr rfl) hlt

theorem step_eff_mutWrites (w : Wf cfg s) (h i : Nat) (b : UInt8) :
    StepEff cfg s (step cfg s (.toMutWrite h i b)) [h] ∧
    StepEff cfg s (step cfg s (.makeAsciiLower h)) [h] ∧
    StepEff cfg s (step cfg s (.makeAsciiUpper h)) [h] := by
  simp only [step]
  cases hg : getH s h with
  | none => exact ⟨stepEff_refl, stepEff_refl, stepEff_refl⟩
  | some hd =>
    refine ⟨?_, stepEff_unique_write w hg _ _ _, stepEff_unique_write w hg _ _ _⟩
    simp only
    split
    · exact stepEff_unique_write w hg _ _ _
    · exact stepEff_quiet (frame_makeUnique (handleOk_live (w.handles h hd hg))) (by simp)

theorem step_eff_intoVec (w : Wf cfg s) (h : Nat) :
    StepEff cfg s (step cfg s (.intoVec h)) [h] ∧ StepEff cfg s (step cfg s (.toVec h)) [h] := by
  simp only [step]
  cases hg : getH s h with
  | none => exact ⟨stepEff_refl, stepEff_refl⟩
  | some hd =>
    have hlive := handleOk_live (w.handles h hd hg)
    simp only
    have hco : StepEff cfg s (ok (setH (dropRepr cfg { s with nextBuf := s.nextBuf + 1 } hd.repr).1 h none)
        (.bytes (view s hd))
        ((if (view s hd).length > 0 then [Event.allocBuf s.nextBuf (view s hd).length,
            Event.write s.nextBuf 0 (view s hd).length, Event.exportBuf s.nextBuf] else []) ++
          (dropRepr cfg { s with nextBuf := s.nextBuf + 1 } hd.repr).2)) [h] := by
      have e := eff_dropRepr (cfg := cfg) (s := { s with nextBuf := s.nextBuf + 1 }) (r := hd.repr) hlive
      refine stepEff_of_eff (((e.of_getI_left (s := s) (fun _ => rfl)).of_getI_right
        (s' := setH (dropRepr cfg { s with nextBuf := s.nextBuf + 1 } hd.repr).1 h none) (fun _ => rfl)).cast ?_
        (fun _ h => h))
      rw [freesOf_append, freesOf_ite]
      split <;> rfl
    cases hr : hd.repr with
    | inline bs => rw [hr] at hco; exact ⟨stepEff_refl, hco⟩
    | borrowed a b c => rw [hr] at hco; exact ⟨stepEff_refl, hco⟩
    | heap o pb off len =>
      rw [hr] at hco
      simp only
      obtain ⟨x, hx, hl⟩ := hlive o pb off len hr
      simp only [hx]
      by_cases hcond : (off == 0 && ownerUnique cfg s o) = true
      · simp only [hcond, if_true]
        have hu : ownerUnique cfg s o = true := by simp at hcond; exact hcond.2
        have hc := ownerUnique_count ((wf_iff_wfx _ _).mp w) hx hl hu
        have e := (eff_kill (cfg := cfg) hx hl (Or.inr hc)).of_getI_right
          (s' := setH (setI s o { x with live := false }) h none) (fun _ => rfl)
        have hfs : freesOf (Event.freeInner o :: (if x.cap > 0 then [Event.exportBuf x.buf] else [])) = [o] := by
          split <;> rfl
        exact ⟨stepEff_of_eff (e.cast hfs.symm (fun _ h => h)), stepEff_of_eff (e.cast hfs.symm (fun _ h => h))⟩
      · simp only [hcond]
        exact ⟨stepEff_refl, hco⟩

theorem freesOf_vecApply (sc : List VecOp) : ∀ (data : List UInt8) (cap buf nb : Nat),
    freesOf (vecApply data cap buf nb sc).2.2.2.2 = [] := by
  induction sc with
  | nil => intro data cap buf nb; rfl
  | cons op rest ih =>
    intro data cap buf nb
    cases op with
    | push b =>
      by_cases hc : data.length + 1 ≤ cap
      · have := ih (data ++ [b]) cap buf nb
        rcases hr : vecApply (data ++ [b]) cap buf nb rest with ⟨d, c, b', n, ev⟩
        rw [hr] at this
        simp only [vecApply, hc, if_true, hr]
        exact this
      · have := ih (data ++ [b]) (growCap cap (data.length + 1)) nb (nb + 1)
        rcases hr : vecApply (data ++ [b]) (growCap cap (data.length + 1)) nb (nb + 1) rest with ⟨d, c, b', n, ev⟩
        rw [hr] at this
        simp only [vecApply, hc, if_false, hr]
        simp only at this
        split <;> simpa [freesOf] using this
    | extend bs =>
      by_cases hc : data.length + bs.length ≤ cap
      · have := ih (data ++ bs) cap buf nb
        rcases hr : vecApply (data ++ bs) cap buf nb rest with ⟨d, c, b', n, ev⟩
        rw [hr] at this
        simp only [vecApply, hc, if_true, hr]
        exact this
      · have := ih (data ++ bs) (growCap cap (data.length + bs.length)) nb (nb + 1)
        rcases hr : vecApply (data ++ bs) (growCap cap (data.length + bs.length)) nb (nb + 1) rest with ⟨d, c, b', n, ev⟩
        rw [hr] at this
        simp only [vecApply, hc, if_false, hr]
        simp only at this
        split <;> simpa [freesOf] using this
    | truncate k =>
      have := ih (data.take k) cap buf nb
      rcases hr : vecApply (data.take k) cap buf nb rest with ⟨d, c, b', n', ev⟩
      rw [hr] at this
      simp only [vecApply, hr]
      exact this
    | clear =>
      have := ih [] cap buf nb
      rcases hr : vecApply [] cap buf nb rest with ⟨d, c, b', n', ev⟩
      rw [hr] at this
      simp only [vecApply, hr]
      exact this

theorem eff_then_fromVec {s1 : State} {fs : List Nat} (e : Eff cfg s s1 fs []) (n : Nat)
    (bs : List UInt8) (cap buf h : Nat) (v : Option Handle) :
    Eff cfg s (setH (fromVecRepr cfg { s1 with nextBuf := n } bs cap buf).1 h v) fs [] := by
  have f1 : Frame s1 { s1 with nextBuf := n } [] [] := frame_of_getI (fun _ => rfl)
  have f2 := frame_fromVecRepr cfg { s1 with nextBuf := n } bs cap buf
  have e2 := e.then_frame (f1.trans f2)
  exact (e2.of_getI_right (s' := setH (fromVecRepr cfg { s1 with nextBuf := n } bs cap buf).1 h v)
    (fun _ => rfl)).cast rfl (by simp)

theorem step_eff_mutate (w : Wf cfg s) (h : Nat) (sc : List VecOp) :
    StepEff cfg s (step cfg s (.mutate h sc)) [h] ∧ StepEff cfg s (step cfg s (.mutateLeak h sc)) [h] := by
  simp only [step]
  cases hg : getH s h with
  | none => exact ⟨stepEff_refl, stepEff_refl⟩
  | some hd =>
    simp only
    have e := eff_takeVec w hg
    have hva := freesOf_vecApply sc
    constructor
    · refine stepEff_of_eff ((eff_then_fromVec e _ _ _ _ _ _).cast ?_ (fun _ h => h))
      simp [hva]
    · refine stepEff_of_eff (Eff.cast (Eff.of_getI_right e (fun _ => rfl)) ?_ (fun _ h => h))
      simp [hva, freesOf]

theorem cloneRepr_live {hd : Handle} (hok : HandleOk cfg s hd) :
    ∀ o pb off len, (cloneRepr cfg s hd).2.1 = .heap o pb off len →
      ∃ x, getI (cloneRepr cfg s hd).1 o = some x ∧ x.live = true := by
  have hlive := handleOk_live hok
  unfold cloneRepr
  cases hr : hd.repr with
  | inline bs => intro o pb off len he; cases he
  | borrowed a b c => intro o pb off len he; cases he
  | heap o pb off len =>
    simp only
    obtain ⟨x, hx, hl⟩ := hlive o pb off len hr
    cases hi : incr cfg s o with
    | mk s1 done =>
      cases done with
      | true =>
        simp only [if_true]
        intro o' pb' off' len' he; cases he
        obtain ⟨_, x', hx', _, rfl⟩ := incr_true hi
        rw [hx] at hx'; cases hx'
        exact ⟨_, getI_setI_same _ _ _ (getI_some_lt hx), hl⟩
      | false =>
        simp only [Bool.false_eq_true, if_false]
        intro o' pb' off' len' he; cases he
        exact ⟨_, getI_append_same { s with nextBuf := s.nextBuf + 1 } _, rfl⟩

/-- a clone that shares an existing box is not its sole owner -/
theorem cloneRepr_shared {hd : Handle} (hok : HandleOk cfg s hd) :
    ∀ o pb off len, (cloneRepr cfg s hd).2.1 = .heap o pb off len → o < s.inners.length →
      ownerUnique cfg (cloneRepr cfg s hd).1 o = false := by
  have hlive := handleOk_live hok
  unfold cloneRepr
  cases hr : hd.repr with
  | inline bs => intro o pb off len he; cases he
  | borrowed a b c => intro o pb off len he; cases he
  | heap o pb off len =>
    simp only
    obtain ⟨x, hx, hl⟩ := hlive o pb off len hr
    cases hi : incr cfg s o with
    | mk s1 done =>
      cases done with
      | true =>
        simp only [if_true]
        intro o' pb' off' len' he _; cases he
        obtain ⟨hnu, x', hx', _, rfl⟩ := incr_true hi
        rw [hx] at hx'; cases hx'
        unfold ownerUnique
        have : getI (setI s o { x with count := x.count + 1 }) o = some { x with count := x.count + 1 } :=
          getI_setI_same _ _ _ (getI_some_lt hx)
        cases hb : cfg.backend <;> simp_all
      | false =>
        simp only [Bool.false_eq_true, if_false]
        intro o' pb' off' len' he hlt; cases he
        exact absurd hlt (Nat.lt_irrefl _)

theorem stepEff_toAscii (w : Wf cfg s) {h : Nat} {hd : Handle} (hg : getH s h = some hd) (d : Nat)
    (f : List UInt8 → List UInt8) (t : Bool) (v : Option Handle) (ret : Ret) :
    StepEff cfg s (ok (setH (writeView
        (makeUnique cfg (cloneRepr cfg s hd).1 { repr := (cloneRepr cfg s hd).2.1, tainted := t }).1
        (makeUnique cfg (cloneRepr cfg s hd).1 { repr := (cloneRepr cfg s hd).2.1, tainted := t }).2.1 f).1 d v) ret
      ((cloneRepr cfg s hd).2.2 ++
        (makeUnique cfg (cloneRepr cfg s hd).1 { repr := (cloneRepr cfg s hd).2.1, tainted := t }).2.2 ++
        (writeView
          (makeUnique cfg (cloneRepr cfg s hd).1 { repr := (cloneRepr cfg s hd).2.1, tainted := t }).1
          (makeUnique cfg (cloneRepr cfg s hd).1 { repr := (cloneRepr cfg s hd).2.1, tainted := t }).2.1 f).2.2))
      [h, d] := by
  have hok := w.handles h hd hg
  have f0 := frame_cloneRepr hok
  have hl0 : ∀ o pb off len, (Handle.mk (cloneRepr cfg s hd).2.1 t).repr = .heap o pb off len →
      ∃ x, getI (cloneRepr cfg s hd).1 o = some x ∧ x.live = true := cloneRepr_live hok
  have f1 := frame_makeUnique (cfg := cfg) hl0
  have f2 := frame_writeView f (makeUnique_live (cfg := cfg) hl0)
  have f3 := (f0.trans f1).trans f2
  simp only [List.nil_append] at f3
  refine stepEff_write f3 (by simp) ?_
  intro o ho hlt
  exfalso
  cases hr1 : (makeUnique cfg (cloneRepr cfg s hd).1 { repr := (cloneRepr cfg s hd).2.1, tainted := t }).2.1 with
  | inline bs => rw [hr1] at ho; cases ho
  | borrowed a b c => rw [hr1] at ho; cases ho
  | heap o' pb off len =>
    rw [hr1] at ho
    simp only [ownerOf, List.mem_singleton] at ho; subst ho
    have hlen : s.inners.length ≤ (cloneRepr cfg s hd).1.inners.length := by
      unfold cloneRepr
      cases hd.repr with
      | inline bs => exact Nat.le_refl _
      | borrowed a b c => exact Nat.le_refl _
      | heap o2 pb2 off2 len2 =>
        simp only
        cases hi : incr cfg s o2 with
        | mk s1 done =>
          cases done with
          | true =>
            simp only [if_true]
            obtain ⟨_, x', _, _, rfl⟩ := incr_true hi
            simp [setI]
          | false =>
            simp only [Bool.false_eq_true, if_false]
            simp [newHeap, boxVec]
    obtain ⟨hu, pb', off', len', hr⟩ := makeUnique_owner o pb off len hr1 (Nat.lt_of_lt_of_le hlt hlen)
    have := cloneRepr_shared hok o pb' off' len' hr hlt
    rw [this] at hu; cases hu

theorem step_eff_toAscii (w : Wf cfg s) (h d : Nat) :
    StepEff cfg s (step cfg s (.toAsciiLower h d)) [h, d] ∧
    StepEff cfg s (step cfg s (.toAsciiUpper h d)) [h, d] := by
  simp only [step]
  cases hg : getH s h with
  | none => exact ⟨stepEff_refl, stepEff_refl⟩
  | some hd =>
    simp only
    constructor
    · split
      · exact stepEff_toAscii w hg d _ _ _ _
      · exact stepEff_refl
    · split
      · exact stepEff_toAscii w hg d _ _ _ _
      · exact stepEff_refl

/-- **every operation**: the frame and the justification of every `freeInner` it emits -/
theorem step_eff (w : Wf cfg s) (op : Op) : StepEff cfg s (step cfg s op) (targets op) := by
  obtain ⟨a1, a2, a3, a4, a5, a6, a7, a8, a9, a10⟩ := step_eff_A1 (cfg := cfg) w
  obtain ⟨b1, b2, b3, b4, b5⟩ := step_eff_A2 (cfg := cfg) w
  cases op with
  | new d => exact a1 d
  | fromSlice d bs => exact a2 d bs
  | fromVec d bs cap => exact step_eff_fromVec d bs cap
  | borrowed d src off len => exact a3 d src off len
  | withCapacity d n => exact a4 d n
  | inline d bs => exact a5 d bs
  | tryInline d bs => exact a6 d bs
  | clone h d => exact a7 h d
  | slice h d sb eb => exact b1 h d sb eb
  | trySlice h d sb eb => exact b2 h d sb eb
  | trySliceRef h d rn rel plen => exact b3 h d rn rel plen
  | sliceRef h d rn rel plen => exact b4 h d rn rel plen
  | adopt h d off len => exact b5 h d off len
  | pushSlice h bs => exact step_eff_pushSlice w h bs
  | pop h => exact (step_eff_trunc w h 0).2.2
  | truncate h n => exact (step_eff_trunc w h n).1
  | clear h => exact (step_eff_trunc w h 0).2.1
  | shrinkTo h n => exact (step_eff_shrink w h n).1
  | shrinkToFit h => exact (step_eff_shrink w h 0).2
  | asMutWrite h i b => exact step_eff_asMutWrite w h i b
  | toMutWrite h i b => exact (step_eff_mutWrites w h i b).1
  | makeAsciiLower h => exact (step_eff_mutWrites w h 0 0).2.1
  | makeAsciiUpper h => exact (step_eff_mutWrites w h 0 0).2.2
  | toAsciiLower h d => exact (step_eff_toAscii w h d).1
  | toAsciiUpper h d => exact (step_eff_toAscii w h d).2
  | mutate h sc => exact (step_eff_mutate w h sc).1
  | mutateLeak h sc => exact (step_eff_mutate w h sc).2
  | intoOwned h d => exact a8 h d
  | intoVec h => exact (step_eff_intoVec w h).1
  | toVec h => exact (step_eff_intoVec w h).2
  | intoBorrowed h => exact a9 h
  | «repeat» h d n => exact a10 h d n
  | spareCapacity h => exact step_eff_spareCapacity w h
  | drop h => exact step_eff_drop w h

end HipVerif.Core
