/-
An audit calculus for the allocator-visible events of the Core state machine: every `freeBuf`
names a buffer no live box uses any more, every `write` stays within the capacity of the buffer it
writes.  Used by `CoreExtraB.lean` (C03 facts).
-/
import HipVerif.Lemmas.CoreFrameB2

namespace HipVerif.Core
open HipVerif.Spec.Std

/-! ### buffer invariants of a (possibly intermediate) state -/

structure BufInv (S : State) : Prop where
  fresh : ∀ i x, getI S i = some x → x.buf < S.nextBuf
  distinct : ∀ i j x y, getI S i = some x → getI S j = some y → i ≠ j →
    x.live = true → y.live = true → x.buf ≠ y.buf
  datacap : ∀ i x, getI S i = some x → x.live = true → x.data.length ≤ x.cap

theorem bufInv_of_wfx {cfg : Cfg} {S : State} {ex : List Nat} (w : WfX cfg S ex) : BufInv S :=
  ⟨w.bufFresh, w.bufDistinct, w.datacap⟩

theorem bufInv_of_wf {cfg : Cfg} {S : State} (w : Wf cfg S) : BufInv S :=
  ⟨w.bufFresh, w.bufDistinct, w.datacap⟩

/-! ### when is an event justified in a state -/

/-- `freeBuf b`: no live box uses `b`; `write b lo hi`: a well-formed range inside the capacity of
whatever live box owns `b`.  Both only name buffers that already exist. -/
def EvOk (S : State) : Event → Prop
  | .freeBuf b => b < S.nextBuf ∧ ∀ j y, getI S j = some y → y.live = true → y.buf ≠ b
  | .write b lo hi => b < S.nextBuf ∧ lo ≤ hi ∧
      ∀ j y, getI S j = some y → y.live = true → y.buf = b → hi ≤ y.cap
  | _ => True

def AllEvOk (S : State) (ev : List Event) : Prop := ∀ e, e ∈ ev → EvOk S e

theorem allEvOk_nil (S : State) : AllEvOk S [] := fun _ h => by cases h

theorem allEvOk_append {S : State} {a b : List Event} (ha : AllEvOk S a) (hb : AllEvOk S b) :
    AllEvOk S (a ++ b) := by
  intro e he
  rcases List.mem_append.mp he with h | h
  · exact ha e h
  · exact hb e h

/-- `BufLe S1 S2`: every live box of `S2` either was a live box of `S1` with the same buffer and
capacity, or uses a buffer that did not exist in `S1`. -/
def BufLe (S1 S2 : State) : Prop :=
  S1.nextBuf ≤ S2.nextBuf ∧ ∀ j y, getI S2 j = some y → y.live = true →
    (∃ x, getI S1 j = some x ∧ x.live = true ∧ x.buf = y.buf ∧ x.cap = y.cap) ∨ S1.nextBuf ≤ y.buf

theorem BufLe.refl (S : State) : BufLe S S :=
  ⟨Nat.le_refl _, fun _ y hy hl => Or.inl ⟨y, hy, hl, rfl, rfl⟩⟩

theorem BufLe.trans {S1 S2 S3 : State} (a : BufLe S1 S2) (b : BufLe S2 S3) : BufLe S1 S3 := by
  refine ⟨Nat.le_trans a.1 b.1, ?_⟩
  intro j z hz hl
  rcases b.2 j z hz hl with ⟨y, hy, hyl, hb, hc⟩ | hf
  · rcases a.2 j y hy hyl with ⟨x, hx, hxl, hb', hc'⟩ | hf
    · exact Or.inl ⟨x, hx, hxl, hb'.trans hb, hc'.trans hc⟩
    · right; omega
  · right; have := a.1; omega

theorem bufLe_of_getI {S1 S2 : State} (h : ∀ i, getI S2 i = getI S1 i) (hn : S1.nextBuf ≤ S2.nextBuf) :
    BufLe S1 S2 :=
  ⟨hn, fun j y hy hl => Or.inl ⟨y, by rw [← h]; exact hy, hl, rfl, rfl⟩⟩

theorem EvOk.mono {S1 S2 : State} (h : BufLe S1 S2) {e : Event} (he : EvOk S1 e) : EvOk S2 e := by
  cases e with
  | freeBuf b =>
    obtain ⟨hb, hne⟩ := he
    refine ⟨Nat.lt_of_lt_of_le hb h.1, ?_⟩
    intro j y hy hl
    rcases h.2 j y hy hl with ⟨x, hx, hxl, hbx, _⟩ | hf
    · rw [← hbx]; exact hne j x hx hxl
    · omega
  | write b lo hi =>
    obtain ⟨hb, hlh, hcap⟩ := he
    refine ⟨Nat.lt_of_lt_of_le hb h.1, hlh, ?_⟩
    intro j y hy hl hyb
    rcases h.2 j y hy hl with ⟨x, hx, hxl, hbx, hcx⟩ | hf
    · rw [← hcx]; exact hcap j x hx hxl (hbx.trans hyb)
    · omega
  | _ => trivial

theorem AllEvOk.mono {S1 S2 : State} (h : BufLe S1 S2) {ev : List Event} (he : AllEvOk S1 ev) :
    AllEvOk S2 ev := fun e hm => (he e hm).mono h

/-! ### primitives -/

theorem bufLe_append (S : State) (x : Inner) (hb : S.nextBuf ≤ x.buf) (n : Nat) (hn : S.nextBuf ≤ n) :
    BufLe S { S with inners := S.inners ++ [x], nextBuf := n } := by
  refine ⟨hn, ?_⟩
  intro j y hy hl
  rcases getI_append_cases S x j y hy with ⟨_, hy'⟩ | ⟨_, rfl⟩
  · exact Or.inl ⟨y, hy', hl, rfl, rfl⟩
  · exact Or.inr hb

theorem bufLe_newHeap (S : State) (data : List UInt8) (cap : Nat) : BufLe S (newHeap S data cap).1 :=
  bufLe_append S _ (Nat.le_refl _) _ (Nat.le_succ _)

theorem bufLe_release (cfg : Cfg) (S : State) (o : Nat) : BufLe S (release cfg S o).1 := by
  refine ⟨by rw [release_nextBuf]; exact Nat.le_refl _, ?_⟩
  intro j y hy hl
  left
  by_cases hj : o = j
  · subst hj
    unfold release at hy
    cases hx : getI S o with
    | none => rw [hx] at hy; exact ⟨y, by rw [← hx]; exact hy, hl, rfl, rfl⟩
    | some x =>
      rw [hx] at hy
      simp only at hy
      have hlt := getI_some_lt hx
      split at hy
      · rw [getI_setI_same _ _ _ hlt] at hy; cases hy; cases hl
      · rw [getI_setI_same _ _ _ hlt] at hy; cases hy
        exact ⟨x, rfl, hl, rfl, rfl⟩
  · rw [release_getI_other _ _ _ _ hj] at hy
    exact ⟨y, hy, hl, rfl, rfl⟩

theorem bufLe_setI_same {S : State} {o : Nat} {x x' : Inner} (hx : getI S o = some x)
    (hl : x'.live = true → x.live = true) (hb : x'.buf = x.buf) (hc : x'.cap = x.cap) :
    BufLe S (setI S o x') := by
  refine ⟨Nat.le_refl _, ?_⟩
  intro j y hy hyl
  left
  by_cases hj : o = j
  · subst hj
    rw [getI_setI_same _ _ _ (getI_some_lt hx)] at hy; cases hy
    exact ⟨x, hx, hl hyl, hb.symm, hc.symm⟩
  · rw [getI_setI_other _ _ _ _ hj] at hy
    exact ⟨y, hy, hyl, rfl, rfl⟩

theorem bufLe_setI_fresh {S : State} {o : Nat} {x' : Inner} (hb : S.nextBuf ≤ x'.buf) (n : Nat)
    (hn : S.nextBuf ≤ n) : BufLe S (setI { S with nextBuf := n } o x') := by
  refine ⟨hn, ?_⟩
  intro j y hy hyl
  by_cases hj : o = j
  · subst hj
    by_cases hlt : o < S.inners.length
    · rw [getI_setI_same { S with nextBuf := n } o x' hlt] at hy; cases hy
      exact Or.inr hb
    · have : getI (setI { S with nextBuf := n } o x') o = none := by
        unfold getI setI
        simp; omega
      rw [this] at hy; cases hy
  · rw [getI_setI_other _ _ _ _ hj] at hy
    exact Or.inl ⟨y, hy, hyl, rfl, rfl⟩

theorem bufLe_incr {cfg : Cfg} {S S1 : State} {o : Nat} {b : Bool} (hi : incr cfg S o = (S1, b)) :
    BufLe S S1 := by
  cases b with
  | false => rw [incr_false hi]; exact BufLe.refl S
  | true =>
    obtain ⟨_, x, hx, _, rfl⟩ := incr_true hi
    exact bufLe_setI_same hx (fun h => h) rfl rfl

theorem allEvOk_newHeap {S : State} (hI : BufInv S) (data : List UInt8) (cap : Nat)
    (hc : data.length ≤ cap) : AllEvOk (newHeap S data cap).1 (newHeap S data cap).2.2 := by
  intro e he
  simp only [newHeap, boxVec, List.mem_append] at he
  rcases he with (he | he) | he
  · split at he
    · simp only [List.mem_singleton] at he; subst he; trivial
    · cases he
  · simp only [List.mem_singleton] at he; subst he; trivial
  · split at he
    · simp only [List.mem_singleton] at he; subst he
      refine ⟨Nat.lt_succ_self _, Nat.zero_le _, ?_⟩
      intro j y hy _ hyb
      rcases getI_append_cases { S with nextBuf := S.nextBuf + 1 } _ j y hy with ⟨_, hy'⟩ | ⟨_, rfl⟩
      · have := hI.fresh j y hy'; omega
      · exact hc
    · cases he

theorem allEvOk_release {cfg : Cfg} {S : State} (hI : BufInv S) (o : Nat)
    (hlive : ∀ x, getI S o = some x → x.live = true) :
    AllEvOk (release cfg S o).1 (release cfg S o).2 := by
  unfold release
  cases hx : getI S o with
  | none => exact allEvOk_nil _
  | some x =>
    simp only
    have hlt := getI_some_lt hx
    split
    · intro e he
      simp only [List.mem_append, List.mem_singleton] at he
      rcases he with he | he
      · split at he
        · simp only [List.mem_singleton] at he; subst he
          refine ⟨hI.fresh o x hx, ?_⟩
          intro j y hy hyl
          by_cases hj : o = j
          · subst hj; rw [getI_setI_same _ _ _ hlt] at hy; cases hy; cases hyl
          · rw [getI_setI_other _ _ _ _ hj] at hy
            exact hI.distinct j o y x hy hx (fun e => hj e.symm) hyl (hlive x hx)
        · cases he
      · subst he; trivial
    · exact allEvOk_nil _

theorem bufInv_newHeap {S : State} (hI : BufInv S) (data : List UInt8) (cap : Nat) (hc : data.length ≤ cap) :
    BufInv (newHeap S data cap).1 := by
  have hcases := getI_append_cases { S with nextBuf := S.nextBuf + 1 }
    { count := 0, data := data, cap := cap, buf := S.nextBuf, live := true }
  refine ⟨?_, ?_, ?_⟩
  · intro i x hx
    show x.buf < S.nextBuf + 1
    rcases hcases i x hx with ⟨_, hx'⟩ | ⟨_, rfl⟩
    · have := hI.fresh i x hx'; omega
    · exact Nat.lt_succ_self _
  · intro i j x y hx hy hij hxl hyl
    rcases hcases i x hx with ⟨_, hx'⟩ | ⟨hi, rfl⟩
    · rcases hcases j y hy with ⟨_, hy'⟩ | ⟨hj, rfl⟩
      · exact hI.distinct i j x y hx' hy' hij hxl hyl
      · have := hI.fresh i x hx'; simp only; omega
    · rcases hcases j y hy with ⟨_, hy'⟩ | ⟨hj, rfl⟩
      · have := hI.fresh j y hy'; simp only; omega
      · exact absurd (hi.trans hj.symm) hij
  · intro i x hx hxl
    rcases hcases i x hx with ⟨_, hx'⟩ | ⟨_, rfl⟩
    · exact hI.datacap i x hx' hxl
    · exact hc

/-! ### audits: the events of a transition are justified in its final state -/

def Audit (s S : State) (ev : List Event) : Prop := BufLe s S ∧ AllEvOk S ev

theorem audit_refl (s : State) : Audit s s [] := ⟨BufLe.refl s, allEvOk_nil s⟩

theorem Audit.trans {s S1 S2 : State} {ev1 ev2 : List Event} (a : Audit s S1 ev1) (b : Audit S1 S2 ev2) :
    Audit s S2 (ev1 ++ ev2) :=
  ⟨a.1.trans b.1, allEvOk_append (a.2.mono b.1) b.2⟩

theorem audit_bump (s : State) (n : Nat) (hn : s.nextBuf ≤ n) : Audit s { s with nextBuf := n } [] :=
  ⟨bufLe_of_getI (fun _ => rfl) hn, allEvOk_nil _⟩

theorem audit_newHeap {S : State} (hI : BufInv S) (data : List UInt8) (cap : Nat) (hc : data.length ≤ cap) :
    Audit S (newHeap S data cap).1 (newHeap S data cap).2.2 :=
  ⟨bufLe_newHeap S data cap, allEvOk_newHeap hI data cap hc⟩

theorem audit_release {cfg : Cfg} {S : State} (hI : BufInv S) (o : Nat)
    (hlive : ∀ x, getI S o = some x → x.live = true) :
    Audit S (release cfg S o).1 (release cfg S o).2 :=
  ⟨bufLe_release cfg S o, allEvOk_release hI o hlive⟩

theorem audit_dropRepr {cfg : Cfg} {S : State} (hI : BufInv S) {r : Rep}
    (hlive : ∀ o pb off len, r = .heap o pb off len → ∃ x, getI S o = some x ∧ x.live = true) :
    Audit S (dropRepr cfg S r).1 (dropRepr cfg S r).2 := by
  cases r with
  | inline bs => exact audit_refl S
  | borrowed a b c => exact audit_refl S
  | heap o pb off len =>
    obtain ⟨x, hx, hl⟩ := hlive o pb off len rfl
    exact audit_release hI o (fun y hy => by rw [hx] at hy; cases hy; exact hl)

theorem audit_newHeap_drop {cfg : Cfg} {S : State} (hI : BufInv S) {r : Rep} (data : List UInt8) (cap : Nat)
    (hc : data.length ≤ cap)
    (hlive : ∀ o pb off len, r = .heap o pb off len → ∃ x, getI S o = some x ∧ x.live = true) :
    Audit S (dropRepr cfg (newHeap S data cap).1 r).1
      ((newHeap S data cap).2.2 ++ (dropRepr cfg (newHeap S data cap).1 r).2) :=
  (audit_newHeap hI data cap hc).trans (audit_dropRepr (bufInv_newHeap hI data cap hc) (by
    intro o pb off len hr
    obtain ⟨x, hx, hl⟩ := hlive o pb off len hr
    exact ⟨x, by rw [getI_newHeap_old _ _ (getI_some_lt hx)]; exact hx, hl⟩))

theorem audit_fromSliceRepr {S : State} (hI : BufInv S) (cfg : Cfg) (bs : List UInt8) :
    Audit S (fromSliceRepr cfg S bs).1 (fromSliceRepr cfg S bs).2.2 := by
  unfold fromSliceRepr
  split
  · exact audit_refl S
  · split
    · exact audit_refl S
    · exact audit_newHeap hI bs bs.length (Nat.le_refl _)

theorem audit_cloneRepr {cfg : Cfg} {S : State} (hI : BufInv S) (hd : Handle) :
    Audit S (cloneRepr cfg S hd).1 (cloneRepr cfg S hd).2.2 := by
  unfold cloneRepr
  cases hd.repr with
  | inline bs => exact audit_refl S
  | borrowed a b c => exact audit_refl S
  | heap o pb off len =>
    simp only
    split
    · exact ⟨bufLe_incr (b := (incr cfg S o).2) rfl, allEvOk_nil _⟩
    · exact audit_newHeap hI _ _ (Nat.le_refl _)

theorem audit_rangeRepr {cfg : Cfg} {S : State} (hI : BufInv S) (hd : Handle) (a b : Nat) :
    Audit S (rangeRepr cfg S hd a b).1 (rangeRepr cfg S hd a b).2.2 := by
  unfold rangeRepr
  cases hd.repr with
  | inline bs => exact audit_refl S
  | borrowed a b c => exact audit_refl S
  | heap o pb off len =>
    simp only
    split
    · exact audit_refl S
    · split
      · exact ⟨bufLe_incr (b := (incr cfg S o).2) rfl, allEvOk_nil _⟩
      · exact audit_newHeap hI _ _ (by simp only [List.length_take]; omega)

theorem audit_writeView {S : State} (hI : BufInv S) {r : Rep} (f : List UInt8 → List UInt8)
    (hr : ∀ o pb off len, r = .heap o pb off len →
      ∃ x, getI S o = some x ∧ x.live = true ∧ off + len ≤ x.data.length) :
    Audit S (writeView S r f).1 (writeView S r f).2.2 := by
  unfold writeView
  cases r with
  | inline bs => exact audit_refl S
  | borrowed a b c => exact audit_refl S
  | heap o pb off len =>
    obtain ⟨x, hx, hl, hrng⟩ := hr o pb off len rfl
    simp only [hx]
    refine ⟨bufLe_setI_same hx (fun _ => hl) rfl rfl, ?_⟩
    intro e he
    split at he
    case isFalse => cases he
    simp only [List.mem_singleton] at he; subst he
    refine ⟨hI.fresh o x hx, Nat.le_add_right _ _, ?_⟩
    intro j y hy hyl hyb
    by_cases hj : o = j
    · subst hj
      rw [getI_setI_same _ _ _ (getI_some_lt hx)] at hy; cases hy
      have := hI.datacap o x hx hl
      simp only; omega
    · rw [getI_setI_other _ _ _ _ hj] at hy
      exact absurd hyb (hI.distinct j o y x hy hx (fun e => hj e.symm) hyl hl)

theorem audit_makeUnique {cfg : Cfg} {S : State} (hI : BufInv S) {hd : Handle}
    (hlive : ∀ o pb off len, hd.repr = .heap o pb off len → ∃ x, getI S o = some x ∧ x.live = true) :
    Audit S (makeUnique cfg S hd).1 (makeUnique cfg S hd).2.2 := by
  unfold makeUnique
  cases hr : hd.repr with
  | inline bs => exact audit_refl S
  | borrowed a b c => exact audit_fromSliceRepr hI cfg _
  | heap o pb off len =>
    simp only
    split
    · exact audit_refl S
    · exact audit_newHeap_drop (r := .heap o pb off len) hI _ _ (Nat.le_refl _)
        (by intro o' pb' off' len' he; cases he; exact hlive o pb off len hr)

end HipVerif.Core
