/-
Per-operation theorems for the constructors, `clone` and `drop` of the Core state machine:
`wf_op_*` (invariant), `ref_op_*` (refinement of `Spec.Std.step`), `srcs_op_*`, `norm_op_*`.
(The slice family is in `CoreOpsA2.lean`, the to-owned / ascii / repeat family in `CoreOpsA3.lean`.)
-/
import HipVerif.Lemmas.CorePrimsA

namespace HipVerif.Core.A
open HipVerif.Spec.Std HipVerif.RangeTy HipVerif.Spec.Range

variable {cfg : Cfg} {s : State}

/-! ### `NormOk` only looks at the pool -/

theorem getH_setH_cases {s : State} {d k : Nat} {v : Option Handle} {hd : Handle}
    (hg : getH (setH s d v) k = some hd) : (d = k ∧ v = some hd) ∨ getH s k = some hd := by
  by_cases he : d = k
  · subst he
    by_cases hl : d < s.pool.length
    · rw [getH_setH_same _ _ _ hl] at hg; exact Or.inl ⟨rfl, hg⟩
    · right
      have : (setH s d v).pool = s.pool := by
        simp only [setH]; exact List.set_eq_of_length_le (Nat.le_of_not_lt hl)
      unfold getH at hg ⊢; rw [this] at hg; exact hg
  · rw [getH_setH_other _ _ _ _ he] at hg; exact Or.inr hg

theorem normOk_pool {s s1 : State} (hn : NormOk cfg s) (hp : s1.pool = s.pool) : NormOk cfg s1 := by
  intro k hd hg; exact hn k hd (by unfold getH at hg ⊢; rw [← hp]; exact hg)

theorem normOk_setH {s : State} (hn : NormOk cfg s) (d : Nat) (v : Option Handle)
    (h : ∀ hd, v = some hd → hd.tainted = false → isNormalized cfg hd = true) :
    NormOk cfg (setH s d v) := by
  intro k hd hg ht
  rcases getH_setH_cases hg with ⟨_, hv⟩ | hg'
  · exact h hd hv ht
  · exact hn k hd hg' ht

theorem normOk_install {s s1 : State} (hn : NormOk cfg s) (hp : s1.pool = s.pool) (d : Nat) (r : Rep) (t : Bool)
    (ret : Ret) (ev : List Event) (h : t = false → isNormalized cfg ⟨r, t⟩ = true) :
    NormOk cfg (install s1 d r t ret ev).1 := by
  unfold install ok
  apply normOk_setH (normOk_pool hn hp)
  intro hd hv ht
  cases hv
  exact h ht

/-! ### shape of the results: `install` and `ok` -/

@[simp] theorem install_srcs (s1 : State) (d : Nat) (r : Rep) (t : Bool) (ret : Ret) (ev : List Event) :
    (install s1 d r t ret ev).1.srcs = s1.srcs := rfl
@[simp] theorem install_ret (s1 : State) (d : Nat) (r : Rep) (t : Bool) (ret : Ret) (ev : List Event) :
    (install s1 d r t ret ev).2.ret = ret := rfl
@[simp] theorem ok_fst (s1 : State) (ret : Ret) (ev : List Event) : (ok s1 ret ev).1 = s1 := rfl
@[simp] theorem ok_ret (s1 : State) (ret : Ret) (ev : List Event) : (ok s1 ret ev).2.ret = ret := rfl

/-! ### `new` -/

theorem step_new (d : Nat) : step cfg s (.new d) =
    if slotFree s d then install s d (.inline []) false .unit [] else ok s .badOp [] := rfl

theorem _root_.HipVerif.Core.wf_op_new (d : Nat) (w : Wf cfg s) : Wf cfg (step cfg s (.new d)).1 := by
  rw [step_new]
  split
  · rename_i hf
    exact ((built_inline w [] (Nat.zero_le _)).installed hf _ _ _).1
  · exact w

theorem _root_.HipVerif.Core.ref_op_new (d : Nat) (w : Wf cfg s) (_ : OpOk s (.new d)) :
    Spec.Std.step cfg.icap s.srcs (abs s) (.new d) (retFlag (step cfg s (.new d)).2.ret) =
      (abs (step cfg s (.new d)).1, eraseRet (step cfg s (.new d)).2.ret) := by
  rw [step_new]
  simp only [Spec.Std.step, sfree_abs]
  split
  · rename_i hf
    rw [((built_inline w [] (Nat.zero_le _)).installed hf _ _ _).2]
    rfl
  · rfl

theorem _root_.HipVerif.Core.srcs_op_new (d : Nat) : (step cfg s (.new d)).1.srcs = s.srcs := by
  rw [step_new]; split <;> rfl

theorem _root_.HipVerif.Core.norm_op_new (d : Nat) (_ : Wf cfg s) (hn : NormOk cfg s) : NormOk cfg (step cfg s (.new d)).1 := by
  rw [step_new]
  split
  · exact normOk_install hn rfl _ _ _ _ _ (fun _ => rfl)
  · exact hn

/-! ### `fromSlice` -/

theorem step_fromSlice (d : Nat) (bs : List UInt8) : step cfg s (.fromSlice d bs) =
    if slotFree s d then
      install (fromSliceRepr cfg s bs).1 d (fromSliceRepr cfg s bs).2.1 false .unit (fromSliceRepr cfg s bs).2.2
    else ok s .badOp [] := rfl

theorem _root_.HipVerif.Core.wf_op_fromSlice (d : Nat) (bs : List UInt8) (w : Wf cfg s) : Wf cfg (step cfg s (.fromSlice d bs)).1 := by
  rw [step_fromSlice]
  split
  · rename_i hf
    exact ((built_fromSlice w bs).installed hf _ _ _).1
  · exact w

theorem _root_.HipVerif.Core.ref_op_fromSlice (d : Nat) (bs : List UInt8) (w : Wf cfg s) (_ : OpOk s (.fromSlice d bs)) :
    Spec.Std.step cfg.icap s.srcs (abs s) (.fromSlice d bs) (retFlag (step cfg s (.fromSlice d bs)).2.ret) =
      (abs (step cfg s (.fromSlice d bs)).1, eraseRet (step cfg s (.fromSlice d bs)).2.ret) := by
  rw [step_fromSlice]
  simp only [Spec.Std.step, sfree_abs]
  split
  · rename_i hf
    rw [((built_fromSlice w bs).installed hf _ _ _).2]
    rfl
  · rfl

theorem _root_.HipVerif.Core.srcs_op_fromSlice (d : Nat) (bs : List UInt8) : (step cfg s (.fromSlice d bs)).1.srcs = s.srcs := by
  rw [step_fromSlice]; split
  · exact fromSliceRepr_srcs ..
  · rfl

theorem _root_.HipVerif.Core.norm_op_fromSlice (d : Nat) (bs : List UInt8) (_ : Wf cfg s) (hn : NormOk cfg s) :
    NormOk cfg (step cfg s (.fromSlice d bs)).1 := by
  rw [step_fromSlice]
  split
  · exact normOk_install hn (fromSliceRepr_pool ..) _ _ _ _ _ (fun _ => norm_fromSlice ..)
  · exact hn

/-! ### `fromVec` -/

theorem step_fromVec (d : Nat) (bs : List UInt8) (cap : Nat) : step cfg s (.fromVec d bs cap) =
    if slotFree s d && decide (bs.length ≤ cap) then
      install (fromVecRepr cfg { s with nextBuf := s.nextBuf + 1 } bs cap s.nextBuf).1 d
        (fromVecRepr cfg { s with nextBuf := s.nextBuf + 1 } bs cap s.nextBuf).2.1 false .unit
        ((if cap > 0 then [Event.importBuf s.nextBuf cap] else []) ++
          (fromVecRepr cfg { s with nextBuf := s.nextBuf + 1 } bs cap s.nextBuf).2.2)
    else ok s .badOp [] := rfl

theorem built_fromVec (w : Wf cfg s) (bs : List UInt8) (cap : Nat) (hc : bs.length ≤ cap) :
    Built cfg s (fromVecRepr cfg { s with nextBuf := s.nextBuf + 1 } bs cap s.nextBuf).1
      (fromVecRepr cfg { s with nextBuf := s.nextBuf + 1 } bs cap s.nextBuf).2.1 bs := by
  unfold fromVecRepr
  split
  · rename_i hi
    exact { pool := rfl, srcs := rfl, views := fun _ _ _ => view_congr rfl (fun _ => rfl), view_new := rfl,
            wf := ⟨wfx_bump ((wf_iff_wfx cfg s).mp w), hi⟩ }
  · exact built_newHeap w bs cap hc

theorem fromVecRepr_srcs (s0 : State) (bs : List UInt8) (cap b : Nat) :
    (fromVecRepr cfg s0 bs cap b).1.srcs = s0.srcs := by
  unfold fromVecRepr; split <;> rfl

theorem fromVecRepr_pool (s0 : State) (bs : List UInt8) (cap b : Nat) :
    (fromVecRepr cfg s0 bs cap b).1.pool = s0.pool := by
  unfold fromVecRepr; split <;> rfl

theorem norm_fromVec (s0 : State) (bs : List UInt8) (cap b : Nat) (t : Bool) :
    isNormalized cfg ⟨(fromVecRepr cfg s0 bs cap b).2.1, t⟩ = true := by
  unfold fromVecRepr
  split
  · rfl
  · simp [isNormalized, isInline, isBorrowed, hlen]; omega

theorem _root_.HipVerif.Core.wf_op_fromVec (d : Nat) (bs : List UInt8) (cap : Nat) (w : Wf cfg s) :
    Wf cfg (step cfg s (.fromVec d bs cap)).1 := by
  rw [step_fromVec]
  split
  · rename_i hf
    simp only [Bool.and_eq_true, decide_eq_true_eq] at hf
    exact ((built_fromVec w bs cap hf.2).installed hf.1 _ _ _).1
  · exact w

theorem _root_.HipVerif.Core.ref_op_fromVec (d : Nat) (bs : List UInt8) (cap : Nat) (w : Wf cfg s) (_ : OpOk s (.fromVec d bs cap)) :
    Spec.Std.step cfg.icap s.srcs (abs s) (.fromVec d bs cap) (retFlag (step cfg s (.fromVec d bs cap)).2.ret) =
      (abs (step cfg s (.fromVec d bs cap)).1, eraseRet (step cfg s (.fromVec d bs cap)).2.ret) := by
  rw [step_fromVec]
  simp only [Spec.Std.step, sfree_abs]
  split
  · rename_i hf
    simp only [Bool.and_eq_true, decide_eq_true_eq] at hf
    rw [((built_fromVec w bs cap hf.2).installed hf.1 _ _ _).2]
    rfl
  · rfl

theorem _root_.HipVerif.Core.srcs_op_fromVec (d : Nat) (bs : List UInt8) (cap : Nat) : (step cfg s (.fromVec d bs cap)).1.srcs = s.srcs := by
  rw [step_fromVec]; split
  · exact fromVecRepr_srcs ..
  · rfl

theorem _root_.HipVerif.Core.norm_op_fromVec (d : Nat) (bs : List UInt8) (cap : Nat) (_ : Wf cfg s) (hn : NormOk cfg s) :
    NormOk cfg (step cfg s (.fromVec d bs cap)).1 := by
  rw [step_fromVec]
  split
  · exact normOk_install hn (fromVecRepr_pool (cfg := cfg) { s with nextBuf := s.nextBuf + 1 } bs cap s.nextBuf) _ _ _ _ _
      (fun _ => norm_fromVec ..)
  · exact hn

/-! ### `borrowed` -/

theorem step_borrowed (d src off len : Nat) : step cfg s (.borrowed d src off len) =
    if slotFree s d && decide (off + len ≤ (s.srcs[src]?.getD []).length) && decide (src < s.srcs.length) then
      install s d (.borrowed src off len) false .unit []
    else ok s .badOp [] := rfl

theorem _root_.HipVerif.Core.wf_op_borrowed (d src off len : Nat) (w : Wf cfg s) : Wf cfg (step cfg s (.borrowed d src off len)).1 := by
  rw [step_borrowed]
  split
  · rename_i hf
    simp only [Bool.and_eq_true, decide_eq_true_eq] at hf
    exact ((built_borrowed w src off len hf.1.2).installed hf.1.1 _ _ _).1
  · exact w

theorem _root_.HipVerif.Core.ref_op_borrowed (d src off len : Nat) (w : Wf cfg s) (_ : OpOk s (.borrowed d src off len)) :
    Spec.Std.step cfg.icap s.srcs (abs s) (.borrowed d src off len)
        (retFlag (step cfg s (.borrowed d src off len)).2.ret) =
      (abs (step cfg s (.borrowed d src off len)).1, eraseRet (step cfg s (.borrowed d src off len)).2.ret) := by
  rw [step_borrowed]
  simp only [Spec.Std.step, sfree_abs]
  split
  · rename_i hf
    simp only [Bool.and_eq_true, decide_eq_true_eq] at hf
    rw [((built_borrowed w src off len hf.1.2).installed hf.1.1 _ _ _).2]
    rfl
  · rfl

theorem _root_.HipVerif.Core.srcs_op_borrowed (d src off len : Nat) : (step cfg s (.borrowed d src off len)).1.srcs = s.srcs := by
  rw [step_borrowed]; split <;> rfl

theorem _root_.HipVerif.Core.norm_op_borrowed (d src off len : Nat) (_ : Wf cfg s) (hn : NormOk cfg s) :
    NormOk cfg (step cfg s (.borrowed d src off len)).1 := by
  rw [step_borrowed]
  split
  · exact normOk_install hn rfl _ _ _ _ _ (fun _ => rfl)
  · exact hn

/-! ### `withCapacity` -/

theorem step_withCapacity (d n : Nat) : step cfg s (.withCapacity d n) =
    if slotFree s d then
      if n ≤ cfg.icap then install s d (.inline []) false .unit []
      else install (newHeap s [] n).1 d (newHeap s [] n).2.1 true .unit (newHeap s [] n).2.2
    else ok s .badOp [] := rfl

theorem _root_.HipVerif.Core.wf_op_withCapacity (d n : Nat) (w : Wf cfg s) : Wf cfg (step cfg s (.withCapacity d n)).1 := by
  rw [step_withCapacity]
  split
  · rename_i hf
    split
    · exact ((built_inline w [] (Nat.zero_le _)).installed hf _ _ _).1
    · exact ((built_newHeap w [] n (Nat.zero_le _)).installed hf _ _ _).1
  · exact w

theorem _root_.HipVerif.Core.ref_op_withCapacity (d n : Nat) (w : Wf cfg s) (_ : OpOk s (.withCapacity d n)) :
    Spec.Std.step cfg.icap s.srcs (abs s) (.withCapacity d n) (retFlag (step cfg s (.withCapacity d n)).2.ret) =
      (abs (step cfg s (.withCapacity d n)).1, eraseRet (step cfg s (.withCapacity d n)).2.ret) := by
  rw [step_withCapacity]
  simp only [Spec.Std.step, sfree_abs]
  split
  · rename_i hf
    split
    · rw [((built_inline w [] (Nat.zero_le _)).installed hf _ _ _).2]; rfl
    · rw [((built_newHeap w [] n (Nat.zero_le _)).installed hf _ _ _).2]; rfl
  · rfl

theorem _root_.HipVerif.Core.srcs_op_withCapacity (d n : Nat) : (step cfg s (.withCapacity d n)).1.srcs = s.srcs := by
  rw [step_withCapacity]; split
  · split <;> rfl
  · rfl

theorem _root_.HipVerif.Core.norm_op_withCapacity (d n : Nat) (_ : Wf cfg s) (hn : NormOk cfg s) :
    NormOk cfg (step cfg s (.withCapacity d n)).1 := by
  rw [step_withCapacity]
  split
  · split
    · exact normOk_install hn rfl _ _ _ _ _ (fun _ => rfl)
    · exact normOk_install hn (s1 := (newHeap s [] n).1) rfl d (newHeap s [] n).2.1 true .unit (newHeap s [] n).2.2
        (fun h => by cases h)
  · exact hn

/-! ### `inline`, `tryInline` -/

theorem step_inline (d : Nat) (bs : List UInt8) : step cfg s (.inline d bs) =
    if slotFree s d then
      if bs.length ≤ cfg.icap then install s d (.inline bs) false .unit [] else ok s .panic []
    else ok s .badOp [] := rfl

theorem _root_.HipVerif.Core.wf_op_inline (d : Nat) (bs : List UInt8) (w : Wf cfg s) : Wf cfg (step cfg s (.inline d bs)).1 := by
  rw [step_inline]
  split
  · rename_i hf
    split
    · rename_i hi; exact ((built_inline w bs hi).installed hf _ _ _).1
    · exact w
  · exact w

theorem _root_.HipVerif.Core.ref_op_inline (d : Nat) (bs : List UInt8) (w : Wf cfg s) (_ : OpOk s (.inline d bs)) :
    Spec.Std.step cfg.icap s.srcs (abs s) (.inline d bs) (retFlag (step cfg s (.inline d bs)).2.ret) =
      (abs (step cfg s (.inline d bs)).1, eraseRet (step cfg s (.inline d bs)).2.ret) := by
  rw [step_inline]
  simp only [Spec.Std.step, sfree_abs]
  split
  · rename_i hf
    split
    · rename_i hi; rw [((built_inline w bs hi).installed hf _ _ _).2]; rfl
    · rfl
  · rfl

theorem _root_.HipVerif.Core.srcs_op_inline (d : Nat) (bs : List UInt8) : (step cfg s (.inline d bs)).1.srcs = s.srcs := by
  rw [step_inline]; split
  · split <;> rfl
  · rfl

theorem _root_.HipVerif.Core.norm_op_inline (d : Nat) (bs : List UInt8) (_ : Wf cfg s) (hn : NormOk cfg s) :
    NormOk cfg (step cfg s (.inline d bs)).1 := by
  rw [step_inline]
  split
  · split
    · exact normOk_install hn rfl _ _ _ _ _ (fun _ => rfl)
    · exact hn
  · exact hn

theorem step_tryInline (d : Nat) (bs : List UInt8) : step cfg s (.tryInline d bs) =
    if slotFree s d then
      if bs.length ≤ cfg.icap then install s d (.inline bs) false (.bool true) [] else ok s (.bool false) []
    else ok s .badOp [] := rfl

theorem _root_.HipVerif.Core.wf_op_tryInline (d : Nat) (bs : List UInt8) (w : Wf cfg s) : Wf cfg (step cfg s (.tryInline d bs)).1 := by
  rw [step_tryInline]
  split
  · rename_i hf
    split
    · rename_i hi; exact ((built_inline w bs hi).installed hf _ _ _).1
    · exact w
  · exact w

theorem _root_.HipVerif.Core.ref_op_tryInline (d : Nat) (bs : List UInt8) (w : Wf cfg s) (_ : OpOk s (.tryInline d bs)) :
    Spec.Std.step cfg.icap s.srcs (abs s) (.tryInline d bs) (retFlag (step cfg s (.tryInline d bs)).2.ret) =
      (abs (step cfg s (.tryInline d bs)).1, eraseRet (step cfg s (.tryInline d bs)).2.ret) := by
  rw [step_tryInline]
  simp only [Spec.Std.step, sfree_abs]
  split
  · rename_i hf
    split
    · rename_i hi; rw [((built_inline w bs hi).installed hf _ _ _).2]; rfl
    · rfl
  · rfl

theorem _root_.HipVerif.Core.srcs_op_tryInline (d : Nat) (bs : List UInt8) : (step cfg s (.tryInline d bs)).1.srcs = s.srcs := by
  rw [step_tryInline]; split
  · split <;> rfl
  · rfl

theorem _root_.HipVerif.Core.norm_op_tryInline (d : Nat) (bs : List UInt8) (_ : Wf cfg s) (hn : NormOk cfg s) :
    NormOk cfg (step cfg s (.tryInline d bs)).1 := by
  rw [step_tryInline]
  split
  · split
    · exact normOk_install hn rfl _ _ _ _ _ (fun _ => rfl)
    · exact hn
  · exact hn

/-! ### `clone` -/

theorem step_clone (h d : Nat) : step cfg s (.clone h d) =
    match getH s h with
    | some hd =>
      if slotFree s d then
        install (cloneRepr cfg s hd).1 d (cloneRepr cfg s hd).2.1 hd.tainted .unit (cloneRepr cfg s hd).2.2
      else ok s .badOp []
    | none => ok s .badOp [] := rfl

theorem _root_.HipVerif.Core.wf_op_clone (h d : Nat) (w : Wf cfg s) : Wf cfg (step cfg s (.clone h d)).1 := by
  rw [step_clone]
  cases hg : getH s h with
  | none => exact w
  | some hd =>
    simp only
    split
    · rename_i hf
      exact ((built_clone w (w.handles h hd hg)).installed hf _ _ _).1
    · exact w

theorem _root_.HipVerif.Core.ref_op_clone (h d : Nat) (w : Wf cfg s) (_ : OpOk s (.clone h d)) :
    Spec.Std.step cfg.icap s.srcs (abs s) (.clone h d) (retFlag (step cfg s (.clone h d)).2.ret) =
      (abs (step cfg s (.clone h d)).1, eraseRet (step cfg s (.clone h d)).2.ret) := by
  rw [step_clone]
  simp only [Spec.Std.step, sfree_abs, sget_abs]
  cases hg : getH s h with
  | none => rfl
  | some hd =>
    simp only [Option.map_some]
    split
    · rename_i hf
      rw [((built_clone w (w.handles h hd hg)).installed hf _ _ _).2]
      rfl
    · rfl

theorem _root_.HipVerif.Core.srcs_op_clone (h d : Nat) : (step cfg s (.clone h d)).1.srcs = s.srcs := by
  rw [step_clone]
  cases getH s h with
  | none => rfl
  | some hd =>
    simp only; split
    · exact cloneRepr_srcs ..
    · rfl

theorem _root_.HipVerif.Core.norm_op_clone (h d : Nat) (w : Wf cfg s) (hn : NormOk cfg s) : NormOk cfg (step cfg s (.clone h d)).1 := by
  rw [step_clone]
  cases hg : getH s h with
  | none => exact hn
  | some hd =>
    simp only; split
    · exact normOk_install hn (cloneRepr_pool ..) _ _ _ _ _
        (fun ht => by rw [norm_clone (w.handles h hd hg)]; exact hn h hd hg ht)
    · exact hn

/-! ### `drop` -/

theorem step_drop (h : Nat) : step cfg s (.drop h) =
    match getH s h with
    | some hd => ok (setH (dropRepr cfg s hd.repr).1 h none) .unit (dropRepr cfg s hd.repr).2
    | none => ok s .badOp [] := rfl

theorem dropRepr_srcs (s : State) (r : Rep) : (dropRepr cfg s r).1.srcs = s.srcs := by
  unfold dropRepr; cases r <;> first | rfl | exact release_srcs ..

theorem dropRepr_pool (s : State) (r : Rep) : (dropRepr cfg s r).1.pool = s.pool := by
  unfold dropRepr; cases r <;> first | rfl | exact release_pool ..

theorem view_dropRepr (s : State) (r : Rep) (hd : Handle) : view (dropRepr cfg s r).1 hd = view s hd := by
  unfold dropRepr; cases r <;> first | rfl | exact view_release ..

theorem _root_.HipVerif.Core.wf_op_drop (h : Nat) (w : Wf cfg s) : Wf cfg (step cfg s (.drop h)).1 := by
  rw [step_drop]
  cases hg : getH s h with
  | none => exact w
  | some hd => exact wf_drop w hg

theorem _root_.HipVerif.Core.ref_op_drop (h : Nat) (_ : Wf cfg s) (_ : OpOk s (.drop h)) :
    Spec.Std.step cfg.icap s.srcs (abs s) (.drop h) (retFlag (step cfg s (.drop h)).2.ret) =
      (abs (step cfg s (.drop h)).1, eraseRet (step cfg s (.drop h)).2.ret) := by
  rw [step_drop]
  simp only [Spec.Std.step, sget_abs]
  cases hg : getH s h with
  | none => rfl
  | some hd =>
    simp only [Option.map_some, ok_fst, ok_ret, abs_setH, Option.map_none]
    rw [abs_congr (dropRepr_pool s hd.repr) (fun k hd' _ => view_dropRepr s hd.repr hd')]
    rfl

theorem _root_.HipVerif.Core.srcs_op_drop (h : Nat) : (step cfg s (.drop h)).1.srcs = s.srcs := by
  rw [step_drop]
  cases getH s h with
  | none => rfl
  | some hd => exact dropRepr_srcs ..

theorem _root_.HipVerif.Core.norm_op_drop (h : Nat) (_ : Wf cfg s) (hn : NormOk cfg s) : NormOk cfg (step cfg s (.drop h)).1 := by
  rw [step_drop]
  cases getH s h with
  | none => exact hn
  | some hd =>
    exact normOk_setH (normOk_pool hn (dropRepr_pool s hd.repr)) _ _ (fun _ hv => by cases hv)

end HipVerif.Core.A
